/- Helper lemmas for C03: frame lemmas for the traversal model's operations. -/
import DhtVerif.Model.Traversal
import DhtVerif.Lemmas.C18
namespace Dht

/-! ### Induction over `exec` -/

theorem Trav.exec_inv {c : TravCfg} (P : Trav → Prop)
    (hstep : ∀ s e s', P s → s.step c e = some s' → P s') :
    ∀ (evs : List TravEv) (s s' : Trav), P s → Trav.exec c s evs = some s' → P s' := by
  intro evs
  induction evs with
  | nil =>
    intro s s' hp h
    simp only [Trav.exec, Option.some.injEq] at h
    subst h; exact hp
  | cons e es ih =>
    intro s s' hp h
    simp only [Trav.exec] at h
    cases hs : s.step c e with
    | none => simp [hs] at h
    | some s1 => rw [hs] at h; exact ih s1 s' (hstep s e s1 hp hs) h

/-! ### The sorted set without well-formedness assumptions

`candCompare = .eq` identifies exactly the candidates with the same sort key
(known-ness, distance, address), so replacing one by the other keeps the order. -/

abbrev SSet.pw (t : Id) (xs : List Cand) : Prop := xs.Pairwise (fun a b => closerThan t a b = true)

theorem candCompare_eq_congr (t : Id) (c x y : Cand) (h : candCompare t c x = .eq) :
    closerThan t c y = closerThan t x y := by
  have h1 : closerThan t c x = false := by
    unfold candCompare at h
    cases h' : closerThan t c x <;> simp [h'] at h ⊢
  have h2 : closerThan t x c = false := by
    unfold candCompare at h
    cases h' : closerThan t x c <;> simp [h1, h'] at h ⊢
  have haddr : ∀ (_ : c.addr.cmp x.addr ≠ .lt) (_ : x.addr.cmp c.addr ≠ .lt), c.addr = x.addr := by
    intro a b
    apply Classical.byContradiction
    intro hne
    rcases Addr.cmp_total _ _ hne with h | h
    · exact a h
    · exact b h
  cases hc : c.id with
  | none =>
    cases hx : x.id with
    | none =>
      have e1 : ¬ c.addr.cmp x.addr = .lt := by
        intro e; rw [(closerThan_none_none t c x hc hx).mpr e] at h1; cases h1
      have e2 : ¬ x.addr.cmp c.addr = .lt := by
        intro e; rw [(closerThan_none_none t x c hx hc).mpr e] at h2; cases h2
      have := haddr e1 e2
      unfold closerThan
      rw [hc, hx, this]
    | some xi =>
      rw [closerThan_some_none t x c xi hx hc] at h2; cases h2
  | some ci =>
    cases hx : x.id with
    | none =>
      rw [closerThan_some_none t c x ci hc hx] at h1; cases h1
    | some xi =>
      have hd : Id.distance ci t = Id.distance xi t := by
        apply Classical.byContradiction
        intro hne
        rcases Id.cmp_total _ _ hne with e | e
        · rw [(closerThan_some_some t c x ci xi hc hx).mpr (Or.inl e)] at h1; cases h1
        · rw [(closerThan_some_some t x c xi ci hx hc).mpr (Or.inl e)] at h2; cases h2
      have e1 : ¬ c.addr.cmp x.addr = .lt := by
        intro e; rw [(closerThan_some_some t c x ci xi hc hx).mpr (Or.inr ⟨hd, e⟩)] at h1; cases h1
      have e2 : ¬ x.addr.cmp c.addr = .lt := by
        intro e; rw [(closerThan_some_some t x c xi ci hx hc).mpr (Or.inr ⟨hd.symm, e⟩)] at h2; cases h2
      have := haddr e1 e2
      unfold closerThan
      rw [hc, hx, this]
      cases y.id <;> simp only [hd]

theorem SSet.add_pw (t : Id) (xs : List Cand) (c : Cand) (h : SSet.pw t xs) : SSet.pw t (SSet.add t xs c) := by
  induction xs with
  | nil => simp [SSet.add, SSet.pw]
  | cons x xs ih =>
    have hx := List.pairwise_cons.mp h
    unfold SSet.add
    split
    · rename_i hlt
      have hcx := (candCompare_lt t c x).mp hlt
      refine List.pairwise_cons.mpr ⟨?_, h⟩
      intro y hy
      rcases List.mem_cons.mp hy with rfl | hy
      · exact hcx
      · exact closerThan_trans t c x y hcx (hx.1 y hy)
    · rename_i heq
      refine List.pairwise_cons.mpr ⟨?_, hx.2⟩
      intro y hy
      rw [candCompare_eq_congr t c x y heq]
      exact hx.1 y hy
    · rename_i hgt
      have hxc := candCompare_gt t c x hgt
      refine List.pairwise_cons.mpr ⟨?_, ih hx.2⟩
      intro y hy
      rcases SSet.mem_add_imp t xs c y hy with rfl | hy
      · exact hxc
      · exact hx.1 y hy

theorem SSet.delete_head (t : Id) (a : Cand) (rest : List Cand) : SSet.delete t (a :: rest) a = rest := by
  simp [SSet.delete, candCompare_self]

/-! ### `addNode` / `addNodes` -/

/-- Everything `AddNodes` may do to a state: only the frontier and the generation
change; the generation never decreases and stays the same only if nothing changed. -/
structure Trav.AddsTo (c : TravCfg) (ns : List Cand) (s s' : Trav) : Prop where
  queried : s'.queried = s.queried
  closest : s'.closest = s.closest
  outstanding : s'.outstanding = s.outstanding
  inflight : s'.inflight = s.inflight
  run : s'.run = s.run
  stopping : s'.stopping = s.stopping
  stopper : s'.stopper = s.stopper
  started : s'.started = s.started
  gen_le : s.gen ≤ s'.gen
  same : s'.gen = s.gen → s'.unq = s.unq
  sorted : SSet.pw c.target s.unq → SSet.pw c.target s'.unq
  mem : ∀ x ∈ s'.unq, x ∈ ns ∨ x ∈ s.unq

theorem Trav.addNode_cases (c : TravCfg) (s : Trav) (n : Cand) :
    s.addNode c n = s ∨ s.addNode c n = { s with unq := SSet.add c.target s.unq n, gen := s.gen + 1 } := by
  unfold Trav.addNode
  split
  · left; rfl
  · split
    · left; rfl
    · right; rfl

theorem Trav.AddsTo.refl (c : TravCfg) (s : Trav) : Trav.AddsTo c [] s s :=
  ⟨rfl, rfl, rfl, rfl, rfl, rfl, rfl, rfl, Nat.le_refl _, fun _ => rfl, id, fun _ h => Or.inr h⟩

theorem Trav.addNode_addsTo (c : TravCfg) (s : Trav) (n : Cand) : Trav.AddsTo c [n] s (s.addNode c n) := by
  rcases Trav.addNode_cases c s n with h | h <;> rw [h]
  · exact ⟨rfl, rfl, rfl, rfl, rfl, rfl, rfl, rfl, Nat.le_refl _, fun _ => rfl, id, fun _ h => Or.inr h⟩
  · refine ⟨rfl, rfl, rfl, rfl, rfl, rfl, rfl, rfl, Nat.le_succ _, ?_, ?_, ?_⟩
    · intro e; simp at e
    · exact SSet.add_pw c.target s.unq n
    · intro x hx
      rcases SSet.mem_add_imp c.target s.unq n x hx with rfl | hx
      · left; simp
      · right; exact hx

theorem Trav.AddsTo.trans {c : TravCfg} {ns ms : List Cand} {s s' s'' : Trav}
    (h1 : Trav.AddsTo c ns s s') (h2 : Trav.AddsTo c ms s' s'') : Trav.AddsTo c (ns ++ ms) s s'' := by
  refine ⟨h2.queried.trans h1.queried, h2.closest.trans h1.closest, h2.outstanding.trans h1.outstanding,
    h2.inflight.trans h1.inflight, h2.run.trans h1.run, h2.stopping.trans h1.stopping,
    h2.stopper.trans h1.stopper, h2.started.trans h1.started, Nat.le_trans h1.gen_le h2.gen_le, ?_,
    fun h => h2.sorted (h1.sorted h), ?_⟩
  · intro e
    have a := h1.gen_le
    have b := h2.gen_le
    rw [h2.same (by omega), h1.same (by omega)]
  · intro x hx
    rcases h2.mem x hx with h | h
    · left; exact List.mem_append_right _ h
    · rcases h1.mem x h with h | h
      · left; exact List.mem_append_left _ h
      · right; exact h

theorem Trav.addNodes_addsTo (c : TravCfg) (ns : List Cand) (s : Trav) :
    Trav.AddsTo c ns s (s.addNodes c ns) := by
  induction ns generalizing s with
  | nil => exact Trav.AddsTo.refl c s
  | cons n ns ih =>
    have := (Trav.addNode_addsTo c s n).trans (ih (s.addNode c n))
    simpa [Trav.addNodes] using this

theorem Trav.haveQuery_congr (c : TravCfg) (s s' : Trav) (hu : s'.unq = s.unq) (hc : s'.closest = s.closest) :
    s'.haveQuery c = s.haveQuery c := by
  unfold Trav.haveQuery; rw [hu, hc]

/-! ### Structural invariant -/

structure Trav.Core (c : TravCfg) (s : Trav) : Prop where
  sorted : SSet.pw c.target s.unq
  queriedEq : s.started.map Addr.strKey = s.queried
  nodup : s.queried.Nodup
  inflSub : (s.inflight.map (·.1)).Sublist s.started
  outEq : s.outstanding = s.inflight.length
  runGen : ∀ g o, s.run = .sleeping g o → g ≤ s.gen
  stopGen : ∀ g, s.stopper = .sleeping g → g ≤ s.gen
  stopOut : ∀ g, s.stopper = .sleeping g → s.gen = g → s.outstanding ≠ 0
  stopIff : s.stopper ≠ .none ↔ s.stopping = true

theorem Trav.Core.init (c : TravCfg) : Trav.Core c {} := by
  refine ⟨List.Pairwise.nil, rfl, List.nodup_nil, by simp, rfl, ?_, ?_, ?_, ?_⟩ <;> simp

theorem Trav.Core.started_nodup {c : TravCfg} {s : Trav} (h : Trav.Core c s) : s.started.Nodup := by
  have := h.nodup
  rw [← h.queriedEq] at this
  exact (List.pairwise_map.mp this).imp (fun hne e => hne (by rw [e]))

theorem Trav.Core.inflight_nodup {c : TravCfg} {s : Trav} (h : Trav.Core c s) :
    (s.inflight.map (·.1)).Nodup := h.inflSub.nodup h.started_nodup

/-! ### `startQuery` / `startLoop` -/

theorem Trav.startQuery_cases (c : TravCfg) (s : Trav) :
    (s.unq = [] ∧ s.startQuery c = s) ∨
    ∃ a rest, s.unq = a :: rest ∧
      ((s.queried.contains a.addr.strKey = true ∧ s.startQuery c = { s with unq := rest }) ∨
       (s.queried.contains a.addr.strKey = false ∧
        s.startQuery c = { s with unq := rest, queried := s.queried ++ [a.addr.strKey], outstanding := s.outstanding + 1, inflight := s.inflight ++ [(a.addr, .inDoQuery)], started := s.started ++ [a.addr] })) := by
  unfold Trav.startQuery
  cases hu : s.unq with
  | nil => left; simp
  | cons a rest =>
    right
    refine ⟨a, rest, rfl, ?_⟩
    simp only [SSet.delete_head]
    cases hq : s.queried.contains a.addr.strKey
    · right; simp
    · left; simp

/-- Everything the inner start loop may do. -/
structure Trav.Launch (c : TravCfg) (s s' : Trav) : Prop where
  gen : s'.gen = s.gen
  run : s'.run = s.run
  stopping : s'.stopping = s.stopping
  stopper : s'.stopper = s.stopper
  closest : s'.closest = s.closest
  out_le : s.outstanding ≤ s'.outstanding
  core : Trav.Core c s → Trav.Core c s'
  unqSub : s'.unq.Sublist s.unq
  queriedMem : ∀ k ∈ s'.queried, k ∈ s.queried ∨ ∃ n ∈ s.unq, n.addr.strKey = k
  inflMem : ∀ e ∈ s'.inflight, e ∈ s.inflight ∨ e.2 = .inDoQuery

theorem Trav.Launch.refl (c : TravCfg) (s : Trav) : Trav.Launch c s s :=
  ⟨rfl, rfl, rfl, rfl, rfl, Nat.le_refl _, id, List.Sublist.refl _, fun _ h => Or.inl h, fun _ h => Or.inl h⟩

theorem Trav.Launch.trans {c : TravCfg} {s s' s'' : Trav} (h1 : Trav.Launch c s s') (h2 : Trav.Launch c s' s'') :
    Trav.Launch c s s'' := by
  refine ⟨h2.gen.trans h1.gen, h2.run.trans h1.run, h2.stopping.trans h1.stopping, h2.stopper.trans h1.stopper,
    h2.closest.trans h1.closest, Nat.le_trans h1.out_le h2.out_le, fun h => h2.core (h1.core h),
    h2.unqSub.trans h1.unqSub, ?_, ?_⟩
  · intro k hk
    rcases h2.queriedMem k hk with h | ⟨n, hn, e⟩
    · exact h1.queriedMem k h
    · exact Or.inr ⟨n, h1.unqSub.subset hn, e⟩
  · intro e he
    rcases h2.inflMem e he with h | h
    · exact h1.inflMem e h
    · exact Or.inr h

theorem Trav.startQuery_launch (c : TravCfg) (s : Trav) : Trav.Launch c s (s.startQuery c) := by
  rcases Trav.startQuery_cases c s with ⟨_, h⟩ | ⟨a, rest, hu, ⟨hq, h⟩ | ⟨hq, h⟩⟩ <;> rw [h]
  · exact Trav.Launch.refl c s
  · refine ⟨rfl, rfl, rfl, rfl, rfl, Nat.le_refl _, ?_, ?_, fun _ h => Or.inl h, fun _ h => Or.inl h⟩
    · intro hc
      refine ⟨?_, hc.queriedEq, hc.nodup, hc.inflSub, hc.outEq, hc.runGen, hc.stopGen, hc.stopOut, hc.stopIff⟩
      have := hc.sorted
      rw [hu] at this
      exact (List.pairwise_cons.mp this).2
    · rw [hu]; exact List.sublist_cons_self a rest
  · have hnot : a.addr.strKey ∉ s.queried := by
      intro hm
      have := List.contains_iff_mem.mpr hm
      rw [hq] at this; cases this
    refine ⟨rfl, rfl, rfl, rfl, rfl, Nat.le_succ _, ?_, ?_, ?_, ?_⟩
    · intro hc
      refine ⟨?_, ?_, ?_, ?_, ?_, hc.runGen, hc.stopGen, ?_, hc.stopIff⟩
      · have := hc.sorted
        rw [hu] at this
        exact (List.pairwise_cons.mp this).2
      · simp [hc.queriedEq]
      · show (s.queried ++ [a.addr.strKey]).Nodup
        rw [List.nodup_append]
        refine ⟨hc.nodup, by simp, ?_⟩
        intro x hx y hy
        simp only [List.mem_singleton] at hy
        subst hy
        intro e; subst e; exact hnot hx
      · show ((s.inflight ++ [(a.addr, QPhase.inDoQuery)]).map (·.1)).Sublist (s.started ++ [a.addr])
        rw [List.map_append]
        exact List.Sublist.append hc.inflSub (List.Sublist.refl _)
      · show s.outstanding + 1 = (s.inflight ++ [(a.addr, QPhase.inDoQuery)]).length
        simp [hc.outEq]
      · intro g _ _
        show s.outstanding + 1 ≠ 0
        omega
    · rw [hu]; exact List.sublist_cons_self a rest
    · intro k hk
      show k ∈ s.queried ∨ _
      have hk' : k ∈ s.queried ++ [a.addr.strKey] := hk
      rcases List.mem_append.mp hk' with h | h
      · exact Or.inl h
      · right
        refine ⟨a, by rw [hu]; simp, ?_⟩
        exact (List.mem_singleton.mp h).symm
    · intro e he
      have he' : e ∈ s.inflight ++ [(a.addr, QPhase.inDoQuery)] := he
      rcases List.mem_append.mp he' with h | h
      · exact Or.inl h
      · right
        simp only [List.mem_singleton] at h
        rw [h]

theorem Trav.startLoop_launch (c : TravCfg) (fuel : Nat) (s : Trav) : Trav.Launch c s (Trav.startLoop c fuel s) := by
  induction fuel generalizing s with
  | zero => exact Trav.Launch.refl c s
  | succ fuel ih =>
    unfold Trav.startLoop
    split
    · exact (Trav.startQuery_launch c s).trans (ih _)
    · exact Trav.Launch.refl c s

theorem Trav.haveQuery_nonempty (c : TravCfg) (s : Trav) (h : s.haveQuery c = true) : s.unq ≠ [] := by
  intro e
  unfold Trav.haveQuery at h
  rw [e] at h
  cases h

theorem Trav.startQuery_unq (c : TravCfg) (s : Trav) : (s.startQuery c).unq = s.unq.tail := by
  rcases Trav.startQuery_cases c s with ⟨hu, h⟩ | ⟨a, rest, hu, ⟨hq, h⟩ | ⟨hq, h⟩⟩ <;> rw [h, hu] <;> rfl

/-- With enough fuel the loop runs until its condition fails. -/
theorem Trav.startLoop_done (c : TravCfg) (fuel : Nat) (s : Trav) (hf : s.unq.length < fuel) :
    ((Trav.startLoop c fuel s).outstanding < c.alpha ∧ (Trav.startLoop c fuel s).haveQuery c = true) → False := by
  induction fuel generalizing s with
  | zero => omega
  | succ fuel ih =>
    unfold Trav.startLoop
    split
    · rename_i hcond
      apply ih
      simp only [Bool.and_eq_true, decide_eq_true_eq] at hcond
      have hne := Trav.haveQuery_nonempty c s hcond.2
      rw [Trav.startQuery_unq]
      cases hu : s.unq with
      | nil => exact absurd hu hne
      | cons a rest =>
        rw [hu] at hf
        simp only [List.length_cons] at hf
        simp only [List.tail_cons]
        omega
    · rename_i hcond
      intro ⟨h1, h2⟩
      apply hcond
      simp [h1, h2]

end Dht
