/- Helper lemmas for the client side of C12 (Model/Getput.lean). -/
import DhtVerif.Model.Getput
namespace Dht.Getput
open Dht.B44

/-- One turn of the `receiveResults` loop on a mutable result. -/
def pick (a v : GetResult) : GetResult := if v.seq ≥ a.seq then v else a

/-! ## `getLoop` on lists without / with an immutable result -/

theorem getLoop_allMutable (rs : List GetResult) (ret : GetResult) (got : Bool)
    (h : ∀ x ∈ rs, x.isMutable = true) :
    getLoop ret got rs = (rs.foldl pick ret, got || !rs.isEmpty) := by
  induction rs generalizing ret got with
  | nil => simp [getLoop]
  | cons v rest ih =>
    have hv : v.isMutable = true := h v List.mem_cons_self
    have hr : ∀ x ∈ rest, x.isMutable = true := fun x hx => h x (List.mem_cons_of_mem _ hx)
    unfold getLoop
    by_cases hge : v.seq ≥ ret.seq
    · simp only [hv, Bool.not_true, Bool.false_eq_true, if_false, hge, if_true]
      rw [ih v true hr]; simp [pick, hge]
    · simp only [hv, Bool.not_true, Bool.false_eq_true, if_false, hge]
      rw [ih ret true hr]; simp [pick, hge]

theorem getLoop_firstImmutable (pre post : List GetResult) (v ret : GetResult) (got : Bool)
    (hpre : ∀ x ∈ pre, x.isMutable = true) (hv : v.isMutable = false) :
    getLoop ret got (pre ++ v :: post) = (v, true) := by
  induction pre generalizing ret got with
  | nil => simp [getLoop, hv]
  | cons w rest ih =>
    have hw : w.isMutable = true := hpre w List.mem_cons_self
    have hr : ∀ x ∈ rest, x.isMutable = true := fun x hx => hpre x (List.mem_cons_of_mem _ hx)
    show getLoop ret got (w :: (rest ++ v :: post)) = (v, true)
    unfold getLoop
    by_cases hge : w.seq ≥ ret.seq
    · simp only [hw, Bool.not_true, Bool.false_eq_true, if_false, hge, if_true]; exact ih w true hr
    · simp only [hw, Bool.not_true, Bool.false_eq_true, if_false, hge]; exact ih ret true hr

/-- Every list is all-mutable or splits at its first immutable element. -/
theorem split_firstImmutable (rs : List GetResult) :
    (∀ x ∈ rs, x.isMutable = true) ∨
    ∃ pre v post, rs = pre ++ v :: post ∧ (∀ x ∈ pre, x.isMutable = true) ∧ v.isMutable = false := by
  induction rs with
  | nil => left; intro x hx; cases hx
  | cons w rest ih =>
    cases hw : w.isMutable with
    | false => right; exact ⟨[], w, rest, rfl, (fun x hx => by cases hx), hw⟩
    | true =>
      rcases ih with hall | ⟨pre, v, post, he, hp, hv⟩
      · left; intro x hx
        rcases List.mem_cons.mp hx with rfl | hx
        · exact hw
        · exact hall x hx
      · right
        refine ⟨w :: pre, v, post, by rw [he]; rfl, ?_, hv⟩
        intro x hx
        rcases List.mem_cons.mp hx with rfl | hx
        · exact hw
        · exact hp x hx

/-! ## the running maximum `foldl pick` -/

theorem pick_ge (rs : List GetResult) (a : GetResult) : a.seq ≤ (rs.foldl pick a).seq := by
  induction rs generalizing a with
  | nil => exact Int.le_refl _
  | cons v rest ih =>
    simp only [List.foldl_cons]
    have := ih (pick a v)
    unfold pick at this ⊢
    split at this <;> split <;> omega

theorem pick_max (rs : List GetResult) (a : GetResult) : ∀ x ∈ rs, x.seq ≤ (rs.foldl pick a).seq := by
  induction rs generalizing a with
  | nil => intro x hx; cases hx
  | cons v rest ih =>
    intro x hx
    simp only [List.foldl_cons]
    rcases List.mem_cons.mp hx with rfl | hx
    · have := pick_ge rest (pick a x)
      unfold pick at this ⊢
      split at this <;> split <;> omega
    · exact ih (pick a v) x hx

theorem pick_mem (rs : List GetResult) (a : GetResult) : rs.foldl pick a = a ∨ rs.foldl pick a ∈ rs := by
  induction rs generalizing a with
  | nil => left; rfl
  | cons v rest ih =>
    simp only [List.foldl_cons]
    rcases ih (pick a v) with h | h
    · rw [h]; unfold pick; split
      · right; exact List.mem_cons_self
      · left; rfl
    · right; exact List.mem_cons_of_mem _ h

/-- If some element reaches the start value, the maximum is an element of the list, everything
after it is strictly smaller (ties: the later one wins), everything before it is not larger. -/
theorem pick_last (rs : List GetResult) (a : GetResult) (h : ∃ x ∈ rs, a.seq ≤ x.seq) :
    ∃ pre post, rs = pre ++ rs.foldl pick a :: post ∧
      (∀ x ∈ pre, x.seq ≤ (rs.foldl pick a).seq) ∧ (∀ x ∈ post, x.seq < (rs.foldl pick a).seq) := by
  induction rs generalizing a with
  | nil => obtain ⟨x, hx, _⟩ := h; cases hx
  | cons v rest ih =>
    simp only [List.foldl_cons]
    by_cases hlater : ∃ x ∈ rest, (pick a v).seq ≤ x.seq
    · obtain ⟨pre, post, he, hpre, hpost⟩ := ih (pick a v) hlater
      refine ⟨v :: pre, post, ?_, ?_, hpost⟩
      · show v :: rest = v :: (pre ++ _ :: post); rw [← he]
      · intro x hx
        rcases List.mem_cons.mp hx with rfl | hx
        · exact pick_max (x :: rest) a x List.mem_cons_self
        · exact hpre x hx
    · -- nothing later reaches `pick a v`: the fold stays there, and it is `v`
      have hsm : ∀ x ∈ rest, x.seq < (pick a v).seq := by
        intro x hx
        have : ¬ (pick a v).seq ≤ x.seq := fun hle => hlater ⟨x, hx, hle⟩
        omega
      have hstay : ∀ (l : List GetResult) (b : GetResult), (∀ x ∈ l, x.seq < b.seq) → l.foldl pick b = b := by
        intro l
        induction l with
        | nil => intro b _; rfl
        | cons w l ihl =>
          intro b hb
          simp only [List.foldl_cons]
          have hw : w.seq < b.seq := hb w List.mem_cons_self
          have : pick b w = b := by unfold pick; split <;> first | omega | rfl
          rw [this]; exact ihl b (fun x hx => hb x (List.mem_cons_of_mem _ hx))
      have hv : pick a v = v := by
        obtain ⟨x, hx, hax⟩ := h
        rcases List.mem_cons.mp hx with rfl | hx
        · unfold pick; split <;> first | rfl | omega
        · have h1 := hsm x hx
          unfold pick at h1 ⊢
          split
          · rfl
          · rename_i hn; rw [if_neg hn] at h1; omega
      rw [hstay rest (pick a v) hsm, hv]
      refine ⟨[], rest, rfl, (fun x hx => by cases hx), ?_⟩
      rw [hv] at hsm; exact hsm

/-! ## `getFold` -/

/-- Sequence numbers are `int64`s: never below the value `Get` starts from. -/
def SeqsInRange (rs : List GetResult) : Prop := ∀ x ∈ rs, x.isMutable = true → minInt64 ≤ x.seq

theorem getFold_nil : getFold [] = none := by
  simp [getFold, getLoop]

theorem getFold_immutable (pre post : List GetResult) (v : GetResult)
    (hpre : ∀ x ∈ pre, x.isMutable = true) (hv : v.isMutable = false) :
    getFold (pre ++ v :: post) = some v := by
  unfold getFold; rw [getLoop_firstImmutable pre post v _ _ hpre hv]; rfl

theorem getFold_allMutable (rs : List GetResult) (hne : rs ≠ []) (h : ∀ x ∈ rs, x.isMutable = true) :
    getFold rs = some (rs.foldl pick initResult) := by
  unfold getFold; rw [getLoop_allMutable rs _ _ h]
  cases rs with
  | nil => exact absurd rfl hne
  | cons v rest => simp

/-- The three cases of what `Get` returns. -/
theorem getFold_cases (rs : List GetResult) (hr : SeqsInRange rs) :
    (rs = [] ∧ getFold rs = none) ∨
    (∃ pre v post, rs = pre ++ v :: post ∧ (∀ x ∈ pre, x.isMutable = true) ∧ v.isMutable = false ∧
        getFold rs = some v) ∨
    (rs ≠ [] ∧ (∀ x ∈ rs, x.isMutable = true) ∧
      ∃ res pre post, getFold rs = some res ∧ rs = pre ++ res :: post ∧
        (∀ x ∈ pre, x.seq ≤ res.seq) ∧ (∀ x ∈ post, x.seq < res.seq)) := by
  rcases split_firstImmutable rs with hall | ⟨pre, v, post, he, hp, hv⟩
  · cases hrs : rs with
    | nil => left; exact ⟨rfl, getFold_nil⟩
    | cons w rest =>
      right; right
      have hne : rs ≠ [] := by rw [hrs]; exact List.cons_ne_nil _ _
      rw [← hrs]
      refine ⟨hne, hall, rs.foldl pick initResult, ?_⟩
      have hw : w ∈ rs := by rw [hrs]; exact List.mem_cons_self
      have hex : ∃ x ∈ rs, initResult.seq ≤ x.seq := ⟨w, hw, hr w hw (hall w hw)⟩
      obtain ⟨pre, post, he, h1, h2⟩ := pick_last rs initResult hex
      exact ⟨pre, post, getFold_allMutable rs hne hall, he, h1, h2⟩
  · right; left
    exact ⟨pre, v, post, he, hp, hv, by rw [he]; exact getFold_immutable pre post v hp hv⟩

theorem getFold_mem (rs : List GetResult) (hr : SeqsInRange rs) (res : GetResult)
    (h : getFold rs = some res) : res ∈ rs := by
  rcases getFold_cases rs hr with ⟨_, hn⟩ | ⟨pre, v, post, he, _, _, hs⟩ | ⟨_, _, r, pre, post, hs, he, _, _⟩
  · rw [hn] at h; cases h
  · rw [hs] at h; cases h; rw [he]; simp
  · rw [hs] at h; cases h; rw [he]; simp

theorem getFold_none_iff (rs : List GetResult) : getFold rs = none ↔ rs = [] := by
  constructor
  · intro h
    cases rs with
    | nil => rfl
    | cons v rest =>
      exfalso
      rcases split_firstImmutable (v :: rest) with hall | ⟨pre, w, post, he, hp, hw⟩
      · rw [getFold_allMutable _ (List.cons_ne_nil _ _) hall] at h; cases h
      · rw [he, getFold_immutable pre post w hp hw] at h; cases h
  · intro h; rw [h]; exact getFold_nil

/-! ## the accept rule -/

theorem accept_some (H : Bytes → Target) (verify : Key → Bytes → Bytes → Bool) (target : Target) (salt : Bytes)
    (r : GetReply) (res : GetResult) (h : accept H verify target salt r = some res) :
    res.v = r.v ∧ res.sig = r.sig ∧
    ((res.isMutable = false ∧ res.seq = 0 ∧ H r.bv = target) ∨
     (res.isMutable = true ∧ r.seq = some res.seq ∧ H r.bv ≠ target ∧ H (r.k ++ salt) = target ∧
        verify r.k (bufferToSign salt res.seq r.bv) r.sig = true)) := by
  unfold accept at h
  split at h
  · rename_i hh; cases h; exact ⟨rfl, rfl, Or.inl ⟨rfl, rfl, hh⟩⟩
  · rename_i hh
    split at h
    · cases h
    · rename_i q hq
      split at h
      · rename_i hc; cases h; exact ⟨rfl, rfl, Or.inr ⟨rfl, hq, hh, hc.1, hc.2⟩⟩
      · cases h

theorem mem_results (H : Bytes → Target) (verify : Key → Bytes → Bytes → Bool) (target : Target) (salt : Bytes)
    (evs : List Event) (res : GetResult) :
    res ∈ results H verify target salt evs ↔ ∃ r, some r ∈ evs ∧ accept H verify target salt r = some res := by
  unfold results
  rw [List.mem_filterMap]
  constructor
  · rintro ⟨e, he, hacc⟩
    cases e with
    | none => simp [acceptEv] at hacc
    | some r => exact ⟨r, he, by simpa [acceptEv] using hacc⟩
  · rintro ⟨r, he, hacc⟩
    exact ⟨some r, he, by simpa [acceptEv] using hacc⟩

/-- The replies' sequence numbers are `int64`s. -/
def Int64Seqs (evs : List Event) : Prop := ∀ r q, some r ∈ evs → r.seq = some q → minInt64 ≤ q

theorem results_inRange (H : Bytes → Target) (verify : Key → Bytes → Bytes → Bool) (target : Target) (salt : Bytes)
    (evs : List Event) (h : Int64Seqs evs) : SeqsInRange (results H verify target salt evs) := by
  intro x hx hm
  obtain ⟨r, hr, hacc⟩ := (mem_results H verify target salt evs x).mp hx
  obtain ⟨_, _, hcase⟩ := accept_some H verify target salt r x hacc
  rcases hcase with ⟨hf, _⟩ | ⟨_, hq, _⟩
  · rw [hm] at hf; cases hf
  · exact h r x.seq hr hq

theorem results_append (H : Bytes → Target) (verify : Key → Bytes → Bytes → Bool) (target : Target) (salt : Bytes)
    (a b : List Event) :
    results H verify target salt (a ++ b) = results H verify target salt a ++ results H verify target salt b := by
  unfold results; exact List.filterMap_append

/-! ## `putAutoSeq` -/

def pickSeq (a : Int) (v : GetResult) : Int := if v.isMutable ∧ v.seq > a then v.seq else a

theorem putAutoSeq_eq (rs : List GetResult) : putAutoSeq rs = rs.foldl pickSeq 0 := rfl

theorem pickSeq_ge1 (a : Int) (v : GetResult) : a ≤ pickSeq a v := by
  unfold pickSeq; split
  · rename_i hc; omega
  · exact Int.le_refl _

theorem pickSeq_self (a : Int) (v : GetResult) (hm : v.isMutable = true) : v.seq ≤ pickSeq a v := by
  unfold pickSeq; split
  · exact Int.le_refl _
  · rename_i hc
    have : ¬ v.seq > a := fun hgt => hc ⟨hm, hgt⟩
    omega

theorem pickSeq_ge (rs : List GetResult) (a : Int) : a ≤ rs.foldl pickSeq a := by
  induction rs generalizing a with
  | nil => exact Int.le_refl _
  | cons v rest ih =>
    simp only [List.foldl_cons]
    exact Int.le_trans (pickSeq_ge1 a v) (ih (pickSeq a v))

theorem pickSeq_max (rs : List GetResult) (a : Int) :
    ∀ x ∈ rs, x.isMutable = true → x.seq ≤ rs.foldl pickSeq a := by
  induction rs generalizing a with
  | nil => intro x hx; cases hx
  | cons v rest ih =>
    intro x hx hm
    simp only [List.foldl_cons]
    rcases List.mem_cons.mp hx with rfl | hx
    · exact Int.le_trans (pickSeq_self a x hm) (pickSeq_ge rest (pickSeq a x))
    · exact ih (pickSeq a v) x hx hm

theorem pickSeq_mem (rs : List GetResult) (a : Int) :
    rs.foldl pickSeq a = a ∨ ∃ x ∈ rs, x.isMutable = true ∧ x.seq = rs.foldl pickSeq a := by
  induction rs generalizing a with
  | nil => left; rfl
  | cons v rest ih =>
    simp only [List.foldl_cons]
    rcases ih (pickSeq a v) with h | ⟨x, hx, hm, hs⟩
    · rw [h]; unfold pickSeq; split
      · rename_i hc; right; exact ⟨v, List.mem_cons_self, hc.1, rfl⟩
      · left; rfl
    · right; exact ⟨x, List.mem_cons_of_mem _ hx, hm, hs⟩

end Dht.Getput
