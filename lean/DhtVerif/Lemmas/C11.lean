/- Helper lemmas for C11. -/
import DhtVerif.Model.Server
namespace Dht

/-! ### Method-name literals -/

theorem str_ping : str "ping" = [112, 105, 110, 103] := by decide +kernel
theorem str_get_peers : str "get_peers" = [103, 101, 116, 95, 112, 101, 101, 114, 115] := by decide +kernel
theorem str_find_node : str "find_node" = [102, 105, 110, 100, 95, 110, 111, 100, 101] := by decide +kernel
theorem str_announce_peer :
    str "announce_peer" = [97, 110, 110, 111, 117, 110, 99, 101, 95, 112, 101, 101, 114] := by decide +kernel
theorem str_put : str "put" = [112, 117, 116] := by decide +kernel
theorem str_get : str "get" = [103, 101, 116] := by decide +kernel
theorem str_q : str "q" = [113] := by decide +kernel
theorem str_r : str "r" = [114] := by decide +kernel

/-- The announced endpoint's port, as `dispatch` computes it. -/
def annPort (src : NAddr) (a : QArgs) : Int :=
  if a.impliedPort then (src.port : Int) else a.port.getD 0

/-! ### `applyEffects` -/

theorem applyEffects_ts (s : Srv) (effs : List Effect) : (applyEffects s effs).ts = s.ts := by
  induction effs generalizing s with
  | nil => rfl
  | cons e es ih => cases e <;> simp [applyEffects, ih]

theorem applyEffects_closed (s : Srv) (effs : List Effect) : (applyEffects s effs).closed = s.closed := by
  induction effs generalizing s with
  | nil => rfl
  | cons e es ih => cases e <;> simp [applyEffects, ih]

theorem applyEffects_txns (s : Srv) (effs : List Effect) : (applyEffects s effs).txns = s.txns := by
  induction effs generalizing s with
  | nil => rfl
  | cons e es ih => cases e <;> simp [applyEffects, ih]

theorem applyEffects_append (s : Srv) (xs ys : List Effect) :
    applyEffects s (xs ++ ys) = applyEffects (applyEffects s xs) ys := by
  induction xs generalizing s with
  | nil => rfl
  | cons e es ih => cases e <;> simp [applyEffects, ih]

/-- `applyEffects` depends on the state only through `peers`. -/
theorem applyEffects_peers_congr (s t : Srv) (effs : List Effect) (h : s.peers = t.peers) :
    (applyEffects s effs).peers = (applyEffects t effs).peers := by
  induction effs generalizing s t with
  | nil => exact h
  | cons e es ih =>
    cases e with
    | addPeer e => simp only [applyEffects]; apply ih; simp [h]
    | announceCb => simp only [applyEffects]; exact ih _ _ h
    | storePut => simp only [applyEffects]; exact ih _ _ h
    | deliver => simp only [applyEffects]; exact ih _ _ h

/-- Every entry after the effects was there before or was added by one of them. -/
theorem mem_applyEffects (s : Srv) (effs : List Effect) (e : PeerEntry)
    (h : e ∈ (applyEffects s effs).peers) : e ∈ s.peers ∨ Effect.addPeer e ∈ effs := by
  induction effs generalizing s with
  | nil => exact Or.inl h
  | cons x es ih =>
    cases x with
    | addPeer e' =>
      simp only [applyEffects] at h
      rcases ih _ h with h1 | h1
      · simp only [List.mem_append, List.mem_filter, List.mem_singleton] at h1
        rcases h1 with h1 | h1
        · exact Or.inl h1.1
        · exact Or.inr (by simp [h1])
      · exact Or.inr (List.mem_cons_of_mem _ h1)
    | announceCb =>
      simp only [applyEffects] at h
      exact (ih _ h).imp id (List.mem_cons_of_mem _)
    | storePut =>
      simp only [applyEffects] at h
      exact (ih _ h).imp id (List.mem_cons_of_mem _)
    | deliver =>
      simp only [applyEffects] at h
      exact (ih _ h).imp id (List.mem_cons_of_mem _)

/-- An entry survives unless an added peer has the same (infohash, IP bytes) key. -/
theorem mem_applyEffects_of_mem (s : Srv) (effs : List Effect) (e : PeerEntry) (he : e ∈ s.peers)
    (h : ∀ e', Effect.addPeer e' ∈ effs → ¬ (e'.ih = e.ih ∧ e'.ip = e.ip)) :
    e ∈ (applyEffects s effs).peers := by
  induction effs generalizing s with
  | nil => exact he
  | cons x es ih =>
    have h' : ∀ e', Effect.addPeer e' ∈ es → ¬ (e'.ih = e.ih ∧ e'.ip = e.ip) :=
      fun e' h1 => h e' (List.mem_cons_of_mem _ h1)
    cases x with
    | addPeer e' =>
      simp only [applyEffects]
      apply ih _ _ h'
      have hk := h e' (by simp)
      simp only [List.mem_append, List.mem_filter, List.mem_singleton]
      refine Or.inl ⟨he, ?_⟩
      simp only [Bool.not_eq_eq_eq_not, Bool.not_true, Bool.and_eq_false_iff, beq_eq_false_iff_ne, ne_eq]
      by_cases h1 : e.ih = e'.ih
      · right; intro h2; exact hk ⟨h1.symm, h2.symm⟩
      · left; exact h1
    | announceCb => simp only [applyEffects]; exact ih _ he h'
    | storePut => simp only [applyEffects]; exact ih _ he h'
    | deliver => simp only [applyEffects]; exact ih _ he h'

/-- The last added peer is present afterwards. -/
theorem mem_applyEffects_snoc (s : Srv) (effs : List Effect) (e : PeerEntry) :
    e ∈ (applyEffects s (effs ++ [Effect.addPeer e])).peers := by
  rw [applyEffects_append]
  simp [applyEffects]

/-! ### `dispatch` -/

theorem dispatch_ping (c : SrvCfg) (mk : TokenFn) (s : Srv) (src : NAddr) (m : QMsg) (env : Env)
    (hq : m.q = str "ping") : dispatch c mk s src m env = ([mkReply c src m.t {}], []) := by
  simp [dispatch, hq]

theorem dispatch_announce (c : SrvCfg) (mk : TokenFn) (s : Srv) (src : NAddr) (m : QMsg) (env : Env) (a : QArgs)
    (hq : m.q = str "announce_peer") (ha : m.a = some a)
    (htok : validToken c mk s.ts.now src.ip a.token = true) :
    dispatch c mk s src m env =
      ([mkReply c src m.t {}],
       (if c.hasCallback then [Effect.announceCb a.infoHash src.ip (annPort src a) (a.impliedPort || a.port.isSome)] else []) ++
       (if c.hasPeerStore then [Effect.addPeer ⟨a.infoHash, src.ip, annPort src a⟩] else [])) := by
  simp only [dispatch, hq, ha, htok, str_ping, str_get_peers, str_find_node, str_announce_peer, annPort]
  simp
  cases a.impliedPort <;> cases a.port <;> simp

theorem dispatch_get_peers (c : SrvCfg) (mk : TokenFn) (s : Srv) (src : NAddr) (m : QMsg) (env : Env) (a : QArgs)
    (hq : m.q = str "get_peers") (ha : m.a = some a) (hps : c.hasPeerStore = true) :
    ∃ r : Ret, dispatch c mk s src m env = ([mkReply c src m.t r], []) ∧
      r.values = filterPeers src.ip a.want (peersFor s a.infoHash) ∧
      r.token = some (createToken c mk s.ts.now src.ip) := by
  simp only [dispatch, hq, ha, hps, str_ping, str_get_peers]
  simp
  refine ⟨_, rfl, ?_⟩
  split <;> simp [setReturnNodes]

theorem dispatch_noAddPeer (c : SrvCfg) (mk : TokenFn) (s : Srv) (src : NAddr) (m : QMsg) (env : Env) (e : PeerEntry)
    (hq : m.q ≠ str "announce_peer") : Effect.addPeer e ∉ (dispatch c mk s src m env).2 := by
  intro h
  have hq' : ¬ (m.q == str "announce_peer") = true := by simpa using hq
  unfold dispatch at h
  dsimp only at h
  repeat' (first | (simp at h; done) | contradiction | split at h)

theorem dispatch_addPeer (c : SrvCfg) (mk : TokenFn) (s : Srv) (src : NAddr) (m : QMsg) (env : Env) (e : PeerEntry)
    (h : Effect.addPeer e ∈ (dispatch c mk s src m env).2) :
    m.q = str "announce_peer" ∧ ∃ a, m.a = some a ∧ validToken c mk s.ts.now src.ip a.token = true ∧
      c.hasPeerStore = true ∧ e = ⟨a.infoHash, src.ip, annPort src a⟩ := by
  by_cases hq : m.q = str "announce_peer"
  · refine ⟨hq, ?_⟩
    cases ha : m.a with
    | none => simp [dispatch, hq, ha, str_ping, str_get_peers, str_find_node, str_announce_peer] at h
    | some a =>
      cases htok : validToken c mk s.ts.now src.ip a.token with
      | false => simp [dispatch, hq, ha, htok, str_ping, str_get_peers, str_find_node, str_announce_peer] at h
      | true =>
        rw [dispatch_announce c mk s src m env a hq ha htok] at h
        refine ⟨a, rfl, htok, ?_⟩
        cases hps : c.hasPeerStore <;> cases hcb : c.hasCallback <;> simp [hps, hcb] at h
        · exact ⟨rfl, h⟩
        · exact ⟨rfl, h⟩
  · exact absurd h (dispatch_noAddPeer c mk s src m env e hq)

/-! ### `handleQuery`, `processMsg` -/

/-- The state after the table update of `handleQuery`. -/
def Srv.withTable (s : Srv) (tbl : Table) : Srv := { s with ts := { s.ts with table := tbl } }

theorem handleQuery_some (c : SrvCfg) (mk : TokenFn) (s s' : Srv) (src : NAddr) (m : QMsg) (env : Env)
    (outs : List Out) (effs : List Effect) (h : handleQuery c mk s src m env = some (s', outs, effs)) :
    ∃ tbl' out, updateNode c.tbl s.ts.now s.ts.table src (m.a.map (·.id)) (!m.ro) (onQuery s.ts.now) env.choice
        = some (tbl', out) ∧
      ((((c.hasHook && !env.hookPropagate) = true ∨ c.passive = true) ∧ s' = s.withTable tbl' ∧ outs = [] ∧ effs = []) ∨
       ((c.hasHook && !env.hookPropagate) = false ∧ c.passive = false ∧
          outs = (dispatch c mk (s.withTable tbl') src m env).1 ∧
          effs = (dispatch c mk (s.withTable tbl') src m env).2 ∧
          s' = applyEffects (s.withTable tbl') effs)) := by
  unfold handleQuery at h
  split at h
  · simp at h
  · rename_i tbl' out hup
    refine ⟨tbl', out, hup, ?_⟩
    dsimp only at h
    split at h
    · rename_i hh
      simp only [Option.some.injEq, Prod.mk.injEq] at h
      exact Or.inl ⟨Or.inl hh, h.1.symm, h.2.1.symm, h.2.2.symm⟩
    · rename_i hh
      split at h
      · rename_i hp
        simp only [Option.some.injEq, Prod.mk.injEq] at h
        exact Or.inl ⟨Or.inr hp, h.1.symm, h.2.1.symm, h.2.2.symm⟩
      · rename_i hp
        simp only [Option.some.injEq, Prod.mk.injEq] at h
        refine Or.inr ⟨by simpa using hh, by simpa using hp, h.2.1.symm, h.2.2.symm, ?_⟩
        rw [← h.2.2]; exact h.1.symm

/-- The sender ID `processPacket` hands to `updateNode` for a non-query message. -/
def respId (m : QMsg) : Option Id := if m.y == str "r" then m.rid else none

theorem processMsg_some (c : SrvCfg) (mk : TokenFn) (s s' : Srv) (src : NAddr) (m : QMsg) (env : Env)
    (outs : List Out) (effs : List Effect) (h : processMsg c mk s src m env = some (s', outs, effs)) :
    (s.closed = true ∧ s' = s ∧ outs = [] ∧ effs = []) ∨
    (s.closed = false ∧ m.y = str "q" ∧ handleQuery c mk s src m env = some (s', outs, effs)) ∨
    (s.closed = false ∧ m.y ≠ str "q" ∧
      ((s' = s ∧ outs = [] ∧ effs = []) ∨
       ∃ q tbl' out txns', updateNode c.tbl s.ts.now s.ts.table src (respId m) (!m.ro) (onResponse s.ts.now) env.choice
           = some (tbl', out) ∧
         s' = { s with txns := txns', ts := { s.ts with table := tbl' } } ∧ outs = [] ∧ effs = [.deliver q])) := by
  unfold processMsg at h
  split at h
  · rename_i hc
    simp only [Option.some.injEq, Prod.mk.injEq] at h
    exact Or.inl ⟨hc, h.1.symm, h.2.1.symm, h.2.2.symm⟩
  · rename_i hc
    have hc' : s.closed = false := by simpa using hc
    split at h
    · rename_i hy
      exact Or.inr (Or.inl ⟨hc', by simpa using hy, h⟩)
    · rename_i hy
      refine Or.inr (Or.inr ⟨hc', by simpa using hy, ?_⟩)
      dsimp only at h
      split at h
      · simp only [Option.some.injEq, Prod.mk.injEq] at h
        exact Or.inl ⟨h.1.symm, h.2.1.symm, h.2.2.symm⟩
      · rename_i q hq
        split at h
        · simp at h
        · rename_i tbl' out hup
          simp only [Option.some.injEq, Prod.mk.injEq] at h
          exact Or.inr ⟨q, tbl', out, _, hup, h.1.symm, h.2.1.symm, h.2.2.symm⟩

theorem withTable_peers (s : Srv) (tbl : Table) : (s.withTable tbl).peers = s.peers := rfl
theorem withTable_closed (s : Srv) (tbl : Table) : (s.withTable tbl).closed = s.closed := rfl
theorem withTable_now (s : Srv) (tbl : Table) : (s.withTable tbl).ts.now = s.ts.now := rfl
theorem withTable_table (s : Srv) (tbl : Table) : (s.withTable tbl).ts.table = tbl := rfl

/-- What one `processMsg` step does to the peer store: it applies the emitted
effects, and every `addPeer` among them comes from a token-validated
`announce_peer` query with exactly the announced endpoint. -/
theorem processMsg_peers (c : SrvCfg) (mk : TokenFn) (s s' : Srv) (src : NAddr) (m : QMsg) (env : Env)
    (outs : List Out) (effs : List Effect) (h : processMsg c mk s src m env = some (s', outs, effs)) :
    s'.peers = (applyEffects s effs).peers ∧
    ∀ e, Effect.addPeer e ∈ effs →
      m.y = str "q" ∧ m.q = str "announce_peer" ∧ ∃ a, m.a = some a ∧
        validToken c mk s.ts.now src.ip a.token = true ∧ c.hasPeerStore = true ∧
        e = ⟨a.infoHash, src.ip, annPort src a⟩ := by
  rcases processMsg_some c mk s s' src m env outs effs h with h1 | h1 | h1
  · obtain ⟨_, rfl, rfl, rfl⟩ := h1
    exact ⟨rfl, by simp⟩
  · obtain ⟨_, hy, hq⟩ := h1
    obtain ⟨tbl', out, _, h2 | h2⟩ := handleQuery_some c mk s s' src m env outs effs hq
    · obtain ⟨_, rfl, rfl, rfl⟩ := h2
      exact ⟨rfl, by simp⟩
    · obtain ⟨_, _, _, he, rfl⟩ := h2
      refine ⟨applyEffects_peers_congr _ _ _ rfl, ?_⟩
      intro e hmem
      rw [he] at hmem
      obtain ⟨hq', a, ha, htok, hps, hee⟩ := dispatch_addPeer c mk _ src m env e hmem
      exact ⟨hy, hq', a, ha, htok, hps, hee⟩
  · obtain ⟨_, _, h2 | h2⟩ := h1
    · obtain ⟨rfl, rfl, rfl⟩ := h2
      exact ⟨rfl, by simp⟩
    · obtain ⟨q, tbl', out, txns', _, rfl, rfl, rfl⟩ := h2
      exact ⟨rfl, by simp⟩

/-! ### `filterPeers` -/

theorem to4_length (ip x : List UInt8) (h : to4 ip = some x) : x.length = 4 := by
  unfold to4 at h
  split at h
  · simp at h; subst h; assumption
  · split at h
    · rename_i h1
      simp at h h1; subst h; simp [h1.1]
    · simp at h

theorem to16_length (ip x : List UInt8) (h : to16 ip = some x) : x.length = 16 := by
  unfold to16 at h
  split at h
  · rename_i h1; simp at h; subst h; simp [h1]
  · split at h
    · simp at h; subst h; assumption
    · simp at h

theorem mem_filterPeers (srcIp : List UInt8) (want : List (List UInt8)) (all : List (List UInt8 × Int))
    (v : List UInt8 × Int) (h : v ∈ filterPeers srcIp want all) :
    ∃ ip, (ip, v.2) ∈ all ∧ (v.1 = ip ∨ to4 ip = some v.1 ∨ to16 ip = some v.1) ∧
      ((v.1.length = 4 ∧ shouldReturnNodes want srcIp = true) ∨
       (v.1.length = 16 ∧ shouldReturnNodes6 want srcIp = true)) := by
  unfold filterPeers at h
  simp only [List.mem_filterMap] at h
  obtain ⟨⟨ip, port⟩, hmem, hf⟩ := h
  dsimp only at hf
  split at hf
  · rename_i h1
    simp only [Bool.and_eq_true, beq_iff_eq] at h1
    simp only [Option.some.injEq] at hf; subst hf
    exact ⟨ip, hmem, Or.inl rfl, Or.inl ⟨h1.2, h1.1⟩⟩
  split at hf
  · rename_i h1
    simp only [Bool.and_eq_true, beq_iff_eq] at h1
    simp only [Option.some.injEq] at hf; subst hf
    exact ⟨ip, hmem, Or.inl rfl, Or.inr ⟨h1.2, h1.1⟩⟩
  split at hf
  · rename_i h1
    simp only [Bool.and_eq_true] at h1
    simp only [Option.map_eq_some_iff] at hf
    obtain ⟨x, hx, rfl⟩ := hf
    exact ⟨ip, hmem, Or.inr (Or.inl hx), Or.inl ⟨to4_length ip x hx, h1.1⟩⟩
  split at hf
  · rename_i h1
    simp only [Bool.and_eq_true] at h1
    simp only [Option.map_eq_some_iff] at hf
    obtain ⟨x, hx, rfl⟩ := hf
    exact ⟨ip, hmem, Or.inr (Or.inr hx), Or.inr ⟨to16_length ip x hx, h1.1⟩⟩
  · simp at hf

theorem mem_peersFor (s : Srv) (ih : Id) (ip : List UInt8) (port : Int) (h : (ip, port) ∈ peersFor s ih) :
    ∃ e ∈ s.peers, e.ih = ih ∧ e.ip = ip ∧ e.port = port := by
  unfold peersFor at h
  simp only [List.mem_map, List.mem_filter, Prod.mk.injEq, beq_iff_eq] at h
  obtain ⟨e, ⟨he, hih⟩, hip, hp⟩ := h
  exact ⟨e, he, hih, hip, hp⟩

end Dht
