/- Helper lemmas for C02Honest: the closest set lists the K closest nodes in distance order. -/
import DhtVerif.Lemmas.C02Honest
namespace Dht

/-- Two strictly increasing lists with the same elements are the same list. -/
theorem strictly_sorted_ext {α} (f : α → Nat) (l1 l2 : List α)
    (h1 : l1.Pairwise (fun a b => f a < f b)) (h2 : l2.Pairwise (fun a b => f a < f b))
    (hm : ∀ x, x ∈ l1 ↔ x ∈ l2) : l1 = l2 := by
  induction l1 generalizing l2 with
  | nil =>
    cases l2 with
    | nil => rfl
    | cons b l2 => exact absurd ((hm b).mpr List.mem_cons_self) (by simp)
  | cons a l1 ih =>
    cases l2 with
    | nil => exact absurd ((hm a).mp List.mem_cons_self) (by simp)
    | cons b l2 =>
      have h1' := List.pairwise_cons.mp h1
      have h2' := List.pairwise_cons.mp h2
      have hab : a = b := by
        rcases List.mem_cons.mp ((hm a).mp List.mem_cons_self) with e | ha
        · exact e
        · rcases List.mem_cons.mp ((hm b).mpr List.mem_cons_self) with e | hb
          · exact e.symm
          · have := h2'.1 a ha
            have := h1'.1 b hb
            omega
      subst hab
      congr 1
      apply ih l2 h1'.2 h2'.2
      intro x
      constructor
      · intro hx
        rcases List.mem_cons.mp ((hm x).mp (List.mem_cons_of_mem _ hx)) with e | hx'
        · subst e
          have := h1'.1 x hx
          omega
        · exact hx'
      · intro hx
        rcases List.mem_cons.mp ((hm x).mpr (List.mem_cons_of_mem _ hx)) with e | hx'
        · subst e
          have := h2'.1 x hx
          omega
        · exact hx'

/-- A duplicate-free list of network nodes in non-decreasing distance order is in strictly
increasing distance order. -/
theorem strict_of_sorted_nodup {net : List NetNode} (hwf : NetWF net) (t : Id) (ht : t.length = 20)
    (l : List NetNode) (hsub : ∀ x ∈ l, x ∈ net) (hnd : l.Nodup)
    (hs : l.Pairwise (fun a b => netDist t a ≤ netDist t b)) :
    l.Pairwise (fun a b => netDist t a < netDist t b) := by
  unfold List.Nodup at hnd
  refine (hs.and hnd).imp_of_mem ?_
  intro a b ha hb ⟨hle, hne⟩
  have : netDist t a ≠ netDist t b := fun e => hne (hwf.eq_of_dist t ht a b (hsub a ha) (hsub b hb) e)
  omega

theorem sortedD_closestNodes (t : Id) (cl : List KElem) (h : KNN.SortedD t cl) :
    (cl.map (fun m => (m.id, m.addr))).Pairwise (fun a b => netDist t a ≤ netDist t b) := by
  rw [List.pairwise_map]
  exact h

end Dht
