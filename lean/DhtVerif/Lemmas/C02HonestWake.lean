/-
Helper lemmas for C02Honest: the run loop's view is current when it sleeps on the
current generation (the statement of `C03.no_lost_wakeup`, re-proved here on top of
the C04 invariant because Lemmas/C03*.lean and Lemmas/C04.lean cannot be imported
together).
-/
import DhtVerif.Lemmas.C02HonestInv
namespace Dht

/-- Same as `midCompletion` of Props/C03. -/
def Trav.midH (s : Trav) : Bool := s.inflight.any (fun e => e.2.past)

/-- Same as `currentOffer` of Props/C03. -/
def Trav.curOfferH (c : TravCfg) (s : Trav) : Bool :=
  (!s.haveQuery c || c.alpha == 0) && s.outstanding == 0

theorem Trav.haveQuery_congr_H (c : TravCfg) (s s' : Trav) (hu : s'.unq = s.unq)
    (hc : s'.closest = s.closest) : s'.haveQuery c = s.haveQuery c := by
  unfold Trav.haveQuery; rw [hu, hc]

/-! ### what `AddNodes` touches -/

structure Trav.AddsH (s s' : Trav) : Prop where
  run : s'.run = s.run
  stopping : s'.stopping = s.stopping
  outstanding : s'.outstanding = s.outstanding
  closest : s'.closest = s.closest
  inflight : s'.inflight = s.inflight
  gen_le : s.gen ≤ s'.gen
  same : s'.gen = s.gen → s'.unq = s.unq

theorem Trav.AddsH.refl (s : Trav) : Trav.AddsH s s :=
  ⟨rfl, rfl, rfl, rfl, rfl, Nat.le_refl _, fun _ => rfl⟩

theorem Trav.AddsH.trans {s s' s'' : Trav} (a : Trav.AddsH s s') (b : Trav.AddsH s' s'') :
    Trav.AddsH s s'' := by
  refine ⟨b.run.trans a.run, b.stopping.trans a.stopping, b.outstanding.trans a.outstanding,
    b.closest.trans a.closest, b.inflight.trans a.inflight, Nat.le_trans a.gen_le b.gen_le, ?_⟩
  intro hg
  have h1 := a.gen_le
  have h2 := b.gen_le
  rw [b.same (by omega), a.same (by omega)]

theorem Trav.addNode_addsH (c : TravCfg) (s : Trav) (n : Cand) : Trav.AddsH s (s.addNode c n) := by
  unfold Trav.addNode
  split
  · exact Trav.AddsH.refl s
  · split
    · exact Trav.AddsH.refl s
    · refine ⟨rfl, rfl, rfl, rfl, rfl, Nat.le_succ _, ?_⟩
      intro hg
      have : s.gen + 1 = s.gen := hg
      omega

theorem Trav.addNodes_addsH (c : TravCfg) (ns : List Cand) (s : Trav) :
    Trav.AddsH s (s.addNodes c ns) := by
  unfold Trav.addNodes
  induction ns generalizing s with
  | nil => exact Trav.AddsH.refl s
  | cons n ns ih => exact (Trav.addNode_addsH c s n).trans (ih (s.addNode c n))

/-! ### the mid-completion flag under phase changes -/

theorem fst_unique_H (l : List (Addr × QPhase)) (hn : (l.map Prod.fst).Nodup) (e e' : Addr × QPhase)
    (he : e ∈ l) (he' : e' ∈ l) (h : e.1 = e'.1) : e = e' := by
  have := nodup_map_inj Prod.fst l hn e e' he he' h
  exact this

theorem any_past_setPhase_true (l : List (Addr × QPhase)) (a : Addr) (q p : QPhase) (hm : (a, q) ∈ l)
    (hp : p.past = true) : (setPhase l a p).any (fun e => e.2.past) = true := by
  rw [List.any_eq_true]
  refine ⟨(a, p), ?_, hp⟩
  unfold setPhase
  rw [List.mem_map]
  exact ⟨(a, q), hm, by simp⟩

theorem any_congr_mem_H {α : Type} (l : List α) (p q : α → Bool) (h : ∀ a ∈ l, p a = q a) :
    l.any p = l.any q := by
  induction l with
  | nil => rfl
  | cons x xs ih =>
    simp only [List.any_cons]
    rw [h x List.mem_cons_self, ih (fun a ha => h a (List.mem_cons_of_mem _ ha))]

theorem any_past_setPhase_same (l : List (Addr × QPhase)) (a : Addr) (q p : QPhase)
    (hn : (l.map Prod.fst).Nodup) (hm : (a, q) ∈ l) (hq : q.past = p.past) :
    (setPhase l a p).any (fun e => e.2.past) = l.any (fun e => e.2.past) := by
  unfold setPhase
  rw [List.any_map]
  apply any_congr_mem_H
  intro e he
  simp only [Function.comp]
  split
  · rename_i hea
    have : e = (a, q) := fst_unique_H l hn e (a, q) he hm (by simpa using hea)
    rw [this]; exact hq.symm
  · rfl

/-! ### the invariant -/

structure Trav.WakeH (c : TravCfg) (s : Trav) : Prop where
  noEval : ∀ o, s.run ≠ .evaluated o
  runGen : ∀ g o, s.run = .sleeping g o → g ≤ s.gen
  cur : ∀ g offer, s.run = .sleeping g offer → s.gen = g → s.stopping = false → s.midH = false →
    offer = s.curOfferH c ∧ (s.outstanding < c.alpha → s.haveQuery c = false)

theorem Trav.WakeH.init (c : TravCfg) : Trav.WakeH c {} :=
  ⟨(by intro o h; cases h), (by intro g o h; cases h), (by intro g o h; cases h)⟩

/-- Steps that leave the run loop, the generation, the frontier, the closest set and the
goroutines' mid-completion flag alone. -/
theorem Trav.WakeH.congr {c : TravCfg} {s s' : Trav} (h : Trav.WakeH c s)
    (hr : s'.run = s.run) (hg : s'.gen = s.gen)
    (hstop : s'.stopping = false → s.stopping = false)
    (hu : s'.unq = s.unq) (hc : s'.closest = s.closest) (ho : s'.outstanding = s.outstanding)
    (hm : s'.midH = s.midH) : Trav.WakeH c s' := by
  refine ⟨by rw [hr]; exact h.noEval, by rw [hr, hg]; exact h.runGen, ?_⟩
  intro g offer hrun hgen hs hmid
  rw [hr] at hrun
  rw [hg] at hgen
  rw [hm] at hmid
  have := h.cur g offer hrun hgen (hstop hs) hmid
  unfold Trav.curOfferH at this ⊢
  rw [Trav.haveQuery_congr_H c s s' hu hc, ho]
  exact this

theorem Trav.WakeH.addsH {c : TravCfg} {s s' : Trav} (h : Trav.WakeH c s) (A : Trav.AddsH s s') :
    Trav.WakeH c s' := by
  refine ⟨by rw [A.run]; exact h.noEval, ?_, ?_⟩
  · intro g o hr
    rw [A.run] at hr
    exact Nat.le_trans (h.runGen g o hr) A.gen_le
  · intro g offer hr hg hst hm
    rw [A.run] at hr
    rw [A.stopping] at hst
    have hle := h.runGen g offer hr
    have hge := A.gen_le
    have hgen : s'.gen = s.gen := by omega
    have hu := A.same hgen
    have hq := Trav.haveQuery_congr_H c s s' hu A.closest
    have hm' : s.midH = false := by
      unfold Trav.midH at hm ⊢; rw [A.inflight] at hm; exact hm
    have := h.cur g offer hr (by omega) hst hm'
    unfold Trav.curOfferH at this ⊢
    rw [hq, A.outstanding]
    exact this

theorem Trav.WakeH.vacuous_mid {c : TravCfg} {s s' : Trav} (h : Trav.WakeH c s)
    (hr : s'.run = s.run) (hg : s.gen ≤ s'.gen) (hm : s'.midH = true) : Trav.WakeH c s' := by
  refine ⟨by rw [hr]; exact h.noEval, ?_, ?_⟩
  · intro g o hrun
    rw [hr] at hrun
    exact Nat.le_trans (h.runGen g o hrun) hg
  · intro g offer _ _ _ hm'
    rw [hm] at hm'; cases hm'

theorem Trav.WakeH.step {c : TravCfg} (hsig : c.sigBeforeUnlock = true) {s s' : Trav} {e : TravEv}
    (hi : Trav.Inv c s) (h : Trav.WakeH c s) (hs : s.step c e = some s') : Trav.WakeH c s' := by
  have hnd : (s.inflight.map Prod.fst).Nodup :=
    List.Pairwise.of_map Addr.strKey (fun _ _ hab heq => hab (congrArg _ heq)) hi.infl_nodup
  cases e with
  | addNodes ns =>
    simp only [Trav.step, Option.some.injEq] at hs
    subst hs
    exact h.addsH (Trav.addNodes_addsH c ns s)
  | runEval =>
    simp only [Trav.step] at hs
    split at hs
    · rename_i hr
      simp only [Option.some.injEq] at hs
      subst hs
      have hr' : s.run = .awake := by simpa using hr
      unfold Trav.runEval
      rw [hr']
      simp only [hsig, if_true]
      split
      · exact ⟨(by intro o hh; cases hh), (by intro g o hh; cases hh), (by intro g o hh; cases hh)⟩
      · refine ⟨(by intro o hh; cases hh), ?_, ?_⟩
        · intro g o hh
          simp only [RunPhase.sleeping.injEq] at hh
          rw [← hh.1]; exact Nat.le_refl _
        · intro g offer hh hg _ _
          simp only [RunPhase.sleeping.injEq] at hh
          refine ⟨hh.2.symm, ?_⟩
          intro hlt
          have := Trav.startLoop_done c (s.unq.length + 1) s (Nat.lt_succ_self _)
          cases hq : Trav.haveQuery c (Trav.startLoop c (s.unq.length + 1) s)
          · exact hq
          · exfalso
            have hlt' : (Trav.startLoop c (s.unq.length + 1) s).outstanding < c.alpha := hlt
            simp [hlt', hq] at this
    · cases hs
  | captureGen =>
    simp only [Trav.step, Trav.captureGen] at hs
    split at hs
    · rename_i o hr
      exact absurd hr (h.noEval o)
    · cases hs
  | runWake why =>
    simp only [Trav.step, Trav.runWake] at hs
    split at hs
    · cases why <;> simp only at hs <;> split at hs <;>
        first
        | (simp only [Option.some.injEq] at hs
           subst hs
           exact ⟨(by intro o hh; cases hh), (by intro g o hh; cases hh), (by intro g o hh; cases hh)⟩)
        | cases hs
    · cases hs
  | queryReturn a r =>
    simp only [Trav.step] at hs
    split at hs
    · rename_i hp
      simp only [Option.some.injEq] at hs
      subst hs
      have hm := phaseOf_mem_H (show phaseOf s.inflight a = some .inDoQuery by simpa using hp)
      exact h.congr rfl rfl (fun x => x) rfl rfl rfl
        (any_past_setPhase_same s.inflight a .inDoQuery (.returned r) hnd hm rfl)
    · cases hs
  | addClosest a =>
    simp only [Trav.step] at hs
    split at hs
    · rename_i r hp
      simp only [Option.some.injEq] at hs
      subst hs
      have hm := phaseOf_mem_H hp
      have hmid := any_past_setPhase_true s.inflight a _ (.closestDone r) hm rfl
      have hf : (s.addClosest c a r).run = s.run ∧ (s.addClosest c a r).gen = s.gen := by
        unfold Trav.addClosest
        split
        · exact ⟨rfl, rfl⟩
        · split
          · exact ⟨rfl, rfl⟩
          · split <;> exact ⟨rfl, rfl⟩
      exact h.vacuous_mid hf.1 (Nat.le_of_eq hf.2.symm) hmid
    · cases hs
  | addReplyNodes a =>
    simp only [Trav.step] at hs
    split at hs
    · rename_i r hp
      simp only [Option.some.injEq] at hs
      subst hs
      have hm := phaseOf_mem_H hp
      have hmid := any_past_setPhase_true s.inflight a _ (.nodesDone r) hm rfl
      have A := Trav.addNodes_addsH c r.nodes s
      exact h.vacuous_mid A.run A.gen_le hmid
    · cases hs
  | addReplyNodes6 a =>
    simp only [Trav.step] at hs
    split at hs
    · rename_i r hp
      simp only [Option.some.injEq] at hs
      subst hs
      have hm := phaseOf_mem_H hp
      have hmid := any_past_setPhase_true s.inflight a _ .nodes6Done hm rfl
      have A := Trav.addNodes_addsH c r.nodes6 s
      exact h.vacuous_mid A.run A.gen_le hmid
    · cases hs
  | finish a =>
    simp only [Trav.step] at hs
    split at hs
    · simp only [Option.some.injEq] at hs
      subst hs
      refine ⟨h.noEval, ?_, ?_⟩
      · intro g o hr
        exact Nat.le_succ_of_le (h.runGen g o hr)
      · intro g offer hr hg _ _
        have := h.runGen g offer hr
        have hg' : s.gen + 1 = g := hg
        omega
    · cases hs
  | stop =>
    simp only [Trav.step] at hs
    split at hs
    · simp only [Option.some.injEq] at hs
      subst hs; exact h
    · simp only [Option.some.injEq] at hs
      subst hs
      refine ⟨h.noEval, h.runGen, ?_⟩
      intro g offer _ _ hst _
      cases hst
  | stopperStep =>
    simp only [Trav.step] at hs
    split at hs
    · split at hs <;>
      · simp only [Option.some.injEq] at hs
        subst hs
        exact ⟨h.noEval, h.runGen, fun g offer hr hg hst hm => h.cur g offer hr hg hst hm⟩
    · split at hs
      · simp only [Option.some.injEq] at hs
        subst hs
        exact ⟨h.noEval, h.runGen, fun g offer hr hg hst hm => h.cur g offer hr hg hst hm⟩
      · cases hs
    · cases hs

theorem Trav.WakeH.exec_gen {c : TravCfg} (hsig : c.sigBeforeUnlock = true) (evs : List TravEv)
    {s0 s : Trav} (hi : Trav.Inv c s0) (hw : Trav.WakeH c s0)
    (h : Trav.exec c s0 evs = some s) : Trav.WakeH c s := by
  induction evs generalizing s0 with
  | nil =>
    simp only [Trav.exec, Option.some.injEq] at h
    subst h; exact hw
  | cons e es ih =>
    obtain ⟨s1, h1, h2⟩ := (Trav.exec_cons c s0 e es s).mp h
    exact ih (Trav.step_inv e hi h1) (hw.step hsig hi h1) h2

theorem Trav.WakeH.exec {c : TravCfg} (hsig : c.sigBeforeUnlock = true) {evs : List TravEv} {s : Trav}
    (h : Trav.exec c {} evs = some s) : Trav.WakeH c s :=
  Trav.WakeH.exec_gen hsig evs (Trav.Inv.init c) (Trav.WakeH.init c) h

/-- A run loop asleep on the current generation, offering stalled, with no query
mid-completion, in a lookup that is not stopping: nothing is in flight and no query can be started. -/
theorem Trav.asleep_offering_quiescent {c : TravCfg} (hsig : c.sigBeforeUnlock = true)
    (halpha : c.alpha > 0) {evs : List TravEv} {s : Trav} (h : Trav.exec c {} evs = some s)
    (g : Nat) (hrun : s.run = .sleeping g true) (hgen : s.gen = g) (hstop : s.stopping = false)
    (hmid : s.midH = false) : s.inflight = [] ∧ s.haveQuery c = false := by
  have hw := Trav.WakeH.exec hsig h
  have hi : Trav.Inv c s := Trav.exec_inv evs (Trav.Inv.init c) h
  obtain ⟨hoff, _⟩ := hw.cur g true hrun hgen hstop hmid
  have hoff' : ((!s.haveQuery c || c.alpha == 0) && s.outstanding == 0) = true := hoff.symm
  simp only [Bool.and_eq_true, Bool.or_eq_true, Bool.not_eq_true', beq_iff_eq] at hoff'
  obtain ⟨h1, hout⟩ := hoff'
  constructor
  · have := hi.len
    rw [hout] at this
    exact List.eq_nil_of_length_eq_zero this
  · rcases h1 with h1 | h1
    · exact h1
    · omega

end Dht
