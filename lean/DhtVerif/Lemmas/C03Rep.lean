/- Helper lemmas for C03: every queried address was reported. -/
import DhtVerif.Lemmas.C03Inv
namespace Dht

/-- Addresses an event reports (same as `reported` of Props/C03, per event). -/
def repOf : TravEv → List Addr
  | .addNodes ns => ns.map (·.addr.strKey)
  | .queryReturn _ r => (r.nodes ++ r.nodes6).map (·.addr.strKey)
  | _ => []

/-- Reply nodes a query goroutine has still to hand to `AddNodes`. -/
def QPhase.pending : QPhase → List Cand
  | .returned r => r.nodes ++ r.nodes6
  | .closestDone r => r.nodes ++ r.nodes6
  | .nodesDone r => r.nodes6
  | _ => []

structure Trav.Rep (R : List Addr) (s : Trav) : Prop where
  unq : ∀ n ∈ s.unq, n.addr.strKey ∈ R
  queried : ∀ k ∈ s.queried, k ∈ R
  pend : ∀ e ∈ s.inflight, ∀ n ∈ e.2.pending, n.addr.strKey ∈ R

theorem Trav.Rep.mono {R R' : List Addr} {s : Trav} (h : Trav.Rep R s) (hsub : ∀ x ∈ R, x ∈ R') : Trav.Rep R' s :=
  ⟨fun n hn => hsub _ (h.unq n hn), fun k hk => hsub _ (h.queried k hk),
    fun e he n hn => hsub _ (h.pend e he n hn)⟩

theorem mem_setPhase (l : List (Addr × QPhase)) (a : Addr) (p : QPhase) (e : Addr × QPhase)
    (h : e ∈ setPhase l a p) : e ∈ l ∨ e.2 = p := by
  unfold setPhase at h
  rw [List.mem_map] at h
  obtain ⟨x, hx, rfl⟩ := h
  split
  · right; rfl
  · left; exact hx

theorem Trav.Rep.step {c : TravCfg} {R : List Addr} {s s' : Trav} {e : TravEv} (h : Trav.Rep R s)
    (hs : s.step c e = some s') : Trav.Rep (R ++ repOf e) s' := by
  cases e with
  | addNodes ns =>
    simp only [Trav.step, Option.some.injEq] at hs
    subst hs
    have A := Trav.addNodes_addsTo c ns s
    refine ⟨?_, ?_, ?_⟩
    · intro n hn
      rcases A.mem n hn with h1 | h1
      · exact List.mem_append_right _ (List.mem_map_of_mem (f := fun x : Cand => x.addr.strKey) h1)
      · exact List.mem_append_left _ (h.unq n h1)
    · rw [A.queried]; intro k hk; exact List.mem_append_left _ (h.queried k hk)
    · rw [A.inflight]; intro e he n hn; exact List.mem_append_left _ (h.pend e he n hn)
  | runEval =>
    simp only [Trav.step] at hs
    split at hs
    · rename_i hr
      simp only [Option.some.injEq] at hs
      subst hs
      have hr' : s.run = .awake := by simpa using hr
      apply Trav.Rep.mono (R := R) _ (fun x hx => List.mem_append_left _ hx)
      unfold Trav.runEval
      rw [hr']
      simp only
      split
      · exact ⟨h.unq, h.queried, h.pend⟩
      · have L := Trav.startLoop_launch c (s.unq.length + 1) s
        have h1 : Trav.Rep R (Trav.startLoop c (s.unq.length + 1) s) := by
          refine ⟨fun n hn => h.unq n (L.unqSub.subset hn), ?_, ?_⟩
          · intro k hk
            rcases L.queriedMem k hk with h2 | ⟨n, hn, rfl⟩
            · exact h.queried k h2
            · exact h.unq n hn
          · intro e he n hn
            rcases L.inflMem e he with h2 | h2
            · exact h.pend e h2 n hn
            · rw [h2] at hn; cases hn
        split
        · exact ⟨h1.unq, h1.queried, h1.pend⟩
        · exact ⟨h1.unq, h1.queried, h1.pend⟩
    · cases hs
  | captureGen =>
    simp only [Trav.step, Trav.captureGen] at hs
    split at hs
    · simp only [Option.some.injEq] at hs
      subst hs
      exact Trav.Rep.mono (R := R) ⟨h.unq, h.queried, h.pend⟩ (fun x hx => List.mem_append_left _ hx)
    · cases hs
  | runWake why =>
    simp only [Trav.step, Trav.runWake] at hs
    split at hs
    · cases why <;> simp only at hs <;> split at hs <;>
        first
        | (simp only [Option.some.injEq] at hs
           subst hs
           exact Trav.Rep.mono (R := R) ⟨h.unq, h.queried, h.pend⟩ (fun x hx => List.mem_append_left _ hx))
        | cases hs
    · cases hs
  | queryReturn a r =>
    simp only [Trav.step] at hs
    split at hs
    · simp only [Option.some.injEq] at hs
      subst hs
      refine ⟨fun n hn => List.mem_append_left _ (h.unq n hn), fun k hk => List.mem_append_left _ (h.queried k hk), ?_⟩
      intro e he n hn
      rcases mem_setPhase _ _ _ _ he with h1 | h1
      · exact List.mem_append_left _ (h.pend e h1 n hn)
      · rw [h1] at hn
        exact List.mem_append_right _ (List.mem_map_of_mem (f := fun x : Cand => x.addr.strKey) hn)
    · cases hs
  | addClosest a =>
    simp only [Trav.step] at hs
    split at hs
    · rename_i r hp
      simp only [Option.some.injEq] at hs
      subst hs
      have hm := phaseOf_mem _ _ _ hp
      apply Trav.Rep.mono (R := R) _ (fun x hx => List.mem_append_left _ hx)
      have hpend : ∀ e ∈ setPhase s.inflight a (.closestDone r), ∀ n ∈ e.2.pending, n.addr.strKey ∈ R := by
        intro e he n hn
        rcases mem_setPhase _ _ _ _ he with h1 | h1
        · exact h.pend e h1 n hn
        · rw [h1] at hn
          exact h.pend _ hm n hn
      rcases Trav.addClosest_cases c s a r with e | ⟨cl, e⟩ <;> rw [e]
      · exact ⟨h.unq, h.queried, hpend⟩
      · exact ⟨h.unq, h.queried, hpend⟩
    · cases hs
  | addReplyNodes a =>
    simp only [Trav.step] at hs
    split at hs
    · rename_i r hp
      simp only [Option.some.injEq] at hs
      subst hs
      have hm := phaseOf_mem _ _ _ hp
      have A := Trav.addNodes_addsTo c r.nodes s
      apply Trav.Rep.mono (R := R) _ (fun x hx => List.mem_append_left _ hx)
      refine ⟨?_, ?_, ?_⟩
      · intro n hn
        rcases A.mem n hn with h1 | h1
        · exact h.pend _ hm n (List.mem_append_left _ h1)
        · exact h.unq n h1
      · show ∀ k ∈ (s.addNodes c r.nodes).queried, k ∈ R
        rw [A.queried]; exact h.queried
      · intro e he n hn
        rcases mem_setPhase _ _ _ _ he with h1 | h1
        · exact h.pend e h1 n hn
        · rw [h1] at hn
          exact h.pend _ hm n (List.mem_append_right _ hn)
    · cases hs
  | addReplyNodes6 a =>
    simp only [Trav.step] at hs
    split at hs
    · rename_i r hp
      simp only [Option.some.injEq] at hs
      subst hs
      have hm := phaseOf_mem _ _ _ hp
      have A := Trav.addNodes_addsTo c r.nodes6 s
      apply Trav.Rep.mono (R := R) _ (fun x hx => List.mem_append_left _ hx)
      refine ⟨?_, ?_, ?_⟩
      · intro n hn
        rcases A.mem n hn with h1 | h1
        · exact h.pend _ hm n h1
        · exact h.unq n h1
      · show ∀ k ∈ (s.addNodes c r.nodes6).queried, k ∈ R
        rw [A.queried]; exact h.queried
      · intro e he n hn
        rcases mem_setPhase _ _ _ _ he with h1 | h1
        · exact h.pend e h1 n hn
        · rw [h1] at hn; cases hn
    · cases hs
  | finish a =>
    simp only [Trav.step] at hs
    split at hs
    · simp only [Option.some.injEq] at hs
      subst hs
      apply Trav.Rep.mono (R := R) _ (fun x hx => List.mem_append_left _ hx)
      exact ⟨h.unq, h.queried, fun e he n hn => h.pend e (List.mem_filter.mp he).1 n hn⟩
    · cases hs
  | stop =>
    simp only [Trav.step] at hs
    apply Trav.Rep.mono (R := R) _ (fun x hx => List.mem_append_left _ hx)
    split at hs
    · simp only [Option.some.injEq] at hs
      subst hs; exact h
    · simp only [Option.some.injEq] at hs
      subst hs
      exact ⟨h.unq, h.queried, h.pend⟩
  | stopperStep =>
    simp only [Trav.step] at hs
    apply Trav.Rep.mono (R := R) _ (fun x hx => List.mem_append_left _ hx)
    split at hs
    · split at hs <;>
      · simp only [Option.some.injEq] at hs
        subst hs
        exact ⟨h.unq, h.queried, h.pend⟩
    · split at hs
      · simp only [Option.some.injEq] at hs
        subst hs
        exact ⟨h.unq, h.queried, h.pend⟩
      · cases hs
    · cases hs

theorem Trav.Rep.exec {c : TravCfg} (evs : List TravEv) : ∀ (R : List Addr) (s s' : Trav), Trav.Rep R s →
    Trav.exec c s evs = some s' → Trav.Rep (R ++ evs.flatMap repOf) s' := by
  induction evs with
  | nil =>
    intro R s s' hp h
    simp only [Trav.exec, Option.some.injEq] at h
    subst h
    simpa using hp
  | cons e es ih =>
    intro R s s' hp h
    simp only [Trav.exec] at h
    cases hs : s.step c e with
    | none => simp [hs] at h
    | some s1 =>
      rw [hs] at h
      have := ih _ s1 s' (hp.step hs) h
      simpa [List.flatMap_cons, List.append_assoc] using this

theorem Trav.Rep.init : Trav.Rep [] {} :=
  ⟨(by intro n h; cases h), (by intro n h; cases h), (by intro n h; cases h)⟩

theorem nodup_length_le_of_subset {α : Type} : ∀ (l m : List α), l.Nodup → (∀ x ∈ l, x ∈ m) → l.length ≤ m.length := by
  intro l
  induction l with
  | nil => intro m _ _; simp
  | cons a l ih =>
    intro m hn hsub
    simp only [List.nodup_cons] at hn
    obtain ⟨m1, m2, rfl⟩ := List.append_of_mem (hsub a List.mem_cons_self)
    have := ih (m1 ++ m2) hn.2 (by
      intro x hx
      have hx' := hsub x (List.mem_cons_of_mem _ hx)
      have hne : x ≠ a := by intro e; subst e; exact hn.1 hx
      simp only [List.mem_append, List.mem_cons] at hx' ⊢
      rcases hx' with h | h | h
      · exact Or.inl h
      · exact absurd h hne
      · exact Or.inr h)
    simp only [List.length_append, List.length_cons] at this ⊢
    omega

end Dht
