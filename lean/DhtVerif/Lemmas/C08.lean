/- Helper lemmas for C08 (also used by C19 and the handler section of C10):
the method switch `dispatch` case by case, and the lifting of facts about it
through `handleQuery`, `processMsg` and `serveDatagram`. -/
import DhtVerif.Model.Server
namespace Dht

/-! ### Distinct method names -/

theorem str_ping_ne_get_peers : str "ping" ≠ str "get_peers" := by decide +kernel
theorem str_ping_ne_find_node : str "ping" ≠ str "find_node" := by decide +kernel
theorem str_ping_ne_announce_peer : str "ping" ≠ str "announce_peer" := by decide +kernel
theorem str_ping_ne_put : str "ping" ≠ str "put" := by decide +kernel
theorem str_ping_ne_get : str "ping" ≠ str "get" := by decide +kernel
theorem str_get_peers_ne_find_node : str "get_peers" ≠ str "find_node" := by decide +kernel
theorem str_get_peers_ne_announce_peer : str "get_peers" ≠ str "announce_peer" := by decide +kernel
theorem str_get_peers_ne_put : str "get_peers" ≠ str "put" := by decide +kernel
theorem str_get_peers_ne_get : str "get_peers" ≠ str "get" := by decide +kernel
theorem str_find_node_ne_announce_peer : str "find_node" ≠ str "announce_peer" := by decide +kernel
theorem str_find_node_ne_put : str "find_node" ≠ str "put" := by decide +kernel
theorem str_find_node_ne_get : str "find_node" ≠ str "get" := by decide +kernel
theorem str_announce_peer_ne_put : str "announce_peer" ≠ str "put" := by decide +kernel
theorem str_announce_peer_ne_get : str "announce_peer" ≠ str "get" := by decide +kernel
theorem str_put_ne_get : str "put" ≠ str "get" := by decide +kernel
theorem str_q_ne_r : str "q" ≠ str "r" := by decide +kernel

/-! ### `dispatch`, one method at a time -/

theorem dispatch_ping (c : SrvCfg) (mk : TokenFn) (s : Srv) (src : NAddr) (m : QMsg) (env : Env)
    (hq : m.q = str "ping") :
    dispatch c mk s src m env = ([mkReply c src m.t {}], []) := by
  simp [dispatch, hq]

/-- The reply record of `get_peers`. -/
def getPeersRet (c : SrvCfg) (mk : TokenFn) (s : Srv) (src : NAddr) (a : QArgs) : Ret :=
  let r : Ret := if c.hasPeerStore then
      { values := filterPeers src.ip a.want (peersFor s a.infoHash),
        token := some (createToken c mk s.ts.now src.ip) }
    else {}
  if r.values.isEmpty then setReturnNodes r a a.infoHash src.ip else r

theorem dispatch_get_peers (c : SrvCfg) (mk : TokenFn) (s : Srv) (src : NAddr) (m : QMsg) (env : Env)
    (hq : m.q = str "get_peers") :
    dispatch c mk s src m env =
      match m.a with
      | none => ([mkError src m.t Gen.errorCodeProtocolError], [])
      | some a => ([mkReply c src m.t (getPeersRet c mk s src a)], []) := by
  have h1 : str "get_peers" ≠ str "ping" := str_ping_ne_get_peers.symm
  simp only [dispatch, hq, beq_iff_eq, h1, if_false, if_true, getPeersRet]
  rfl

theorem dispatch_find_node (c : SrvCfg) (mk : TokenFn) (s : Srv) (src : NAddr) (m : QMsg) (env : Env)
    (hq : m.q = str "find_node") :
    dispatch c mk s src m env =
      match m.a with
      | none => ([mkError src m.t Gen.errorCodeProtocolError], [])
      | some a => ([mkReply c src m.t (setReturnNodes {} a a.target src.ip)], []) := by
  have h1 : str "find_node" ≠ str "ping" := str_ping_ne_find_node.symm
  have h2 : str "find_node" ≠ str "get_peers" := str_get_peers_ne_find_node.symm
  simp only [dispatch, hq, beq_iff_eq, h1, h2, if_false, if_true]
  cases m.a <;> rfl

/-- Port and "port is usable" flag of an announce. -/
def announcePort (src : NAddr) (a : QArgs) : Int × Bool :=
  if a.impliedPort then ((src.port : Int), true)
  else match a.port with
    | some p => (p, true)
    | none => (0, false)

def announceEffs (c : SrvCfg) (src : NAddr) (a : QArgs) : List Effect :=
  (if c.hasCallback then [Effect.announceCb a.infoHash src.ip (announcePort src a).1 (announcePort src a).2] else []) ++
  (if c.hasPeerStore then [Effect.addPeer ⟨a.infoHash, src.ip, (announcePort src a).1⟩] else [])

theorem dispatch_announce_peer (c : SrvCfg) (mk : TokenFn) (s : Srv) (src : NAddr) (m : QMsg) (env : Env)
    (hq : m.q = str "announce_peer") :
    dispatch c mk s src m env =
      match m.a with
      | none => ([mkError src m.t Gen.errorCodeProtocolError], [])
      | some a =>
        if validToken c mk s.ts.now src.ip a.token then ([mkReply c src m.t {}], announceEffs c src a)
        else ([], []) := by
  have h1 : str "announce_peer" ≠ str "ping" := str_ping_ne_announce_peer.symm
  have h2 : str "announce_peer" ≠ str "get_peers" := str_get_peers_ne_announce_peer.symm
  have h3 : str "announce_peer" ≠ str "find_node" := str_find_node_ne_announce_peer.symm
  simp only [dispatch, hq, beq_iff_eq, h1, h2, h3, if_false, if_true]
  cases m.a with
  | none => rfl
  | some a =>
    simp only [announceEffs, announcePort]
    cases validToken c mk s.ts.now src.ip a.token <;> simp
    split <;> rfl

theorem dispatch_put (c : SrvCfg) (mk : TokenFn) (s : Srv) (src : NAddr) (m : QMsg) (env : Env)
    (hq : m.q = str "put") :
    dispatch c mk s src m env =
      match m.a with
      | none => ([mkError src m.t Gen.errorCodeProtocolError], [])
      | some a =>
        if validToken c mk s.ts.now src.ip a.token then
          match a.seq with
          | none => ([mkError src m.t Gen.errorCodeProtocolError], [])
          | some _ =>
            match env.putErr with
            | none => ([mkReply c src m.t {}], [.storePut])
            | some (some code) => ([mkError src m.t code], [])
            | some none => ([mkError src m.t Gen.errorCodeMethodUnknown], [])
        else ([], []) := by
  have h1 : str "put" ≠ str "ping" := str_ping_ne_put.symm
  have h2 : str "put" ≠ str "get_peers" := str_get_peers_ne_put.symm
  have h3 : str "put" ≠ str "find_node" := str_find_node_ne_put.symm
  have h4 : str "put" ≠ str "announce_peer" := str_announce_peer_ne_put.symm
  simp only [dispatch, hq, beq_iff_eq, h1, h2, h3, h4, if_false, if_true]
  cases m.a with
  | none => rfl
  | some a =>
    by_cases hv : validToken c mk s.ts.now src.ip a.token = true
    · simp only [hv, Bool.not_true, if_true, Bool.false_eq_true, if_false]
      cases a.seq with
      | none => rfl
      | some _ => cases env.putErr with
        | none => rfl
        | some e => cases e <;> rfl
    · simp only [Bool.not_eq_true] at hv
      simp only [hv, Bool.not_false, if_true, Bool.false_eq_true, if_false]

/-- The reply record of `get` before the store answer is merged. -/
def getRet (c : SrvCfg) (mk : TokenFn) (s : Srv) (src : NAddr) (a : QArgs) : Ret :=
  { setReturnNodes {} a a.target src.ip with token := some (createToken c mk s.ts.now src.ip) }

theorem dispatch_get (c : SrvCfg) (mk : TokenFn) (s : Srv) (src : NAddr) (m : QMsg) (env : Env)
    (hq : m.q = str "get") :
    dispatch c mk s src m env =
      match m.a with
      | none => ([mkError src m.t Gen.errorCodeProtocolError], [])
      | some a =>
        match env.getErr with
        | some code => ([mkError src m.t code], [])
        | none =>
          match env.getRes with
          | none => ([mkReply c src m.t (getRet c mk s src a)], [])
          | some none => ([mkError src m.t Gen.errorCodeGenericError], [])
          | some (some (seq, _)) =>
            match a.seq with
            | some asked =>
              if seq ≤ asked then ([mkReply c src m.t { getRet c mk s src a with seq := some seq }], [])
              else ([mkReply c src m.t { getRet c mk s src a with seq := some seq, hasV := true }], [])
            | none => ([mkReply c src m.t { getRet c mk s src a with seq := some seq, hasV := true }], []) := by
  have h1 : str "get" ≠ str "ping" := str_ping_ne_get.symm
  have h2 : str "get" ≠ str "get_peers" := str_get_peers_ne_get.symm
  have h3 : str "get" ≠ str "find_node" := str_find_node_ne_get.symm
  have h4 : str "get" ≠ str "announce_peer" := str_announce_peer_ne_get.symm
  have h5 : str "get" ≠ str "put" := str_put_ne_get.symm
  simp only [dispatch, hq, beq_iff_eq, h1, h2, h3, h4, h5, if_false, if_true, getRet]
  cases m.a with
  | none => rfl
  | some a => cases env.getErr with
    | some code => rfl
    | none => cases env.getRes with
      | none => rfl
      | some g => cases g with
        | none => rfl
        | some g => cases g with
          | mk seq b => cases a.seq with
            | none => rfl
            | some asked => rfl

theorem dispatch_unknown (c : SrvCfg) (mk : TokenFn) (s : Srv) (src : NAddr) (m : QMsg) (env : Env)
    (h1 : m.q ≠ str "ping") (h2 : m.q ≠ str "get_peers") (h3 : m.q ≠ str "find_node")
    (h4 : m.q ≠ str "announce_peer") (h5 : m.q ≠ str "put") (h6 : m.q ≠ str "get") :
    dispatch c mk s src m env = ([mkError src m.t Gen.errorCodeMethodUnknown], []) := by
  simp only [dispatch, beq_iff_eq, h1, h2, h3, h4, h5, h6, if_false]

/-! ### Shape of what `dispatch` produces -/

/-- Nothing, one reply, or one error; always to `src`, echoing `t`. -/
def OutShape (c : SrvCfg) (src : NAddr) (t : List UInt8) (outs : List Out) : Prop :=
  outs = [] ∨ (∃ r, outs = [mkReply c src t r]) ∨ (∃ code, outs = [mkError src t code])

theorem OutShape.nil {c : SrvCfg} {src : NAddr} {t : List UInt8} : OutShape c src t [] := Or.inl rfl
theorem OutShape.reply {c : SrvCfg} {src : NAddr} {t : List UInt8} (r : Ret) :
    OutShape c src t [mkReply c src t r] := Or.inr (Or.inl ⟨r, rfl⟩)
theorem OutShape.error {c : SrvCfg} {src : NAddr} {t : List UInt8} (code : Nat) :
    OutShape c src t [mkError src t code] := Or.inr (Or.inr ⟨code, rfl⟩)

theorem OutShape.length_le_one {c : SrvCfg} {src : NAddr} {t : List UInt8} {outs : List Out}
    (h : OutShape c src t outs) : outs.length ≤ 1 := by
  rcases h with h | ⟨r, h⟩ | ⟨code, h⟩ <;> subst h <;> simp

theorem OutShape.dst_t {c : SrvCfg} {src : NAddr} {t : List UInt8} {outs : List Out}
    (h : OutShape c src t outs) : ∀ o ∈ outs, o.dst = src ∧ o.t = t := by
  rcases h with h | ⟨r, h⟩ | ⟨code, h⟩ <;> subst h <;> simp [mkReply, mkError]

theorem OutShape.reply_id_ip {c : SrvCfg} {src : NAddr} {t : List UInt8} {outs : List Out}
    (h : OutShape c src t outs) :
    ∀ o ∈ outs, ∀ r, o.kind = .reply r → o.id = some c.tbl.root ∧ o.ip = some src := by
  rcases h with h | ⟨r, h⟩ | ⟨code, h⟩ <;> subst h <;> simp [mkReply, mkError]

theorem dispatch_shape (c : SrvCfg) (mk : TokenFn) (s : Srv) (src : NAddr) (m : QMsg) (env : Env) :
    OutShape c src m.t (dispatch c mk s src m env).1 := by
  by_cases h1 : m.q = str "ping"
  · rw [dispatch_ping _ _ _ _ _ _ h1]; exact .reply _
  by_cases h2 : m.q = str "get_peers"
  · rw [dispatch_get_peers _ _ _ _ _ _ h2]
    cases m.a with
    | none => exact .error _
    | some a => exact .reply _
  by_cases h3 : m.q = str "find_node"
  · rw [dispatch_find_node _ _ _ _ _ _ h3]
    cases m.a with
    | none => exact .error _
    | some a => exact .reply _
  by_cases h4 : m.q = str "announce_peer"
  · rw [dispatch_announce_peer _ _ _ _ _ _ h4]
    cases m.a with
    | none => exact .error _
    | some a =>
      dsimp only
      split
      · exact .reply _
      · exact .nil
  by_cases h5 : m.q = str "put"
  · rw [dispatch_put _ _ _ _ _ _ h5]
    cases m.a with
    | none => exact .error _
    | some a =>
      dsimp only
      split
      · cases a.seq with
        | none => exact .error _
        | some _ => cases env.putErr with
          | none => exact .reply _
          | some e => cases e <;> exact .error _
      · exact .nil
  by_cases h6 : m.q = str "get"
  · rw [dispatch_get _ _ _ _ _ _ h6]
    cases m.a with
    | none => exact .error _
    | some a => cases env.getErr with
      | some code => exact .error _
      | none => cases env.getRes with
        | none => exact .reply _
        | some g => cases g with
          | none => exact .error _
          | some g => cases g with
            | mk seq b =>
              dsimp only
              split
              · split <;> exact .reply _
              · exact .reply _
  · rw [dispatch_unknown _ _ _ _ _ _ h1 h2 h3 h4 h5 h6]; exact .error _

/-! ### Lifting through `handleQuery`, `processMsg`, `serveDatagram` -/

/-- What `handleQuery` returns, in terms of `dispatch` on the state with the updated table. -/
theorem handleQuery_eq_some {c : SrvCfg} {mk : TokenFn} {s s' : Srv} {src : NAddr} {m : QMsg} {env : Env}
    {outs : List Out} {effs : List Effect}
    (h : handleQuery c mk s src m env = some (s', outs, effs)) :
    ∃ tbl', let s1 : Srv := { s with ts := { s.ts with table := tbl' } }
      (((c.hasHook = true ∧ env.hookPropagate = false) ∨ c.passive = true) ∧ s' = s1 ∧ outs = [] ∧ effs = []) ∨
      (((c.hasHook = false ∨ env.hookPropagate = true) ∧ c.passive = false) ∧
        s' = applyEffects s1 (dispatch c mk s1 src m env).2 ∧
        outs = (dispatch c mk s1 src m env).1 ∧ effs = (dispatch c mk s1 src m env).2) := by
  unfold handleQuery at h
  split at h
  · cases h
  · rename_i tbl' _ _
    refine ⟨tbl', ?_⟩
    dsimp only at h ⊢
    by_cases hh : c.hasHook = true ∧ env.hookPropagate = false
    · simp only [hh.1, hh.2, Bool.not_false, Bool.and_self, if_true, Option.some.injEq, Prod.mk.injEq] at h
      exact Or.inl ⟨Or.inl hh, h.1.symm, h.2.1.symm, h.2.2.symm⟩
    · have hh' : (c.hasHook && !env.hookPropagate) = false := by
        cases hk : c.hasHook <;> cases hp : env.hookPropagate <;> simp_all
      rw [hh'] at h
      simp only [Bool.false_eq_true, if_false] at h
      by_cases hp : c.passive = true
      · simp only [hp, if_true, Option.some.injEq, Prod.mk.injEq] at h
        exact Or.inl ⟨Or.inr hp, h.1.symm, h.2.1.symm, h.2.2.symm⟩
      · simp only [hp, Bool.false_eq_true, if_false, Option.some.injEq, Prod.mk.injEq] at h
        refine Or.inr ⟨⟨?_, by simpa using hp⟩, h.1.symm, h.2.1.symm, h.2.2.symm⟩
        cases hk : c.hasHook <;> cases hp : env.hookPropagate <;> simp_all

theorem handleQuery_shape {c : SrvCfg} {mk : TokenFn} {s s' : Srv} {src : NAddr} {m : QMsg} {env : Env}
    {outs : List Out} {effs : List Effect}
    (h : handleQuery c mk s src m env = some (s', outs, effs)) : OutShape c src m.t outs := by
  obtain ⟨tbl', h | h⟩ := handleQuery_eq_some h
  · rw [h.2.2.1]; exact .nil
  · rw [h.2.2.1]; exact dispatch_shape ..

/-- A non-query message produces no datagram. -/
theorem processMsg_non_query {c : SrvCfg} {mk : TokenFn} {s s' : Srv} {src : NAddr} {m : QMsg} {env : Env}
    {outs : List Out} {effs : List Effect} (hy : m.y ≠ str "q")
    (h : processMsg c mk s src m env = some (s', outs, effs)) : outs = [] := by
  unfold processMsg at h
  simp only [beq_iff_eq, hy, if_false] at h
  split at h
  · simp only [Option.some.injEq, Prod.mk.injEq] at h; exact h.2.1.symm
  · split at h
    · simp only [Option.some.injEq, Prod.mk.injEq] at h; exact h.2.1.symm
    · split at h
      · cases h
      · simp only [Option.some.injEq, Prod.mk.injEq] at h; exact h.2.1.symm

/-- `processMsg` on an open server and a query is `handleQuery`. -/
theorem processMsg_query {c : SrvCfg} {mk : TokenFn} {s : Srv} {src : NAddr} {m : QMsg} {env : Env}
    (hcl : s.closed = false) (hy : m.y = str "q") :
    processMsg c mk s src m env = handleQuery c mk s src m env := by
  simp [processMsg, hcl, hy]

theorem processMsg_closed {c : SrvCfg} {mk : TokenFn} {s : Srv} {src : NAddr} {m : QMsg} {env : Env}
    (hcl : s.closed = true) : processMsg c mk s src m env = some (s, [], []) := by
  simp [processMsg, hcl]

theorem processMsg_shape {c : SrvCfg} {mk : TokenFn} {s s' : Srv} {src : NAddr} {m : QMsg} {env : Env}
    {outs : List Out} {effs : List Effect}
    (h : processMsg c mk s src m env = some (s', outs, effs)) : OutShape c src m.t outs := by
  by_cases hcl : s.closed = true
  · rw [processMsg_closed hcl] at h
    simp only [Option.some.injEq, Prod.mk.injEq] at h
    rw [← h.2.1]; exact .nil
  · by_cases hy : m.y = str "q"
    · rw [processMsg_query (by simpa using hcl) hy] at h
      exact handleQuery_shape h
    · rw [processMsg_non_query hy h]; exact .nil

/-- `serveDatagram` either drops (nothing happens) or is `processMsg` on a decoded message. -/
theorem serveDatagram_eq_some {c : SrvCfg} {mk : TokenFn} {s s' : Srv} {src : NAddr} {size : Nat} {d : Decoded}
    {env : Env} {outs : List Out} {effs : List Effect}
    (h : serveDatagram c mk s src size d env = some (s', outs, effs)) :
    (s' = s ∧ outs = [] ∧ effs = []) ∨
    (∃ m, d = .msg m ∧ s.closed = false ∧ c.blocked src.ip = false ∧
      processMsg c mk s src m env = some (s', outs, effs)) := by
  unfold serveDatagram at h
  split at h
  · simp only [Option.some.injEq, Prod.mk.injEq] at h; exact Or.inl ⟨h.1.symm, h.2.1.symm, h.2.2.symm⟩
  split at h
  · simp only [Option.some.injEq, Prod.mk.injEq] at h; exact Or.inl ⟨h.1.symm, h.2.1.symm, h.2.2.symm⟩
  split at h
  · simp only [Option.some.injEq, Prod.mk.injEq] at h; exact Or.inl ⟨h.1.symm, h.2.1.symm, h.2.2.symm⟩
  split at h
  · simp only [Option.some.injEq, Prod.mk.injEq] at h; exact Or.inl ⟨h.1.symm, h.2.1.symm, h.2.2.symm⟩
  split at h
  · simp only [Option.some.injEq, Prod.mk.injEq] at h; exact Or.inl ⟨h.1.symm, h.2.1.symm, h.2.2.symm⟩
  · simp only [Option.some.injEq, Prod.mk.injEq] at h; exact Or.inl ⟨h.1.symm, h.2.1.symm, h.2.2.symm⟩
  · rename_i hc hb _ m
    exact Or.inr ⟨m, rfl, by simpa using hc, by simpa using hb, h⟩

/-- A query to an open, non-passive server whose hook does not veto: the result is `dispatch`
on the state with the updated table (same clock, peers, transactions). -/
theorem processMsg_active {c : SrvCfg} {mk : TokenFn} {s s' : Srv} {src : NAddr} {m : QMsg} {env : Env}
    {outs : List Out} {effs : List Effect}
    (hy : m.y = str "q") (hpass : c.passive = false)
    (hhook : c.hasHook = false ∨ env.hookPropagate = true) (hcl : s.closed = false)
    (h : processMsg c mk s src m env = some (s', outs, effs)) :
    ∃ tbl', let s1 : Srv := { s with ts := { s.ts with table := tbl' } }
      s' = applyEffects s1 (dispatch c mk s1 src m env).2 ∧
      outs = (dispatch c mk s1 src m env).1 ∧ effs = (dispatch c mk s1 src m env).2 := by
  rw [processMsg_query hcl hy] at h
  obtain ⟨tbl', h | h⟩ := handleQuery_eq_some h
  · exfalso
    rcases h.1 with ⟨h1, h2⟩ | h3
    · rcases hhook with h | h <;> simp_all
    · simp_all
  · exact ⟨tbl', h.2⟩

/-- Every method answers with exactly one datagram, the two write methods when the token is valid. -/
theorem dispatch_length_one (c : SrvCfg) (mk : TokenFn) (s : Srv) (src : NAddr) (m : QMsg) (env : Env)
    (htok : (m.q = str "announce_peer" ∨ m.q = str "put") →
      ∀ a, m.a = some a → validToken c mk s.ts.now src.ip a.token = true) :
    (dispatch c mk s src m env).1.length = 1 := by
  by_cases h1 : m.q = str "ping"
  · rw [dispatch_ping _ _ _ _ _ _ h1]; rfl
  by_cases h2 : m.q = str "get_peers"
  · rw [dispatch_get_peers _ _ _ _ _ _ h2]
    cases m.a <;> rfl
  by_cases h3 : m.q = str "find_node"
  · rw [dispatch_find_node _ _ _ _ _ _ h3]
    cases m.a <;> rfl
  by_cases h4 : m.q = str "announce_peer"
  · rw [dispatch_announce_peer _ _ _ _ _ _ h4]
    cases hm : m.a with
    | none => rfl
    | some a =>
      dsimp only
      rw [htok (Or.inl h4) a hm]
      rfl
  by_cases h5 : m.q = str "put"
  · rw [dispatch_put _ _ _ _ _ _ h5]
    cases hm : m.a with
    | none => rfl
    | some a =>
      dsimp only
      rw [htok (Or.inr h5) a hm]
      cases a.seq with
      | none => rfl
      | some _ => cases env.putErr with
        | none => rfl
        | some e => cases e <;> rfl
  by_cases h6 : m.q = str "get"
  · rw [dispatch_get _ _ _ _ _ _ h6]
    cases m.a with
    | none => rfl
    | some a => cases env.getErr with
      | some code => rfl
      | none => cases env.getRes with
        | none => rfl
        | some g => cases g with
          | none => rfl
          | some g => cases g with
            | mk seq b =>
              dsimp only
              split
              · split <;> rfl
              · rfl
  · rw [dispatch_unknown _ _ _ _ _ _ h1 h2 h3 h4 h5 h6]; rfl

end Dht
