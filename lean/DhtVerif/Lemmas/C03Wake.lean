/- Helper lemmas for C03: the no-lost-wake-up invariant of the run loop. -/
import DhtVerif.Lemmas.C03Inv
namespace Dht

def QPhase.isMid : QPhase → Bool
  | .closestDone _ => true
  | .nodesDone _ => true
  | .nodes6Done => true
  | _ => false

/-- Same as `midCompletion` of Props/C03. -/
def Trav.mid (s : Trav) : Bool := s.inflight.any (fun e => e.2.isMid)

/-- Same as `currentOffer` of Props/C03. -/
def Trav.curOffer (c : TravCfg) (s : Trav) : Bool := (!s.haveQuery c || c.alpha == 0) && s.outstanding == 0

theorem fst_unique (l : List (Addr × QPhase)) (hn : (l.map (·.1)).Nodup) (e e' : Addr × QPhase)
    (he : e ∈ l) (he' : e' ∈ l) (h : e.1 = e'.1) : e = e' := by
  induction l with
  | nil => cases he
  | cons x xs ih =>
    simp only [List.map_cons, List.nodup_cons] at hn
    rcases List.mem_cons.mp he with h1 | h1 <;> rcases List.mem_cons.mp he' with h2 | h2
    · rw [h1, h2]
    · exfalso; apply hn.1
      rw [← h1, h]; exact List.mem_map_of_mem (f := (·.1)) h2
    · exfalso; apply hn.1
      rw [← h2, ← h]; exact List.mem_map_of_mem (f := (·.1)) h1
    · exact ih hn.2 h1 h2

theorem any_congr_mem {α : Type} (l : List α) (p q : α → Bool) (h : ∀ a ∈ l, p a = q a) :
    l.any p = l.any q := by
  induction l with
  | nil => rfl
  | cons x xs ih =>
    simp only [List.any_cons]
    rw [h x List.mem_cons_self, ih (fun a ha => h a (List.mem_cons_of_mem _ ha))]

theorem any_setPhase_mid (l : List (Addr × QPhase)) (a : Addr) (q p : QPhase) (hm : (a, q) ∈ l)
    (hp : p.isMid = true) : (setPhase l a p).any (fun e => e.2.isMid) = true := by
  rw [List.any_eq_true]
  refine ⟨(a, p), ?_, hp⟩
  unfold setPhase
  rw [List.mem_map]
  exact ⟨(a, q), hm, by simp⟩

theorem any_setPhase_same (l : List (Addr × QPhase)) (a : Addr) (q p : QPhase)
    (hn : (l.map (·.1)).Nodup) (hm : (a, q) ∈ l) (hq : q.isMid = p.isMid) :
    (setPhase l a p).any (fun e => e.2.isMid) = l.any (fun e => e.2.isMid) := by
  unfold setPhase
  rw [List.any_map]
  apply any_congr_mem
  intro e he
  simp only [Function.comp]
  split
  · rename_i hea
    have : e = (a, q) := fst_unique l hn e (a, q) he hm (by simpa using hea)
    rw [this]; exact hq.symm
  · rfl

structure Trav.Wake (c : TravCfg) (s : Trav) : Prop where
  noEval : ∀ o, s.run ≠ .evaluated o
  cur : ∀ g offer, s.run = .sleeping g offer → s.gen = g → s.stopping = false → s.mid = false →
    offer = s.curOffer c ∧ (s.outstanding < c.alpha → s.haveQuery c = false)

theorem Trav.Wake.init (c : TravCfg) : Trav.Wake c {} :=
  ⟨(by intro o h; cases h), (by intro g o h; cases h)⟩

theorem Trav.Wake.addsTo {c : TravCfg} {ns : List Cand} {s s' : Trav} (hc : Trav.Core c s) (h : Trav.Wake c s)
    (A : Trav.AddsTo c ns s s') : Trav.Wake c s' := by
  refine ⟨(by rw [A.run]; exact h.noEval), ?_⟩
  intro g offer hr hg hst hm
  rw [A.run] at hr
  rw [A.stopping] at hst
  have hle := hc.runGen g offer hr
  have hge := A.gen_le
  have hgen : s'.gen = s.gen := by omega
  have hu := A.same hgen
  have hq := Trav.haveQuery_congr c s s' hu A.closest
  have hm' : s.mid = false := by
    unfold Trav.mid at hm ⊢; rw [A.inflight] at hm; exact hm
  have := h.cur g offer hr (by omega) hst hm'
  unfold Trav.curOffer at this ⊢
  rw [hq, A.outstanding]
  exact this

theorem Trav.Wake.step {c : TravCfg} (hsig : c.sigBeforeUnlock = true) {s s' : Trav} {e : TravEv}
    (hc : Trav.Core c s) (h : Trav.Wake c s) (hs : s.step c e = some s') : Trav.Wake c s' := by
  cases e with
  | addNodes ns =>
    simp only [Trav.step, Option.some.injEq] at hs
    subst hs
    exact h.addsTo hc (Trav.addNodes_addsTo c ns s)
  | runEval =>
    simp only [Trav.step] at hs
    split at hs
    · rename_i hr
      simp only [Option.some.injEq] at hs
      subst hs
      have hr' : s.run = .awake := by simpa using hr
      unfold Trav.runEval
      rw [hr']
      simp only [hsig, if_true]
      split
      · exact ⟨(by intro o hh; cases hh), (by intro g o hh; cases hh)⟩
      · refine ⟨(by intro o hh; cases hh), ?_⟩
        intro g offer hh hg _ _
        simp only [RunPhase.sleeping.injEq] at hh
        refine ⟨hh.2.symm, ?_⟩
        intro hlt
        have := Trav.startLoop_done c (s.unq.length + 1) s (Nat.lt_succ_self _)
        cases hq : Trav.haveQuery c (Trav.startLoop c (s.unq.length + 1) s)
        · exact hq
        · exact absurd ⟨hlt, hq⟩ this
    · cases hs
  | captureGen =>
    simp only [Trav.step, Trav.captureGen] at hs
    split at hs
    · rename_i o hr
      exact absurd hr (h.noEval o)
    · cases hs
  | runWake why =>
    simp only [Trav.step, Trav.runWake] at hs
    split at hs
    · cases why <;> simp only at hs <;> split at hs <;>
        first
        | (simp only [Option.some.injEq] at hs
           subst hs
           exact ⟨(by intro o hh; cases hh), (by intro g o hh; cases hh)⟩)
        | cases hs
    · cases hs
  | queryReturn a r =>
    simp only [Trav.step] at hs
    split at hs
    · rename_i hp
      simp only [Option.some.injEq] at hs
      subst hs
      have hm := phaseOf_mem _ _ _ (by simpa using hp)
      refine ⟨h.noEval, ?_⟩
      intro g offer hr hg hst hmid
      have : s.mid = false := by
        unfold Trav.mid at hmid ⊢
        rw [← any_setPhase_same s.inflight a .inDoQuery (.returned r) hc.inflight_nodup hm rfl]
        exact hmid
      exact h.cur g offer hr hg hst this
    · cases hs
  | addClosest a =>
    simp only [Trav.step] at hs
    split at hs
    · rename_i r hp
      simp only [Option.some.injEq] at hs
      subst hs
      have hm := phaseOf_mem _ _ _ hp
      have hmid := any_setPhase_mid s.inflight a _ (.closestDone r) hm rfl
      rcases Trav.addClosest_cases c s a r with e | ⟨cl, e⟩ <;> rw [e]
      · refine ⟨h.noEval, ?_⟩
        intro g offer _ _ _ hm'
        unfold Trav.mid at hm'
        rw [hmid] at hm'; cases hm'
      · refine ⟨h.noEval, ?_⟩
        intro g offer _ _ _ hm'
        unfold Trav.mid at hm'
        rw [hmid] at hm'; cases hm'
    · cases hs
  | addReplyNodes a =>
    simp only [Trav.step] at hs
    split at hs
    · rename_i r hp
      simp only [Option.some.injEq] at hs
      subst hs
      have hm := phaseOf_mem _ _ _ hp
      have hmid := any_setPhase_mid s.inflight a _ (.nodesDone r) hm rfl
      have A := Trav.addNodes_addsTo c r.nodes s
      refine ⟨(by intro o; show (s.addNodes c r.nodes).run ≠ _; rw [A.run]; exact h.noEval o), ?_⟩
      intro g offer _ _ _ hm'
      unfold Trav.mid at hm'
      rw [hmid] at hm'; cases hm'
    · cases hs
  | addReplyNodes6 a =>
    simp only [Trav.step] at hs
    split at hs
    · rename_i r hp
      simp only [Option.some.injEq] at hs
      subst hs
      have hm := phaseOf_mem _ _ _ hp
      have hmid := any_setPhase_mid s.inflight a _ .nodes6Done hm rfl
      have A := Trav.addNodes_addsTo c r.nodes6 s
      refine ⟨(by intro o; show (s.addNodes c r.nodes6).run ≠ _; rw [A.run]; exact h.noEval o), ?_⟩
      intro g offer _ _ _ hm'
      unfold Trav.mid at hm'
      rw [hmid] at hm'; cases hm'
    · cases hs
  | finish a =>
    simp only [Trav.step] at hs
    split at hs
    · simp only [Option.some.injEq] at hs
      subst hs
      refine ⟨h.noEval, ?_⟩
      intro g offer hr hg _ _
      have := hc.runGen g offer hr
      have hg' : s.gen + 1 = g := hg
      omega
    · cases hs
  | stop =>
    simp only [Trav.step] at hs
    split at hs
    · simp only [Option.some.injEq] at hs
      subst hs; exact h
    · simp only [Option.some.injEq] at hs
      subst hs
      refine ⟨h.noEval, ?_⟩
      intro g offer _ _ hst _
      cases hst
  | stopperStep =>
    simp only [Trav.step] at hs
    split at hs
    · split at hs <;>
      · simp only [Option.some.injEq] at hs
        subst hs
        exact ⟨h.noEval, fun g offer hr hg hst hm => h.cur g offer hr hg hst hm⟩
    · split at hs
      · simp only [Option.some.injEq] at hs
        subst hs
        exact ⟨h.noEval, fun g offer hr hg hst hm => h.cur g offer hr hg hst hm⟩
      · cases hs
    · cases hs

theorem Trav.Wake.exec {c : TravCfg} (hsig : c.sigBeforeUnlock = true) {evs : List TravEv} {s : Trav}
    (h : Trav.exec c {} evs = some s) : Trav.Wake c s :=
  (Trav.exec_inv (fun s => Trav.Core c s ∧ Trav.Wake c s)
    (fun _ _ _ hp hs => ⟨hp.1.step hs, hp.2.step hsig hp.1 hs⟩) evs {} s
    ⟨Trav.Core.init c, Trav.Wake.init c⟩ h).2

end Dht
