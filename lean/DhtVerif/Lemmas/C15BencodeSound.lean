/-
Lemmas for C15: the strict parser accepts only canonical encodings of well-formed values.
-/
import DhtVerif.Lemmas.C15Bencode
namespace Dht
namespace Benc

/-! ## Soundness: the strict parser accepts only canonical encodings -/

theorem spanDigits_spec (s : List UInt8) :
    s = (spanDigits s).1 ++ (spanDigits s).2 ∧ (∀ c ∈ (spanDigits s).1, isDigit c = true) := by
  induction s with
  | nil => simp [spanDigits]
  | cons c r ih =>
    unfold spanDigits
    by_cases h : isDigit c = true
    · simp only [h, if_true, List.cons_append, List.mem_cons]
      refine ⟨by rw [← ih.1], ?_⟩
      intro x hx
      cases hx with
      | inl hx => rw [hx]; exact h
      | inr hx => exact ih.2 x hx
    · simp [h]

theorem digit_of_isDigit (c : UInt8) (h : isDigit c = true) : digit (c.toNat - 48) = c := by
  simp only [isDigit, Bool.and_eq_true, decide_eq_true_eq] at h
  apply UInt8.toNat_inj.mp
  rw [digit_toNat]
  omega

theorem digitsToNat_nil : digitsToNat [] = 0 := rfl

theorem digitsToNat_pos (c : UInt8) (t : List UInt8) (hc : isDigit c = true) (h0 : c ≠ cZero) :
    0 < digitsToNat (c :: t) := by
  have key : ∀ (t : List UInt8) (a : Nat), 0 < a → 0 < t.foldl (fun a d => a * 10 + (d.toNat - 48)) a := by
    intro t
    induction t with
    | nil => intro a ha; exact ha
    | cons d t ih => intro a ha; exact ih (a * 10 + (d.toNat - 48)) (by omega)
  simp only [digitsToNat, List.foldl_cons]
  apply key
  simp only [isDigit, Bool.and_eq_true, decide_eq_true_eq] at hc
  have : c.toNat ≠ 48 := fun h => h0 (UInt8.toNat_inj.mp (by rw [h]; rfl))
  omega

theorem snoc_induction {α : Type} {P : List α → Prop} (hnil : P [])
    (hsnoc : ∀ init d, P init → P (init ++ [d])) : ∀ l, P l := by
  intro l
  rw [← List.reverse_reverse l]
  induction l.reverse with
  | nil => exact hnil
  | cons d t ih => rw [List.reverse_cons]; exact hsnoc _ _ ih

/-- Canonical digit strings are exactly what the printer produces. -/
theorem natDigits_digitsToNat (ds : List UInt8) (hd : ∀ c ∈ ds, isDigit c = true)
    (hc : canonDigits ds = true) : natDigits (digitsToNat ds) = ds := by
  revert hd hc
  refine snoc_induction (P := fun ds => (∀ c ∈ ds, isDigit c = true) → canonDigits ds = true →
    natDigits (digitsToNat ds) = ds) ?_ ?_ ds
  · intro _ hc; simp [canonDigits] at hc
  · intro init d ih hd hc
    have hdd : isDigit d = true := hd d (by simp)
    have hdv : d.toNat - 48 < 10 := by
      simp only [isDigit, Bool.and_eq_true, decide_eq_true_eq] at hdd; omega
    rw [digitsToNat_append]
    cases init with
    | nil =>
      simp only [digitsToNat_nil, Nat.zero_mul, Nat.zero_add, List.nil_append]
      rw [natDigits_lt hdv, digit_of_isDigit d hdd]
    | cons c t =>
      have hcd : isDigit c = true := hd c (by simp)
      have hc0 : c ≠ cZero := by
        cases t with
        | nil => simpa [canonDigits] using hc
        | cons _ _ => simpa [canonDigits] using hc
      have hpos := digitsToNat_pos c t hcd hc0
      have hinit : canonDigits (c :: t) = true := by
        cases t with
        | nil => rfl
        | cons _ _ => simp [canonDigits, hc0]
      have ih' := ih (fun x hx => hd x (by simp at hx ⊢; cases hx with
        | inl h => exact Or.inl h
        | inr h => exact Or.inr (Or.inl h))) hinit
      have hge : ¬ digitsToNat (c :: t) * 10 + (d.toNat - 48) < 10 := by omega
      rw [natDigits_ge hge]
      have h1 : (digitsToNat (c :: t) * 10 + (d.toNat - 48)) / 10 = digitsToNat (c :: t) := by omega
      have h2 : digit (digitsToNat (c :: t) * 10 + (d.toNat - 48)) = d := by
        have : digit (digitsToNat (c :: t) * 10 + (d.toNat - 48)) = digit (d.toNat - 48) := by
          unfold digit
          congr 2
          omega
        rw [this, digit_of_isDigit d hdd]
      rw [h1, h2, ih']

theorem decBytes_sound (s b rest : List UInt8) (h : decBytes s = some (b, rest)) :
    s = encBytes b ++ rest := by
  unfold decBytes at h
  obtain ⟨hs, hd⟩ := spanDigits_spec s
  generalize spanDigits s = p at h hs hd
  obtain ⟨ds, r⟩ := p
  simp only at h hs hd
  cases r with
  | nil => simp at h
  | cons c r' =>
    simp only at h
    by_cases hcanon : canonDigits ds = true
    · by_cases hcol : c = cColon
      · by_cases hn : (r'.take (digitsToNat ds)).length = digitsToNat ds
        · simp only [hcanon, hcol, hn, if_true, Option.some.injEq, Prod.mk.injEq] at h
          obtain ⟨rfl, rfl⟩ := h
          have hlen := hn
          rw [hs, hcol]
          unfold encBytes
          rw [hlen, natDigits_digitsToNat ds hd hcanon]
          simp [List.take_append_drop]
        · simp only [hcanon, hcol, hn, if_true, if_false] at h
          cases h
      · simp [hcanon, hcol] at h
    · simp [hcanon] at h

theorem decInt_sound (s : List UInt8) (v : BV) (rest : List UInt8) (h : decInt s = some (v, rest)) :
    ∃ i, v = .int i ∧ s = intDigits i ++ cE :: rest := by
  unfold decInt at h
  cases s with
  | nil => simp at h
  | cons c r =>
    simp only at h
    by_cases hminus : c = cMinus
    · simp only [hminus, if_true] at h
      obtain ⟨hs, hd⟩ := spanDigits_spec r
      generalize spanDigits r = p at h hs hd
      obtain ⟨ds, r2⟩ := p
      simp only at h hs hd
      by_cases hok : negDigitsOk ds = true
      · simp only [hok, if_true] at h
        cases r2 with
        | nil => simp at h
        | cons e rest' =>
          simp only at h
          by_cases he : e = cE
          · simp only [he, if_true, Option.some.injEq, Prod.mk.injEq] at h
            obtain ⟨rfl, rfl⟩ := h
            cases ds with
            | nil => simp [negDigitsOk] at hok
            | cons d t =>
              have hdd : isDigit d = true := hd d (by simp)
              have hd0 : d ≠ cZero := by simpa [negDigitsOk] using hok
              have hpos := digitsToNat_pos d t hdd hd0
              have hcanon : canonDigits (d :: t) = true := by
                cases t with
                | nil => rfl
                | cons _ _ => simp [canonDigits, hd0]
              refine ⟨-(digitsToNat (d :: t) : Int), rfl, ?_⟩
              obtain ⟨n, hn⟩ : ∃ n, digitsToNat (d :: t) = n + 1 := ⟨digitsToNat (d :: t) - 1, by omega⟩
              have hneg : -((n + 1 : Nat) : Int) = Int.negSucc n := rfl
              rw [hminus, hs, he, hn, hneg]
              simp only [intDigits]
              rw [← hn, natDigits_digitsToNat (d :: t) hd hcanon]
              simp
          · simp [he] at h
      · simp [hok] at h
    · simp only [hminus, if_false] at h
      obtain ⟨hs, hd⟩ := spanDigits_spec (c :: r)
      generalize spanDigits (c :: r) = p at h hs hd
      obtain ⟨ds, r2⟩ := p
      simp only at h hs hd
      by_cases hcanon : canonDigits ds = true
      · simp only [hcanon, if_true] at h
        cases r2 with
        | nil => simp at h
        | cons e rest' =>
          simp only at h
          by_cases he : e = cE
          · simp only [he, if_true, Option.some.injEq, Prod.mk.injEq] at h
            obtain ⟨rfl, rfl⟩ := h
            refine ⟨(digitsToNat ds : Int), rfl, ?_⟩
            have hcast : intDigits ((digitsToNat ds : Nat) : Int) = natDigits (digitsToNat ds) := rfl
            rw [hs, he, hcast, natDigits_digitsToNat ds hd hcanon]
          · simp [he] at h
      · simp [hcanon] at h

theorem bytesLt_trans : ∀ (a b c : List UInt8), bytesLt a b = true → bytesLt b c = true → bytesLt a c = true
  | _, _, [], _, h2 => by
    rename_i b _
    cases b <;> simp [bytesLt] at h2
  | [], _, _ :: _, _, _ => by simp [bytesLt]
  | _ :: _, [], _ :: _, h1, _ => by simp [bytesLt] at h1
  | x :: as, y :: bs, z :: cs, h1, h2 => by
    simp only [bytesLt] at h1 h2 ⊢
    by_cases hxy : x.toNat < y.toNat
    · by_cases hyz : y.toNat < z.toNat
      · have : x.toNat < z.toNat := by omega
        simp [this]
      · simp only [hyz, if_false] at h2
        by_cases hyz' : y = z
        · subst hyz'; simp [hxy]
        · simp [hyz'] at h2
    · simp only [hxy, if_false] at h1
      by_cases hxy' : x = y
      · subst hxy'
        simp only [if_true] at h1
        by_cases hyz : x.toNat < z.toNat
        · simp [hyz]
        · simp only [hyz, if_false] at h2 ⊢
          by_cases hxz : x = z
          · subst hxz
            simp only [if_true] at h2 ⊢
            exact bytesLt_trans as bs cs h1 h2
          · simp [hxz] at h2
      · simp [hxy'] at h1

/-- Each key greater than the one before it (what the parser checks). -/
def keysChain : Option (List UInt8) → List (List UInt8) → Bool
  | _, [] => true
  | prev, k :: ks => keyAfter prev k && keysChain (some k) ks

theorem keysChain_sorted (k : List UInt8) (ks : List (List UInt8)) (h : keysChain (some k) ks = true) :
    ks.all (bytesLt k) = true ∧ keysSorted ks = true := by
  induction ks generalizing k with
  | nil => exact ⟨rfl, rfl⟩
  | cons k' t ih =>
    simp only [keysChain, keyAfter, Bool.and_eq_true] at h
    obtain ⟨h1, h2⟩ := ih k' h.2
    simp only [List.all_cons, keysSorted, Bool.and_eq_true, List.all_eq_true] at h1 ⊢
    exact ⟨⟨h.1, fun x hx => bytesLt_trans k k' x h.1 (h1 x hx)⟩, ⟨h1, h2⟩⟩

theorem keysChain_none_sorted (ks : List (List UInt8)) (h : keysChain none ks = true) :
    keysSorted ks = true := by
  cases ks with
  | nil => rfl
  | cons k t =>
    simp only [keysChain, keyAfter, Bool.true_and] at h
    have := keysChain_sorted k t h
    simp only [keysSorted, Bool.and_eq_true]
    exact this

theorem dec_sound_all (f : Nat) :
    (∀ bs v rest, dec f bs = some (v, rest) → bs = enc v ++ rest ∧ wf v = true) ∧
    (∀ bs l rest, decList f bs = some (l, rest) → bs = encList l ++ rest ∧ wfList l = true) ∧
    (∀ prev bs d rest, decDict f prev bs = some (d, rest) →
      bs = encDict d ++ rest ∧ wfVals d = true ∧ keysChain prev (d.map Prod.fst) = true) := by
  induction f with
  | zero =>
    refine ⟨?_, ?_, ?_⟩
    · intro bs v rest h; simp [dec] at h
    · intro bs l rest h; simp [decList] at h
    · intro prev bs d rest h; simp [decDict] at h
  | succ f ih =>
    obtain ⟨ihv, ihl, ihd⟩ := ih
    refine ⟨?_, ?_, ?_⟩
    · intro bs v rest h
      cases bs with
      | nil => simp [dec] at h
      | cons c r =>
        simp only [dec] at h
        by_cases hi : c = cI
        · simp only [hi, if_true] at h
          obtain ⟨i, rfl, hr⟩ := decInt_sound r v rest h
          exact ⟨by rw [hi, hr]; simp [enc], rfl⟩
        · simp only [hi, if_false] at h
          by_cases hl : c = cL
          · simp only [hl, if_true] at h
            cases hdl : decList f r with
            | none => simp [hdl] at h
            | some p =>
              obtain ⟨l, rest'⟩ := p
              simp only [hdl, Option.some.injEq, Prod.mk.injEq] at h
              obtain ⟨rfl, rfl⟩ := h
              obtain ⟨h1, h2⟩ := ihl r l rest' hdl
              exact ⟨by rw [hl, h1]; simp [enc], by simpa [wf] using h2⟩
          · simp only [hl, if_false] at h
            by_cases hd : c = cD
            · simp only [hd, if_true] at h
              cases hdd : decDict f none r with
              | none => simp [hdd] at h
              | some p =>
                obtain ⟨d, rest'⟩ := p
                simp only [hdd, Option.some.injEq, Prod.mk.injEq] at h
                obtain ⟨rfl, rfl⟩ := h
                obtain ⟨h1, h2, h3⟩ := ihd none r d rest' hdd
                exact ⟨by rw [hd, h1]; simp [enc], by simp [wf, h2, keysChain_none_sorted _ h3]⟩
            · simp only [hd, if_false] at h
              by_cases hdig : isDigit c = true
              · simp only [hdig, if_true] at h
                cases hdb : decBytes (c :: r) with
                | none => simp [hdb] at h
                | some p =>
                  obtain ⟨b, rest'⟩ := p
                  simp only [hdb, Option.some.injEq, Prod.mk.injEq] at h
                  obtain ⟨rfl, rfl⟩ := h
                  exact ⟨by rw [decBytes_sound _ _ _ hdb]; simp [enc], rfl⟩
              · simp [hdig] at h
    · intro bs l rest h
      cases bs with
      | nil => simp [decList] at h
      | cons c r =>
        simp only [decList] at h
        by_cases he : c = cE
        · simp only [he, if_true, Option.some.injEq, Prod.mk.injEq] at h
          obtain ⟨rfl, rfl⟩ := h
          exact ⟨by rw [he]; simp [encList], rfl⟩
        · simp only [he, if_false] at h
          cases hdv : dec f (c :: r) with
          | none => simp [hdv] at h
          | some p =>
            obtain ⟨v, rest1⟩ := p
            simp only [hdv] at h
            cases hdl : decList f rest1 with
            | none => simp [hdl] at h
            | some q =>
              obtain ⟨vs, rest2⟩ := q
              simp only [hdl, Option.some.injEq, Prod.mk.injEq] at h
              obtain ⟨rfl, rfl⟩ := h
              obtain ⟨h1, h2⟩ := ihv _ v rest1 hdv
              obtain ⟨h3, h4⟩ := ihl rest1 vs rest2 hdl
              exact ⟨by rw [h1, h3]; simp [encList], by simp [wfList, h2, h4]⟩
    · intro prev bs d rest h
      cases bs with
      | nil => simp [decDict] at h
      | cons c r =>
        simp only [decDict] at h
        by_cases he : c = cE
        · simp only [he, if_true, Option.some.injEq, Prod.mk.injEq] at h
          obtain ⟨rfl, rfl⟩ := h
          exact ⟨by rw [he]; simp [encDict], rfl, rfl⟩
        · simp only [he, if_false] at h
          by_cases hdig : isDigit c = true
          · simp only [hdig, if_true] at h
            cases hdb : decBytes (c :: r) with
            | none => simp [hdb] at h
            | some p =>
              obtain ⟨k, rest1⟩ := p
              simp only [hdb] at h
              by_cases hka : keyAfter prev k = true
              · simp only [hka, if_true] at h
                cases hdv : dec f rest1 with
                | none => simp [hdv] at h
                | some q =>
                  obtain ⟨v, rest2⟩ := q
                  simp only [hdv] at h
                  cases hdd : decDict f (some k) rest2 with
                  | none => simp [hdd] at h
                  | some q2 =>
                    obtain ⟨kvs, rest3⟩ := q2
                    simp only [hdd, Option.some.injEq, Prod.mk.injEq] at h
                    obtain ⟨rfl, rfl⟩ := h
                    obtain ⟨h1, h2⟩ := ihv rest1 v rest2 hdv
                    obtain ⟨h3, h4, h5⟩ := ihd (some k) rest2 kvs rest3 hdd
                    refine ⟨?_, by simp [wfVals, h2, h4], by simp [keysChain, hka, h5]⟩
                    rw [decBytes_sound _ _ _ hdb, h1, h3]
                    simp [encDict]
              · simp [hka] at h
          · simp [hdig] at h

/-- The strict parser accepts only canonical encodings of well-formed values. -/
theorem dec_sound (f : Nat) (bs : List UInt8) (v : BV) (rest : List UInt8)
    (h : dec f bs = some (v, rest)) : bs = enc v ++ rest ∧ wf v = true :=
  (dec_sound_all f).1 bs v rest h

end Benc
end Dht
