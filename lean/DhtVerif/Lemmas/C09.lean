/- Helper lemmas for C09. -/
import DhtVerif.Model.Table
namespace Dht
namespace C09L

/-! ### Pure list facts -/

/-- Pigeonhole: a duplicate-free list drawn from `l₂` that is at least as long as `l₂` covers `l₂`. -/
theorem subset_of_nodup_of_length_le {α} [DecidableEq α] :
    ∀ (l₁ l₂ : List α), l₁.Nodup → (∀ x ∈ l₁, x ∈ l₂) → l₂.length ≤ l₁.length → ∀ x ∈ l₂, x ∈ l₁
  | [], l₂, _, _, hlen, x, hx => by
    have : l₂ = [] := List.eq_nil_of_length_eq_zero (by simpa using hlen)
    subst this; exact hx
  | a :: l₁, l₂, hnd, hsub, hlen, x, hx => by
    have ha : a ∈ l₂ := hsub a (by simp)
    have hnd' := List.nodup_cons.mp hnd
    have hsub' : ∀ y ∈ l₁, y ∈ l₂.erase a := by
      intro y hy
      have hne : y ≠ a := by
        intro h; subst h; exact hnd'.1 hy
      exact (List.mem_erase_of_ne hne).mpr (hsub y (by simp [hy]))
    have hlen' : (l₂.erase a).length ≤ l₁.length := by
      rw [List.length_erase_of_mem ha]
      simp at hlen; omega
    have ih := subset_of_nodup_of_length_le l₁ (l₂.erase a) hnd'.2 hsub' hlen'
    by_cases hxa : x = a
    · simp [hxa]
    · exact List.mem_cons_of_mem _ (ih x ((List.mem_erase_of_ne hxa).mpr hx))

theorem all_contains_iff {α} [DecidableEq α] (l el : List α) :
    l.all el.contains = true ↔ ∀ x ∈ l, x ∈ el := by
  simp [List.all_eq_true]

/-! ### Eligible entries -/

theorem mem_eligible {c : TableCfg} {now : Nat} {t : Table} {fam : Node → Bool} {i : Nat} {m : Node} :
    m ∈ eligible c now t fam i ↔ m ∈ t ∧ m.bucket c = some i ∧ isGood c now m = true ∧ fam m = true := by
  simp only [eligible, bucketNodes, List.mem_filter, beq_iff_eq, Bool.and_eq_true]
  exact ⟨fun h => ⟨h.1.1, h.1.2, h.2.1, h.2.2⟩, fun h => ⟨⟨h.1, h.2.1⟩, h.2.2.1, h.2.2.2⟩⟩

theorem eligible_bucket {c : TableCfg} {now : Nat} {t : Table} {fam : Node → Bool} {i : Nat} {m : Node}
    (h : m ∈ eligible c now t fam i) : m.bucket c = some i := (mem_eligible.mp h).2.1

theorem eligible_nodup (c : TableCfg) (now : Nat) (t : Table) (fam : Node → Bool) (i : Nat)
    (hnd : t.Nodup) : (eligible c now t fam i).Nodup := by
  unfold eligible bucketNodes
  exact (hnd.sublist List.filter_sublist).sublist List.filter_sublist

theorem isGood_facts {c : TableCfg} {now : Nat} {n : Node} (h : isGood c now n = true) :
    n.lastResp.isSome = true ∧ n.id ≠ c.root := by
  unfold isGood isBad at h
  simp only [Bool.and_eq_true, Bool.not_eq_true', Bool.or_eq_false_iff, Bool.or_eq_true] at h
  refine ⟨?_, ?_⟩
  · rcases h.2 with h2 | h2
    · cases hr : n.lastResp with
      | none => rw [hr] at h2; simp [recent] at h2
      | some _ => rfl
    · exact h2.1
  · intro heq
    have := h.1.1.1.1
    simp [heq] at this

/-! ### The walk -/

section
variable (c : TableCfg) (now : Nat) (t : Table) (fam : Node → Bool) (k : Nat)

theorem walk_zero (got : Nat) (rest : List Node) :
    walkAllowed c now t fam k 0 got rest =
      if got ≥ k then rest.isEmpty else
        (rest.length == min (k - got) (eligible c now t fam 0).length &&
          rest.all (eligible c now t fam 0).contains && decide rest.Nodup) := by
  simp [walkAllowed]

theorem walk_succ (i got : Nat) (rest : List Node) :
    walkAllowed c now t fam k (i + 1) got rest =
      if got ≥ k then rest.isEmpty else
        if got + (eligible c now t fam (i + 1)).length ≥ k then
          (rest.length == k - got && rest.all (eligible c now t fam (i + 1)).contains && decide rest.Nodup)
        else
          ((rest.take (eligible c now t fam (i + 1)).length).length == (eligible c now t fam (i + 1)).length &&
            (rest.take (eligible c now t fam (i + 1)).length).all (eligible c now t fam (i + 1)).contains &&
            decide (rest.take (eligible c now t fam (i + 1)).length).Nodup &&
            walkAllowed c now t fam k i (got + (eligible c now t fam (i + 1)).length)
              (rest.drop (eligible c now t fam (i + 1)).length)) := by
  simp [walkAllowed]

/-- Case analysis of an accepted walk, in `Prop` form. -/
inductive Step (i got : Nat) (rest : List Node) : Prop
  | full (h : k ≤ got) (hr : rest = [])
  /-- last bucket visited (quota filled here, or bucket 0) -/
  | last (hlt : got < k) (hlen : rest.length = min (k - got) (eligible c now t fam i).length)
      (hsub : ∀ x ∈ rest, x ∈ eligible c now t fam i) (hnd : rest.Nodup)
      (hz : i = 0 ∨ k ≤ got + (eligible c now t fam i).length)
  /-- whole bucket, then continue below -/
  | more (j : Nat) (hi : i = j + 1) (hlt : got + (eligible c now t fam i).length < k)
      (here below : List Node) (hrest : rest = here ++ below)
      (hlen : here.length = (eligible c now t fam i).length)
      (hsub : ∀ x ∈ here, x ∈ eligible c now t fam i) (hnd : here.Nodup)
      (hrec : walkAllowed c now t fam k j (got + (eligible c now t fam i).length) below = true)

theorem step_of_walk (i got : Nat) (rest : List Node)
    (h : walkAllowed c now t fam k i got rest = true) : Step c now t fam k i got rest := by
  cases i with
  | zero =>
    rw [walk_zero] at h
    split at h
    · exact .full (by omega) (by simpa using h)
    · simp only [Bool.and_eq_true, beq_iff_eq, decide_eq_true_eq] at h
      exact .last (by omega) h.1.1 ((all_contains_iff _ _).mp h.1.2) h.2 (Or.inl rfl)
  | succ j =>
    rw [walk_succ] at h
    split at h
    · exact .full (by omega) (by simpa using h)
    · split at h
      · simp only [Bool.and_eq_true, beq_iff_eq, decide_eq_true_eq] at h
        refine .last (by omega) ?_ ((all_contains_iff _ _).mp h.1.2) h.2 (Or.inr (by omega))
        rw [h.1.1]; omega
      · simp only [Bool.and_eq_true, beq_iff_eq, decide_eq_true_eq] at h
        exact .more j rfl (by omega) _ _ (List.take_append_drop _ _).symm h.1.1.1
          ((all_contains_iff _ _).mp h.1.1.2) h.1.2 h.2

/-- Everything an accepted walk explains: bounded, duplicate-free, eligible in a visited bucket. -/
theorem walk_sound : ∀ (i got : Nat) (rest : List Node),
    walkAllowed c now t fam k i got rest = true → got ≤ k →
    got + rest.length ≤ k ∧ rest.Nodup ∧ ∀ n ∈ rest, ∃ j, j ≤ i ∧ n ∈ eligible c now t fam j := by
  intro i
  induction i with
  | zero =>
    intro got rest h hgk
    cases step_of_walk c now t fam k 0 got rest h with
    | full hk hr => subst hr; simp; omega
    | last hlt hlen hsub hnd _ =>
      exact ⟨by omega, hnd, fun n hn => ⟨0, Nat.le_refl _, hsub n hn⟩⟩
    | more j hi => omega
  | succ i ih =>
    intro got rest h hgk
    cases step_of_walk c now t fam k (i + 1) got rest h with
    | full hk hr => subst hr; simp; omega
    | last hlt hlen hsub hnd _ =>
      exact ⟨by omega, hnd, fun n hn => ⟨i + 1, Nat.le_refl _, hsub n hn⟩⟩
    | more j hi hlt here below hrest hlen hsub hnd hrec =>
      have hj : i = j := by omega
      subst hj
      obtain ⟨h1, h2, h3⟩ := ih _ _ hrec (by omega)
      subst hrest
      refine ⟨by simp; omega, ?_, ?_⟩
      · rw [List.nodup_append]
        refine ⟨hnd, h2, ?_⟩
        intro a ha b hb hab
        subst hab
        obtain ⟨j, hj, hm⟩ := h3 a hb
        have e1 := eligible_bucket (hsub a ha)
        have e2 := eligible_bucket hm
        rw [e1] at e2
        simp at e2; omega
      · intro n hn
        rcases List.mem_append.mp hn with hn | hn
        · exact ⟨i + 1, Nat.le_refl _, hsub n hn⟩
        · obtain ⟨j, hj, hm⟩ := h3 n hn
          exact ⟨j, by omega, hm⟩

/-- Bucket priority, generalised over the walk state. -/
theorem walk_priority : ∀ (s got : Nat) (rest : List Node),
    walkAllowed c now t fam k s got rest = true →
    ∀ (n : Node), n ∈ rest → ∀ j, n.bucket c = some j → ∀ i, j < i → i ≤ s →
    ∀ m ∈ eligible c now t fam i, m ∈ rest := by
  intro s
  induction s with
  | zero => intro got rest _ n _ j _ i hji hi; omega
  | succ s ih =>
    intro got rest h n hn j hj i hji hi m hm
    cases step_of_walk c now t fam k (s + 1) got rest h with
    | full hk hr => subst hr; simp at hn
    | last hlt hlen hsub hnd _ =>
      have := eligible_bucket (hsub n hn)
      rw [hj] at this; simp at this; omega
    | more j' hi' hlt here below hrest hlen hsub hnd hrec =>
      have hj' : j' = s := by omega
      subst hj' hrest
      rcases List.mem_append.mp hn with hn | hn
      · have := eligible_bucket (hsub n hn)
        rw [hj] at this; simp at this; omega
      · by_cases his : i = j' + 1
        · subst his
          exact List.mem_append_left _
            (subset_of_nodup_of_length_le here _ hnd hsub (by omega) m hm)
        · exact List.mem_append_right _ (ih _ _ hrec n hn j hj i hji (by omega) m hm)

/-- A short result means every visited bucket was taken whole. -/
theorem walk_short : ∀ (s got : Nat) (rest : List Node),
    walkAllowed c now t fam k s got rest = true → got + rest.length < k →
    ∀ i, i ≤ s → ∀ m ∈ eligible c now t fam i, m ∈ rest := by
  intro s
  induction s with
  | zero =>
    intro got rest h hshort i hi m hm
    have hi0 : i = 0 := by omega
    subst hi0
    cases step_of_walk c now t fam k 0 got rest h with
    | full hk hr => omega
    | last hlt hlen hsub hnd _ =>
      exact subset_of_nodup_of_length_le rest _ hnd hsub (by omega) m hm
    | more j hi => omega
  | succ s ih =>
    intro got rest h hshort i hi m hm
    cases step_of_walk c now t fam k (s + 1) got rest h with
    | full hk hr => omega
    | last hlt hlen hsub hnd hz =>
      rcases hz with hz | hz
      · omega
      · omega
    | more j' hi' hlt here below hrest hlen hsub hnd hrec =>
      have hj' : j' = s := by omega
      subst hj' hrest
      by_cases his : i = j' + 1
      · subst his
        exact List.mem_append_left _
          (subset_of_nodup_of_length_le here _ hnd hsub (by omega) m hm)
      · exact List.mem_append_right _
          (ih _ _ hrec (by simp at hshort; omega) i (by omega) m hm)

/-! ### The deterministic walk -/

theorem walkDet_full (i : Nat) (acc : List Node) (h : k ≤ acc.length) :
    walkDet c now t fam k i acc = acc.take k := by
  cases i <;> simp [walkDet, h]

theorem walkAllowed_full (i got : Nat) (h : k ≤ got) :
    walkAllowed c now t fam k i got [] = true := by
  cases i <;> simp [walkAllowed, h]

theorem walkDet_spec (hnd : t.Nodup) : ∀ (i : Nat) (acc : List Node), acc.length ≤ k →
    ∃ r, walkDet c now t fam k i acc = acc ++ r ∧ walkAllowed c now t fam k i acc.length r = true := by
  intro i
  induction i with
  | zero =>
    intro acc hacc
    by_cases hk : k ≤ acc.length
    · refine ⟨[], ?_, walkAllowed_full c now t fam k 0 _ hk⟩
      rw [walkDet_full c now t fam k 0 acc hk, List.take_of_length_le (by omega)]; simp
    · refine ⟨(eligible c now t fam 0).take (k - acc.length), ?_, ?_⟩
      · simp only [walkDet, ge_iff_le, hk, if_false]
        rw [List.take_append, List.take_of_length_le (by omega)]
      · rw [walk_zero]
        simp only [ge_iff_le, hk, if_false, Bool.and_eq_true, beq_iff_eq, decide_eq_true_eq]
        refine ⟨⟨by simp, ?_⟩, ?_⟩
        · exact (all_contains_iff _ _).mpr (fun x hx => List.mem_of_mem_take hx)
        · exact (eligible_nodup c now t fam 0 hnd).sublist (List.take_sublist _ _)
  | succ i ih =>
    intro acc hacc
    by_cases hk : k ≤ acc.length
    · refine ⟨[], ?_, walkAllowed_full c now t fam k _ _ hk⟩
      rw [walkDet_full c now t fam k _ acc hk, List.take_of_length_le (by omega)]; simp
    · have hunf : walkDet c now t fam k (i + 1) acc =
          walkDet c now t fam k i (acc ++ eligible c now t fam (i + 1)) := by
        simp [walkDet, hk]
      by_cases hq : k ≤ acc.length + (eligible c now t fam (i + 1)).length
      · refine ⟨(eligible c now t fam (i + 1)).take (k - acc.length), ?_, ?_⟩
        · rw [hunf, walkDet_full c now t fam k i _ (by simpa using hq)]
          rw [List.take_append, List.take_of_length_le (by omega)]
        · rw [walk_succ]
          simp only [ge_iff_le, hk, hq, if_false, if_true, Bool.and_eq_true, beq_iff_eq,
            decide_eq_true_eq]
          refine ⟨⟨by simp; omega, ?_⟩, ?_⟩
          · exact (all_contains_iff _ _).mpr (fun x hx => List.mem_of_mem_take hx)
          · exact (eligible_nodup c now t fam _ hnd).sublist (List.take_sublist _ _)
      · obtain ⟨r, hr, hw⟩ := ih (acc ++ eligible c now t fam (i + 1)) (by simp; omega)
        refine ⟨eligible c now t fam (i + 1) ++ r, ?_, ?_⟩
        · rw [hunf, hr, List.append_assoc]
        · rw [walk_succ]
          simp only [ge_iff_le, hk, hq, if_false, Bool.and_eq_true, beq_iff_eq, decide_eq_true_eq]
          rw [List.take_left, List.drop_left]
          refine ⟨⟨⟨rfl, ?_⟩, eligible_nodup c now t fam _ hnd⟩, ?_⟩
          · exact (all_contains_iff _ _).mpr (fun x hx => hx)
          · simpa using hw

end

end C09L
end Dht
