/- Helper lemmas for C07. -/
import DhtVerif.Model.Txn
namespace Dht

end Dht
