/- Helper lemmas for C07. -/
import DhtVerif.Model.Txn
namespace Dht

theorem toUInt8_inj_of_lt {a b : Nat} (ha : a < 256) (hb : b < 256)
    (h : a.toUInt8 = b.toUInt8) : a = b := by
  have := congrArg UInt8.toNat h
  simp at this
  omega

theorem uvarint_inj : ∀ (m n : Nat), uvarint m = uvarint n → m = n := by
  intro m
  induction m using Nat.strongRecOn with
  | _ m ih =>
    intro n h
    rw [uvarint.eq_1 m, uvarint.eq_1 n] at h
    by_cases hm : m < 128 <;> by_cases hn : n < 128 <;> simp only [hm, hn, ↓reduceDIte] at h
    · have := toUInt8_inj_of_lt (by omega) (by omega) (List.cons.inj h).1
      exact this
    · have := toUInt8_inj_of_lt (by omega) (by omega) (List.cons.inj h).1
      omega
    · have := toUInt8_inj_of_lt (by omega) (by omega) (List.cons.inj h).1
      omega
    · have h1 := toUInt8_inj_of_lt (by omega) (by omega) (List.cons.inj h).1
      have h2 := ih (m / 128) (by omega) (n / 128) (List.cons.inj h).2
      omega

/-- Reachability invariant of the dispatcher. -/
def Txns.Inv (s : Txns) : Prop :=
  (∀ e ∈ s.pending, ∃ i, i < s.next ∧ e.1.t = uvarint i) ∧
    s.pending.Pairwise (fun a b => a.1.t ≠ b.1.t)

theorem Txns.inv_empty : Txns.Inv {} := by
  constructor
  · intro e he; cases he
  · exact List.Pairwise.nil

theorem Txns.inv_filter (s : Txns) (p : TxnKey × Nat → Bool) (h : s.Inv) :
    Txns.Inv { s with pending := s.pending.filter p } := by
  constructor
  · intro e he
    exact h.1 e (List.mem_filter.mp he).1
  · exact h.2.sublist List.filter_sublist

theorem Txns.have_fresh (s : Txns) (dst : List UInt8) (h : s.Inv) :
    s.have ⟨uvarint s.next, dst⟩ = false := by
  unfold Txns.have
  rw [List.any_eq_false]
  intro e he heq
  obtain ⟨i, hi, hti⟩ := h.1 e he
  have : e.1 = ⟨uvarint s.next, dst⟩ := by simpa using heq
  rw [this] at hti
  have := uvarint_inj _ _ hti
  omega

theorem Txns.register_inv (s : Txns) (q : Nat) (dst : List UInt8) (h : s.Inv) :
    ∃ r, s.register q dst = some r ∧ r.1.Inv := by
  unfold Txns.register
  simp only [Txns.have_fresh s dst h]
  refine ⟨_, rfl, ?_, ?_⟩
  · intro e he
    simp only [List.mem_append, List.mem_singleton] at he
    rcases he with he | he
    · obtain ⟨i, hi, hti⟩ := h.1 e he
      exact ⟨i, by simp only; omega, hti⟩
    · exact ⟨s.next, by simp only; omega, by rw [he]⟩
  · simp only
    rw [List.pairwise_append]
    refine ⟨h.2, List.pairwise_singleton _ _, ?_⟩
    intro a ha b hb
    simp only [List.mem_singleton] at hb
    obtain ⟨i, hi, hti⟩ := h.1 a ha
    rw [hb, hti]
    intro heq
    have := uvarint_inj _ _ heq
    omega

theorem Txns.inbound_inv (s : Txns) (src t : List UInt8) (h : s.Inv) :
    (s.inbound src t).1.Inv := by
  unfold Txns.inbound
  simp only
  split
  · exact h
  · exact Txns.inv_filter s _ h

theorem Txns.step_inv (s : Txns) (e : TxnEv) (h : s.Inv) :
    ∃ r, s.step e = some r ∧ r.1.Inv := by
  cases e with
  | register q dst =>
    obtain ⟨r, hr, hinv⟩ := Txns.register_inv s q dst h
    exact ⟨(r.1, none), by simp [Txns.step, hr], hinv⟩
  | inbound src t => exact ⟨_, rfl, Txns.inbound_inv s src t h⟩
  | deregister k => exact ⟨_, rfl, Txns.inv_filter s _ h⟩

theorem Txns.run_inv : ∀ (evs : List TxnEv) (s : Txns), s.Inv →
    ∃ s', Txns.run s evs = some s' ∧ s'.Inv := by
  intro evs
  induction evs with
  | nil => intro s h; exact ⟨s, rfl, h⟩
  | cons e es ih =>
    intro s h
    obtain ⟨r, hr, hinv⟩ := Txns.step_inv s e h
    obtain ⟨s', hs', hinv'⟩ := ih r.1 hinv
    refine ⟨s', ?_, hinv'⟩
    simp only [Txns.run, hr]
    exact hs'

theorem Txns.lookup_eq_none_of_have (s : Txns) (k : TxnKey) (h : s.have k = false) :
    s.lookup k = none := by
  unfold Txns.have at h
  unfold Txns.lookup
  rw [List.any_eq_false] at h
  simp only [Option.map_eq_none_iff, List.find?_eq_none]
  exact h

theorem Txns.lookup_filter_self (s : Txns) (k : TxnKey) :
    Txns.lookup { s with pending := s.pending.filter (fun e => !(e.1 == k)) } k = none := by
  unfold Txns.lookup
  simp only [Option.map_eq_none_iff, List.find?_eq_none, List.mem_filter]
  intro e he
  simpa using he.2

theorem Txns.mem_of_lookup (s : Txns) (k : TxnKey) (q : Nat) (h : s.lookup k = some q) :
    (k, q) ∈ s.pending := by
  unfold Txns.lookup at h
  rw [Option.map_eq_some_iff] at h
  obtain ⟨e, he, hq⟩ := h
  have hmem := List.mem_of_find?_eq_some he
  have hk := List.find?_some he
  have hk' : e.1 = k := by simpa using hk
  have : e = (k, q) := by rw [← hk', ← hq]
  rw [← this]; exact hmem

end Dht
