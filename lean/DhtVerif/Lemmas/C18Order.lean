/- Helper lemmas for C18: Addr.cmp, closerThan, the sorted candidate set. -/
import DhtVerif.Lemmas.C18Id
namespace Dht

/-! ### Addr.cmp -/

theorem Addr.cmp_lt_iff (l r : Addr) :
    l.cmp r = .lt ↔
      l.rank < r.rank ∨ (l.rank = r.rank ∧
        (Id.cmp l.ip r.ip = .lt ∨ (l.ip = r.ip ∧ l.port < r.port))) := by
  unfold Addr.cmp
  by_cases h1 : l.rank < r.rank
  · simp [h1]
  · by_cases h2 : l.rank > r.rank
    · have : ¬ l.rank = r.rank := by omega
      simp [h1, h2, this]
    · have e : l.rank = r.rank := by omega
      simp only [e, true_and]
      cases hc : Id.cmp l.ip r.ip
      · simp
      · have := (Id.cmp_eq_iff _ _).mp hc
        simp [this, Nat.compare_eq_lt]
      · have : l.ip ≠ r.ip := by
          intro e'; rw [e', Id.cmp_self] at hc; cases hc
        simp [this]

theorem Addr.cmp_self (a : Addr) : a.cmp a = .eq := by
  unfold Addr.cmp
  simp [Id.cmp_self]

theorem Addr.cmp_lt_irrefl (a : Addr) : ¬ a.cmp a = .lt := by
  rw [Addr.cmp_self]; simp

theorem Addr.cmp_lt_trans (a b c : Addr) (h1 : a.cmp b = .lt) (h2 : b.cmp c = .lt) :
    a.cmp c = .lt := by
  rw [Addr.cmp_lt_iff] at h1 h2 ⊢
  rcases h1 with h1 | ⟨e1, h1⟩
  · rcases h2 with h2 | ⟨e2, _⟩
    · left; omega
    · left; omega
  · rcases h2 with h2 | ⟨e2, h2⟩
    · left; omega
    · right
      refine ⟨by omega, ?_⟩
      rcases h1 with h1 | ⟨i1, p1⟩
      · rcases h2 with h2 | ⟨i2, _⟩
        · left; exact Id.cmp_lt_trans _ _ _ h1 h2
        · left; rw [← i2]; exact h1
      · rcases h2 with h2 | ⟨i2, p2⟩
        · left; rw [i1]; exact h2
        · right; exact ⟨i1.trans i2, by omega⟩

theorem Addr.cmp_lt_asymm (a b : Addr) (h1 : a.cmp b = .lt) : ¬ b.cmp a = .lt := by
  intro h2
  exact Addr.cmp_lt_irrefl a (Addr.cmp_lt_trans a b a h1 h2)

theorem Addr.cmp_total (a b : Addr) (h : a ≠ b) : a.cmp b = .lt ∨ b.cmp a = .lt := by
  rw [Addr.cmp_lt_iff, Addr.cmp_lt_iff]
  rcases Nat.lt_trichotomy a.rank b.rank with hr | hr | hr
  · left; left; exact hr
  · by_cases hip : a.ip = b.ip
    · rcases Nat.lt_trichotomy a.port b.port with hp | hp | hp
      · left; right; exact ⟨hr, Or.inr ⟨hip, hp⟩⟩
      · exfalso; apply h
        cases a; cases b; simp_all
      · right; right; exact ⟨hr.symm, Or.inr ⟨hip.symm, hp⟩⟩
    · rcases Id.cmp_total a.ip b.ip hip with hc | hc
      · left; right; exact ⟨hr, Or.inl hc⟩
      · right; right; exact ⟨hr.symm, Or.inl hc⟩
  · right; left; exact hr

/-! ### closerThan -/

/-! Case-by-case characterisation of `closerThan` (by which IDs are known). -/

theorem closerThan_none_none (t : Id) (l r : Cand) (hl : l.id = none) (hr : r.id = none) :
    closerThan t l r = true ↔ l.addr.cmp r.addr = .lt := by
  unfold closerThan; simp [hl, hr]

theorem closerThan_some_none (t : Id) (l r : Cand) (li : Id) (hl : l.id = some li) (hr : r.id = none) :
    closerThan t l r = true := by
  unfold closerThan; simp [hl, hr]

theorem closerThan_none_some (t : Id) (l r : Cand) (ri : Id) (hl : l.id = none) (hr : r.id = some ri) :
    closerThan t l r = false := by
  unfold closerThan; simp [hl, hr]

theorem closerThan_some_some (t : Id) (l r : Cand) (li ri : Id)
    (hl : l.id = some li) (hr : r.id = some ri) :
    closerThan t l r = true ↔
      Id.cmp (Id.distance li t) (Id.distance ri t) = .lt ∨
        (Id.distance li t = Id.distance ri t ∧ l.addr.cmp r.addr = .lt) := by
  unfold closerThan
  simp only [hl, hr]
  cases hc : Id.cmp (Id.distance li t) (Id.distance ri t)
  · simp
  · have := (Id.cmp_eq_iff _ _).mp hc
    simp [this]
  · have : Id.distance li t ≠ Id.distance ri t := by
      intro e; rw [e, Id.cmp_self] at hc; cases hc
    simp [this]

theorem closerThan_irrefl (t : Id) (c : Cand) : closerThan t c c = false := by
  cases h : closerThan t c c
  · rfl
  · exfalso
    cases hid : c.id with
    | none =>
      rw [closerThan_none_none t c c hid hid] at h
      exact Addr.cmp_lt_irrefl _ h
    | some i =>
      rw [closerThan_some_some t c c i i hid hid, Id.cmp_self] at h
      rcases h with h | ⟨_, h⟩
      · cases h
      · exact Addr.cmp_lt_irrefl _ h

theorem closerThan_trans (t : Id) (a b c : Cand)
    (h1 : closerThan t a b = true) (h2 : closerThan t b c = true) : closerThan t a c = true := by
  cases ha : a.id with
  | none =>
    cases hb : b.id with
    | none =>
      cases hc : c.id with
      | none =>
        rw [closerThan_none_none t _ _ ha hb] at h1
        rw [closerThan_none_none t _ _ hb hc] at h2
        rw [closerThan_none_none t _ _ ha hc]
        exact Addr.cmp_lt_trans _ _ _ h1 h2
      | some ci =>
        rw [closerThan_none_some t _ _ ci hb hc] at h2; cases h2
    | some bi =>
      rw [closerThan_none_some t _ _ bi ha hb] at h1; cases h1
  | some ai =>
    cases hc : c.id with
    | none => exact closerThan_some_none t _ _ ai ha hc
    | some ci =>
      cases hb : b.id with
      | none =>
        rw [closerThan_none_some t _ _ ci hb hc] at h2; cases h2
      | some bi =>
        rw [closerThan_some_some t _ _ ai bi ha hb] at h1
        rw [closerThan_some_some t _ _ bi ci hb hc] at h2
        rw [closerThan_some_some t _ _ ai ci ha hc]
        rcases h1 with h1 | ⟨e1, h1⟩
        · rcases h2 with h2 | ⟨e2, _⟩
          · left; exact Id.cmp_lt_trans _ _ _ h1 h2
          · left; rw [← e2]; exact h1
        · rcases h2 with h2 | ⟨e2, h2⟩
          · left; rw [e1]; exact h2
          · right; exact ⟨e1.trans e2, Addr.cmp_lt_trans _ _ _ h1 h2⟩

theorem closerThan_asymm (t : Id) (l r : Cand) (h : closerThan t l r = true) :
    closerThan t r l = false := by
  cases h' : closerThan t r l
  · rfl
  · have := closerThan_trans t l r l h h'
    rw [closerThan_irrefl] at this
    cases this

def Cand.ok' (c : Cand) : Prop := ∀ i, c.id = some i → i.length = 20

theorem closerThan_total (t : Id) (l r : Cand) (ht : t.length = 20)
    (hl : l.ok') (hr : r.ok') (hne : l ≠ r) :
    closerThan t l r = true ∨ closerThan t r l = true := by
  cases hli : l.id with
  | none =>
    cases hri : r.id with
    | none =>
      rw [closerThan_none_none t _ _ hli hri, closerThan_none_none t _ _ hri hli]
      apply Addr.cmp_total
      intro e; apply hne
      cases l; cases r; simp_all
    | some ri => right; exact closerThan_some_none t _ _ ri hri hli
  | some li =>
    cases hri : r.id with
    | none => left; exact closerThan_some_none t _ _ li hli hri
    | some ri =>
      rw [closerThan_some_some t _ _ li ri hli hri, closerThan_some_some t _ _ ri li hri hli]
      by_cases hd : Id.distance li t = Id.distance ri t
      · have hlr : li = ri :=
          Id.xor_right_cancel t li ri (by rw [hl li hli, ht]) (by rw [hr ri hri, ht]) hd
        have : l.addr ≠ r.addr := by
          intro e; apply hne
          cases l; cases r; simp_all
        rcases Addr.cmp_total _ _ this with h | h
        · left; right; exact ⟨hd, h⟩
        · right; right; exact ⟨hd.symm, h⟩
      · rcases Id.cmp_total _ _ hd with h | h
        · left; left; exact h
        · right; left; exact h

theorem closerThan_by_distance (t : Id) (l r : Cand) (li ri : Id)
    (hl : l.id = some li) (hr : r.id = some ri)
    (hlen : li.length = t.length) (hlen' : ri.length = t.length)
    (hd : (Id.distance li t).toNat < (Id.distance ri t).toNat) :
    closerThan t l r = true := by
  rw [closerThan_some_some t _ _ li ri hl hr]
  left
  rw [Id.cmp_eq_compare_toNat _ _ (by simp [Id.distance, Id.xor_length, hlen, hlen']),
    Nat.compare_eq_lt]
  exact hd

/-- Two ok candidates that `candCompare` cannot tell apart are equal. -/
theorem candCompare_eq (t : Id) (ht : t.length = 20) (l r : Cand) (hl : l.ok') (hr : r.ok')
    (h : candCompare t l r = .eq) : l = r := by
  apply Classical.byContradiction
  intro hne
  unfold candCompare at h
  rcases closerThan_total t l r ht hl hr hne with h' | h'
  · simp [h'] at h
  · cases h'' : closerThan t l r <;> simp [h', h''] at h

theorem candCompare_self (t : Id) (c : Cand) : candCompare t c c = .eq := by
  simp [candCompare, closerThan_irrefl]

theorem candCompare_lt (t : Id) (l r : Cand) : candCompare t l r = .lt ↔ closerThan t l r = true := by
  unfold candCompare
  cases closerThan t l r <;> cases closerThan t r l <;> simp

theorem candCompare_gt (t : Id) (l r : Cand) : candCompare t l r = .gt → closerThan t r l = true := by
  unfold candCompare
  cases closerThan t l r <;> cases closerThan t r l <;> simp

/-! ### sorted set -/

/-- Adjacent-sortedness (same recursion as `SSet.sorted` in the property file). -/
def SSet.sorted' (t : Id) : List Cand → Prop
  | [] => True
  | [_] => True
  | a :: b :: rest => closerThan t a b = true ∧ SSet.sorted' t (b :: rest)

theorem SSet.sorted'_iff_pairwise (t : Id) (xs : List Cand) :
    SSet.sorted' t xs ↔ xs.Pairwise (fun a b => closerThan t a b = true) := by
  induction xs with
  | nil => simp [SSet.sorted']
  | cons a xs ih =>
    cases xs with
    | nil => simp [SSet.sorted']
    | cons b rest =>
      simp only [SSet.sorted']
      rw [ih, List.pairwise_cons (a := a)]
      constructor
      · rintro ⟨hab, hp⟩
        refine ⟨?_, hp⟩
        intro c hc
        rcases List.mem_cons.mp hc with rfl | hc
        · exact hab
        · exact closerThan_trans t a b c hab ((List.pairwise_cons.mp hp).1 c hc)
      · rintro ⟨hall, hp⟩
        exact ⟨hall b (List.mem_cons_self), hp⟩

theorem SSet.mem_add_imp (t : Id) (xs : List Cand) (c x : Cand) (h : x ∈ SSet.add t xs c) :
    x = c ∨ x ∈ xs := by
  induction xs with
  | nil => simpa [SSet.add] using h
  | cons y ys ih =>
    unfold SSet.add at h
    split at h
    · simpa using h
    · rcases List.mem_cons.mp h with h | h
      · exact Or.inl h
      · exact Or.inr (List.mem_cons_of_mem _ h)
    · rcases List.mem_cons.mp h with h | h
      · exact Or.inr (by simp [h])
      · rcases ih h with h | h
        · exact Or.inl h
        · exact Or.inr (List.mem_cons_of_mem _ h)

theorem SSet.mem_add (t : Id) (ht : t.length = 20) (xs : List Cand) (c x : Cand)
    (hok : ∀ y ∈ xs, y.ok') (hc : c.ok') :
    x ∈ SSet.add t xs c ↔ x = c ∨ x ∈ xs := by
  refine ⟨SSet.mem_add_imp t xs c x, ?_⟩
  induction xs with
  | nil => intro h; simpa [SSet.add] using h
  | cons y ys ih =>
    intro h
    have ih' := ih (fun z hz => hok z (List.mem_cons_of_mem _ hz))
    unfold SSet.add
    split
    · simpa using h
    · rename_i heq
      have : c = y := candCompare_eq t ht c y hc (hok y List.mem_cons_self) heq
      subst this
      simpa using h
    · rcases h with h | h
      · exact List.mem_cons_of_mem _ (ih' (Or.inl h))
      · rcases List.mem_cons.mp h with h | h
        · simp [h]
        · exact List.mem_cons_of_mem _ (ih' (Or.inr h))

theorem SSet.add_pairwise (t : Id) (ht : t.length = 20) (xs : List Cand) (c : Cand)
    (hok : ∀ y ∈ xs, y.ok') (hc : c.ok')
    (hp : xs.Pairwise (fun a b => closerThan t a b = true)) :
    (SSet.add t xs c).Pairwise (fun a b => closerThan t a b = true) := by
  induction xs with
  | nil => simp [SSet.add]
  | cons y ys ih =>
    have hp' := List.pairwise_cons.mp hp
    unfold SSet.add
    split
    · rename_i hlt
      have hcy := (candCompare_lt t c y).mp hlt
      refine List.pairwise_cons.mpr ⟨?_, hp⟩
      intro z hz
      rcases List.mem_cons.mp hz with rfl | hz
      · exact hcy
      · exact closerThan_trans t c y z hcy (hp'.1 z hz)
    · rename_i heq
      have : c = y := candCompare_eq t ht c y hc (hok y List.mem_cons_self) heq
      subst this
      exact hp
    · rename_i hgt
      have hyc := candCompare_gt t c y hgt
      refine List.pairwise_cons.mpr ⟨?_, ih (fun z hz => hok z (List.mem_cons_of_mem _ hz)) hp'.2⟩
      intro z hz
      rcases SSet.mem_add_imp t ys c z hz with rfl | hz
      · exact hyc
      · exact hp'.1 z hz

theorem SSet.delete_sublist (t : Id) (xs : List Cand) (c : Cand) :
    (SSet.delete t xs c).Sublist xs := by
  induction xs with
  | nil => simp [SSet.delete]
  | cons y ys ih =>
    unfold SSet.delete
    split
    · exact List.sublist_cons_self y ys
    · exact List.Sublist.cons_cons y ih

theorem SSet.mem_delete (t : Id) (ht : t.length = 20) (xs : List Cand) (c x : Cand)
    (hok : ∀ y ∈ xs, y.ok') (hc : c.ok')
    (hp : xs.Pairwise (fun a b => closerThan t a b = true)) :
    x ∈ SSet.delete t xs c ↔ x ∈ xs ∧ x ≠ c := by
  induction xs with
  | nil => simp [SSet.delete]
  | cons y ys ih =>
    have hp' := List.pairwise_cons.mp hp
    have ih' := ih (fun z hz => hok z (List.mem_cons_of_mem _ hz)) hp'.2
    unfold SSet.delete
    split
    · rename_i heq
      have : c = y := candCompare_eq t ht c y hc (hok y List.mem_cons_self) heq
      subst this
      constructor
      · intro hx
        refine ⟨List.mem_cons_of_mem _ hx, ?_⟩
        intro e; subst e
        have := hp'.1 x hx
        rw [closerThan_irrefl] at this; cases this
      · rintro ⟨hx, hne⟩
        rcases List.mem_cons.mp hx with h | h
        · exact absurd h hne
        · exact h
    · rename_i hneq
      have hcy : c ≠ y := by
        intro e; subst e; exact hneq (candCompare_self t c)
      rw [List.mem_cons, ih', List.mem_cons]
      constructor
      · rintro (h | ⟨h, hne⟩)
        · exact ⟨Or.inl h, by rw [h]; exact fun e => hcy e.symm⟩
        · exact ⟨Or.inr h, hne⟩
      · rintro ⟨h | h, hne⟩
        · exact Or.inl h
        · exact Or.inr ⟨h, hne⟩

end Dht
