/- Helper lemmas for C18: the K-nearest container. -/
import DhtVerif.Model.Containers
namespace Dht

/-! ### keys -/

/-- The map key of an element: ID and printed address. -/
def KElem.key (e : KElem) : Id × Addr := (e.id, e.addr.strKey)

theorem KElem.sameKey_iff (a b : KElem) : a.sameKey b = true ↔ a.key = b.key := by
  simp [KElem.sameKey, KElem.key]

theorem KElem.sameKey_false_iff (a b : KElem) : a.sameKey b = false ↔ a.key ≠ b.key := by
  rw [ne_eq, ← KElem.sameKey_iff]; cases a.sameKey b <;> simp

theorem KElem.dist_eq_of_key (t : Id) (a b : KElem) (h : a.key = b.key) : a.dist t = b.dist t := by
  have : a.id = b.id := congrArg Prod.fst h
  simp [KElem.dist, this]

/-- No two elements with one key. -/
def KNN.NodupK (l : List KElem) : Prop := l.Pairwise (fun a b => a.key ≠ b.key)

/-- Ordered by distance. -/
def KNN.SortedD (t : Id) (l : List KElem) : Prop := l.Pairwise (fun a b => a.dist t ≤ b.dist t)

theorem KNN.nodupKeys_iff (l : List KElem) : KNN.nodupKeys l = true ↔ KNN.NodupK l := by
  induction l with
  | nil => simp [KNN.nodupKeys, KNN.NodupK]
  | cons x xs ih =>
    unfold KNN.NodupK at ih ⊢
    rw [KNN.nodupKeys, List.pairwise_cons, Bool.and_eq_true, ih]
    apply and_congr_left'
    rw [Bool.not_eq_true', List.any_eq_false]
    constructor
    · intro h y hy e
      exact h y hy ((KElem.sameKey_iff y x).mpr e.symm)
    · intro h y hy e
      exact h y hy ((KElem.sameKey_iff y x).mp e).symm

theorem KNN.NodupK.nodup {l : List KElem} (h : KNN.NodupK l) : l.Nodup := by
  unfold KNN.NodupK at h
  unfold List.Nodup
  exact h.imp (fun hk e => hk (congrArg KElem.key e))

theorem KNN.sortedBy_iff (t : Id) (l : List KElem) : KNN.sortedBy t l = true ↔ KNN.SortedD t l := by
  induction l with
  | nil => simp [KNN.sortedBy, KNN.SortedD]
  | cons a xs ih =>
    cases xs with
    | nil => simp [KNN.sortedBy, KNN.SortedD]
    | cons b rest =>
      unfold KNN.SortedD at ih ⊢
      rw [KNN.sortedBy, Bool.and_eq_true, ih, decide_eq_true_eq, List.pairwise_cons (a := a)]
      constructor
      · rintro ⟨hab, hp⟩
        refine ⟨?_, hp⟩
        intro c hc
        rcases List.mem_cons.mp hc with rfl | hc
        · exact hab
        · exact Nat.le_trans hab ((List.pairwise_cons.mp hp).1 c hc)
      · rintro ⟨hall, hp⟩
        exact ⟨hall b List.mem_cons_self, hp⟩

/-! ### pigeonhole -/

theorem KNN.list_subset_of_nodup_of_length_le {α} [DecidableEq α] :
    ∀ (A B : List α), A.Nodup → (∀ x ∈ A, x ∈ B) → B.length ≤ A.length → ∀ x ∈ B, x ∈ A := by
  intro A
  induction A with
  | nil =>
    intro B _ _ hl x hx
    cases B with
    | nil => cases hx
    | cons b B => simp at hl
  | cons a A ih =>
    intro B hnd hsub hl x hx
    have hnd' := List.nodup_cons.mp hnd
    have haB : a ∈ B := hsub a List.mem_cons_self
    have hsub' : ∀ y ∈ A, y ∈ B.erase a := by
      intro y hy
      have hya : y ≠ a := by intro e; subst e; exact hnd'.1 hy
      exact (List.mem_erase_of_ne hya).mpr (hsub y (List.mem_cons_of_mem _ hy))
    have hlen : (B.erase a).length ≤ A.length := by
      rw [List.length_erase_of_mem haB]; simp at hl; omega
    by_cases hxa : x = a
    · simp [hxa]
    · exact List.mem_cons_of_mem _
        (ih (B.erase a) hnd'.2 hsub' hlen x ((List.mem_erase_of_ne hxa).mpr hx))

theorem KNN.list_length_le_of_nodup_of_subset {α} [DecidableEq α] :
    ∀ (A B : List α), A.Nodup → (∀ x ∈ A, x ∈ B) → A.length ≤ B.length := by
  intro A
  induction A with
  | nil => intro B _ _; simp
  | cons a A ih =>
    intro B hnd hsub
    have hnd' := List.nodup_cons.mp hnd
    have haB : a ∈ B := hsub a List.mem_cons_self
    have hsub' : ∀ y ∈ A, y ∈ B.erase a := by
      intro y hy
      have hya : y ≠ a := by intro e; subst e; exact hnd'.1 hy
      exact (List.mem_erase_of_ne hya).mpr (hsub y (List.mem_cons_of_mem _ hy))
    have := ih (B.erase a) hnd'.2 hsub'
    rw [List.length_erase_of_mem haB] at this
    have : 0 < B.length := List.length_pos_of_mem haB
    simp only [List.length_cons]
    omega

/-! ### upsert -/

theorem KNN.any_sameKey_iff (s : List KElem) (e : KElem) :
    s.any (·.sameKey e) = true ↔ ∃ x ∈ s, x.key = e.key := by
  simp [List.any_eq_true, KElem.sameKey_iff]

theorem KNN.mem_upsert (s : List KElem) (e m : KElem) :
    m ∈ KNN.upsert s e ↔ m = e ∨ (m ∈ s ∧ m.key ≠ e.key) := by
  unfold KNN.upsert
  split
  · rename_i hany
    obtain ⟨x, hx, hxe⟩ := (KNN.any_sameKey_iff s e).mp hany
    rw [List.mem_map]
    constructor
    · rintro ⟨y, hy, rfl⟩
      by_cases hk : y.sameKey e = true
      · left; simp [hk]
      · right
        simp only [hk]
        refine ⟨hy, ?_⟩
        rw [Bool.not_eq_true] at hk
        exact (KElem.sameKey_false_iff y e).mp hk
    · rintro (rfl | ⟨hm, hk⟩)
      · exact ⟨x, hx, by simp [(KElem.sameKey_iff x m).mpr hxe]⟩
      · exact ⟨m, hm, by simp [(KElem.sameKey_false_iff m e).mpr hk]⟩
  · rename_i hany
    have hnone : ∀ x ∈ s, x.key ≠ e.key := by
      intro x hx hk
      exact hany ((KNN.any_sameKey_iff s e).mpr ⟨x, hx, hk⟩)
    rw [List.mem_append, List.mem_singleton]
    constructor
    · rintro (h | h)
      · exact Or.inr ⟨h, hnone m h⟩
      · exact Or.inl h
    · rintro (h | ⟨h, _⟩)
      · exact Or.inr h
      · exact Or.inl h

theorem KNN.self_mem_upsert (s : List KElem) (e : KElem) : e ∈ KNN.upsert s e :=
  (KNN.mem_upsert s e e).mpr (Or.inl rfl)

theorem KNN.length_upsert_of_mem (s : List KElem) (e : KElem) (h : ∃ x ∈ s, x.key = e.key) :
    (KNN.upsert s e).length = s.length := by
  unfold KNN.upsert
  rw [if_pos ((KNN.any_sameKey_iff s e).mpr h)]
  simp

theorem KNN.length_upsert_of_not_mem (s : List KElem) (e : KElem) (h : ¬ ∃ x ∈ s, x.key = e.key) :
    (KNN.upsert s e).length = s.length + 1 := by
  unfold KNN.upsert
  rw [if_neg (fun h' => h ((KNN.any_sameKey_iff s e).mp h'))]
  simp

theorem KNN.upsert_of_not_mem (s : List KElem) (e : KElem) (h : ¬ ∃ x ∈ s, x.key = e.key) :
    KNN.upsert s e = s ++ [e] := by
  unfold KNN.upsert
  rw [if_neg (fun h' => h ((KNN.any_sameKey_iff s e).mp h'))]

theorem KNN.nodupK_upsert (s : List KElem) (e : KElem) (h : KNN.NodupK s) :
    KNN.NodupK (KNN.upsert s e) := by
  unfold KNN.upsert
  split
  · unfold KNN.NodupK at h ⊢
    rw [List.pairwise_map]
    have hkey : ∀ x : KElem, (if x.sameKey e = true then e else x).key = x.key := by
      intro x
      by_cases hk : x.sameKey e = true
      · simp [hk, (KElem.sameKey_iff x e).mp hk]
      · simp [hk]
    simpa only [hkey] using h
  · rename_i hany
    have hnone : ∀ x ∈ s, x.key ≠ e.key := by
      intro x hx hk
      exact hany ((KNN.any_sameKey_iff s e).mpr ⟨x, hx, hk⟩)
    unfold KNN.NodupK at h ⊢
    rw [List.pairwise_append]
    refine ⟨h, by simp, ?_⟩
    intro a ha b hb
    rw [List.mem_singleton] at hb
    subst hb
    exact hnone a ha

/-! ### pushAllowed as a proposition -/

theorem KNN.pushAllowed_iff (t : Id) (k : Nat) (old : List KElem) (e : KElem) (new : List KElem) :
    KNN.pushAllowed t k old e new = true ↔
      KNN.SortedD t new ∧ KNN.NodupK new ∧ (∀ m ∈ new, m ∈ KNN.upsert old e) ∧
      new.length = min k (KNN.upsert old e).length ∧
      ∀ c ∈ KNN.upsert old e, c ∈ new ∨ ∀ m ∈ new, m.dist t ≤ c.dist t := by
  unfold KNN.pushAllowed KNN.subsetOf
  simp only [Bool.and_eq_true, KNN.sortedBy_iff, KNN.nodupKeys_iff, List.all_eq_true,
    List.contains_iff_mem, beq_iff_eq, Bool.or_eq_true, decide_eq_true_eq, and_assoc]

/-! ### the invariant of push histories -/

def KNN.latest' (hist : List KElem) : List KElem := hist.foldl KNN.upsert []

theorem KNN.latest'_snoc (hist : List KElem) (e : KElem) :
    KNN.latest' (hist ++ [e]) = KNN.upsert (KNN.latest' hist) e := by
  simp [KNN.latest', List.foldl_append]

structure KNN.Inv (t : Id) (k : Nat) (L s : List KElem) : Prop where
  len : s.length = min k L.length
  sorted : KNN.SortedD t s
  nodupS : KNN.NodupK s
  nodupL : KNN.NodupK L
  sub : ∀ m ∈ s, m ∈ L
  far : ∀ p ∈ L, p ∉ s → ∀ m ∈ s, m.dist t ≤ p.dist t

theorem KNN.Inv.init (t : Id) (k : Nat) : KNN.Inv t k [] [] := by
  refine ⟨by simp, ?_, ?_, ?_, by simp, by simp⟩ <;> simp [KNN.SortedD, KNN.NodupK]

/-- A container that misses some pushed key is full. -/
theorem KNN.Inv.full_of_missing {t : Id} {k : Nat} {L s : List KElem} (h : KNN.Inv t k L s)
    (p : KElem) (hp : p ∈ L) (hps : p ∉ s) : s.length = k := by
  apply Classical.byContradiction
  intro hne
  have hl : L.length ≤ s.length := by have := h.len; omega
  exact hps (KNN.list_subset_of_nodup_of_length_le s L h.nodupS.nodup h.sub hl p hp)

theorem KNN.Inv.step_len {t : Id} {k : Nat} {L s s' : List KElem} {e : KElem}
    (h : KNN.Inv t k L s)
    (hlen : s'.length = min k (KNN.upsert s e).length) :
    s'.length = min k (KNN.upsert L e).length := by
  have hl := h.len
  by_cases hS : ∃ x ∈ s, x.key = e.key
  · have hL : ∃ x ∈ L, x.key = e.key := by
      obtain ⟨x, hx, hk⟩ := hS
      exact ⟨x, h.sub x hx, hk⟩
    rw [KNN.length_upsert_of_mem s e hS] at hlen
    rw [KNN.length_upsert_of_mem L e hL]
    omega
  · rw [KNN.length_upsert_of_not_mem s e hS] at hlen
    by_cases hL : ∃ x ∈ L, x.key = e.key
    · obtain ⟨p, hp, hk⟩ := hL
      have hps : p ∉ s := fun hps => hS ⟨p, hps, hk⟩
      have := h.full_of_missing p hp hps
      rw [KNN.length_upsert_of_mem L e ⟨p, hp, hk⟩]
      omega
    · rw [KNN.length_upsert_of_not_mem L e hL]
      omega

theorem KNN.Inv.step_far {t : Id} {k : Nat} {L s s' : List KElem} {e : KElem}
    (h : KNN.Inv t k L s)
    (hsub : ∀ m ∈ s', m ∈ KNN.upsert s e)
    (hlen : s'.length = min k (KNN.upsert s e).length)
    (hcl : ∀ c ∈ KNN.upsert s e, c ∈ s' ∨ ∀ m ∈ s', m.dist t ≤ c.dist t) :
    ∀ p ∈ KNN.upsert L e, p ∉ s' → ∀ m ∈ s', m.dist t ≤ p.dist t := by
  intro p hp hps' m hm
  by_cases hpc : p ∈ KNN.upsert s e
  · rcases hcl p hpc with h1 | h1
    · exact absurd h1 hps'
    · exact h1 m hm
  · rcases (KNN.mem_upsert L e p).mp hp with rfl | ⟨hpL, hpk⟩
    · exact absurd (KNN.self_mem_upsert s p) hpc
    · have hps : p ∉ s := fun hps => hpc ((KNN.mem_upsert s e p).mpr (Or.inr ⟨hps, hpk⟩))
      have hfar := h.far p hpL hps
      have hfull := h.full_of_missing p hpL hps
      rcases (KNN.mem_upsert s e m).mp (hsub m hm) with rfl | ⟨hms, _⟩
      · -- the pushed element itself was kept
        by_cases hS : ∃ x ∈ s, x.key = m.key
        · obtain ⟨x, hx, hk⟩ := hS
          rw [← KElem.dist_eq_of_key t x m hk]
          exact hfar x hx
        · have hcl' : (KNN.upsert s m).length = k + 1 := by
            rw [KNN.length_upsert_of_not_mem s m hS, hfull]
          have hndc : (KNN.upsert s m).Nodup := (KNN.nodupK_upsert s m h.nodupS).nodup
          have hnot : ¬ (∀ c ∈ KNN.upsert s m, c ∈ s') := by
            intro hall
            have := KNN.list_length_le_of_nodup_of_subset _ _ hndc hall
            omega
          obtain ⟨c, hc, hcs⟩ : ∃ c, c ∈ KNN.upsert s m ∧ c ∉ s' := by
            apply Classical.byContradiction
            intro hn
            apply hnot
            intro c hc
            apply Classical.byContradiction
            intro hcs
            exact hn ⟨c, hc, hcs⟩
          rcases (KNN.mem_upsert s m c).mp hc with rfl | ⟨hcs', _⟩
          · exact absurd hm hcs
          · rcases hcl c hc with h1 | h1
            · exact absurd h1 hcs
            · exact Nat.le_trans (h1 m hm) (hfar c hcs')
      · exact hfar m hms

theorem KNN.Inv.step {t : Id} {k : Nat} {L s s' : List KElem} {e : KElem}
    (h : KNN.Inv t k L s) (hp : KNN.pushAllowed t k s e s' = true) :
    KNN.Inv t k (KNN.upsert L e) s' := by
  obtain ⟨hsorted, hnodup, hsub, hlen, hcl⟩ := (KNN.pushAllowed_iff t k s e s').mp hp
  refine ⟨h.step_len hlen, hsorted, hnodup, KNN.nodupK_upsert L e h.nodupL, ?_,
    h.step_far hsub hlen hcl⟩
  intro m hm
  rcases (KNN.mem_upsert s e m).mp (hsub m hm) with rfl | ⟨hms, hk⟩
  · exact KNN.self_mem_upsert L m
  · exact (KNN.mem_upsert L e m).mpr (Or.inr ⟨h.sub m hms, hk⟩)

/-! ### insertSorted / push -/

theorem KNN.insertSorted_cond_true (t : Id) (e x : KElem)
    (h : (decide (e.dist t < x.dist t) ||
      (e.dist t == x.dist t && e.addr.cmp x.addr == .lt)) = true) : e.dist t ≤ x.dist t := by
  simp only [Bool.or_eq_true, decide_eq_true_eq, Bool.and_eq_true, beq_iff_eq] at h
  rcases h with h | ⟨h, _⟩ <;> omega

theorem KNN.insertSorted_cond_false (t : Id) (e x : KElem)
    (h : ¬ (decide (e.dist t < x.dist t) ||
      (e.dist t == x.dist t && e.addr.cmp x.addr == .lt)) = true) : x.dist t ≤ e.dist t := by
  simp only [Bool.or_eq_true, decide_eq_true_eq, Bool.and_eq_true, beq_iff_eq, not_or] at h
  omega

theorem KNN.mem_insertSorted_imp (t : Id) (s : List KElem) (e m : KElem)
    (h : m ∈ KNN.insertSorted t s e) : m = e ∨ m ∈ s := by
  induction s with
  | nil => simpa [KNN.insertSorted] using h
  | cons x xs ih =>
    unfold KNN.insertSorted at h
    split at h
    · rcases List.mem_cons.mp h with h | h
      · exact Or.inl h
      · exact Or.inr (List.mem_cons_of_mem _ h)
    · split at h
      · rcases List.mem_cons.mp h with h | h
        · exact Or.inl h
        · exact Or.inr (List.mem_filter.mp h).1
      · rcases List.mem_cons.mp h with h | h
        · exact Or.inr (by simp [h])
        · rcases ih h with h | h
          · exact Or.inl h
          · exact Or.inr (List.mem_cons_of_mem _ h)

theorem KNN.mem_insertSorted (t : Id) (s : List KElem) (e m : KElem) (hn : KNN.NodupK s) :
    m ∈ KNN.insertSorted t s e ↔ m = e ∨ (m ∈ s ∧ m.key ≠ e.key) := by
  induction s with
  | nil => simp [KNN.insertSorted]
  | cons x xs ih =>
    have hn' := List.pairwise_cons.mp hn
    have ih' := ih hn'.2
    unfold KNN.insertSorted
    split
    · rename_i hk
      have hk' := (KElem.sameKey_iff x e).mp hk
      rw [List.mem_cons, List.mem_cons]
      constructor
      · rintro (h | h)
        · exact Or.inl h
        · exact Or.inr ⟨Or.inr h, fun e' => hn'.1 m h (hk'.trans e'.symm)⟩
      · rintro (h | ⟨h | h, hne⟩)
        · exact Or.inl h
        · subst h; exact absurd hk' hne
        · exact Or.inr h
    · rename_i hk
      have hk' : x.key ≠ e.key := fun e' => hk ((KElem.sameKey_iff x e).mpr e')
      split
      · rw [List.mem_cons, List.mem_filter, Bool.not_eq_true', KElem.sameKey_false_iff]
      · rw [List.mem_cons, ih', List.mem_cons]
        constructor
        · rintro (h | h | ⟨h, hne⟩)
          · subst h; exact Or.inr ⟨Or.inl rfl, hk'⟩
          · exact Or.inl h
          · exact Or.inr ⟨Or.inr h, hne⟩
        · rintro (h | ⟨h | h, hne⟩)
          · exact Or.inr (Or.inl h)
          · exact Or.inl h
          · exact Or.inr (Or.inr ⟨h, hne⟩)

theorem KNN.sorted_insertSorted (t : Id) (s : List KElem) (e : KElem) (hs : KNN.SortedD t s) :
    KNN.SortedD t (KNN.insertSorted t s e) := by
  induction s with
  | nil => simp [KNN.insertSorted, KNN.SortedD]
  | cons x xs ih =>
    unfold KNN.SortedD at hs ih ⊢
    have hs' := List.pairwise_cons.mp hs
    unfold KNN.insertSorted
    split
    · rename_i hk
      have hd := KElem.dist_eq_of_key t x e ((KElem.sameKey_iff x e).mp hk)
      refine List.pairwise_cons.mpr ⟨?_, hs'.2⟩
      intro y hy
      rw [← hd]
      exact hs'.1 y hy
    · split
      · rename_i hc
        have hex := KNN.insertSorted_cond_true t e x hc
        refine List.pairwise_cons.mpr ⟨?_, hs.sublist List.filter_sublist⟩
        intro y hy
        rcases List.mem_cons.mp (List.mem_filter.mp hy).1 with rfl | hy'
        · exact hex
        · exact Nat.le_trans hex (hs'.1 y hy')
      · rename_i hc
        have hxe := KNN.insertSorted_cond_false t e x hc
        refine List.pairwise_cons.mpr ⟨?_, ih hs'.2⟩
        intro y hy
        rcases KNN.mem_insertSorted_imp t xs e y hy with rfl | hy'
        · exact hxe
        · exact hs'.1 y hy'

theorem KNN.nodupK_insertSorted (t : Id) (s : List KElem) (e : KElem) (hn : KNN.NodupK s) :
    KNN.NodupK (KNN.insertSorted t s e) := by
  induction s with
  | nil => simp [KNN.insertSorted, KNN.NodupK]
  | cons x xs ih =>
    unfold KNN.NodupK at hn ih ⊢
    have hn' := List.pairwise_cons.mp hn
    unfold KNN.insertSorted
    split
    · rename_i hk
      have hk' := (KElem.sameKey_iff x e).mp hk
      refine List.pairwise_cons.mpr ⟨?_, hn'.2⟩
      intro y hy
      rw [← hk']
      exact hn'.1 y hy
    · rename_i hk
      have hk' : x.key ≠ e.key := fun e' => hk ((KElem.sameKey_iff x e).mpr e')
      split
      · refine List.pairwise_cons.mpr ⟨?_, hn.sublist List.filter_sublist⟩
        intro y hy
        have := (List.mem_filter.mp hy).2
        rw [Bool.not_eq_true', KElem.sameKey_false_iff] at this
        exact fun e' => this e'.symm
      · refine List.pairwise_cons.mpr ⟨?_, ih hn'.2⟩
        intro y hy
        rcases KNN.mem_insertSorted_imp t xs e y hy with rfl | hy'
        · exact hk'
        · exact hn'.1 y hy'

theorem KNN.push_allowed (t : Id) (k : Nat) (s : List KElem) (e : KElem)
    (hs : KNN.SortedD t s) (hn : KNN.NodupK s) :
    KNN.pushAllowed t k s e (KNN.push t k s e) = true := by
  rw [KNN.pushAllowed_iff]
  unfold KNN.push
  have hsi := KNN.sorted_insertSorted t s e hs
  have hni := KNN.nodupK_insertSorted t s e hn
  have hmem : ∀ m, m ∈ KNN.insertSorted t s e ↔ m ∈ KNN.upsert s e := by
    intro m
    rw [KNN.mem_insertSorted t s e m hn, KNN.mem_upsert]
  have hlen : (KNN.insertSorted t s e).length = (KNN.upsert s e).length := by
    apply Nat.le_antisymm
    · exact KNN.list_length_le_of_nodup_of_subset _ _ hni.nodup (fun m hm => (hmem m).mp hm)
    · exact KNN.list_length_le_of_nodup_of_subset _ _ (KNN.nodupK_upsert s e hn).nodup
        (fun m hm => (hmem m).mpr hm)
  refine ⟨?_, ?_, ?_, ?_, ?_⟩
  · exact List.Pairwise.sublist (List.take_sublist k _) hsi
  · exact List.Pairwise.sublist (List.take_sublist k _) hni
  · intro m hm
    exact (hmem m).mp (List.mem_of_mem_take hm)
  · rw [List.length_take, hlen]
  · intro c hc
    have hci := (hmem c).mpr hc
    rw [← List.take_append_drop k (KNN.insertSorted t s e), List.mem_append] at hci
    rcases hci with h | h
    · exact Or.inl h
    · right
      intro m hm
      unfold KNN.SortedD at hsi
      rw [← List.take_append_drop k (KNN.insertSorted t s e), List.pairwise_append] at hsi
      exact hsi.2.2 m hm c h

end Dht
