/-
Soundness of the lock checks of Model/Locks.lean: a table that passes `closed` contains the
call-path semantics (`MayAcq`, `AcqAny`, `HeldOnEntry`), so the Boolean checks `recOk`, `leaveOk`,
`orderOk` — evaluated by the kernel on the regenerated facts — imply the statements about call paths.
Core Lean only.
-/
import DhtVerif.Model.Locks
namespace Dht.Locks

theorem mem_iff {m : Nat} {l : List Nat} : mem m l = true ↔ m ∈ l := by
  induction l with
  | nil => simp [mem]
  | cons x xs ih =>
    simp only [mem, Bool.or_eq_true, Nat.beq_eq, ih, List.mem_cons]
    constructor
    · rintro (h | h)
      · exact Or.inl h.symm
      · exact Or.inr h
    · rintro (h | h)
      · exact Or.inl h.symm
      · exact Or.inr h

theorem hasH_one : hasH 1 = false := by decide

/-- a mutex whose bits contain H is listed in the state -/
theorem key_of_hasH {st : St} {m : Nat} (h : hasH (bitsOf st m) = true) : ∃ e ∈ st, e.1 = m := by
  induction st with
  | nil => simp [bitsOf, hasH_one] at h
  | cons e rest ih =>
    simp only [bitsOf] at h
    cases hk : Nat.beq e.1 m with
    | true =>
      exact ⟨e, List.mem_cons_self, by simpa using hk⟩
    | false =>
      rw [hk] at h
      simp only [cond_false] at h
      obtain ⟨e', he', hm⟩ := ih h
      exact ⟨e', List.mem_cons_of_mem _ he', hm⟩

theorem mem_heldIn {st : St} {m : Nat} (h : hasH (bitsOf st m) = true) : m ∈ heldIn st := by
  obtain ⟨e, he, hm⟩ := key_of_hasH h
  unfold heldIn
  rw [List.mem_map]
  refine ⟨e, ?_, hm⟩
  rw [List.mem_filter]
  exact ⟨he, by rw [hm]; exact h⟩

/-! ## ids -/

theorem idsFrom_id : ∀ (P : Prog) (i k : Nat), idsFrom P i = some k →
    ∀ (j : Nat) (fn : Fn), P[j]? = some fn → fn.id = i + j := by
  intro P
  induction P with
  | nil => intro i k _ j fn h; simp at h
  | cons g rest ih =>
    intro i k h j fn hj
    simp only [idsFrom] at h
    cases hb : Nat.beq g.id i with
    | false => rw [hb] at h; simp at h
    | true =>
      rw [hb] at h
      simp only [cond_true] at h
      have hg : g.id = i := by simpa using hb
      cases j with
      | zero =>
        simp only [List.getElem?_cons_zero, Option.some.injEq] at hj
        subst hj
        simpa using hg
      | succ j =>
        simp only [List.getElem?_cons_succ] at hj
        have := ih (i + 1) k h j fn hj
        omega

theorem idsFrom_length : ∀ (P : Prog) (i k : Nat), idsFrom P i = some k → k = i + P.length := by
  intro P
  induction P with
  | nil => intro i k h; simp [idsFrom] at h; simp [h]
  | cons g rest ih =>
    intro i k h
    simp only [idsFrom] at h
    cases hb : Nat.beq g.id i with
    | false => rw [hb] at h; simp at h
    | true =>
      rw [hb] at h
      simp only [cond_true] at h
      have := ih (i + 1) k h
      simp only [List.length_cons]
      omega

/-- what `wellFormed` gives: positions are ids -/
def IdsOk (P : Prog) : Prop := ∀ (f : Nat) (fn : Fn), P[f]? = some fn → fn.id = f

theorem idsOk_of_wellFormed {P : Prog} {n nf : Nat} {binds : List (Nat × Nat)}
    (h : wellFormed P n nf binds = true) : IdsOk P ∧ P.length = n := by
  unfold wellFormed at h
  simp only [Bool.and_eq_true] at h
  obtain ⟨⟨h1, _⟩, _⟩ := h
  cases hi : idsFrom P 0 with
  | none => rw [hi] at h1; simp at h1
  | some k =>
    rw [hi] at h1
    have hk : k = n := by simpa using h1
    constructor
    · intro f fn hf
      have := idsFrom_id P 0 k hi f fn hf
      omega
    · have := idsFrom_length P 0 k hi
      omega

theorem callee_lt_of_wellFormed {P : Prog} {n nf : Nat} {binds : List (Nat × Nat)}
    (h : wellFormed P n nf binds = true) {f : Nat} {fn : Fn} {c : Call}
    (hf : P[f]? = some fn) (hc : c ∈ fn.calls) : c.callee < P.length := by
  have hlen := (idsOk_of_wellFormed h).2
  unfold wellFormed at h
  simp only [Bool.and_eq_true, List.all_eq_true] at h
  obtain ⟨⟨_, h2⟩, _⟩ := h
  have := (h2 fn (List.mem_of_getElem? hf)).1 c hc
  rw [hlen]
  simpa [Nat.blt_eq] using this

/-! ## post-fixpoints contain the call-path semantics -/

theorem mem_stepFn_direct {rel : Bool} {T : Look} {fn : Fn} {a : Acq} (ha : a ∈ fn.acqs)
    (h : (!rel || hasE (bitsOf a.st a.m)) = true) : a.m ∈ stepFn rel T fn := by
  unfold stepFn
  rw [List.mem_append]
  left
  rw [List.mem_map]
  exact ⟨a, by rw [List.mem_filter]; exact ⟨ha, h⟩, rfl⟩

theorem mem_stepFn_call {rel : Bool} {T : Look} {fn : Fn} {c : Call} {m : Nat} (hc : c ∈ fn.calls)
    (hs : c.sync = true) (hm : m ∈ T c.callee) (h : (!rel || hasE (bitsOf c.st m)) = true) :
    m ∈ stepFn rel T fn := by
  unfold stepFn
  rw [List.mem_append]
  right
  rw [List.mem_flatMap]
  refine ⟨c, hc, ?_⟩
  rw [hs]
  simp only [cond_true, List.mem_filter]
  exact ⟨hm, h⟩

theorem closed_step {rel : Bool} {P : Prog} {T : Look} (hc : closed rel P T = true) (hid : IdsOk P)
    {f : Nat} {fn : Fn} (hf : P[f]? = some fn) {m : Nat} (hm : m ∈ stepFn rel T fn) : m ∈ T f := by
  unfold closed at hc
  rw [List.all_eq_true] at hc
  have h1 := hc fn (List.mem_of_getElem? hf)
  rw [List.all_eq_true] at h1
  have h2 := h1 m hm
  rw [hid f fn hf] at h2
  exact mem_iff.mp h2

/-- A post-fixpoint of the entry-relative rule contains `MayAcq`. -/
theorem closed_sound {P : Prog} {T : Look} (hc : closed true P T = true) (hid : IdsOk P)
    {f m : Nat} (h : MayAcq P f m) : m ∈ T f := by
  induction h with
  | direct hf ha he =>
    exact closed_step hc hid hf (mem_stepFn_direct ha (by simp [he]))
  | call hf hcl hs he _ ih =>
    exact closed_step hc hid hf (mem_stepFn_call hcl hs ih (by simp [he]))

/-- A post-fixpoint of the unconditional rule contains `AcqAny`. -/
theorem closed_sound_any {P : Prog} {T : Look} (hc : closed false P T = true) (hid : IdsOk P)
    {f m : Nat} (h : AcqAny P f m) : m ∈ T f := by
  induction h with
  | direct hf ha =>
    exact closed_step hc hid hf (mem_stepFn_direct ha (by simp))
  | call hf hcl hs _ ih =>
    exact closed_step hc hid hf (mem_stepFn_call hcl hs ih (by simp))

/-- `MayAcq` is a special case of `AcqAny`. -/
theorem MayAcq.any {P : Prog} {f m : Nat} (h : MayAcq P f m) : AcqAny P f m := by
  induction h with
  | direct hf ha _ => exact AcqAny.direct hf ha
  | call hf hc hs _ _ ih => exact AcqAny.call hf hc hs ih

/-! ## recursion -/

theorem recOk_acq {P : Prog} {T : Look} (h : recOk P T = true) {f : Nat} {fn : Fn} {a : Acq}
    (hf : P[f]? = some fn) (ha : a ∈ fn.acqs) : hasH (bitsOf a.st a.m) = false := by
  unfold recOk at h
  simp only [List.all_eq_true, Bool.and_eq_true] at h
  have := (h fn (List.mem_of_getElem? hf)).1 a ha
  simpa using this

theorem recOk_call {P : Prog} {T : Look} (h : recOk P T = true) (hc : closed true P T = true)
    (hid : IdsOk P) {f : Nat} {fn : Fn} {c : Call} {m : Nat} (hf : P[f]? = some fn) (hcl : c ∈ fn.calls)
    (hs : c.sync = true) (hh : hasH (bitsOf c.st m) = true) : ¬ MayAcq P c.callee m := by
  intro hm
  have hmem := closed_sound hc hid hm
  unfold recOk at h
  simp only [List.all_eq_true, Bool.and_eq_true] at h
  have h1 := (h fn (List.mem_of_getElem? hf)).2 c hcl
  rw [hs] at h1
  simp only [Bool.not_true, Bool.false_or, List.all_eq_true] at h1
  have := h1 m hmem
  rw [hh] at this
  simp at this

/-- A callee that may return with `m` locked is called only where the caller's state of `m` is "held". -/
theorem leaveOk_call {P : Prog} {L : Look} (hl : leavesClosed P L = true) (h : leaveOk P L = true)
    (hid : IdsOk P) {f : Nat} {fn g : Fn} {c : Call} {m : Nat} (hf : P[f]? = some fn) (hcl : c ∈ fn.calls)
    (hs : c.sync = true) (hg : P[c.callee]? = some g) (hh : hasH (bitsOf g.exit m) = true) :
    bitsOf c.st m = 2 := by
  unfold leavesClosed at hl
  simp only [List.all_eq_true] at hl
  have h1 := hl g (List.mem_of_getElem? hg) m (mem_heldIn hh)
  rw [hid _ g hg] at h1
  unfold leaveOk at h
  simp only [List.all_eq_true] at h
  have h2 := h fn (List.mem_of_getElem? hf) c hcl
  rw [hs] at h2
  simp only [Bool.not_true, Bool.false_or, List.all_eq_true] at h2
  have := h2 m (mem_iff.mp h1)
  simpa using this

/-! ## lock order -/

theorem orderOk_sound {P : Prog} {A : Look} {rank : Nat → Nat} (h : orderOk P A rank = true)
    (hc : closed false P A = true) (hid : IdsOk P) {m1 m2 : Nat} (hb : Before P m1 m2) :
    rank m1 < rank m2 := by
  unfold orderOk at h
  simp only [List.all_eq_true, Bool.and_eq_true] at h
  cases hb with
  | acq hf ha hh hne =>
    have := (h _ (List.mem_of_getElem? hf)).1 _ ha m1 (mem_heldIn hh)
    simp only [Bool.or_eq_true, Nat.beq_eq, Nat.blt_eq] at this
    rcases this with h1 | h1
    · exact absurd h1 hne
    · exact h1
  | call hf hcl hs hh hany hne =>
    have h1 := (h _ (List.mem_of_getElem? hf)).2 _ hcl
    rw [hs] at h1
    simp only [Bool.not_true, Bool.false_or, List.all_eq_true] at h1
    have := h1 m1 (mem_heldIn hh) m2 (closed_sound_any hc hid hany)
    simp only [Bool.or_eq_true, Nat.beq_eq, Nat.blt_eq] at this
    rcases this with h2 | h2
    · exact absurd h2 hne
    · exact h2

/-- A relation along which a rank strictly increases has no cycle. -/
theorem no_cycle_of_rank {r : Nat → Nat → Prop} {rank : Nat → Nat}
    (h : ∀ a b, r a b → rank a < rank b) : ∀ a b, Relation.TransGen r a b → rank a < rank b := by
  intro a b hab
  induction hab with
  | single h1 => exact h _ _ h1
  | tail _ h2 ih => exact Nat.lt_trans ih (h _ _ h2)

/-! ## held on entry -/

theorem closedH_sound {P : Prog} {T : Look} (hc : closedH P T = true) (hid : IdsOk P)
    {g m : Nat} (h : HeldOnEntry P g m) : m ∈ T g := by
  unfold closedH at hc
  simp only [List.all_eq_true] at hc
  induction h with
  | site hf hcl hs hh =>
    have h1 := hc _ (List.mem_of_getElem? hf) _ hcl
    rw [hs] at h1
    simp only [Bool.not_true, Bool.false_or, Bool.and_eq_true, List.all_eq_true] at h1
    exact mem_iff.mp (h1.1 _ (mem_heldIn hh))
  | pass hf hcl hs he _ ih =>
    have h1 := hc _ (List.mem_of_getElem? hf) _ hcl
    rw [hs] at h1
    simp only [Bool.not_true, Bool.false_or, Bool.and_eq_true, List.all_eq_true] at h1
    have h2 := h1.2 _ (by rw [hid _ _ hf]; exact ih)
    rw [he] at h2
    simpa [mem_iff] using h2

/-! ## explicit call paths (negative control, reports) -/

/-- `path = [f0, f1, …, fk]`: each `fi` calls `fi+1` in the same goroutine without having touched `m`,
and `fk` locks `m` without having touched it. -/
def pathOk (P : Prog) (m : Nat) : List Nat → Bool
  | [] => false
  | [f] => match P[f]? with
    | none => false
    | some fn => fn.acqs.any (fun a => Nat.beq a.m m && hasE (bitsOf a.st a.m))
  | f :: g :: rest => (match P[f]? with
    | none => false
    | some fn => fn.calls.any (fun c => Nat.beq c.callee g && c.sync && hasE (bitsOf c.st m))) &&
    pathOk P m (g :: rest)

theorem pathOk_sound {P : Prog} {m : Nat} : ∀ {path : List Nat} {f : Nat},
    pathOk P m (f :: path) = true → MayAcq P f m := by
  intro path
  induction path with
  | nil =>
    intro f h
    simp only [pathOk] at h
    cases hf : P[f]? with
    | none => rw [hf] at h; simp at h
    | some fn =>
      rw [hf] at h
      simp only [List.any_eq_true, Bool.and_eq_true, Nat.beq_eq] at h
      obtain ⟨a, ha, hm, he⟩ := h
      subst hm
      exact MayAcq.direct hf ha he
  | cons g rest ih =>
    intro f h
    simp only [pathOk, Bool.and_eq_true] at h
    obtain ⟨h1, h2⟩ := h
    cases hf : P[f]? with
    | none => rw [hf] at h1; simp at h1
    | some fn =>
      rw [hf] at h1
      simp only [List.any_eq_true, Bool.and_eq_true, Nat.beq_eq] at h1
      obtain ⟨c, hc, ⟨hg, hs⟩, he⟩ := h1
      subst hg
      exact MayAcq.call hf hc hs he (ih h2)

end Dht.Locks
