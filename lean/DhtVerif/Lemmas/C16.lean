/- Helper lemmas for C16. -/
import DhtVerif.Model.Announce
import DhtVerif.Lemmas.C18Knn
namespace Dht

/-- Every element of an upsert fold is an element of the start or of the folded list. -/
theorem KNN.mem_foldl_upsert (l acc : List KElem) (x : KElem)
    (h : x ∈ l.foldl KNN.upsert acc) : x ∈ acc ∨ x ∈ l := by
  induction l generalizing acc with
  | nil => exact Or.inl h
  | cons e es ih =>
    rw [List.foldl_cons] at h
    rcases ih _ h with h | h
    · rcases (KNN.mem_upsert acc e x).mp h with rfl | ⟨hm, _⟩
      · exact Or.inr (List.mem_cons_self ..)
      · exact Or.inl hm
    · exact Or.inr (List.mem_cons_of_mem _ h)

/-- Membership in `announceClosest`. -/
theorem mem_announceClosest (closest : List KElem) (o : AnnounceOut) :
    o ∈ announceClosest closest ↔ ∃ e ∈ closest, e.addr = o.dst ∧ e.data = some o.token := by
  unfold announceClosest
  rw [List.mem_filterMap]
  constructor
  · rintro ⟨e, he, hm⟩
    refine ⟨e, he, ?_⟩
    cases hd : e.data with
    | none => simp [hd] at hm
    | some t =>
      simp only [hd, Option.map_some, Option.some.injEq] at hm
      subst hm
      exact ⟨rfl, rfl⟩
  · rintro ⟨e, he, ha, hd⟩
    refine ⟨e, he, ?_⟩
    cases o
    simp_all

/-- When every element carries data, `announceClosest` keeps all of them. -/
theorem announceClosest_length_of_all_some (closest : List KElem)
    (h : ∀ e ∈ closest, e.data.isSome = true) :
    (announceClosest closest).length = closest.length := by
  unfold announceClosest
  induction closest with
  | nil => rfl
  | cons e es ih =>
    have he := h e (List.mem_cons_self ..)
    obtain ⟨t, ht⟩ := Option.isSome_iff_exists.mp he
    rw [List.filterMap_cons]
    simp only [ht, Option.map_some, List.length_cons]
    rw [ih (fun x hx => h x (List.mem_cons_of_mem _ hx))]

/-- `announceClosest` never produces more announces than there are members. -/
theorem announceClosest_length_le (closest : List KElem) :
    (announceClosest closest).length ≤ closest.length :=
  List.length_filterMap_le _ _

/-- The eligible set of `announceAllowed`. -/
def announceElig (nodeFilter : Cand → Bool) (resps : List GpResp) : List KElem :=
  List.foldl KNN.upsert [] ((resps.filter (fun r => r.token.isSome && nodeFilter ⟨some r.id, r.addr⟩)).map GpResp.elem)

/-- Every eligible element stems from a response with that id, address and token that passed the filter. -/
theorem mem_announceElig (nf : Cand → Bool) (resps : List GpResp) (e : KElem)
    (h : e ∈ announceElig nf resps) :
    ∃ r ∈ resps, r.elem = e ∧ r.token.isSome = true ∧ nf ⟨some r.id, r.addr⟩ = true := by
  rcases KNN.mem_foldl_upsert _ _ _ h with h | h
  · simp at h
  · obtain ⟨r, hr, rfl⟩ := List.mem_map.mp h
    rw [List.mem_filter, Bool.and_eq_true] at hr
    exact ⟨r, hr.1, rfl, hr.2.1, hr.2.2⟩

/-! ### `eraseDups` and `Nodup` -/

theorem length_eraseDups_le {α} [BEq α] [LawfulBEq α] (l : List α) : l.eraseDups.length ≤ l.length := by
  generalize hn : l.length = n
  induction n using Nat.strongRecOn generalizing l with
  | _ n ih =>
    cases l with
    | nil => simp
    | cons a as =>
      rw [List.eraseDups_cons]
      simp only [List.length_cons] at hn ⊢
      have hf := List.length_filter_le (fun b => !b == a) as
      have := ih (as.filter fun b => !b == a).length (by omega) _ rfl
      omega

theorem nodup_of_length_eraseDups {α} [BEq α] [LawfulBEq α] (l : List α)
    (h : l.eraseDups.length = l.length) : l.Nodup := by
  induction l with
  | nil => exact List.nodup_nil
  | cons a as ih =>
    rw [List.eraseDups_cons] at h
    simp only [List.length_cons, Nat.add_right_cancel_iff] at h
    have hf := List.length_filter_le (fun b => !b == a) as
    have hle := length_eraseDups_le (as.filter fun b => !b == a)
    have hlen : (as.filter fun b => !b == a).length = as.length := by omega
    have hall := List.length_filter_eq_length_iff.mp hlen
    have hself : as.filter (fun b => !b == a) = as := List.filter_eq_self.mpr hall
    rw [hself] at h
    refine List.nodup_cons.mpr ⟨?_, ih h⟩
    intro hmem
    have := hall a hmem
    simp at this

/-- When every element carries data, the announces are the members, one for one and in order. -/
theorem announceClosest_dsts_of_all_some (closest : List KElem)
    (h : ∀ e ∈ closest, e.data.isSome = true) :
    (announceClosest closest).map (·.dst) = closest.map (·.addr) := by
  unfold announceClosest
  induction closest with
  | nil => rfl
  | cons e es ih =>
    obtain ⟨t, ht⟩ := Option.isSome_iff_exists.mp (h e (List.mem_cons_self ..))
    rw [List.filterMap_cons]
    simp only [ht, Option.map_some, List.map_cons]
    rw [ih (fun x hx => h x (List.mem_cons_of_mem _ hx))]

end Dht
