/- Helper lemmas for C16. -/
import DhtVerif.Model.Announce
namespace Dht

end Dht
