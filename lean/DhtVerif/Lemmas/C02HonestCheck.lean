/- Helper lemmas for C02Honest: the literal reading implies the general one; an executable
checker for honest histories (used by the non-vacuity example). -/
import DhtVerif.Lemmas.C02Honest
namespace Dht

/-! ### the literal reading is an instance -/

theorem ExactReply.honest {c : TravCfg} {net : List NetNode} (hwf : NetWF net) {a : Addr} {r : QResult}
    (h : ExactReply c net a r) : HonestReply c net a r := by
  obtain ⟨h1, h2, h3⟩ := h
  refine ⟨h1, h2, ?_, ?_⟩
  · intro x hx
    obtain ⟨n, hn, rfl⟩ := (h3 x).mp hx
    exact NetNode.cand_ok hwf n (kClosest_sub _ _ _ n hn)
  · intro n hn
    exact (h3 n.cand).mpr ⟨n, hn, rfl⟩

theorem ExactHist.honest {c : TravCfg} {net : List NetNode} (hwf : NetWF net) {evs : List TravEv}
    (h : ExactHist c net evs) : HonestHist c net evs := by
  intro e he
  have := h e he
  cases e with
  | addNodes ns =>
    intro x hx i hi
    obtain ⟨n, hn, _, hid⟩ := this x hx
    rcases hid with hid | hid
    · rw [hid] at hi
      simp only [Option.some.injEq] at hi
      rw [← hi]; exact hwf.idLen n hn
    · rw [hid] at hi; cases hi
  | queryReturn a r => exact ExactReply.honest hwf this
  | _ => trivial

/-! ### a checker -/

def Cand.okB (x : Cand) : Bool :=
  match x.id with
  | none => true
  | some i => i.length == 20

theorem Cand.okB_sound (x : Cand) (h : x.okB = true) : x.ok := by
  intro i hi
  unfold Cand.okB at h
  rw [hi] at h
  simpa using h

def honestReplyB (c : TravCfg) (net : List NetNode) (a : Addr) (r : QResult) : Bool :=
  (match r.responder with
   | some id => net.contains (id, a)
   | none => false) &&
  c.dataFilter r.data &&
  (r.nodes ++ r.nodes6).all Cand.okB &&
  (kClosest c.target c.k net).all (fun n => (r.nodes ++ r.nodes6).contains n.cand)

theorem honestReplyB_sound (c : TravCfg) (net : List NetNode) (a : Addr) (r : QResult)
    (h : honestReplyB c net a r = true) : HonestReply c net a r := by
  unfold honestReplyB at h
  simp only [Bool.and_eq_true, List.all_eq_true, List.contains_iff_mem] at h
  obtain ⟨⟨⟨h1, h2⟩, h3⟩, h4⟩ := h
  refine ⟨?_, h2, fun x hx => Cand.okB_sound x (h3 x hx), h4⟩
  cases hr : r.responder with
  | none => rw [hr] at h1; cases h1
  | some id =>
    rw [hr] at h1
    exact ⟨id, by simpa using h1, rfl⟩

def honestEvB (c : TravCfg) (net : List NetNode) : TravEv → Bool
  | .addNodes ns => ns.all Cand.okB
  | .queryReturn a r => honestReplyB c net a r
  | _ => true

def honestHistB (c : TravCfg) (net : List NetNode) (evs : List TravEv) : Bool :=
  evs.all (honestEvB c net)

theorem honestHistB_sound (c : TravCfg) (net : List NetNode) (evs : List TravEv)
    (h : honestHistB c net evs = true) : HonestHist c net evs := by
  intro e he
  unfold honestHistB at h
  rw [List.all_eq_true] at h
  have := h e he
  cases e with
  | addNodes ns =>
    intro x hx
    simp only [honestEvB, List.all_eq_true] at this
    exact Cand.okB_sound x (this x hx)
  | queryReturn a r => exact honestReplyB_sound c net a r this
  | _ => trivial

/-! ### a checker for the literal reading -/

def exactReplyB (c : TravCfg) (net : List NetNode) (a : Addr) (r : QResult) : Bool :=
  (match r.responder with
   | some id => net.contains (id, a)
   | none => false) &&
  c.dataFilter r.data &&
  (r.nodes ++ r.nodes6).all (fun x => ((kClosest c.target c.k net).map NetNode.cand).contains x) &&
  (kClosest c.target c.k net).all (fun n => (r.nodes ++ r.nodes6).contains n.cand)

theorem exactReplyB_sound (c : TravCfg) (net : List NetNode) (a : Addr) (r : QResult)
    (h : exactReplyB c net a r = true) : ExactReply c net a r := by
  unfold exactReplyB at h
  simp only [Bool.and_eq_true, List.all_eq_true, List.contains_iff_mem] at h
  obtain ⟨⟨⟨h1, h2⟩, h3⟩, h4⟩ := h
  refine ⟨?_, h2, ?_⟩
  · cases hr : r.responder with
    | none => rw [hr] at h1; cases h1
    | some id =>
      rw [hr] at h1
      exact ⟨id, by simpa using h1, rfl⟩
  · intro x
    constructor
    · intro hx
      obtain ⟨n, hn, hnx⟩ := List.mem_map.mp (h3 x hx)
      exact ⟨n, hn, hnx.symm⟩
    · rintro ⟨n, hn, rfl⟩
      exact h4 n hn

def exactEvB (c : TravCfg) (net : List NetNode) : TravEv → Bool
  | .addNodes ns => ns.all (fun x => net.any (fun n => x.addr == n.2 && (x.id == some n.1 || x.id == none)))
  | .queryReturn a r => exactReplyB c net a r
  | _ => true

def exactHistB (c : TravCfg) (net : List NetNode) (evs : List TravEv) : Bool :=
  evs.all (exactEvB c net)

theorem exactHistB_sound (c : TravCfg) (net : List NetNode) (evs : List TravEv)
    (h : exactHistB c net evs = true) : ExactHist c net evs := by
  intro e he
  unfold exactHistB at h
  rw [List.all_eq_true] at h
  have := h e he
  cases e with
  | addNodes ns =>
    intro x hx
    simp only [exactEvB, List.all_eq_true, List.any_eq_true, Bool.and_eq_true, Bool.or_eq_true,
      beq_iff_eq] at this
    obtain ⟨n, hn, h1, h2⟩ := this x hx
    exact ⟨n, hn, h1, h2⟩
  | queryReturn a r => exact exactReplyB_sound c net a r this
  | _ => trivial

end Dht
