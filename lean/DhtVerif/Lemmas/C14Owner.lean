/-
Soundness of the ownership analysis: a post-fixpoint table contains the abstract state of
every path, so a table without violating (node, state) pairs means that no path violates.
-/
import DhtVerif.Model.Owner
namespace Dht.Own

theorem contains_mem {l : List Abs} {x : Abs} (h : l.contains x = true) : x ∈ l := by
  simpa using h

/-- A post-fixpoint contains the state of every path. -/
theorem closed_sound (cx : Ctx) (c : Cfg) (init : Abs) (m : Table) (h : closed cx c init m = true)
    (i : Nat) (s : Abs) (hp : PathTo cx c init i s) : s ∈ m.at i := by
  unfold closed at h
  simp only [Bool.and_eq_true, List.all_eq_true] at h
  obtain ⟨h0, hstep⟩ := h
  induction hp with
  | entry => exact contains_mem h0
  | step _ hn hid hs' hj ih =>
    subst hid
    exact contains_mem (hstep _ hn _ ih _ hs' _ hj)

theorem no_violation_ok (c : Cfg) (m : Table) (h : violationsIn c m = []) (n : Node) (hn : n ∈ c.nodes)
    (s : Abs) (hs : s ∈ m.at n.id) : nodeOk n s = true := by
  unfold violationsIn at h
  rw [List.flatMap_eq_nil_iff] at h
  have h1 := h n hn
  rw [List.map_eq_nil_iff, List.filter_eq_nil_iff] at h1
  have h2 := h1 s hs
  simpa using h2

/-- Generalisation with exemptions: every violating (node, state) of the table satisfies `ex`. -/
theorem violation_excluded (c : Cfg) (m : Table) (ex : Nat × Abs → Bool)
    (h : (violationsIn c m).all ex = true) (n : Node) (hn : n ∈ c.nodes)
    (s : Abs) (hs : s ∈ m.at n.id) : nodeOk n s = true ∨ ex (n.id, s) = true := by
  cases hok : nodeOk n s with
  | true => exact Or.inl rfl
  | false =>
    right
    rw [List.all_eq_true] at h
    apply h
    unfold violationsIn
    rw [List.mem_flatMap]
    refine ⟨n, hn, ?_⟩
    rw [List.mem_map]
    refine ⟨s, ?_, rfl⟩
    rw [List.mem_filter]
    exact ⟨hs, by simp [hok]⟩

end Dht.Own
