/- Helper lemmas shared by C12 and C13 (BEP 44 store model). -/
import DhtVerif.Model.Bep44
namespace Dht.B44

theorem Store.set_same (s : Store) (t : Target) (e : Entry) : (s.set t e) t = some e := by
  simp [Store.set]

theorem Store.set_other (s : Store) (t t' : Target) (e : Entry) (h : t' ≠ t) : (s.set t e) t' = s t' := by
  simp [Store.set, h]

theorem Store.del_same (s : Store) (t : Target) : (s.del t) t = none := by
  simp [Store.del]

theorem Store.del_other (s : Store) (t t' : Target) (h : t' ≠ t) : (s.del t) t' = s t' := by
  simp [Store.del, h]

/-- Whatever rule is in force, an accepted incoming item does not have a lower sequence number. -/
theorem checkIncomingWith_none_seq (spec : Bool) (st i : Item) (h : checkIncomingWith spec st i = none) :
    st.seq ≤ i.seq := by
  unfold checkIncomingWith checkIncomingSpec checkIncomingLit at h
  cases spec <;> simp only [Bool.false_eq_true, if_false, if_true] at h <;>
    (split at h
     · omega
     · split at h
       · simp at h
       · omega)

/-- Lower seq, or equal seq with a different value: rejected with the 302 code under either rule. -/
theorem checkIncomingWith_lower (spec : Bool) (st i : Item)
    (h : i.seq < st.seq ∨ (i.seq = st.seq ∧ i.bv ≠ st.bv)) :
    checkIncomingWith spec st i = some Gen.bep44ErrSequenceNumberLessThanCurrent := by
  unfold checkIncomingWith checkIncomingSpec checkIncomingLit
  have h1 : ¬ (st.seq = i.seq ∧ st.bv = i.bv) := by
    rintro ⟨a, b⟩
    rcases h with h | ⟨_, h⟩
    · omega
    · exact h b.symm
  have h2 : st.seq ≥ i.seq := by rcases h with h | ⟨h, _⟩ <;> omega
  cases spec <;> simp [h1, h2]

/-- `CheckIncoming` rejects with 301 or 302 only. -/
theorem checkIncomingWith_code (spec : Bool) (st i : Item) (e : Nat) (h : checkIncomingWith spec st i = some e) :
    e = Gen.bep44ErrCasHashMismatched ∨ e = Gen.bep44ErrSequenceNumberLessThanCurrent := by
  cases spec
  · simp only [checkIncomingWith, checkIncomingLit, Bool.false_eq_true, if_false] at h
    split at h
    · cases h
    · split at h
      · cases h; exact Or.inr rfl
      · split at h
        · cases h
        · split at h
          · cases h; exact Or.inl rfl
          · cases h
  · simp only [checkIncomingWith, checkIncomingSpec, if_true] at h
    split at h
    · cases h
    · split at h
      · cases h; exact Or.inr rfl
      · split at h
        · cases h
        · split at h
          · cases h; exact Or.inl rfl
          · cases h

/-- The three outcomes of `Wrapper.put`. -/
theorem Wrapper.put_cases (P : Params) (now : Nat) (s : Store) (i : Item) :
    (∃ e, check P i = some e ∧ Wrapper.put P now s i = (s, some e)) ∨
    (∃ st e, check P i = none ∧ s (target P i) = some st ∧ checkIncomingWith P.casSpec st.item i = some e ∧
        Wrapper.put P now s i = (s, some e)) ∨
    (check P i = none ∧ (s (target P i) = none ∨ ∃ st, s (target P i) = some st ∧ checkIncomingWith P.casSpec st.item i = none) ∧
        Wrapper.put P now s i = (s.set (target P i) ⟨i, now⟩, none)) := by
  unfold Wrapper.put
  cases hc : check P i with
  | some e => exact Or.inl ⟨e, rfl, rfl⟩
  | none =>
    cases hs : s (target P i) with
    | none => exact Or.inr (Or.inr ⟨rfl, Or.inl rfl, rfl⟩)
    | some st =>
      cases hi : checkIncomingWith P.casSpec st.item i with
      | some e => exact Or.inr (Or.inl ⟨st, e, rfl, rfl, hi, by simp [hi]⟩)
      | none => exact Or.inr (Or.inr ⟨rfl, Or.inr ⟨st, rfl, hi⟩, by simp [hi]⟩)

/-- A rejected put leaves the store as it was. -/
theorem Wrapper.put_rejected_pure (P : Params) (now : Nat) (s : Store) (i : Item)
    (h : (Wrapper.put P now s i).2 ≠ none) : (Wrapper.put P now s i).1 = s := by
  rcases Wrapper.put_cases P now s i with ⟨e, _, h'⟩ | ⟨st, e, _, _, _, h'⟩ | ⟨_, _, h'⟩
  · rw [h']
  · rw [h']
  · rw [h'] at h; exact absurd rfl h

/-- The two outcomes of `Wrapper.get` on a present entry. -/
theorem Wrapper.get_some (exp now : Nat) (s : Store) (t : Target) (e : Entry) (hs : s t = some e) :
    (now < e.created + exp ∧ Wrapper.get exp now s t = (s, some e.item)) ∨
    (e.created + exp ≤ now ∧ Wrapper.get exp now s t = (s.del t, none)) := by
  unfold Wrapper.get Entry.fresh
  rw [hs]
  by_cases h : e.created + exp > now
  · left; simp [h]
  · right; simp [h]; omega

theorem Wrapper.get_none (exp now : Nat) (s : Store) (t : Target) (hs : s t = none) :
    Wrapper.get exp now s t = (s, none) := by
  unfold Wrapper.get; rw [hs]

/-- `handleGet` changes the store exactly as `Wrapper.get` does. -/
theorem handleGet_store (exp now : Nat) (s : Store) (t : Target) (a : Option Int) :
    (handleGet exp now s t a).1 = (Wrapper.get exp now s t).1 := by
  unfold handleGet
  rcases h : Wrapper.get exp now s t with ⟨s', r⟩
  cases r with
  | none => rfl
  | some i =>
    cases a with
    | none => rfl
    | some a => simp only []; split <;> rfl

/-- How one target's entry may change in one step at clock `now`: the sequence number does
not go down, and the entry disappears only once it has expired. -/
def SeqStep (exp now : Nat) (s s' : Store) (t : Target) : Prop :=
  ∀ a, s t = some a →
    match s' t with
    | some b => a.item.seq ≤ b.item.seq
    | none => a.created + exp ≤ now

theorem SeqStep.refl (exp now : Nat) (s : Store) (t : Target) : SeqStep exp now s s t := by
  intro a ha; rw [ha]; exact Int.le_refl _

theorem Wrapper.put_seqStep (P : Params) (exp now : Nat) (s : Store) (i : Item) (t : Target) :
    SeqStep exp now s (Wrapper.put P now s i).1 t := by
  rcases Wrapper.put_cases P now s i with ⟨e, _, h'⟩ | ⟨st, e, _, _, _, h'⟩ | ⟨_, hst, h'⟩
  · rw [h']; exact SeqStep.refl _ _ _ _
  · rw [h']; exact SeqStep.refl _ _ _ _
  · rw [h']
    intro a ha
    dsimp only
    by_cases ht : t = target P i
    · subst ht
      rw [Store.set_same]
      rcases hst with hn | ⟨st, hs, hci⟩
      · rw [hn] at ha; cases ha
      · rw [hs] at ha; cases ha
        exact checkIncomingWith_none_seq _ _ _ hci
    · rw [Store.set_other _ _ _ _ ht, ha]; exact Int.le_refl _

theorem Wrapper.get_seqStep (exp now : Nat) (s : Store) (t0 t : Target) :
    SeqStep exp now s (Wrapper.get exp now s t0).1 t := by
  cases hs : s t0 with
  | none => rw [Wrapper.get_none _ _ _ _ hs]; exact SeqStep.refl _ _ _ _
  | some e =>
    rcases Wrapper.get_some exp now s t0 e hs with ⟨_, h⟩ | ⟨hx, h⟩
    · rw [h]; exact SeqStep.refl _ _ _ _
    · rw [h]
      intro a ha
      dsimp only
      by_cases ht : t = t0
      · subst ht; rw [Store.del_same]; rw [hs] at ha; cases ha; exact hx
      · rw [Store.del_other _ _ _ ht, ha]; exact Int.le_refl _

theorem St.run_cons (P : Params) (exp : Nat) (s : St) (ev : Ev) (evs : List Ev) :
    s.run P exp (ev :: evs) = (s.step P exp ev).run P exp evs := rfl

theorem St.run_append (P : Params) (exp : Nat) (s : St) (a b : List Ev) :
    s.run P exp (a ++ b) = (s.run P exp a).run P exp b := by
  unfold St.run; exact List.foldl_append ..

theorem St.step_seqStep (P : Params) (exp : Nat) (s : St) (ev : Ev) (t : Target) :
    SeqStep exp s.now s.store (s.step P exp ev).store t := by
  cases ev with
  | put i => exact Wrapper.put_seqStep P exp s.now s.store i t
  | get t0 a => simp only [St.step]; rw [handleGet_store]; exact Wrapper.get_seqStep exp s.now s.store t0 t
  | advance d => exact SeqStep.refl _ _ _ _

theorem St.step_now_le (P : Params) (exp : Nat) (s : St) (ev : Ev) : s.now ≤ (s.step P exp ev).now := by
  cases ev <;> simp [St.step]

theorem St.run_now_le (P : Params) (exp : Nat) (s : St) (evs : List Ev) : s.now ≤ (s.run P exp evs).now := by
  induction evs generalizing s with
  | nil => exact Nat.le_refl _
  | cons ev rest ih => rw [St.run_cons]; exact Nat.le_trans (St.step_now_le P exp s ev) (ih _)

end Dht.B44
