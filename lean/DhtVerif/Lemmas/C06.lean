/- Helper lemmas for C06: where entries of the new table come from, and which entries survive. -/
import DhtVerif.Model.Table
import DhtVerif.Lemmas.C05
namespace Dht

/-- Every entry of the table after `updateNode` continues an old entry (same ID
and address), or is the sender itself, freshly built, not bad, with the
try-add flag set. -/
theorem updateNode_mem {c : TableCfg} {now : Nat} {t t' : Table} {addr : NAddr} {id : Option Id} {tryAdd : Bool}
    {upd : Node → Node} {ch : Option Node} {out : AddOutcome} (hupd : KeyPres upd)
    (h : updateNode c now t addr id tryAdd upd ch = some (t', out)) {n : Node} (hn : n ∈ t') :
    (∃ n0 ∈ t, n.id = n0.id ∧ n.addr = n0.addr) ∨
    (∃ id', id = some id' ∧ tryAdd = true ∧ n = upd { id := id', addr := addr } ∧ isBad c n = false ∧
      n.id = id' ∧ n.addr = addr) := by
  rcases updateNode_cases h with ⟨rfl, _⟩ | ⟨id', _, _, rfl, _⟩ |
    ⟨id', i, hid', hta, _, _, hbad, _, _, rfl, _⟩ |
    ⟨id', i, d, hid', hta, _, _, hbad, _, _, _, rfl, _⟩
  · exact Or.inl ⟨n, hn, rfl, rfl⟩
  · obtain ⟨n0, h0, _, h1, h2⟩ := mem_map_keyPres (hupd.ite _) hn
    exact Or.inl ⟨n0, h0, h1, h2⟩
  · rcases List.mem_append.mp hn with hn | hn
    · exact Or.inl ⟨n, hn, rfl, rfl⟩
    · rw [List.mem_singleton] at hn; subst hn
      exact Or.inr ⟨id', hid', hta, rfl, hbad, (hupd _).1, (hupd _).2⟩
  · rcases List.mem_append.mp hn with hn | hn
    · exact Or.inl ⟨n, (List.mem_filter.mp hn).1, rfl, rfl⟩
    · rw [List.mem_singleton] at hn; subst hn
      exact Or.inr ⟨id', hid', hta, rfl, hbad, (hupd _).1, (hupd _).2⟩

/-- Every old entry is continued in the new table (same ID and address) unless
it is the one droppable entry the outcome names. -/
theorem updateNode_survive {c : TableCfg} {now : Nat} {t t' : Table} {addr : NAddr} {id : Option Id} {tryAdd : Bool}
    {upd : Node → Node} {ch : Option Node} {out : AddOutcome} (hupd : KeyPres upd)
    (h : updateNode c now t addr id tryAdd upd ch = some (t', out)) {n : Node} (hn : n ∈ t) :
    (∃ n' ∈ t', n'.id = n.id ∧ n'.addr = n.addr) ∨
    (∃ id', id = some id' ∧ tryAdd = true ∧ out = .replaced n ∧
      n ∈ droppable c now t (upd { id := id', addr := addr })) := by
  rcases updateNode_cases h with ⟨rfl, _⟩ | ⟨id', _, _, rfl, _⟩ |
    ⟨id', i, hid', hta, _, _, hbad, _, _, rfl, _⟩ |
    ⟨id', i, d, hid', hta, _, _, hbad, _, hd, _, rfl, hout, _⟩
  · exact Or.inl ⟨n, hn, rfl, rfl⟩
  · have hk := hupd.ite (fun n => n.is addr id')
    exact Or.inl ⟨_, List.mem_map.mpr ⟨n, hn, rfl⟩, (hk n).1, (hk n).2⟩
  · exact Or.inl ⟨n, List.mem_append_left _ hn, rfl, rfl⟩
  · by_cases hnd : n = d
    · subst hnd
      exact Or.inr ⟨id', hid', hta, hout, hd⟩
    · refine Or.inl ⟨n, List.mem_append_left _ (List.mem_filter.mpr ⟨hn, ?_⟩), rfl, rfl⟩
      simpa using hnd

/-- Why an entry is droppable. -/
theorem droppable_why {c : TableCfg} {now : Nat} {t : Table} {m d : Node} (h : d ∈ droppable c now t m) :
    d ∈ t ∧ (isBad c d = true ∨ (isGood c now m = true ∧ d.lastResp = none)) := by
  unfold droppable at h
  split at h
  · simp at h
  · simp only [bucketNodes, List.mem_filter] at h
    exact ⟨h.1.1, by simpa using h.2⟩

theorem isGood_imp {c : TableCfg} {now : Nat} {n : Node} (h : isGood c now n = true) :
    isBad c n = false ∧ n.lastResp.isSome = true := by
  simp [isGood] at h
  refine ⟨h.1, ?_⟩
  rcases h.2 with h2 | h2
  · cases hr : n.lastResp with
    | none => simp [hr, recent] at h2
    | some _ => rfl
  · exact h2.1

/-- A contact that has only queried us (or was added by hand) is not good. -/
theorem not_isGood_of_lastResp_none {c : TableCfg} {now : Nat} {n : Node} (h : n.lastResp = none) :
    isGood c now n = false := by
  cases hg : isGood c now n with
  | false => rfl
  | true => have := (isGood_imp hg).2; simp [h] at this

theorem run_cons {c : TableCfg} {s0 s : TblState} {e : TblEv} {es : List TblEv}
    (h : TblState.run c s0 (e :: es) = some s) :
    ∃ s1 o, s0.step c e = some (s1, o) ∧ TblState.run c s1 es = some s := by
  unfold TblState.run at h
  split at h
  · cases h
  · rename_i s1 o hs; exact ⟨s1, o, hs, h⟩

end Dht
