/-
Lemmas for C15: the strict parser inverts the canonical encoder.
-/
import DhtVerif.Model.Bencode
namespace Dht
namespace Benc

/-! ## Digits -/

theorem digit_toNat (n : Nat) : (digit n).toNat = 48 + n % 10 := by
  unfold digit
  simp [Nat.toUInt8]
  omega

theorem digit_isDigit (n : Nat) : isDigit (digit n) = true := by
  simp [isDigit, digit_toNat]
  omega

theorem digit_val (n : Nat) : (digit n).toNat - 48 = n % 10 := by
  rw [digit_toNat]; omega

theorem natDigits_lt {n : Nat} (h : n < 10) : natDigits n = [digit n] := by
  rw [natDigits]; simp [h]

theorem natDigits_ge {n : Nat} (h : ¬ n < 10) : natDigits n = natDigits (n / 10) ++ [digit n] := by
  rw [natDigits]; simp [h]

theorem natDigits_ne_nil (n : Nat) : natDigits n ≠ [] := by
  by_cases h : n < 10
  · rw [natDigits_lt h]; simp
  · rw [natDigits_ge h]; simp

theorem natDigits_length_pos (n : Nat) : 0 < (natDigits n).length := by
  have := natDigits_ne_nil n
  cases h : natDigits n with
  | nil => exact absurd h this
  | cons _ _ => simp

theorem natDigits_all_digits (n : Nat) : ∀ c ∈ natDigits n, isDigit c = true := by
  induction n using natDigits.induct with
  | case1 x h =>
    rw [natDigits_lt h]
    intro c hc
    simp at hc
    rw [hc]; exact digit_isDigit x
  | case2 x h ih =>
    rw [natDigits_ge h]
    intro c hc
    simp at hc
    cases hc with
    | inl hc => exact ih c hc
    | inr hc => rw [hc]; exact digit_isDigit x

theorem digitsToNat_append (a : List UInt8) (d : UInt8) :
    digitsToNat (a ++ [d]) = digitsToNat a * 10 + (d.toNat - 48) := by
  simp [digitsToNat, List.foldl_append]

theorem digitsToNat_natDigits (n : Nat) : digitsToNat (natDigits n) = n := by
  induction n using natDigits.induct with
  | case1 x h =>
    rw [natDigits_lt h]
    simp [digitsToNat, digit_val]
    omega
  | case2 x h ih =>
    rw [natDigits_ge h, digitsToNat_append, ih, digit_val]
    omega

/-- The first digit of a positive number is not '0'. -/
theorem natDigits_head_pos (n : Nat) (hn : 0 < n) :
    ∃ c t, natDigits n = c :: t ∧ c ≠ cZero := by
  induction n using natDigits.induct with
  | case1 x h =>
    refine ⟨digit x, [], natDigits_lt h, ?_⟩
    intro hc
    have := congrArg UInt8.toNat hc
    rw [digit_toNat] at this
    simp [cZero] at this
    omega
  | case2 x h ih =>
    obtain ⟨c, t, hct, hc⟩ := ih (by omega)
    exact ⟨c, t ++ [digit x], by rw [natDigits_ge h, hct]; rfl, hc⟩

theorem canonDigits_natDigits (n : Nat) : canonDigits (natDigits n) = true := by
  by_cases h : n < 10
  · rw [natDigits_lt h]; rfl
  · obtain ⟨c, t, hct, hc⟩ := natDigits_head_pos n (by omega)
    have hlen : 2 ≤ (natDigits n).length := by
      rw [natDigits_ge h]
      have := natDigits_length_pos (n / 10)
      simp; omega
    rw [hct] at hlen ⊢
    cases t with
    | nil => simp at hlen
    | cons d t' => simp [canonDigits, hc]

theorem negDigitsOk_natDigits (n : Nat) : negDigitsOk (natDigits (n + 1)) = true := by
  obtain ⟨c, t, hct, hc⟩ := natDigits_head_pos (n + 1) (by omega)
  rw [hct]; simp [negDigitsOk, hc]

theorem spanDigits_append (ds : List UInt8) (x : UInt8) (r : List UInt8)
    (hds : ∀ c ∈ ds, isDigit c = true) (hx : isDigit x = false) :
    spanDigits (ds ++ x :: r) = (ds, x :: r) := by
  induction ds with
  | nil => simp [spanDigits, hx]
  | cons c t ih =>
    have hc : isDigit c = true := hds c (by simp)
    have := ih (fun c' hc' => hds c' (by simp [hc']))
    simp [spanDigits, hc, this]

theorem isDigit_cE : isDigit cE = false := by decide
theorem isDigit_cColon : isDigit cColon = false := by decide
theorem isDigit_cMinus : isDigit cMinus = false := by decide

/-! ## Scalars -/

theorem decInt_intDigits (i : Int) (rest : List UInt8) :
    decInt (intDigits i ++ cE :: rest) = some (.int i, rest) := by
  cases i with
  | ofNat n =>
    obtain ⟨c, t, hct⟩ : ∃ c t, natDigits n = c :: t := by
      cases h : natDigits n with
      | nil => exact absurd h (natDigits_ne_nil n)
      | cons c t => exact ⟨c, t, rfl⟩
    have hcd : isDigit c = true := natDigits_all_digits n c (by rw [hct]; simp)
    have hcm : c ≠ cMinus := by
      intro h; rw [h] at hcd; simp [isDigit_cMinus] at hcd
    have hsp := spanDigits_append (natDigits n) cE rest (natDigits_all_digits n) isDigit_cE
    simp only [intDigits]
    rw [hct] at hsp ⊢
    simp only [List.cons_append, decInt, hcm, if_false]
    simp only [List.cons_append] at hsp
    rw [hsp]
    simp only [← hct, canonDigits_natDigits, digitsToNat_natDigits, if_true]
    rfl
  | negSucc n =>
    have hsp := spanDigits_append (natDigits (n + 1)) cE rest (natDigits_all_digits _) isDigit_cE
    simp only [intDigits, List.cons_append, decInt, if_true]
    rw [hsp]
    simp only [negDigitsOk_natDigits, digitsToNat_natDigits, if_true]
    rfl

theorem decBytes_encBytes (b rest : List UInt8) :
    decBytes (encBytes b ++ rest) = some (b, rest) := by
  have hsp := spanDigits_append (natDigits b.length) cColon (b ++ rest) (natDigits_all_digits _) isDigit_cColon
  unfold decBytes encBytes
  simp only [List.append_assoc, List.cons_append]
  rw [hsp]
  simp [canonDigits_natDigits, digitsToNat_natDigits]

/-- Every encoding starts with a byte that is not the terminator. -/
theorem encBytes_head (b : List UInt8) : ∃ c t, encBytes b = c :: t ∧ isDigit c = true := by
  unfold encBytes
  cases h : natDigits b.length with
  | nil => exact absurd h (natDigits_ne_nil _)
  | cons c t =>
    exact ⟨c, t ++ cColon :: b, rfl, natDigits_all_digits b.length c (by rw [h]; simp)⟩

theorem encBytes_length_pos (b : List UInt8) : 0 < (encBytes b).length := by
  obtain ⟨c, t, h, _⟩ := encBytes_head b
  rw [h]; simp

theorem digit_ne {c : UInt8} (h : isDigit c = true) : c ≠ cI ∧ c ≠ cL ∧ c ≠ cD ∧ c ≠ cE := by
  refine ⟨?_, ?_, ?_, ?_⟩ <;> (intro hc; rw [hc] at h; revert h; decide)

theorem enc_head (v : BV) : ∃ c t, enc v = c :: t ∧ c ≠ cE := by
  cases v with
  | int i => exact ⟨cI, intDigits i ++ [cE], by simp [enc], by decide⟩
  | bytes b =>
    obtain ⟨c, t, h, hd⟩ := encBytes_head b
    exact ⟨c, t, by simp [enc, h], (digit_ne hd).2.2.2⟩
  | list l => exact ⟨cL, encList l, by simp [enc], by decide⟩
  | dict d => exact ⟨cD, encDict d, by simp [enc], by decide⟩

theorem enc_length_pos (v : BV) : 0 < (enc v).length := by
  obtain ⟨c, t, h, _⟩ := enc_head v
  rw [h]; simp

theorem encList_length_pos (l : List BV) : 0 < (encList l).length := by
  cases l with
  | nil => simp [encList]
  | cons v vs => simp [encList]; have := enc_length_pos v; omega

theorem encDict_length_pos (d : List (List UInt8 × BV)) : 0 < (encDict d).length := by
  cases d with
  | nil => simp [encDict]
  | cons kv kvs =>
    obtain ⟨k, v⟩ := kv
    simp [encDict]; have := encBytes_length_pos k; omega

/-! ## The parser inverts the encoder -/

mutual
  theorem dec_enc_fuel : ∀ (v : BV), wf v = true → ∀ (rest : List UInt8) (f : Nat),
      (enc v).length ≤ f → dec f (enc v ++ rest) = some (v, rest)
    | .int i, _, rest, f, hf => by
      cases f with
      | zero => simp [enc] at hf
      | succ f =>
        simp only [enc, List.cons_append, dec, if_true, List.append_assoc]
        exact decInt_intDigits i rest
    | .bytes b, _, rest, f, hf => by
      cases f with
      | zero => have := encBytes_length_pos b; simp only [enc] at hf; omega
      | succ f =>
        obtain ⟨c, t, h, hd⟩ := encBytes_head b
        have hne := digit_ne hd
        have hb := decBytes_encBytes b rest
        simp only [enc]
        rw [h] at hb ⊢
        simp only [List.cons_append] at hb ⊢
        simp only [dec, hne.1, hne.2.1, hne.2.2.1, if_false, hd, if_true, hb]
    | .list l, h, rest, f, hf => by
      cases f with
      | zero => simp [enc] at hf
      | succ f =>
        have hl : wfList l = true := by simpa [wf] using h
        have hf' : (encList l).length ≤ f := by simp [enc] at hf; omega
        have := decList_enc_fuel l hl rest f hf'
        simp only [enc, List.cons_append, dec, this]
        simp [cL, cI]
    | .dict d, h, rest, f, hf => by
      cases f with
      | zero => simp [enc] at hf
      | succ f =>
        have hd : keysSorted (d.map Prod.fst) = true ∧ wfVals d = true := by simpa [wf] using h
        have hf' : (encDict d).length ≤ f := by simp [enc] at hf; omega
        have := decDict_enc_fuel d hd.2 hd.1 none (by intro k _; rfl) rest f hf'
        simp only [enc, List.cons_append, dec, this]
        simp [cL, cI, cD]
  theorem decList_enc_fuel : ∀ (l : List BV), wfList l = true → ∀ (rest : List UInt8) (f : Nat),
      (encList l).length ≤ f → decList f (encList l ++ rest) = some (l, rest)
    | [], _, rest, f, hf => by
      cases f with
      | zero => simp [encList] at hf
      | succ f => simp [encList, decList]
    | v :: vs, h, rest, f, hf => by
      cases f with
      | zero => have := enc_length_pos v; simp only [encList, List.length_append] at hf; omega
      | succ f =>
        have hw : wf v = true ∧ wfList vs = true := by simpa [wfList] using h
        have h1 := enc_length_pos v
        have h2 := encList_length_pos vs
        have hfv : (enc v).length ≤ f := by simp [encList] at hf; omega
        have hfl : (encList vs).length ≤ f := by simp [encList] at hf; omega
        have hv := dec_enc_fuel v hw.1 (encList vs ++ rest) f hfv
        have hl := decList_enc_fuel vs hw.2 rest f hfl
        obtain ⟨c, t, hct, hce⟩ := enc_head v
        simp only [encList, List.append_assoc]
        rw [hct] at hv ⊢
        simp only [List.cons_append] at hv ⊢
        simp only [decList, hce, if_false, hv, hl]
  theorem decDict_enc_fuel : ∀ (d : List (List UInt8 × BV)), wfVals d = true →
      keysSorted (d.map Prod.fst) = true → ∀ (prev : Option (List UInt8)),
      (∀ k ∈ d.map Prod.fst, keyAfter prev k = true) → ∀ (rest : List UInt8) (f : Nat),
      (encDict d).length ≤ f → decDict f prev (encDict d ++ rest) = some (d, rest)
    | [], _, _, prev, _, rest, f, hf => by
      cases f with
      | zero => simp [encDict] at hf
      | succ f => simp [encDict, decDict]
    | (k, v) :: kvs, h, hs, prev, hp, rest, f, hf => by
      cases f with
      | zero => have := encBytes_length_pos k; simp only [encDict, List.length_append] at hf; omega
      | succ f =>
        have hw : wf v = true ∧ wfVals kvs = true := by simpa [wfVals] using h
        have hs' : (∀ x ∈ kvs.map Prod.fst, bytesLt k x = true) ∧ keysSorted (kvs.map Prod.fst) = true := by
          simpa [keysSorted, List.all_eq_true] using hs
        have h0 := encBytes_length_pos k
        have h1 := enc_length_pos v
        have h2 := encDict_length_pos kvs
        have hfv : (enc v).length ≤ f := by simp [encDict] at hf; omega
        have hfd : (encDict kvs).length ≤ f := by simp [encDict] at hf; omega
        have hv := dec_enc_fuel v hw.1 (encDict kvs ++ rest) f hfv
        have hd := decDict_enc_fuel kvs hw.2 hs'.2 (some k) (fun x hx => hs'.1 x hx) rest f hfd
        have hk := decBytes_encBytes k (enc v ++ (encDict kvs ++ rest))
        have hpk : keyAfter prev k = true := hp k (by simp)
        obtain ⟨c, t, hct, hcd⟩ := encBytes_head k
        have hne := digit_ne hcd
        simp only [encDict, List.append_assoc]
        rw [hct] at hk ⊢
        simp only [List.cons_append] at hk ⊢
        simp only [decDict, hne.2.2.2, if_false, hcd, if_true, hk, hpk, hv, hd]
end

end Benc
end Dht
