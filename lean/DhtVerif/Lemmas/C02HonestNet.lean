/- Helper lemmas for C02Honest: the K closest nodes of a finite network. -/
import DhtVerif.Lemmas.C02HonestDefs
namespace Dht

/-! ### valid addresses print as themselves -/

theorem Addr.strKey_of_valid (a : Addr) (h : a.rank ≠ 0) : a.strKey = a := by
  unfold Addr.strKey; simp [h]

/-! ### sorting the network by distance (a proof device; insertion sort) -/

def insertByDist (t : Id) (n : NetNode) : List NetNode → List NetNode
  | [] => [n]
  | x :: xs => if netDist t n ≤ netDist t x then n :: x :: xs else x :: insertByDist t n xs

def sortByDist (t : Id) (net : List NetNode) : List NetNode := net.foldr (insertByDist t) []

theorem mem_insertByDist (t : Id) (n x : NetNode) (l : List NetNode) :
    x ∈ insertByDist t n l ↔ x = n ∨ x ∈ l := by
  induction l with
  | nil => simp [insertByDist]
  | cons y ys ih =>
    unfold insertByDist
    split
    · simp
    · simp only [List.mem_cons, ih]
      constructor
      · rintro (h | h | h)
        · exact Or.inr (Or.inl h)
        · exact Or.inl h
        · exact Or.inr (Or.inr h)
      · rintro (h | h | h)
        · exact Or.inr (Or.inl h)
        · exact Or.inl h
        · exact Or.inr (Or.inr h)

theorem length_insertByDist (t : Id) (n : NetNode) (l : List NetNode) :
    (insertByDist t n l).length = l.length + 1 := by
  induction l with
  | nil => simp [insertByDist]
  | cons y ys ih =>
    unfold insertByDist
    split
    · simp
    · simp [ih]

theorem pairwise_insertByDist (t : Id) (n : NetNode) (l : List NetNode)
    (h : l.Pairwise (fun a b => netDist t a ≤ netDist t b)) :
    (insertByDist t n l).Pairwise (fun a b => netDist t a ≤ netDist t b) := by
  induction l with
  | nil => simp [insertByDist]
  | cons y ys ih =>
    have h' := List.pairwise_cons.mp h
    unfold insertByDist
    split
    · rename_i hle
      refine List.pairwise_cons.mpr ⟨?_, h⟩
      intro z hz
      rcases List.mem_cons.mp hz with rfl | hz
      · exact hle
      · exact Nat.le_trans hle (h'.1 z hz)
    · rename_i hle
      refine List.pairwise_cons.mpr ⟨?_, ih h'.2⟩
      intro z hz
      rcases (mem_insertByDist t n z ys).mp hz with rfl | hz
      · omega
      · exact h'.1 z hz

theorem mem_sortByDist (t : Id) (net : List NetNode) (x : NetNode) :
    x ∈ sortByDist t net ↔ x ∈ net := by
  induction net with
  | nil => simp [sortByDist]
  | cons y ys ih =>
    have : sortByDist t (y :: ys) = insertByDist t y (sortByDist t ys) := rfl
    rw [this, mem_insertByDist, ih, List.mem_cons]

theorem length_sortByDist (t : Id) (net : List NetNode) : (sortByDist t net).length = net.length := by
  induction net with
  | nil => rfl
  | cons y ys ih =>
    have : sortByDist t (y :: ys) = insertByDist t y (sortByDist t ys) := rfl
    rw [this, length_insertByDist, ih]; rfl

theorem pairwise_sortByDist (t : Id) (net : List NetNode) :
    (sortByDist t net).Pairwise (fun a b => netDist t a ≤ netDist t b) := by
  induction net with
  | nil => simp [sortByDist]
  | cons y ys ih => exact pairwise_insertByDist t y _ ih

/-- Same elements, same length, one of them duplicate-free: so is the other. -/
theorem nodup_of_same_length {α} [DecidableEq α] (A B : List α) (hA : A.Nodup)
    (hsub : ∀ x ∈ A, x ∈ B) (hlen : B.length ≤ A.length) : B.Nodup := by
  induction A generalizing B with
  | nil =>
    cases B with
    | nil => exact List.nodup_nil
    | cons b B => simp at hlen
  | cons a A ih =>
    have hA' := List.nodup_cons.mp hA
    have haB : a ∈ B := hsub a List.mem_cons_self
    have hsub' : ∀ y ∈ A, y ∈ B.erase a := by
      intro y hy
      have hya : y ≠ a := by intro e; subst e; exact hA'.1 hy
      exact (List.mem_erase_of_ne hya).mpr (hsub y (List.mem_cons_of_mem _ hy))
    have hlen' : (B.erase a).length ≤ A.length := by
      rw [List.length_erase_of_mem haB]; simp at hlen; omega
    have hnd := ih (B.erase a) hA'.2 hsub' hlen'
    -- `a` occurs in `B`; `B.erase a` is duplicate-free and does not contain `a` (else too long)
    have hna : a ∉ B.erase a := by
      intro hin
      have h1 : ∀ y ∈ a :: A, y ∈ B.erase a := by
        intro y hy
        rcases List.mem_cons.mp hy with rfl | hy
        · exact hin
        · exact hsub' y hy
      have := KNN.list_length_le_of_nodup_of_subset (a :: A) (B.erase a) hA h1
      simp at this
      omega
    have hperm : B.Perm (a :: B.erase a) := List.perm_cons_erase haB
    exact hperm.nodup_iff.mpr (List.nodup_cons.mpr ⟨hna, hnd⟩)

theorem nodup_sortByDist (t : Id) (net : List NetNode) (h : net.Nodup) : (sortByDist t net).Nodup :=
  nodup_of_same_length net (sortByDist t net) h (fun x hx => (mem_sortByDist t net x).mpr hx)
    (by rw [length_sortByDist]; exact Nat.le_refl _)

/-! ### well-formed networks -/

theorem NetWF.nodup {net : List NetNode} (h : NetWF net) : net.Nodup :=
  List.Pairwise.of_map (·.1) (fun _ _ hab heq => hab (congrArg _ heq)) h.idNodup

theorem nodup_map_inj {α β} (f : α → β) (l : List α) (h : (l.map f).Nodup) (x y : α)
    (hx : x ∈ l) (hy : y ∈ l) (e : f x = f y) : x = y := by
  induction l with
  | nil => cases hx
  | cons z zs ih =>
    simp only [List.map_cons, List.nodup_cons] at h
    rcases List.mem_cons.mp hx with hx1 | hx1
    · rcases List.mem_cons.mp hy with hy1 | hy1
      · rw [hx1, hy1]
      · exact absurd (by rw [← hx1, e]; exact List.mem_map_of_mem hy1) h.1
    · rcases List.mem_cons.mp hy with hy1 | hy1
      · exact absurd (by rw [← hy1, ← e]; exact List.mem_map_of_mem hx1) h.1
      · exact ih h.2 hx1 hy1

/-- Two network nodes with one ID are one node. -/
theorem NetWF.eq_of_id {net : List NetNode} (h : NetWF net) (x y : NetNode)
    (hx : x ∈ net) (hy : y ∈ net) (e : x.1 = y.1) : x = y :=
  nodup_map_inj (·.1) net h.idNodup x y hx hy e

/-- Two network nodes with one printed address are one node. -/
theorem NetWF.eq_of_addr {net : List NetNode} (h : NetWF net) (x y : NetNode)
    (hx : x ∈ net) (hy : y ∈ net) (e : x.2.strKey = y.2.strKey) : x = y :=
  nodup_map_inj (fun n => n.2.strKey) net h.addrNodup x y hx hy e

/-- Distances of network nodes to a 20-byte target are pairwise different. -/
theorem NetWF.eq_of_dist {net : List NetNode} (h : NetWF net) (t : Id) (ht : t.length = 20)
    (x y : NetNode) (hx : x ∈ net) (hy : y ∈ net) (e : netDist t x = netDist t y) : x = y := by
  apply h.eq_of_id x y hx hy
  have hlx := h.idLen x hx
  have hly := h.idLen y hy
  apply C18.dist_injective t x.1 y.1 (by omega) (by omega)
  apply Id.toNat_injective
  · simp [Id.distance, Id.xor_length, hlx, hly]
  · exact e

/-! ### the K closest -/

theorem mem_kClosest (t : Id) (k : Nat) (net : List NetNode) (n : NetNode) :
    n ∈ kClosest t k net ↔ n ∈ net ∧ (closerNodes t net n).length < k := by
  simp [kClosest]

theorem mem_closerNodes (t : Id) (net : List NetNode) (n m : NetNode) :
    m ∈ closerNodes t net n ↔ m ∈ net ∧ netDist t m < netDist t n := by
  simp [closerNodes]

theorem kClosest_sub (t : Id) (k : Nat) (net : List NetNode) : ∀ n ∈ kClosest t k net, n ∈ net :=
  fun n hn => ((mem_kClosest t k net n).mp hn).1

theorem kClosest_nodup (t : Id) (k : Nat) (net : List NetNode) (h : net.Nodup) :
    (kClosest t k net).Nodup := h.sublist List.filter_sublist

/-- A duplicate-free list of network nodes all strictly closer than one of the K closest
has fewer than `k` elements. -/
theorem kClosest_closer_lt (t : Id) (k : Nat) (net : List NetNode) (n : NetNode)
    (hn : n ∈ kClosest t k net) (L : List NetNode) (hnd : L.Nodup)
    (hL : ∀ m ∈ L, m ∈ net ∧ netDist t m < netDist t n) : L.length < k := by
  have h1 := ((mem_kClosest t k net n).mp hn).2
  have h2 := KNN.list_length_le_of_nodup_of_subset L (closerNodes t net n) hnd
    (fun m hm => (mem_closerNodes t net n m).mpr (hL m hm))
  omega

/-- With pairwise different distances, the K closest are the first `k` of the network sorted by distance. -/
theorem mem_kClosest_iff_take {net : List NetNode} (h : NetWF net) (t : Id) (ht : t.length = 20)
    (k : Nat) (n : NetNode) :
    n ∈ kClosest t k net ↔ n ∈ (sortByDist t net).take k := by
  have hnd := nodup_sortByDist t net h.nodup
  have hpw := pairwise_sortByDist t net
  have hsplit := List.take_append_drop k (sortByDist t net)
  rw [← hsplit] at hpw hnd
  have hpw' := List.pairwise_append.mp hpw
  have hnd' := List.nodup_append.mp hnd
  constructor
  · intro hn
    have hnet := kClosest_sub t k net n hn
    have hs : n ∈ sortByDist t net := (mem_sortByDist t net n).mpr hnet
    rw [← hsplit, List.mem_append] at hs
    rcases hs with hs | hs
    · exact hs
    · -- `n` in the tail: all `k` first elements are strictly closer
      exfalso
      have hlen : ((sortByDist t net).take k).length = k := by
        rw [List.length_take]
        have : k < (sortByDist t net).length := by
          have := List.length_pos_of_mem hs
          rw [List.length_drop] at this
          omega
        omega
      have := kClosest_closer_lt t k net n hn ((sortByDist t net).take k) hnd'.1 (by
        intro m hm
        have hmnet : m ∈ net := (mem_sortByDist t net m).mp (List.mem_of_mem_take hm)
        refine ⟨hmnet, ?_⟩
        have hle := hpw'.2.2 m hm n hs
        have hne : netDist t m ≠ netDist t n := by
          intro e
          have := h.eq_of_dist t ht m n hmnet hnet e
          subst this
          exact hnd'.2.2 m hm m hs rfl
        omega)
      omega
  · intro hn
    have hnet : n ∈ net := (mem_sortByDist t net n).mp (List.mem_of_mem_take hn)
    rw [mem_kClosest]
    refine ⟨hnet, ?_⟩
    -- every strictly closer node lies in the first `k`, and is not `n`
    have hcl : ∀ m ∈ closerNodes t net n, m ∈ ((sortByDist t net).take k).erase n := by
      intro m hm
      obtain ⟨hmnet, hlt⟩ := (mem_closerNodes t net n m).mp hm
      have hmn : m ≠ n := by intro e; subst e; omega
      rw [List.mem_erase_of_ne hmn]
      have hs : m ∈ sortByDist t net := (mem_sortByDist t net m).mpr hmnet
      rw [← hsplit, List.mem_append] at hs
      rcases hs with hs | hs
      · exact hs
      · have := hpw'.2.2 n hn m hs
        omega
    have hnd2 : (closerNodes t net n).Nodup := h.nodup.sublist List.filter_sublist
    have h1 := KNN.list_length_le_of_nodup_of_subset _ _ hnd2 hcl
    rw [List.length_erase_of_mem hn, List.length_take] at h1
    have := List.length_pos_of_mem hn
    rw [List.length_take] at this
    omega

/-- The K closest of a well-formed network are `min k |net|` nodes. -/
theorem kClosest_length {net : List NetNode} (h : NetWF net) (t : Id) (ht : t.length = 20) (k : Nat) :
    (kClosest t k net).length = min k net.length := by
  have hnd1 := kClosest_nodup t k net h.nodup
  have hnd2 : ((sortByDist t net).take k).Nodup :=
    (nodup_sortByDist t net h.nodup).sublist (List.take_sublist k _)
  have h1 := KNN.list_length_le_of_nodup_of_subset _ _ hnd1
    (fun n hn => (mem_kClosest_iff_take h t ht k n).mp hn)
  have h2 := KNN.list_length_le_of_nodup_of_subset _ _ hnd2
    (fun n hn => (mem_kClosest_iff_take h t ht k n).mpr hn)
  rw [List.length_take, length_sortByDist] at h1 h2
  omega

end Dht
