/- Helper lemmas for C18 (umbrella file; the lemmas live in C18Id / C18Bits / C18Order / C18Knn). -/
import DhtVerif.Model.Containers
import DhtVerif.Lemmas.C18Id
import DhtVerif.Lemmas.C18Bits
import DhtVerif.Lemmas.C18Order
import DhtVerif.Lemmas.C18Knn
