/- Helper lemmas for C18. -/
import DhtVerif.Model.Containers
namespace Dht

end Dht
