/- Helper lemmas for the handler-level section of C10. -/
import DhtVerif.Model.Server
import DhtVerif.Lemmas.C08
namespace Dht

/-- The two write methods with a token that is not valid: the switch does nothing. -/
theorem dispatch_invalid_token (c : SrvCfg) (mk : TokenFn) (s : Srv) (src : NAddr) (m : QMsg) (a : QArgs) (env : Env)
    (hq : m.q = str "announce_peer" ∨ m.q = str "put") (ha : m.a = some a)
    (hbad : validToken c mk s.ts.now src.ip a.token = false) :
    dispatch c mk s src m env = ([], []) := by
  rcases hq with hq | hq
  · rw [dispatch_announce_peer _ _ _ _ _ _ hq, ha]
    simp only [hbad, Bool.false_eq_true, if_false]
  · rw [dispatch_put _ _ _ _ _ _ hq, ha]
    simp only [hbad, Bool.false_eq_true, if_false]

theorem dispatch_announce_valid (c : SrvCfg) (mk : TokenFn) (s : Srv) (src : NAddr) (m : QMsg) (a : QArgs) (env : Env)
    (hq : m.q = str "announce_peer") (ha : m.a = some a)
    (hok : validToken c mk s.ts.now src.ip a.token = true) :
    dispatch c mk s src m env = ([mkReply c src m.t {}], announceEffs c src a) := by
  rw [dispatch_announce_peer _ _ _ _ _ _ hq, ha]
  simp only [hok, if_true]

theorem dispatch_put_valid (c : SrvCfg) (mk : TokenFn) (s : Srv) (src : NAddr) (m : QMsg) (a : QArgs) (env : Env)
    (hq : m.q = str "put") (ha : m.a = some a) (hseq : a.seq.isSome = true) (hput : env.putErr = none)
    (hok : validToken c mk s.ts.now src.ip a.token = true) :
    dispatch c mk s src m env = ([mkReply c src m.t {}], [.storePut]) := by
  rw [dispatch_put _ _ _ _ _ _ hq, ha]
  simp only [hok, if_true, hput]
  cases hs : a.seq with
  | none => rw [hs] at hseq; cases hseq
  | some _ => rfl

theorem applyEffects_nil (s : Srv) : applyEffects s [] = s := rfl

end Dht
