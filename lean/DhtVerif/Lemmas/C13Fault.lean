/- Helper lemmas for Props/C13Fault (failing bep44.Store). -/
import DhtVerif.Model.Bep44Fault
import DhtVerif.Lemmas.B44
namespace Dht.B44

/-- Whatever rule is in force, an accepted incoming item has no lower sequence number, and with
the same sequence number it carries the same value. -/
theorem checkIncomingWith_none_forward (spec : Bool) (st i : Item) (h : checkIncomingWith spec st i = none) :
    st.seq ≤ i.seq ∧ (st.seq = i.seq → st.bv = i.bv) := by
  refine ⟨checkIncomingWith_none_seq spec st i h, fun heq => ?_⟩
  unfold checkIncomingWith checkIncomingSpec checkIncomingLit at h
  cases spec <;> simp only [Bool.false_eq_true, if_false, if_true] at h <;>
    (split at h
     · rename_i h1; exact h1.2
     · split at h
       · simp at h
       · omega)

/-- Under the rule of the property, an accepted incoming item that is not a refresh (same seq,
same value) and carries a CAS value carries the stored sequence number. -/
theorem checkIncomingSpec_none_cas (st i : Item) (h : checkIncomingWith true st i = none)
    (hch : i.seq ≠ st.seq ∨ i.bv ≠ st.bv) (h0 : i.cas ≠ 0) : i.cas = st.seq := by
  have h1 : ¬ (st.seq = i.seq ∧ st.bv = i.bv) := by
    rintro ⟨x, y⟩
    rcases hch with hc | hc
    · exact hc x.symm
    · exact hc y.symm
  by_cases h2 : st.seq ≥ i.seq
  · simp [checkIncomingWith, checkIncomingSpec, h1, h2] at h
  · by_cases h3 : st.seq = i.cas
    · exact h3.symm
    · simp [checkIncomingWith, checkIncomingSpec, h1, h2, h0, h3] at h

/-- "The `Get` of this put found nothing, or found an item that `CheckIncoming` lets the put replace". -/
def Admits (P : Params) (s : Store) (i : Item) : Prop :=
  s (target P i) = none ∨ ∃ st, s (target P i) = some st ∧ checkIncomingWith P.casSpec st.item i = none

theorem storePutF_cases (P : Params) (f : Fault) (now : Nat) (s : Store) (i : Item) :
    (f.putFails = true ∧ storePutF P f now s i = (.storeErr, s)) ∨
    (f.putFails = false ∧ storePutF P f now s i = (.ok, s.set (target P i) ⟨i, now⟩)) := by
  unfold storePutF
  cases f.putFails <;> simp

/-- The five ways through `Wrapper.Put` over a failing store. -/
theorem wrapperPutF_cases (P : Params) (f : Fault) (now : Nat) (s : Store) (i : Item) :
    (∃ e, check P i = some e ∧ wrapperPutF P f now s i = (.krpcErr e, s)) ∨
    (check P i = none ∧ f.getFails = true ∧ wrapperPutF P f now s i = (.storeErr, s)) ∨
    (∃ st e, check P i = none ∧ f.getFails = false ∧ s (target P i) = some st ∧
        checkIncomingWith P.casSpec st.item i = some e ∧ wrapperPutF P f now s i = (.krpcErr e, s)) ∨
    (check P i = none ∧ f.getFails = false ∧ Admits P s i ∧ f.putFails = true ∧
        wrapperPutF P f now s i = (.storeErr, s)) ∨
    (check P i = none ∧ f.getFails = false ∧ Admits P s i ∧ f.putFails = false ∧
        wrapperPutF P f now s i = (.ok, s.set (target P i) ⟨i, now⟩)) := by
  cases hc : check P i with
  | some e => exact Or.inl ⟨e, rfl, by simp [wrapperPutF, wrapperPutFWith, hc]⟩
  | none =>
    right
    cases hg : f.getFails with
    | true => exact Or.inl ⟨rfl, rfl, by simp [wrapperPutF, wrapperPutFWith, hc, hg]⟩
    | false =>
      right
      cases hs : s (target P i) with
      | none =>
        right
        have e : wrapperPutF P f now s i = storePutF P f now s i := by
          simp [wrapperPutF, wrapperPutFWith, hc, hg, hs]
        rw [e]
        rcases storePutF_cases P f now s i with ⟨hp, h⟩ | ⟨hp, h⟩
        · exact Or.inl ⟨rfl, rfl, Or.inl hs, hp, h⟩
        · exact Or.inr ⟨rfl, rfl, Or.inl hs, hp, h⟩
      | some st =>
        cases hi : checkIncomingWith P.casSpec st.item i with
        | some e => exact Or.inl ⟨st, e, rfl, rfl, rfl, hi, by simp [wrapperPutF, wrapperPutFWith, hc, hg, hs, hi]⟩
        | none =>
          right
          have e : wrapperPutF P f now s i = storePutF P f now s i := by
            simp [wrapperPutF, wrapperPutFWith, hc, hg, hs, hi]
          rw [e]
          rcases storePutF_cases P f now s i with ⟨hp, h⟩ | ⟨hp, h⟩
          · exact Or.inl ⟨rfl, rfl, Or.inr ⟨st, hs, hi⟩, hp, h⟩
          · exact Or.inr ⟨rfl, rfl, Or.inr ⟨st, hs, hi⟩, hp, h⟩

/-- The store changes only when the put is answered ok, and then exactly as the never-failing
`Wrapper.put` of Model/Bep44 changes it (which accepts the put as well). -/
theorem wrapperPutF_store (P : Params) (f : Fault) (now : Nat) (s : Store) (i : Item) :
    ((wrapperPutF P f now s i).1 ≠ .ok ∧ (wrapperPutF P f now s i).2 = s) ∨
    (f.getFails = false ∧ f.putFails = false ∧ (wrapperPutF P f now s i).1 = .ok ∧
      Wrapper.put P now s i = ((wrapperPutF P f now s i).2, none)) := by
  rcases wrapperPutF_cases P f now s i with ⟨e, _, h⟩ | ⟨_, _, h⟩ | ⟨st, e, _, _, _, _, h⟩ | ⟨_, _, _, _, h⟩ |
      ⟨hc, hg, had, hp, h⟩
  · rw [h]; exact Or.inl ⟨by simp, rfl⟩
  · rw [h]; exact Or.inl ⟨by simp, rfl⟩
  · rw [h]; exact Or.inl ⟨by simp, rfl⟩
  · rw [h]; exact Or.inl ⟨by simp, rfl⟩
  · rw [h]
    refine Or.inr ⟨hg, hp, rfl, ?_⟩
    rcases Wrapper.put_cases P now s i with ⟨e, hc', _⟩ | ⟨st, e, _, hs, hi, _⟩ | ⟨_, _, h'⟩
    · rw [hc] at hc'; cases hc'
    · rcases had with hn | ⟨st', hs', hi'⟩
      · rw [hn] at hs; cases hs
      · rw [hs'] at hs; cases hs; rw [hi'] at hi; cases hi
    · exact h'

/-- One put against a failing store, one target: the entry stays, its sequence number does not
go down, and an equal sequence number keeps the value. Both CAS rules, every fault pattern. -/
theorem wrapperPutF_forward (P : Params) (f : Fault) (now : Nat) (s : Store) (i : Item) (t : Target) (a : Entry)
    (ha : s t = some a) :
    ∃ b, (wrapperPutF P f now s i).2 t = some b ∧ a.item.seq ≤ b.item.seq ∧
      (a.item.seq = b.item.seq → a.item.bv = b.item.bv) := by
  rcases wrapperPutF_cases P f now s i with ⟨e, _, h⟩ | ⟨_, _, h⟩ | ⟨st, e, _, _, _, _, h⟩ | ⟨_, _, _, _, h⟩ |
      ⟨hc, hg, had, hp, h⟩
  · rw [h]; exact ⟨a, ha, Int.le_refl _, fun _ => rfl⟩
  · rw [h]; exact ⟨a, ha, Int.le_refl _, fun _ => rfl⟩
  · rw [h]; exact ⟨a, ha, Int.le_refl _, fun _ => rfl⟩
  · rw [h]; exact ⟨a, ha, Int.le_refl _, fun _ => rfl⟩
  · rw [h]
    by_cases ht : t = target P i
    · subst ht
      refine ⟨⟨i, now⟩, Store.set_same .., ?_⟩
      rcases had with hn | ⟨st, hs, hi⟩
      · rw [hn] at ha; cases ha
      · rw [hs] at ha; cases ha
        exact checkIncomingWith_none_forward _ _ _ hi
    · exact ⟨a, by simp only []; rw [Store.set_other _ _ _ _ ht, ha], Int.le_refl _, fun _ => rfl⟩

/-- One put against a failing store under the rule of the property: if the kept item moved
(other sequence number or other value) and the put carried a CAS value, that value is the
sequence number that was stored. -/
theorem wrapperPutF_cas (P : Params) (hP : P.casSpec = true) (f : Fault) (now : Nat) (s : Store) (i : Item)
    (t : Target) (a b : Entry) (ha : s t = some a) (hb : (wrapperPutF P f now s i).2 t = some b)
    (hch : b.item.seq ≠ a.item.seq ∨ b.item.bv ≠ a.item.bv) (h0 : i.cas ≠ 0) :
    i.cas = a.item.seq ∧ t = target P i ∧ b.item = i ∧ (wrapperPutF P f now s i).1 = .ok := by
  have same : ∀ s', s' = s → s' t = some b → False := by
    intro s' hs' hb'
    rw [hs', ha] at hb'; cases hb'
    rcases hch with h | h <;> exact h rfl
  rcases wrapperPutF_cases P f now s i with ⟨e, _, h⟩ | ⟨_, _, h⟩ | ⟨st, e, _, _, _, _, h⟩ | ⟨_, _, _, _, h⟩ |
      ⟨hc, hg, had, hp, h⟩
  · rw [h] at hb; exact (same _ rfl hb).elim
  · rw [h] at hb; exact (same _ rfl hb).elim
  · rw [h] at hb; exact (same _ rfl hb).elim
  · rw [h] at hb; exact (same _ rfl hb).elim
  · rw [h] at hb ⊢
    by_cases ht : t = target P i
    · subst ht
      simp only [] at hb
      rw [Store.set_same] at hb; cases hb
      rcases had with hn | ⟨st, hs, hi⟩
      · rw [hn] at ha; cases ha
      · rw [hs] at ha; cases ha
        rw [hP] at hi
        exact ⟨checkIncomingSpec_none_cas _ _ hi hch h0, rfl, rfl, rfl⟩
    · simp only [] at hb
      rw [Store.set_other _ _ _ _ ht, ha] at hb; cases hb
      rcases hch with h | h <;> exact (h rfl).elim

theorem runF_cons (P : Params) (s : Store) (e : PutEv) (evs : List PutEv) :
    runF P s (e :: evs) = runF P (stepF P s e) evs := rfl

theorem runF_append (P : Params) (s : Store) (a b : List PutEv) :
    runF P s (a ++ b) = runF P (runF P s a) b := by
  unfold runF; exact List.foldl_append ..

theorem runF_snoc (P : Params) (s : Store) (a : List PutEv) (e : PutEv) :
    runF P s (a ++ [e]) = stepF P (runF P s a) e := by
  rw [runF_append]; rfl

/-- A whole history of puts with arbitrary faults: the entry stays, seq does not go down, and
if it is the same at the end the value is the same. -/
theorem runF_forward (P : Params) (evs : List PutEv) (s : Store) (t : Target) (a : Entry) (ha : s t = some a) :
    ∃ b, runF P s evs t = some b ∧ a.item.seq ≤ b.item.seq ∧
      (a.item.seq = b.item.seq → a.item.bv = b.item.bv) := by
  induction evs generalizing s a with
  | nil => exact ⟨a, ha, Int.le_refl _, fun _ => rfl⟩
  | cons e rest ih =>
    obtain ⟨c, hc, hle, heq⟩ := wrapperPutF_forward P e.f e.now s e.item t a ha
    obtain ⟨b, hb, hle', heq'⟩ := ih (stepF P s e) c hc
    refine ⟨b, by rw [runF_cons]; exact hb, Int.le_trans hle hle', fun h => ?_⟩
    have h1 : a.item.seq = c.item.seq := by omega
    have h2 : c.item.seq = b.item.seq := by omega
    rw [heq h1, heq' h2]

end Dht.B44
