/- Helper lemmas for C18: getBit / setBit / bitLen / bucketIndex / randomIdInBucket. -/
import DhtVerif.Lemmas.C18Id
namespace Dht
namespace Id

/-! ### byte level -/

theorem toNat_toUInt8_of_lt (k : Nat) (hk : k < 8) : k.toUInt8.toNat = k := by
  simp [Nat.toUInt8]; omega

theorem shift_and_one (x : UInt8) (k : Nat) (hk : k < 8) :
    ((x >>> k.toUInt8) &&& 1 == 1) = x.toNat.testBit k := by
  rw [Bool.eq_iff_iff, beq_iff_eq, ← UInt8.toNat_inj, UInt8.toNat_and, UInt8.toNat_shiftRight,
    toNat_toUInt8_of_lt k hk, Nat.mod_eq_of_lt hk]
  simp [Nat.testBit, Nat.and_comm]

theorem two_pow_lt_256 (k : Nat) (hk : k < 8) : 2 ^ k < 2 ^ 8 :=
  Nat.pow_lt_pow_right (by omega) hk

theorem toNat_one_shiftLeft (k : Nat) (hk : k < 8) :
    ((1 : UInt8) <<< k.toUInt8).toNat = 2 ^ k := by
  rw [UInt8.toNat_shiftLeft, toNat_toUInt8_of_lt k hk, Nat.mod_eq_of_lt hk, UInt8.toNat_one,
    Nat.one_shiftLeft, Nat.mod_eq_of_lt (two_pow_lt_256 k hk)]

theorem testBit_setByte (x : UInt8) (k m : Nat) (v : Bool) (hk : k < 8) (hm : m < 8) :
    (((x &&& ~~~((1 : UInt8) <<< k.toUInt8)) |||
        (if v then (1 : UInt8) <<< k.toUInt8 else 0)).toNat).testBit m =
      if m = k then v else x.toNat.testBit m := by
  have h1 := toNat_one_shiftLeft k hk
  have h2 : (~~~((1 : UInt8) <<< k.toUInt8)).toNat = 2 ^ 8 - (2 ^ k + 1) := by
    rw [UInt8.toNat_not, h1]; simp [UInt8.size]
  have h3 : (if v then (1 : UInt8) <<< k.toUInt8 else 0).toNat = if v then 2 ^ k else 0 := by
    cases v <;> simp [h1]
  rw [UInt8.toNat_or, UInt8.toNat_and, Nat.testBit_or, Nat.testBit_and, h2, h3,
    Nat.testBit_two_pow_sub_succ (two_pow_lt_256 k hk), Nat.testBit_two_pow]
  by_cases hmk : m = k
  · subst hmk
    cases v <;> simp
  · have hkm : ¬ k = m := fun e => hmk e.symm
    cases v <;> simp [hmk, hkm, hm]

/-! ### getBit -/

theorem getBit_eq (a : Id) (i : Nat) :
    a.getBit i = (a.getD (i / 8) 0).toNat.testBit (7 - i % 8) := by
  unfold getBit
  exact shift_and_one _ _ (by omega)

theorem getBit_cons_lt (x : UInt8) (xs : Id) (i : Nat) (hi : i < 8) :
    getBit (x :: xs) i = x.toNat.testBit (7 - i) := by
  rw [getBit_eq]
  have h1 : i / 8 = 0 := by omega
  have h2 : i % 8 = i := by omega
  simp [h1, h2]

theorem getBit_cons_ge (x : UInt8) (xs : Id) (i : Nat) (hi : 8 ≤ i) :
    getBit (x :: xs) i = getBit xs (i - 8) := by
  rw [getBit_eq, getBit_eq]
  have h1 : i / 8 = (i - 8) / 8 + 1 := by omega
  have h2 : i % 8 = (i - 8) % 8 := by omega
  rw [h1, h2]
  simp

/-- Bridge: bit `i` (MSB first) of an `n`-byte ID is numeric bit `8n-1-i`. -/
theorem getBit_eq_testBit (a : Id) (i : Nat) (hi : i < 8 * a.length) :
    a.getBit i = a.toNat.testBit (8 * a.length - 1 - i) := by
  induction a generalizing i with
  | nil => simp at hi
  | cons x xs ih =>
    rw [testBit_toNat_cons]
    simp only [List.length_cons] at hi ⊢
    by_cases h8 : i < 8
    · have : ¬ (8 * (xs.length + 1) - 1 - i < 8 * xs.length) := by omega
      rw [if_neg this, getBit_cons_lt _ _ _ h8]
      congr 1
      omega
    · have h8' : 8 ≤ i := by omega
      have : 8 * (xs.length + 1) - 1 - i < 8 * xs.length := by omega
      rw [if_pos this, getBit_cons_ge _ _ _ h8', ih (i - 8) (by omega)]
      congr 1
      omega

theorem getBit_eq_testBit20 (a : Id) (i : Nat) (ha : a.length = 20) (hi : i < 160) :
    a.getBit i = a.toNat.testBit (159 - i) := by
  rw [getBit_eq_testBit a i (by omega), ha]

/-! ### setBit -/

@[simp] theorem length_setBit (a : Id) (i : Nat) (v : Bool) : (a.setBit i v).length = a.length := by
  simp [setBit]

theorem getBit_setBit (a : Id) (i j : Nat) (v : Bool) (hi : i / 8 < a.length) :
    (a.setBit i v).getBit j = if j = i then v else a.getBit j := by
  rw [getBit_eq, getBit_eq]
  unfold setBit
  simp only [List.getD_eq_getElem?_getD, List.getElem?_set]
  by_cases hq : i / 8 = j / 8
  · rw [if_pos hq, if_pos hi, Option.getD_some,
      testBit_setByte _ _ _ _ (by omega) (by omega), ← hq]
    by_cases hji : j = i
    · subst hji; simp
    · have : ¬ (7 - j % 8 = 7 - i % 8) := by omega
      rw [if_neg this, if_neg hji]
  · rw [if_neg hq]
    have : ¬ j = i := by intro e; subst e; exact hq rfl
    rw [if_neg this]

/-! ### bitLen / bucketIndex -/

theorem toNat_xor_ne_zero (a b : Id) (h : a.length = b.length) (hne : a ≠ b) :
    (xor a b).toNat ≠ 0 := by
  intro h0
  rw [toNat_xor a b h] at h0
  have : a.toNat = b.toNat := by
    apply Nat.eq_of_testBit_eq
    intro i
    have := congrArg (fun n => Nat.testBit n i) h0
    simp only [Nat.testBit_xor, Nat.zero_testBit] at this
    cases h1 : a.toNat.testBit i <;> cases h2 : b.toNat.testBit i <;> simp_all
  exact hne (toNat_injective a b h this)

end Id

/-- Converse direction used for uniqueness: the shared-prefix description determines the bucket. -/
theorem bucketIndex_spec (root id : Id)
    (hr : root.length = 20) (hi : id.length = 20) (hne : id ≠ root) :
    ∃ i, bucketIndex root id = some i ∧ i < 160 ∧
      (∀ j, j < i → id.getBit j = root.getBit j) ∧ id.getBit i ≠ root.getBit i := by
  have hlen : root.length = id.length := by omega
  have hn0 := Id.toNat_xor_ne_zero root id hlen (fun e => hne e.symm)
  have hxl : (Id.xor root id).length = 20 := by rw [Id.xor_length]; omega
  have hlt : (Id.xor root id).toNat < 2 ^ 160 := by
    have := Id.toNat_lt_two_pow (Id.xor root id)
    rwa [hxl] at this
  have hlog : (Id.xor root id).toNat.log2 < 160 := (Nat.log2_lt hn0).mpr hlt
  have htop := Nat.testBit_log2 hn0
  have hx := Id.toNat_xor root id hlen
  refine ⟨159 - (Id.xor root id).toNat.log2, ?_, by omega, ?_, ?_⟩
  · unfold bucketIndex Id.bitLen
    simp only [if_neg hne, if_neg hn0]
    congr 1
    omega
  · intro j hj
    rw [Id.getBit_eq_testBit20 id j hi (by omega), Id.getBit_eq_testBit20 root j hr (by omega)]
    have hb : (Id.xor root id).toNat.testBit (159 - j) = false := by
      apply Nat.testBit_lt_two_pow
      have : (Id.xor root id).toNat < 2 ^ ((Id.xor root id).toNat.log2 + 1) :=
        (Nat.log2_lt hn0).mp (by omega)
      exact Nat.lt_of_lt_of_le this (Nat.pow_le_pow_right (by omega) (by omega))
    rw [hx, Nat.testBit_xor] at hb
    cases h1 : root.toNat.testBit (159 - j) <;> cases h2 : id.toNat.testBit (159 - j) <;> simp_all
  · rw [Id.getBit_eq_testBit20 id _ hi (by omega), Id.getBit_eq_testBit20 root _ hr (by omega)]
    have e : 159 - (159 - (Id.xor root id).toNat.log2) = (Id.xor root id).toNat.log2 := by omega
    rw [e]
    rw [hx, Nat.testBit_xor] at htop
    rw [hx]
    cases h1 : root.toNat.testBit (root.toNat ^^^ id.toNat).log2 <;>
      cases h2 : id.toNat.testBit (root.toNat ^^^ id.toNat).log2 <;> simp_all

/-- Uniqueness: an ID that agrees with the root on bits `< i` and differs at bit `i` is in bucket `i`. -/
theorem bucketIndex_of_prefix (root id : Id) (i : Nat)
    (hr : root.length = 20) (hi : id.length = 20) (_hi160 : i < 160)
    (hpre : ∀ j, j < i → id.getBit j = root.getBit j) (hdiff : id.getBit i ≠ root.getBit i) :
    bucketIndex root id = some i := by
  have hne : id ≠ root := by intro e; subst e; exact hdiff rfl
  obtain ⟨i', hb, _, hpre', hdiff'⟩ := bucketIndex_spec root id hr hi hne
  rw [hb]
  congr 1
  rcases Nat.lt_trichotomy i' i with h | h | h
  · exact absurd (hpre i' h) hdiff'
  · exact h
  · exact absurd (hpre' i h) hdiff

/-! ### randomIdInBucket -/

theorem foldl_setBit_prefix (rnd root : Id) (n : Nat) (hn : n ≤ 8 * rnd.length) :
    ((List.range n).foldl (fun id i => id.setBit i (root.getBit i)) rnd).length = rnd.length ∧
    ∀ j, j < n →
      ((List.range n).foldl (fun id i => id.setBit i (root.getBit i)) rnd).getBit j
        = root.getBit j := by
  induction n with
  | zero => simp
  | succ n ih =>
    obtain ⟨hl, hp⟩ := ih (by omega)
    rw [List.range_succ, List.foldl_append]
    simp only [List.foldl_cons, List.foldl_nil]
    refine ⟨by rw [Id.length_setBit, hl], ?_⟩
    intro j hj
    rw [Id.getBit_setBit _ _ _ _ (by rw [hl]; omega)]
    by_cases hjn : j = n
    · rw [if_pos hjn, hjn]
    · rw [if_neg hjn]
      exact hp j (by omega)

theorem randomIdInBucket_spec (rnd root : Id) (i : Nat) (hi : i < 8 * rnd.length) :
    (randomIdInBucket rnd root i).length = rnd.length ∧
    (∀ j, j < i → (randomIdInBucket rnd root i).getBit j = root.getBit j) ∧
    (randomIdInBucket rnd root i).getBit i = !root.getBit i := by
  obtain ⟨hl, hp⟩ := foldl_setBit_prefix rnd root i (by omega)
  unfold randomIdInBucket
  refine ⟨by simp only [Id.length_setBit]; exact hl, ?_, ?_⟩
  · intro j hj
    simp only []
    rw [Id.getBit_setBit _ _ _ _ (by rw [hl]; omega)]
    have : ¬ j = i := by omega
    rw [if_neg this]
    exact hp j hj
  · simp only []
    rw [Id.getBit_setBit _ _ _ _ (by rw [hl]; omega)]
    simp

end Dht
