/-
Helper lemmas for C14: the inductive invariant of the query machine, the termination measure,
and the lifting of one-step facts to runs.
-/
import DhtVerif.Model.Query
namespace Dht.Qry

theorem effectiveTries_pos (n : Nat) : 1 ≤ effectiveTries n := by
  unfold effectiveTries
  split
  · decide
  · omega

/-- Inductive invariant of the machine (every clause is needed by some property theorem). -/
structure Inv (s : QState) : Prop where
  maxPos : 1 ≤ s.maxSends
  writes_le : s.writes ≤ s.sends
  sends_le : s.sends ≤ s.maxSends
  loop_lt : (s.sph = .waitingDelay ∨ s.sph = .writing) → s.sends < s.maxSends
  final_eq : s.sph = .finalDelay → s.sends = s.maxSends
  start_ns : s.wph = .start → s.sph = .notStarted
  ns_start : s.sph = .notStarted → s.wph = .start
  start_clean : s.wph = .start → s.pending = false ∧ s.replyInFlight = false ∧ s.replyChan = false ∧
    s.outcome = none ∧ s.chanErr = none ∧ s.sends = 0 ∧ s.writes = 0 ∧ s.elapsed = 0
  closed_exited : s.chanClosed = true → s.sph = .exited
  exited_closed : s.sph = .exited → s.chanClosed = true
  err_pushed : s.chanErr.isSome = true → (s.sph = .pushed ∨ s.sph = .exited)
  pushed_err : (s.sph = .pushed ∨ s.sph = .exited) → (s.wph = .start ∨ s.wph = .selecting) → s.chanErr.isSome = true
  ret_pending : s.wph = .returned → s.pending = false
  joined_sender : (s.wph = .joined ∨ s.wph = .returned) → (s.sph = .pushed ∨ s.sph = .exited)
  sel_none : (s.wph = .start ∨ s.wph = .selecting) → s.outcome = none
  out_some : ¬(s.wph = .start ∨ s.wph = .selecting) → s.outcome.isSome = true
  not_empty : s.outcome ≠ some .emptyResult
  reply_popped : (s.replyInFlight = true ∨ s.replyChan = true ∨ s.outcome = some .reply) → s.pending = false ∧ s.wph ≠ .start
  timeout_late : (s.chanErr = some .timeout ∨ s.outcome = some (.sendErr .timeout)) →
    s.sends = s.maxSends ∧ s.elapsed = s.maxSends
  el_wait : s.sph = .waitingDelay → (s.timerFired = true → s.elapsed = s.sends) ∧ (s.timerFired = false → s.elapsed + 1 = s.sends)
  el_write : s.sph = .writing → s.elapsed = s.sends
  el_final : s.sph = .finalDelay → (s.timerFired = true → s.elapsed = s.sends) ∧ (s.timerFired = false → s.elapsed + 1 = s.sends)

theorem inv_init (n : Nat) (c x : Bool) : Inv (init n c x) := by
  have h := effectiveTries_pos n
  constructor <;> simp_all [init]

macro "inv_close" : tactic =>
  `(tactic| (first | omega | (simp_all <;> omega) | (simp_all; done) | (intros; simp_all <;> omega)))

macro "inv_ev" : tactic =>
  `(tactic| (
    intro hi h
    simp only [step, pushErr] at h
    repeat' split at h
    all_goals (first | (cases h; done) | skip)
    all_goals (try (simp only [Option.some.injEq] at h; subst h))
    all_goals (obtain ⟨h1, h2, h3, h4, h5, h6, h7, h8, h9, h10, h11, h12, h13, h14, h15, h16, h17, h18, h19, h20, h21, h22⟩ := hi)
    all_goals (constructor <;> (try simp only []) <;> inv_close)))

theorem inv_replyInjected {s s' : QState} : Inv s → step s .replyInjected = some s' → Inv s' := by inv_ev
theorem inv_serveReply {s s' : QState} : Inv s → step s .serveReply = some s' → Inv s' := by inv_ev
theorem inv_ctxCancel {s s' : QState} : Inv s → step s .ctxCancel = some s' → Inv s' := by inv_ev
theorem inv_serverClosed {s s' : QState} : Inv s → step s .serverClosed = some s' → Inv s' := by inv_ev
theorem inv_delayElapses {s s' : QState} : Inv s → step s .delayElapses = some s' → Inv s' := by inv_ev
theorem inv_register {s s' : QState} : Inv s → step s .register = some s' → Inv s' := by inv_ev
theorem inv_selReply {s s' : QState} : Inv s → step s .selReply = some s' → Inv s' := by inv_ev
theorem inv_selCtx {s s' : QState} : Inv s → step s .selCtx = some s' → Inv s' := by inv_ev
theorem inv_selSendErr {s s' : QState} : Inv s → step s .selSendErr = some s' → Inv s' := by inv_ev
theorem inv_cancelSend {s s' : QState} : Inv s → step s .cancelSend = some s' → Inv s' := by inv_ev
theorem inv_join {s s' : QState} : Inv s → step s .join = some s' → Inv s' := by inv_ev
theorem inv_deregister {s s' : QState} : Inv s → step s .deregister = some s' → Inv s' := by inv_ev
theorem inv_sendBegin {s s' : QState} : Inv s → step s .sendBegin = some s' → Inv s' := by inv_ev
theorem inv_sendClosedErr {s s' : QState} : Inv s → step s .sendClosedErr = some s' → Inv s' := by inv_ev
theorem inv_sendOk {s s' : QState} : Inv s → step s .sendOk = some s' → Inv s' := by inv_ev
theorem inv_sendFail {s s' : QState} : Inv s → step s .sendFail = some s' → Inv s' := by inv_ev
theorem inv_sendRefused {s s' : QState} : Inv s → step s .sendRefused = some s' → Inv s' := by inv_ev
theorem inv_senderCtxDone {s s' : QState} : Inv s → step s .senderCtxDone = some s' → Inv s' := by inv_ev
theorem inv_senderTimeout {s s' : QState} : Inv s → step s .senderTimeout = some s' → Inv s' := by inv_ev
theorem inv_senderClose {s s' : QState} : Inv s → step s .senderClose = some s' → Inv s' := by inv_ev
theorem inv_replyDeliver {s s' : QState} : Inv s → step s .replyDeliver = some s' → Inv s' := by inv_ev

theorem inv_step {s s' : QState} (e : Ev) (hi : Inv s) (h : step s e = some s') : Inv s' := by
  cases e
  · exact inv_replyInjected hi h
  · exact inv_serveReply hi h
  · exact inv_ctxCancel hi h
  · exact inv_serverClosed hi h
  · exact inv_delayElapses hi h
  · exact inv_register hi h
  · exact inv_selReply hi h
  · exact inv_selCtx hi h
  · exact inv_selSendErr hi h
  · exact inv_cancelSend hi h
  · exact inv_join hi h
  · exact inv_deregister hi h
  · exact inv_sendBegin hi h
  · exact inv_sendClosedErr hi h
  · exact inv_sendOk hi h
  · exact inv_sendFail hi h
  · exact inv_sendRefused hi h
  · exact inv_senderCtxDone hi h
  · exact inv_senderTimeout hi h
  · exact inv_senderClose hi h
  · exact inv_replyDeliver hi h

theorem reachable_inv {s : QState} (h : Reachable s) : Inv s := by
  induction h with
  | init n c x => exact inv_init n c x
  | step e _ hs ih => exact inv_step e ih hs

/-! ## Termination measure -/

set_option hygiene false in
macro "meas_ev" : tactic =>
  `(tactic| (
    intro hi h
    simp only [step, pushErr] at h
    repeat' split at h
    all_goals (first | (cases h; done) | skip)
    all_goals (try (simp only [Option.some.injEq] at h; subst h))
    all_goals (obtain ⟨h1, h2, h3, h4, h5, h6, h7, h8, h9, h10, h11, h12, h13, h14, h15, h16, h17, h18, h19, h20, h21, h22⟩ := hi)
    all_goals (simp only [measure, senderWeight, waiterWeight])
    all_goals (first | omega | (simp_all; done) | (simp_all; omega) | (cases hs : s.sph <;> simp_all <;> omega) | (cases hs : s.sph <;> simp_all <;> split <;> omega) | (simp_all; (repeat' split) <;> omega) | ((repeat' split) <;> (first | omega | (simp_all; done) | (simp_all; omega))))))
theorem meas_replyInjected {s s' : QState} : Inv s → step s .replyInjected = some s' → measure s' ≤ measure s := by meas_ev
theorem meas_serveReply {s s' : QState} : Inv s → step s .serveReply = some s' → measure s' ≤ measure s := by meas_ev
theorem meas_ctxCancel {s s' : QState} : Inv s → step s .ctxCancel = some s' → measure s' ≤ measure s := by meas_ev
theorem meas_serverClosed {s s' : QState} : Inv s → step s .serverClosed = some s' → measure s' ≤ measure s := by meas_ev
theorem meas_delayElapses {s s' : QState} : Inv s → step s .delayElapses = some s' → measure s' < measure s := by meas_ev
theorem meas_register {s s' : QState} : Inv s → step s .register = some s' → measure s' < measure s := by meas_ev
theorem meas_selReply {s s' : QState} : Inv s → step s .selReply = some s' → measure s' < measure s := by meas_ev
theorem meas_selCtx {s s' : QState} : Inv s → step s .selCtx = some s' → measure s' < measure s := by meas_ev
theorem meas_selSendErr {s s' : QState} : Inv s → step s .selSendErr = some s' → measure s' < measure s := by meas_ev
theorem meas_cancelSend {s s' : QState} : Inv s → step s .cancelSend = some s' → measure s' < measure s := by meas_ev
theorem meas_join {s s' : QState} : Inv s → step s .join = some s' → measure s' < measure s := by meas_ev
theorem meas_deregister {s s' : QState} : Inv s → step s .deregister = some s' → measure s' < measure s := by meas_ev
theorem meas_sendBegin {s s' : QState} : Inv s → step s .sendBegin = some s' → measure s' < measure s := by meas_ev
theorem meas_sendClosedErr {s s' : QState} : Inv s → step s .sendClosedErr = some s' → measure s' < measure s := by meas_ev
theorem meas_sendOk {s s' : QState} : Inv s → step s .sendOk = some s' → measure s' < measure s := by meas_ev
theorem meas_sendFail {s s' : QState} : Inv s → step s .sendFail = some s' → measure s' < measure s := by meas_ev
theorem meas_sendRefused {s s' : QState} : Inv s → step s .sendRefused = some s' → measure s' < measure s := by meas_ev
theorem meas_senderCtxDone {s s' : QState} : Inv s → step s .senderCtxDone = some s' → measure s' < measure s := by meas_ev
theorem meas_senderTimeout {s s' : QState} : Inv s → step s .senderTimeout = some s' → measure s' < measure s := by meas_ev
theorem meas_senderClose {s s' : QState} : Inv s → step s .senderClose = some s' → measure s' < measure s := by meas_ev
theorem meas_replyDeliver {s s' : QState} : Inv s → step s .replyDeliver = some s' → measure s' < measure s := by meas_ev

theorem progress_decreases {s s' : QState} (e : Ev) (hi : Inv s) (h : step s e = some s')
    (hp : e.progress = true) : measure s' < measure s := by
  cases e
  · cases hp
  · cases hp
  · cases hp
  · cases hp
  · exact meas_delayElapses hi h
  · exact meas_register hi h
  · exact meas_selReply hi h
  · exact meas_selCtx hi h
  · exact meas_selSendErr hi h
  · exact meas_cancelSend hi h
  · exact meas_join hi h
  · exact meas_deregister hi h
  · exact meas_sendBegin hi h
  · exact meas_sendClosedErr hi h
  · exact meas_sendOk hi h
  · exact meas_sendFail hi h
  · exact meas_sendRefused hi h
  · exact meas_senderCtxDone hi h
  · exact meas_senderTimeout hi h
  · exact meas_senderClose hi h
  · exact meas_replyDeliver hi h

theorem env_nonincreasing {s s' : QState} (e : Ev) (hi : Inv s) (h : step s e = some s')
    (hp : e.progress = false) : measure s' ≤ measure s := by
  cases e
  · exact meas_replyInjected hi h
  · exact meas_serveReply hi h
  · exact meas_ctxCancel hi h
  · exact meas_serverClosed hi h
  · cases hp
  · cases hp
  · cases hp
  · cases hp
  · cases hp
  · cases hp
  · cases hp
  · cases hp
  · cases hp
  · cases hp
  · cases hp
  · cases hp
  · cases hp
  · cases hp
  · cases hp
  · cases hp
  · cases hp

/-- A state that is not terminal always has an enabled step of the query's own goroutines or
timers. -/
theorem not_stuck {s : QState} (hi : Inv s) (hn : ¬ s.terminal) :
    ∃ e s', e.progress = true ∧ step s e = some s' := by
  obtain ⟨h1, h2, h3, h4, h5, h6, h7, h8, h9, h10, h11, h12, h13, h14, h15, h16, h17, h18, h19, h20, h21, h22⟩ := hi
  have key : ∀ e : Ev, e.progress = true → (step s e).isSome = true → ∃ e s', e.progress = true ∧ step s e = some s' := by
    intro e hp hsome
    obtain ⟨s', hs'⟩ := Option.isSome_iff_exists.mp hsome
    exact ⟨e, s', hp, hs'⟩
  -- the handleResponse goroutine can always finish
  by_cases hr : s.replyInFlight = true
  · exact key .replyDeliver rfl (by simp [step, hr])
  -- the sender can always move unless it has exited
  cases hs : s.sph with
  | notStarted =>
    have hw := h7 hs
    by_cases hm : s.maxSends = 0
    · exact key .register rfl (by simp [step, hw, hm])
    · exact key .register rfl (by simp [step, hw, hm])
  | waitingDelay =>
    by_cases ht : s.timerFired = true
    · by_cases hc : s.closed = true
      · exact key .sendClosedErr rfl (by simp [step, hs, ht, hc])
      · exact key .sendBegin rfl (by simp [step, hs, ht, hc])
    · exact key .delayElapses rfl (by simp [step, hs, ht])
  | writing =>
    by_cases hl : s.sends + 1 < s.maxSends
    · exact key .sendOk rfl (by simp [step, hs, hl])
    · exact key .sendOk rfl (by simp [step, hs, hl])
  | finalDelay =>
    by_cases ht : s.timerFired = true
    · exact key .senderTimeout rfl (by simp [step, hs, ht])
    · exact key .delayElapses rfl (by simp [step, hs, ht])
  | pushed => exact key .senderClose rfl (by simp [step, hs])
  | exited =>
    have hcl := h10 hs
    cases hw : s.wph with
    | start => have := h6 hw; simp [hs] at this
    | selecting =>
      have he := h12 (Or.inr hs) (Or.inr hw)
      cases hce : s.chanErr with
      | none => simp [hce] at he
      | some e => exact key .selSendErr rfl (by simp [step, hw, hce])
    | selected => exact key .cancelSend rfl (by simp [step, hw])
    | cancelled =>
      cases hce : s.chanErr with
      | none => exact key .join rfl (by simp [step, hw, hce, hcl])
      | some e => exact key .join rfl (by simp [step, hw, hce])
    | joined => exact key .deregister rfl (by simp [step, hw])
    | returned =>
      exfalso; apply hn
      exact ⟨hw, hs, by simpa using hr⟩

/-! ## Runs -/

theorem run_inv {s s' : QState} (es : List Ev) (hi : Inv s) (h : run s es = some s') : Inv s' := by
  induction es generalizing s with
  | nil => simp [run] at h; subst h; exact hi
  | cons e es ih =>
    simp only [run] at h
    split at h
    · cases h
    · rename_i s1 hs1
      exact ih (inv_step e hi hs1) h

theorem run_reachable {s s' : QState} (es : List Ev) (hr : Reachable s) (h : run s es = some s') : Reachable s' := by
  induction es generalizing s with
  | nil => simp [run] at h; subst h; exact hr
  | cons e es ih =>
    simp only [run] at h
    split at h
    · cases h
    · rename_i s1 hs1
      exact ih (Reachable.step e hr hs1) h

/-- Along any run the number of progress steps is bounded by the measure of the first state. -/
theorem run_progress_bound {s s' : QState} (es : List Ev) (hi : Inv s) (h : run s es = some s') :
    (es.filter Ev.progress).length + measure s' ≤ measure s := by
  induction es generalizing s with
  | nil => simp [run] at h; subst h; simp
  | cons e es ih =>
    simp only [run] at h
    split at h
    · cases h
    · rename_i s1 hs1
      have h1 := ih (inv_step e hi hs1) h
      cases hp : e.progress with
      | true =>
        have := progress_decreases e hi hs1 hp
        simp only [List.filter_cons, hp, if_true, List.length_cons]
        omega
      | false =>
        have := env_nonincreasing e hi hs1 hp
        simp only [List.filter_cons, hp]
        simp
        omega

/-- From every state satisfying the invariant the query's own goroutines and timers alone can
bring it to the terminal state. -/
theorem finish_alone {s : QState} (hi : Inv s) :
    ∃ es s', (∀ e ∈ es, e.progress = true) ∧ run s es = some s' ∧ s'.terminal := by
  generalize hm : measure s = m
  induction m using Nat.strongRecOn generalizing s with
  | _ m ih =>
    by_cases ht : s.terminal
    · exact ⟨[], s, by simp, rfl, ht⟩
    · obtain ⟨e, s1, hp, hs1⟩ := not_stuck hi ht
      have hlt := progress_decreases e hi hs1 hp
      obtain ⟨es, s2, hall, hrun, hterm⟩ := ih (measure s1) (by omega) (inv_step e hi hs1) rfl
      refine ⟨e :: es, s2, ?_, ?_, hterm⟩
      · intro x hx
        simp only [List.mem_cons] at hx
        rcases hx with rfl | hx
        · exact hp
        · exact hall x hx
      · simp [run, hs1, hrun]

/-! ## Trace acceptance is sound: an accepted history is a run of the machine -/

theorem insertAll_mem {acc xs : List ObsSt} {y : ObsSt} (h : y ∈ insertAll acc xs) : y ∈ acc ∨ y ∈ xs := by
  unfold insertAll at h
  induction xs generalizing acc with
  | nil => simp at h; exact Or.inl h
  | cons x xs ih =>
    simp only [List.foldl_cons] at h
    rcases ih h with h1 | h1
    · split at h1
      · exact Or.inl h1
      · simp only [List.mem_append, List.mem_singleton] at h1
        rcases h1 with h1 | h1
        · exact Or.inl h1
        · exact Or.inr (by simp [h1])
    · exact Or.inr (List.mem_cons_of_mem _ h1)

theorem internalSuccs_reach {o y : ObsSt} (ho : Reachable o.q) (h : y ∈ o.internalSuccs) : Reachable y.q := by
  unfold ObsSt.internalSuccs at h
  simp only [List.mem_append, List.mem_filterMap] at h
  rcases h with ⟨e, _, he⟩ | h
  · cases hs : step o.q e with
    | none => simp [hs] at he
    | some q' =>
      simp [hs] at he
      subst he
      exact Reachable.step e ho hs
  · split at h
    · split at h
      · rename_i q' hq
        simp at h; subst h
        exact Reachable.step _ ho hq
      · simp at h
    · simp at h

theorem closure_reach (fuel : Nat) (xs : List ObsSt) (hx : ∀ x ∈ xs, Reachable x.q) :
    ∀ y ∈ closure fuel xs, Reachable y.q := by
  induction fuel generalizing xs with
  | zero => simpa [closure] using hx
  | succ k ih =>
    simp only [closure]
    split
    · exact hx
    · apply ih
      intro x hxm
      rcases insertAll_mem hxm with h | h
      · exact hx x h
      · rw [List.mem_flatMap] at h
        obtain ⟨o, ho, hy⟩ := h
        exact internalSuccs_reach (hx o ho) hy

theorem obsStep_reach {o y : ObsSt} (e : Obs) (ho : Reachable o.q) (h : y ∈ obsStep o e) : Reachable y.q := by
  cases e <;> simp only [obsStep] at h
  · cases hs : step o.q .sendOk with
    | none => simp [hs] at h
    | some q' => simp [hs] at h; subst h; exact Reachable.step _ ho hs
  · cases hs : step o.q .sendFail with
    | none => simp [hs] at h
    | some q' => simp [hs] at h; subst h; exact Reachable.step _ ho hs
  · cases hs : step o.q .replyInjected with
    | none => simp [hs] at h
    | some q' => simp [hs] at h; subst h; exact Reachable.step _ ho hs
  · split at h
    · rename_i q' hq
      simp at h; subst h; exact Reachable.step _ ho hq
    · simp at h; subst h; exact ho
  · simp at h; subst h; exact ho
  · split at h
    · simp at h; subst h; exact ho
    · simp at h

theorem accepts_reach (n : Nat) (evs : List Obs) (i : Nat) (xs ys : List ObsSt)
    (hx : ∀ x ∈ xs, Reachable x.q) (h : accepts xs n evs i = .ok ys) : ∀ y ∈ ys, Reachable y.q := by
  induction evs generalizing xs i with
  | nil =>
    simp only [accepts] at h
    cases h
    exact closure_reach _ xs hx
  | cons e es ih =>
    simp only [accepts] at h
    split at h
    · cases h
    · refine ih _ _ ?_ h
      intro x hxm
      rcases insertAll_mem hxm with h1 | h1
      · simp at h1
      · rw [List.mem_flatMap] at h1
        obtain ⟨o, ho, hy⟩ := h1
        exact obsStep_reach e (closure_reach _ xs hx o ho) hy

/-- If the driver accepts an observed history, some reachable terminal state of the machine
has exactly the observed outcome. -/
theorem acceptsRun_sound (numTries : Nat) (c x : Bool) (evs : List Obs) (out : ObsOutcome)
    (h : acceptsRun numTries c x evs out = .ok ()) :
    ∃ s, Reachable s ∧ s.terminal ∧ s.outcome.map Outcome.obs = some out := by
  unfold acceptsRun at h
  simp only at h
  split at h
  · cases h
  · rename_i ys hacc
    split at h
    · rename_i hany
      rw [List.any_eq_true] at hany
      obtain ⟨o, ho, hcond⟩ := hany
      simp only [Bool.and_eq_true, decide_eq_true_eq, beq_iff_eq] at hcond
      refine ⟨o.q, ?_, hcond.1, hcond.2⟩
      refine accepts_reach _ evs 0 _ ys ?_ hacc o ho
      intro y hy
      simp at hy
      subst hy
      exact Reachable.init numTries c x
    · cases h

end Dht.Qry
