/- Helper lemmas for C02Honest: every step keeps the invariant; the final argument. -/
import DhtVerif.Lemmas.C02HonestInv
namespace Dht

/-! ### one step -/

theorem Trav.addClosest_fields (c : TravCfg) (s : Trav) (a : Addr) (r : QResult) :
    (s.addClosest c a r).unq = s.unq ∧ (s.addClosest c a r).queried = s.queried ∧
    (s.addClosest c a r).started = s.started ∧ (s.addClosest c a r).inflight = s.inflight := by
  unfold Trav.addClosest
  split
  · exact ⟨rfl, rfl, rfl, rfl⟩
  · split
    · exact ⟨rfl, rfl, rfl, rfl⟩
    · split <;> exact ⟨rfl, rfl, rfl, rfl⟩

theorem NetNode.cand_ok {net : List NetNode} (hwf : NetWF net) (n : NetNode) (hn : n ∈ net) :
    n.cand.ok' := by
  intro i hi
  simp only [NetNode.cand, Option.some.injEq] at hi
  subst hi
  exact hwf.idLen n hn

theorem Trav.HInv.step {c : TravCfg} {net : List NetNode} {hist : List KElem} {s s' : Trav}
    (ht : c.target.length = 20) (hnf : ∀ n ∈ net, c.nodeFilter n.cand = true)
    (h : Trav.HInv c net hist s) (e : TravEv) (he : HonestEv c net e)
    (hs : s.step c e = some s') : Trav.HInv c net (hist ++ offeredAt c s e) s' := by
  cases e with
  | addNodes ns =>
    simp only [Trav.step, Option.some.injEq] at hs
    subst hs
    simp only [offeredAt, List.append_nil]
    exact (h.addNodes ht ns he).1
  | runEval =>
    simp only [Trav.step] at hs
    simp only [offeredAt, List.append_nil]
    split at hs
    · simp only [Option.some.injEq] at hs
      subst hs; exact h.runEval
    · cases hs
  | captureGen =>
    simp only [Trav.step, Trav.captureGen] at hs
    simp only [offeredAt, List.append_nil]
    split at hs
    · simp only [Option.some.injEq] at hs
      subst hs; exact h.congr rfl rfl rfl rfl
    · cases hs
  | runWake why =>
    simp only [Trav.step, Trav.runWake] at hs
    simp only [offeredAt, List.append_nil]
    split at hs
    · split at hs <;> split at hs <;> first
        | (simp only [Option.some.injEq] at hs
           subst hs; exact h.congr rfl rfl rfl rfl)
        | cases hs
    · cases hs
  | queryReturn a r =>
    simp only [Trav.step] at hs
    simp only [offeredAt, List.append_nil]
    split at hs
    · simp only [Option.some.injEq] at hs
      subst hs
      refine h.rephase a (.returned r) rfl rfl rfl rfl (fun _ hm => hm) h.hist_net ?_ ?_ ?_ ?_
      · intro r' hr'
        simp only [QPhase.res, Option.some.injEq] at hr'
        subst hr'; exact he
      · intro hp; cases hp
      · intro r' hr'; cases hr'
      · intro hp; cases hp
    · cases hs
  | addClosest a =>
    simp only [Trav.step] at hs
    split at hs
    · rename_i r hph
      simp only [Option.some.injEq] at hs
      subst hs
      have hm := phaseOf_mem_H hph
      have hon := h.honest _ hm r rfl
      obtain ⟨⟨id, hidnet, hresp⟩, hdf, _, _⟩ := hon
      have hnfa : c.nodeFilter ⟨some id, a⟩ = true := hnf (id, a) hidnet
      have hoff : offeredAt c s (.addClosest a) = [⟨id, a, r.data⟩] := by
        simp only [offeredAt, hph, hresp, hnfa, hdf, Bool.and_self, if_true]
      rw [hoff]
      obtain ⟨f1, f2, f3, f4⟩ := Trav.addClosest_fields c s a r
      refine h.rephase a (.closestDone r) f1 f2 f3 rfl
        (fun m hm' => List.mem_append_left _ hm') ?_ ?_ ?_ ?_ ?_
      · intro m hm'
        rcases List.mem_append.mp hm' with hm' | hm'
        · exact h.hist_net m hm'
        · simp only [List.mem_singleton] at hm'
          subst hm'; exact hidnet
      · intro r' hr'
        simp only [QPhase.res, Option.some.injEq] at hr'
        subst hr'; exact h.honest _ hm _ rfl
      · intro _
        exact ⟨⟨id, a, r.data⟩, by simp, rfl⟩
      · intro r' hr'; cases hr'
      · intro hp; cases hp
    · cases hs
  | addReplyNodes a =>
    simp only [Trav.step] at hs
    simp only [offeredAt, List.append_nil]
    split at hs
    · rename_i r hph
      simp only [Option.some.injEq] at hs
      subst hs
      have hm := phaseOf_mem_H hph
      have hon := h.honest _ hm r rfl
      obtain ⟨_, _, hok, _⟩ := hon
      obtain ⟨h1, _, hs1⟩ := h.addNodes ht r.nodes
        (fun x hx => hok x (List.mem_append_left _ hx))
      have hfr := (Trav.addNodes_frame c r.nodes s).2
      refine h1.rephase a (.nodesDone r) rfl rfl rfl ?_ (fun _ hm' => hm') h.hist_net ?_ ?_ ?_ ?_
      · show setPhase s.inflight a _ = setPhase (s.addNodes c r.nodes).inflight a _
        rw [hfr]
      · intro r' hr'
        simp only [QPhase.res, Option.some.injEq] at hr'
        subst hr'; exact h.honest _ hm _ rfl
      · intro _; exact h.resp_past _ hm rfl
      · intro r' hr' n hn hnr
        simp only [QPhase.nodesDone.injEq] at hr'
        subst hr'
        exact hs1 n.cand hnr (hnf n (kClosest_sub _ _ _ n hn))
      · intro hp; cases hp
    · cases hs
  | addReplyNodes6 a =>
    simp only [Trav.step] at hs
    simp only [offeredAt, List.append_nil]
    split at hs
    · rename_i r hph
      simp only [Option.some.injEq] at hs
      subst hs
      have hm := phaseOf_mem_H hph
      have hon := h.honest _ hm r rfl
      obtain ⟨_, _, hok, hall⟩ := hon
      obtain ⟨h1, g1, hs1⟩ := h.addNodes ht r.nodes6
        (fun x hx => hok x (List.mem_append_right _ hx))
      have hfr := (Trav.addNodes_frame c r.nodes6 s).2
      refine h1.rephase a .nodes6Done rfl rfl rfl ?_ (fun _ hm' => hm') h.hist_net ?_ ?_ ?_ ?_
      · show setPhase s.inflight a _ = setPhase (s.addNodes c r.nodes6).inflight a _
        rw [hfr]
      · intro r' hr'; cases hr'
      · intro _; exact h.resp_past _ hm rfl
      · intro r' hr'; cases hr'
      · intro _ n hn
        rcases List.mem_append.mp (hall n hn) with hnr | hnr
        · exact g1.has (h.cov_nodes _ hm r rfl n hn hnr)
        · exact hs1 n.cand hnr (hnf n (kClosest_sub _ _ _ n hn))
    · cases hs
  | finish a =>
    simp only [Trav.step] at hs
    simp only [offeredAt, List.append_nil]
    split at hs
    · rename_i hph
      simp only [Option.some.injEq] at hs
      subst hs
      exact h.finish a (phaseOf_mem_H hph) rfl rfl rfl rfl
    · cases hs
  | stop =>
    simp only [Trav.step] at hs
    simp only [offeredAt, List.append_nil]
    split at hs <;>
      (simp only [Option.some.injEq] at hs
       subst hs; exact h.congr rfl rfl rfl rfl)
  | stopperStep =>
    simp only [Trav.step] at hs
    simp only [offeredAt, List.append_nil]
    split at hs
    · split at hs <;>
        (simp only [Option.some.injEq] at hs
         subst hs; exact h.congr rfl rfl rfl rfl)
    · split at hs
      · simp only [Option.some.injEq] at hs
        subst hs; exact h.congr rfl rfl rfl rfl
      · cases hs
    · cases hs

theorem Trav.HInv.exec {c : TravCfg} {net : List NetNode}
    (ht : c.target.length = 20) (hnf : ∀ n ∈ net, c.nodeFilter n.cand = true)
    (evs : List TravEv) (s0 s : Trav) (hist : List KElem)
    (h0 : Trav.HInv c net hist s0) (hh : HonestHist c net evs)
    (h : Trav.exec c s0 evs = some s) : Trav.HInv c net (hist ++ offered c s0 evs) s := by
  induction evs generalizing s0 hist with
  | nil =>
    simp only [Trav.exec, Option.some.injEq] at h
    subst h
    simpa [offered] using h0
  | cons e es ih =>
    obtain ⟨s1, h1, h2⟩ := (Trav.exec_cons c s0 e es s).mp h
    have hstep := h0.step ht hnf e (hh e List.mem_cons_self) h1
    have := ih s1 (hist ++ offeredAt c s0 e) hstep (fun e' he' => hh e' (List.mem_cons_of_mem _ he')) h2
    rw [offered_cons, h1]
    simpa [List.append_assoc] using this

/-! ### the K-nearest container -/

theorem KNN.foldl_upsert_has_key (hist acc : List KElem) (m : KElem)
    (h : m ∈ hist ∨ ∃ q ∈ acc, q.key = m.key) : ∃ p ∈ hist.foldl KNN.upsert acc, p.key = m.key := by
  induction hist generalizing acc with
  | nil =>
    rcases h with h | h
    · cases h
    · exact h
  | cons e es ih =>
    apply ih (KNN.upsert acc e)
    rcases h with h | ⟨q, hq, hk⟩
    · rcases List.mem_cons.mp h with rfl | h
      · exact Or.inr ⟨m, KNN.self_mem_upsert acc m, rfl⟩
      · exact Or.inl h
    · right
      by_cases hqe : q.key = e.key
      · exact ⟨e, KNN.self_mem_upsert acc e, hqe ▸ hk⟩
      · exact ⟨q, (KNN.mem_upsert acc e q).mpr (Or.inr ⟨hq, hqe⟩), hk⟩

/-- Every offered key is present in the latest-push list. -/
theorem KNN.latest_has_key (hist : List KElem) (m : KElem) (h : m ∈ hist) :
    ∃ p ∈ KNN.latest hist, p.key = m.key :=
  KNN.foldl_upsert_has_key hist [] m (Or.inl h)

theorem KNN.NodupK.eq_of_key {l : List KElem} (h : KNN.NodupK l) (a b : KElem)
    (ha : a ∈ l) (hb : b ∈ l) (e : a.key = b.key) : a = b := by
  induction l with
  | nil => cases ha
  | cons x xs ih =>
    have h' := List.pairwise_cons.mp h
    rcases List.mem_cons.mp ha with ha1 | ha1
    · rcases List.mem_cons.mp hb with hb1 | hb1
      · rw [ha1, hb1]
      · exact absurd (ha1 ▸ e) (h'.1 b hb1)
    · rcases List.mem_cons.mp hb with hb1 | hb1
      · exact absurd (hb1 ▸ e.symm) (h'.1 a ha1)
      · exact ih h'.2 ha1 hb1

theorem KNN.le_farthest (t : Id) (l : List KElem) (far : KElem) (hs : KNN.SortedD t l)
    (hf : KNN.farthest l = some far) : ∀ m ∈ l, m.dist t ≤ far.dist t := by
  unfold KNN.farthest at hf
  obtain ⟨ys, rfl⟩ := List.getLast?_eq_some_iff.mp hf
  intro m hm
  unfold KNN.SortedD at hs
  have hp := List.pairwise_append.mp hs
  rcases List.mem_append.mp hm with hm | hm
  · exact hp.2.2 m hm far (by simp)
  · simp only [List.mem_singleton] at hm
    subst hm; exact Nat.le_refl _

theorem KElem.dist_eq_netDist (t : Id) (m : KElem) : m.dist t = netDist t (m.id, m.addr) := rfl

theorem closestPairs_nodup (cl : List KElem) (h : KNN.NodupK cl) :
    (cl.map (fun m => (m.id, m.addr))).Nodup := by
  unfold KNN.NodupK at h
  unfold List.Nodup
  rw [List.pairwise_map]
  refine h.imp ?_
  intro a b hk e
  apply hk
  simp only [Prod.mk.injEq] at e
  simp [KElem.key, e.1, e.2]

/-- `k` members with pairwise different keys, all network nodes, cannot all be strictly closer
to the target than one of the K closest nodes of the network. -/
theorem closest_not_all_closer (t : Id) (k : Nat) (net : List NetNode) (n : NetNode)
    (hn : n ∈ kClosest t k net) (cl : List KElem) (hnd : KNN.NodupK cl)
    (hnet : ∀ m ∈ cl, (m.id, m.addr) ∈ net) (hlen : k ≤ cl.length)
    (hcl : ∀ m ∈ cl, m.dist t < netDist t n) : False := by
  have := kClosest_closer_lt t k net n hn (cl.map (fun m => (m.id, m.addr))) (closestPairs_nodup cl hnd) (by
    intro x hx
    obtain ⟨m, hm, rfl⟩ := List.mem_map.mp hx
    exact ⟨hnet m hm, hcl m hm⟩)
  rw [List.length_map] at this
  omega

theorem Id.cmp_lt_iff_toNat (a b : Id) (h : a.length = b.length) :
    Id.cmp a b = .lt ↔ a.toNat < b.toNat := by
  rw [Id.cmp_eq_compare_toNat a b h, Nat.compare_eq_lt]

theorem Id.distance_length (a t : Id) (ha : a.length = 20) (ht : t.length = 20) :
    (Id.distance a t).length = 20 := by
  simp [Id.distance, Id.xor_length, ha, ht]

/-! ### the final argument -/

/-- At a quiescent state of an honestly answered lookup that contacted somebody, every one
of the K closest nodes of the network is a member of the closest set. -/
theorem honest_kClosest_sub {c : TravCfg} {net : List NetNode} (hwf : NetWF net)
    (ht : c.target.length = 20) (hnf : ∀ n ∈ net, c.nodeFilter n.cand = true)
    (evs : List TravEv) (s : Trav) (hh : HonestHist c net evs)
    (h : Trav.exec c {} evs = some s)
    (hidle : s.inflight = []) (hq : s.haveQuery c = false) (hstarted : s.started ≠ []) :
    ∀ n ∈ kClosest c.target c.k net, ∃ m ∈ s.closest, (m.id, m.addr) = n := by
  have hI : Trav.HInv c net (offered c {} evs) s := by
    have := Trav.HInv.exec ht hnf evs {} s [] (Trav.HInv.init c net) hh h
    simpa using this
  have hInv : Trav.Inv c s := Trav.exec_inv evs (Trav.Inv.init c) h
  have hK := C18.knn_invariant _ _ _ _ (C02.reach c evs s h)
  -- members are network nodes
  have hoffnet : ∀ p ∈ KNN.latest (offered c {} evs), (p.id, p.addr) ∈ net :=
    fun p hp => hI.hist_net p (KNN.mem_latest_imp _ p hp)
  have hclnet : ∀ m ∈ s.closest, (m.id, m.addr) ∈ net := fun m hm => hoffnet m (hK.sub m hm)
  -- all K closest are accounted for
  have hcov : s.covers c net := by
    rcases hI.cov with h1 | h1
    · exact h1
    · exfalso
      cases hst : s.started with
      | nil => exact hstarted hst
      | cons a rest =>
        have := h1 a (by rw [hst]; exact List.mem_cons_self)
        rw [hidle] at this
        cases this
  intro n hn
  have hnnet := kClosest_sub _ _ _ n hn
  apply Classical.byContradiction
  intro hnot
  rcases hcov n hn with hqd | hunq
  · -- the node was queried: it answered and was offered
    rw [hInv.q_eq] at hqd
    obtain ⟨a', ha', hkey⟩ := List.mem_map.mp hqd
    have hresp : ∃ m ∈ offered c {} evs, m.addr = a' := by
      rcases hI.resp_started a' ha' with h1 | h1
      · rw [hidle] at h1; cases h1
      · exact h1
    obtain ⟨m, hm, hma⟩ := hresp
    obtain ⟨p, hp, hpk⟩ := KNN.latest_has_key _ m hm
    have hmn : (m.id, m.addr) = n :=
      hwf.eq_of_addr _ n (hI.hist_net m hm) hnnet (by rw [hma]; exact hkey)
    have hpm : (p.id, p.addr) = (m.id, m.addr) := by
      apply hwf.eq_of_addr _ _ (hoffnet p hp) (hI.hist_net m hm)
      exact congrArg Prod.snd hpk
    have hpn : (p.id, p.addr) = n := hpm.trans hmn
    by_cases hps : p ∈ s.closest
    · exact hnot ⟨p, hps, hpn⟩
    · have hfull := hK.full_of_missing p hp hps
      have hfar := hK.far p hp hps
      refine closest_not_all_closer c.target c.k net n hn s.closest hK.nodupS hclnet (by omega) ?_
      intro m' hm'
      have hle := hfar m' hm'
      rw [KElem.dist_eq_netDist, KElem.dist_eq_netDist, hpn] at hle
      rw [KElem.dist_eq_netDist]
      have hne : netDist c.target (m'.id, m'.addr) ≠ netDist c.target n := by
        intro e
        have heq := hwf.eq_of_dist c.target ht _ n (hclnet m' hm') hnnet e
        have hk : m'.key = p.key := by
          have : (m'.id, m'.addr) = (p.id, p.addr) := heq.trans hpn.symm
          simp only [Prod.mk.injEq] at this
          simp [KElem.key, this.1, this.2]
        have := hK.nodupL.eq_of_key m' p (hK.sub m' hm') hp hk
        exact hps (this ▸ hm')
      omega
  · -- the node waits in the frontier although no query is startable
    unfold Trav.haveQuery at hq
    cases hu : s.unq with
    | nil => rw [hu] at hunq; cases hunq
    | cons cu rest =>
      rw [hu] at hq hunq
      simp only at hq
      have hsorted := hI.unq_sorted
      rw [hu] at hsorted
      have hhead := (List.pairwise_cons.mp hsorted).1
      have hcuok : cu.ok' := hI.unq_ok cu (by rw [hu]; exact List.mem_cons_self)
      have hkpos : 0 < c.k := by
        have := ((mem_kClosest _ _ _ n).mp hn).2
        omega
      cases hfull : KNN.full c.k s.closest with
      | false => rw [hfull] at hq; simp at hq
      | true =>
        rw [hfull] at hq
        simp only [Bool.not_true, Bool.false_eq_true, if_false] at hq
        have hlen : c.k ≤ s.closest.length := by
          simpa [KNN.full] using hfull
        cases hid : cu.id with
        | none =>
          rcases List.mem_cons.mp hunq with he | hr
          · rw [← he] at hid; cases hid
          · have := hhead _ hr
            rw [closerThan_none_some c.target cu n.cand n.1 hid rfl] at this
            cases this
        | some i =>
          rw [hid] at hq
          cases hfar : KNN.farthest s.closest with
          | none =>
            unfold KNN.farthest at hfar
            rw [List.getLast?_eq_none_iff] at hfar
            rw [hfar] at hlen
            simp at hlen
            omega
          | some far =>
            rw [hfar] at hq
            simp only [bne_eq_false_iff_eq] at hq
            have hfarmem : far ∈ s.closest := by
              unfold KNN.farthest at hfar
              exact List.mem_of_getLast? hfar
            have hil : i.length = 20 := hcuok i hid
            have hfl : far.id.length = 20 := hwf.idLen _ (hclnet far hfarmem)
            have hnl : n.1.length = 20 := hwf.idLen n hnnet
            have hlt : far.dist c.target < (Id.distance i c.target).toNat := by
              have := (Id.cmp_gt_iff _ _).mp hq
              rw [Id.cmp_lt_iff_toNat _ _ (by
                rw [Id.distance_length _ _ hfl ht, Id.distance_length _ _ hil ht])] at this
              exact this
            have hin : (Id.distance i c.target).toNat ≤ netDist c.target n := by
              rcases List.mem_cons.mp hunq with he | hr
              · rw [← he] at hid
                simp only [NetNode.cand, Option.some.injEq] at hid
                rw [← hid]; exact Nat.le_refl _
              · have := (closerThan_some_some c.target cu n.cand i n.1 hid rfl).mp (hhead _ hr)
                rcases this with h2 | ⟨h2, _⟩
                · rw [Id.cmp_lt_iff_toNat _ _ (by
                    rw [Id.distance_length _ _ hil ht, Id.distance_length _ _ hnl ht])] at h2
                  exact Nat.le_of_lt h2
                · unfold netDist; rw [h2]; exact Nat.le_refl _
            refine closest_not_all_closer c.target c.k net n hn s.closest hK.nodupS hclnet hlen ?_
            intro m' hm'
            have := KNN.le_farthest c.target s.closest far hK.sorted hfar m' hm'
            omega

end Dht
