/- Helper lemmas for C04 (and frame lemmas reused by C02). -/
import DhtVerif.Model.Traversal
import DhtVerif.Lemmas.C18
namespace Dht

/-! ### in-flight list helpers -/

theorem setPhase_map_fst (l : List (Addr × QPhase)) (a : Addr) (p : QPhase) :
    (setPhase l a p).map Prod.fst = l.map Prod.fst := by
  unfold setPhase
  rw [List.map_map]
  apply List.map_congr_left
  intro e _
  by_cases h : e.1 = a <;> simp [h]

theorem phaseOf_some_mem {l : List (Addr × QPhase)} {a : Addr} {p : QPhase}
    (h : phaseOf l a = some p) : a ∈ l.map Prod.fst := by
  unfold phaseOf at h
  cases hf : l.find? (·.1 == a) with
  | none => simp [hf] at h
  | some e =>
    have hm := List.mem_of_find?_eq_some hf
    have hp := List.find?_some hf
    simp only [beq_iff_eq] at hp
    exact List.mem_map.mpr ⟨e, hm, hp⟩

theorem filter_ne_length {β : Type} (l : List (Addr × β)) (a : Addr)
    (hn : (l.map Prod.fst).Nodup) (hm : a ∈ l.map Prod.fst) :
    (l.filter (fun e => !(e.1 == a))).length + 1 = l.length := by
  induction l with
  | nil => simp at hm
  | cons x xs ih =>
    simp only [List.map_cons, List.nodup_cons] at hn
    by_cases hx : x.1 = a
    · have hnot : a ∉ xs.map Prod.fst := hx ▸ hn.1
      have hall : xs.filter (fun e => !(e.1 == a)) = xs := by
        rw [List.filter_eq_self]
        intro e he
        have : e.1 ≠ a := fun h => hnot (List.mem_map.mpr ⟨e, he, h⟩)
        simp [this]
      simp [hx, hall]
    · have hm' : a ∈ xs.map Prod.fst := by
        simp only [List.map_cons, List.mem_cons] at hm
        rcases hm with h | h
        · exact absurd h.symm hx
        · exact h
      have := ih hn.2 hm'
      simp [hx]
      omega

/-! ### the invariant -/

structure Trav.Inv (c : TravCfg) (s : Trav) : Prop where
  out_le : s.outstanding ≤ c.alpha
  len : s.inflight.length = s.outstanding
  q_eq : s.queried = s.started.map Addr.strKey
  q_nodup : s.queried.Nodup
  infl_nodup : ((s.inflight.map Prod.fst).map Addr.strKey).Nodup
  infl_q : ∀ a ∈ s.inflight.map Prod.fst, a.strKey ∈ s.queried
  unq_ok : ∀ n ∈ s.unq, c.nodeFilter n = true
  started_ok : ∀ a ∈ s.started, ∃ n : Cand, n.addr = a ∧ c.nodeFilter n = true

theorem Trav.Inv.init (c : TravCfg) : Trav.Inv c {} := by
  constructor <;> simp

theorem Trav.Inv.congr {c : TravCfg} {s s' : Trav} (h : Trav.Inv c s)
    (ho : s'.outstanding = s.outstanding)
    (hi : s'.inflight.map Prod.fst = s.inflight.map Prod.fst)
    (hq : s'.queried = s.queried) (hs : s'.started = s.started)
    (hu : ∀ n ∈ s'.unq, c.nodeFilter n = true) : Trav.Inv c s' := by
  have hl : s'.inflight.length = s.inflight.length := by
    have := congrArg List.length hi
    simpa using this
  constructor
  · rw [ho]; exact h.out_le
  · rw [hl, ho]; exact h.len
  · rw [hq, hs]; exact h.q_eq
  · rw [hq]; exact h.q_nodup
  · rw [hi]; exact h.infl_nodup
  · rw [hi, hq]; exact h.infl_q
  · exact hu
  · rw [hs]; exact h.started_ok

/-! ### addNodes -/

theorem Trav.addNode_inv {c : TravCfg} {s : Trav} (n : Cand) (h : Trav.Inv c s) :
    Trav.Inv c (s.addNode c n) := by
  unfold Trav.addNode
  split
  · exact h
  · split
    · exact h
    · rename_i hf
      refine h.congr rfl rfl rfl rfl ?_
      intro x hx
      rcases SSet.mem_add_imp _ _ _ _ hx with rfl | hx
      · simpa using hf
      · exact h.unq_ok x hx

theorem Trav.addNodes_inv {c : TravCfg} (ns : List Cand) {s : Trav} (h : Trav.Inv c s) :
    Trav.Inv c (s.addNodes c ns) := by
  unfold Trav.addNodes
  induction ns generalizing s with
  | nil => exact h
  | cons n ns ih => exact ih (Trav.addNode_inv n h)

theorem Trav.addNode_frame (c : TravCfg) (s : Trav) (n : Cand) :
    (s.addNode c n).closest = s.closest ∧ (s.addNode c n).inflight = s.inflight := by
  unfold Trav.addNode
  split
  · exact ⟨rfl, rfl⟩
  · split <;> exact ⟨rfl, rfl⟩

theorem Trav.addNodes_frame (c : TravCfg) (ns : List Cand) (s : Trav) :
    (s.addNodes c ns).closest = s.closest ∧ (s.addNodes c ns).inflight = s.inflight := by
  unfold Trav.addNodes
  induction ns generalizing s with
  | nil => exact ⟨rfl, rfl⟩
  | cons n ns ih =>
    have h1 := Trav.addNode_frame c s n
    have h2 := ih (s.addNode c n)
    exact ⟨h2.1.trans h1.1, h2.2.trans h1.2⟩

/-! ### startQuery / startLoop / runEval -/

theorem Trav.startQuery_inv {c : TravCfg} {s : Trav} (h : Trav.Inv c s)
    (hlt : s.outstanding < c.alpha) : Trav.Inv c (s.startQuery c) := by
  unfold Trav.startQuery
  split
  · exact h
  · rename_i a rest hunq
    have hsub : ∀ n ∈ SSet.delete c.target (a :: rest) a, c.nodeFilter n = true := by
      intro n hn
      exact h.unq_ok n (hunq ▸ (SSet.delete_sublist _ _ _).subset hn)
    have ha : c.nodeFilter a = true := h.unq_ok a (hunq ▸ List.mem_cons_self)
    simp only
    split
    · exact h.congr rfl rfl rfl rfl hsub
    · rename_i hq
      have hq' : a.addr.strKey ∉ s.queried := by simpa using hq
      constructor
      · show s.outstanding + 1 ≤ c.alpha
        omega
      · show (s.inflight ++ [(a.addr, QPhase.inDoQuery)]).length = s.outstanding + 1
        simp [h.len]
      · show s.queried ++ [a.addr.strKey] = (s.started ++ [a.addr]).map Addr.strKey
        simp [h.q_eq]
      · show (s.queried ++ [a.addr.strKey]).Nodup
        rw [List.nodup_append]
        refine ⟨h.q_nodup, by simp, ?_⟩
        intro x hx y hy
        simp only [List.mem_singleton] at hy
        subst hy
        intro hxy; subst hxy; exact hq' hx
      · show (((s.inflight ++ [(a.addr, QPhase.inDoQuery)]).map Prod.fst).map Addr.strKey).Nodup
        simp only [List.map_append, List.map_cons, List.map_nil]
        rw [List.nodup_append]
        refine ⟨h.infl_nodup, by simp, ?_⟩
        intro x hx y hy
        simp only [List.mem_singleton] at hy
        subst hy
        intro hxy; subst hxy
        obtain ⟨b, hb, hbe⟩ := List.mem_map.mp hx
        exact hq' (hbe ▸ h.infl_q b hb)
      · show ∀ x ∈ (s.inflight ++ [(a.addr, QPhase.inDoQuery)]).map Prod.fst,
          x.strKey ∈ s.queried ++ [a.addr.strKey]
        intro x hx
        simp only [List.map_append, List.map_cons, List.map_nil, List.mem_append,
          List.mem_singleton] at hx ⊢
        rcases hx with hx | rfl
        · exact Or.inl (h.infl_q x hx)
        · exact Or.inr rfl
      · exact hsub
      · show ∀ x ∈ s.started ++ [a.addr], ∃ n : Cand, n.addr = x ∧ c.nodeFilter n = true
        intro x hx
        simp only [List.mem_append, List.mem_singleton] at hx
        rcases hx with hx | rfl
        · exact h.started_ok x hx
        · exact ⟨a, rfl, ha⟩

theorem Trav.startQuery_frame (c : TravCfg) (s : Trav) :
    (s.startQuery c).closest = s.closest := by
  unfold Trav.startQuery
  split
  · rfl
  · simp only
    split <;> rfl

theorem Trav.startLoop_inv {c : TravCfg} (fuel : Nat) {s : Trav} (h : Trav.Inv c s) :
    Trav.Inv c (Trav.startLoop c fuel s) := by
  induction fuel generalizing s with
  | zero => exact h
  | succ fuel ih =>
    unfold Trav.startLoop
    split
    · rename_i hc
      simp only [Bool.and_eq_true, decide_eq_true_eq] at hc
      exact ih (Trav.startQuery_inv h hc.1)
    · exact h

theorem Trav.startLoop_frame (c : TravCfg) (fuel : Nat) (s : Trav) :
    (Trav.startLoop c fuel s).closest = s.closest := by
  induction fuel generalizing s with
  | zero => rfl
  | succ fuel ih =>
    unfold Trav.startLoop
    split
    · exact (ih _).trans (Trav.startQuery_frame c s)
    · rfl

theorem Trav.runEval_inv {c : TravCfg} {s : Trav} (h : Trav.Inv c s) :
    Trav.Inv c (s.runEval c) := by
  unfold Trav.runEval
  split
  · split
    · exact h.congr rfl rfl rfl rfl h.unq_ok
    · have h' := Trav.startLoop_inv (s.unq.length + 1) h
      simp only
      split <;> exact h'.congr rfl rfl rfl rfl h'.unq_ok
  · exact h

theorem Trav.runEval_frame (c : TravCfg) (s : Trav) :
    (s.runEval c).closest = s.closest := by
  unfold Trav.runEval
  split
  · split
    · rfl
    · have h' := Trav.startLoop_frame c (s.unq.length + 1) s
      simp only
      split <;> exact h'
  · rfl

/-! ### one step, whole histories -/

theorem Trav.step_inv {c : TravCfg} {s s' : Trav} (e : TravEv) (h : Trav.Inv c s)
    (hs : s.step c e = some s') : Trav.Inv c s' := by
  cases e with
  | addNodes ns =>
    simp only [Trav.step, Option.some.injEq] at hs
    subst hs; exact Trav.addNodes_inv ns h
  | runEval =>
    simp only [Trav.step] at hs
    split at hs
    · simp only [Option.some.injEq] at hs
      subst hs; exact Trav.runEval_inv h
    · cases hs
  | captureGen =>
    simp only [Trav.step, Trav.captureGen] at hs
    split at hs
    · simp only [Option.some.injEq] at hs
      subst hs; exact h.congr rfl rfl rfl rfl h.unq_ok
    · cases hs
  | runWake why =>
    simp only [Trav.step, Trav.runWake] at hs
    split at hs
    · split at hs <;> split at hs <;> first
        | (simp only [Option.some.injEq] at hs
           subst hs; exact h.congr rfl rfl rfl rfl h.unq_ok)
        | cases hs
    · cases hs
  | queryReturn a r =>
    simp only [Trav.step] at hs
    split at hs
    · simp only [Option.some.injEq] at hs
      subst hs
      exact h.congr rfl (setPhase_map_fst _ _ _) rfl rfl h.unq_ok
    · cases hs
  | addClosest a =>
    simp only [Trav.step] at hs
    split at hs
    · simp only [Option.some.injEq] at hs
      subst hs
      have hf : ∀ r, (s.addClosest c a r).outstanding = s.outstanding ∧
          (s.addClosest c a r).queried = s.queried ∧ (s.addClosest c a r).started = s.started ∧
          (s.addClosest c a r).unq = s.unq := by
        intro r
        unfold Trav.addClosest
        split
        · exact ⟨rfl, rfl, rfl, rfl⟩
        · split
          · exact ⟨rfl, rfl, rfl, rfl⟩
          · split <;> exact ⟨rfl, rfl, rfl, rfl⟩
      rename_i r _
      obtain ⟨h1, h2, h3, h4⟩ := hf r
      exact h.congr h1 (setPhase_map_fst _ _ _) h2 h3 (by
        show ∀ n ∈ (s.addClosest c a r).unq, _
        rw [h4]; exact h.unq_ok)
    · cases hs
  | addReplyNodes a =>
    simp only [Trav.step] at hs
    split at hs
    · simp only [Option.some.injEq] at hs
      subst hs
      rename_i r _
      have h' := Trav.addNodes_inv r.nodes h
      have hfr := Trav.addNodes_frame c r.nodes s
      refine h'.congr rfl ?_ rfl rfl h'.unq_ok
      show (setPhase s.inflight a _).map Prod.fst = _
      rw [setPhase_map_fst, hfr.2]
    · cases hs
  | addReplyNodes6 a =>
    simp only [Trav.step] at hs
    split at hs
    · simp only [Option.some.injEq] at hs
      subst hs
      rename_i r _
      have h' := Trav.addNodes_inv r.nodes6 h
      have hfr := Trav.addNodes_frame c r.nodes6 s
      refine h'.congr rfl ?_ rfl rfl h'.unq_ok
      show (setPhase s.inflight a _).map Prod.fst = _
      rw [setPhase_map_fst, hfr.2]
    · cases hs
  | finish a =>
    simp only [Trav.step] at hs
    split at hs
    · rename_i hph
      simp only [Option.some.injEq] at hs
      subst hs
      have hm := phaseOf_some_mem hph
      have hnd : (s.inflight.map Prod.fst).Nodup := List.Pairwise.of_map Addr.strKey (fun a b hab heq => hab (congrArg _ heq)) h.infl_nodup
      have hlen := filter_ne_length s.inflight a hnd hm
      have hsub : ((s.inflight.filter (fun e => !(e.1 == a))).map Prod.fst).Sublist
          (s.inflight.map Prod.fst) := List.filter_sublist.map _
      constructor
      · show s.outstanding - 1 ≤ c.alpha
        have := h.out_le; omega
      · show (s.inflight.filter (fun e => !(e.1 == a))).length = s.outstanding - 1
        have := h.len; omega
      · exact h.q_eq
      · exact h.q_nodup
      · exact h.infl_nodup.sublist (hsub.map _)
      · intro x hx
        exact h.infl_q x (hsub.subset hx)
      · exact h.unq_ok
      · exact h.started_ok
    · cases hs
  | stop =>
    simp only [Trav.step] at hs
    split at hs <;>
      (simp only [Option.some.injEq] at hs
       subst hs; exact h.congr rfl rfl rfl rfl h.unq_ok)
  | stopperStep =>
    simp only [Trav.step] at hs
    split at hs
    · split at hs <;>
        (simp only [Option.some.injEq] at hs
         subst hs; exact h.congr rfl rfl rfl rfl h.unq_ok)
    · split at hs
      · simp only [Option.some.injEq] at hs
        subst hs; exact h.congr rfl rfl rfl rfl h.unq_ok
      · cases hs
    · cases hs

theorem Trav.exec_cons (c : TravCfg) (s : Trav) (e : TravEv) (es : List TravEv) (s' : Trav) :
    Trav.exec c s (e :: es) = some s' ↔ ∃ s1, s.step c e = some s1 ∧ Trav.exec c s1 es = some s' := by
  simp only [Trav.exec]
  cases h : s.step c e with
  | none => simp
  | some s1 => simp

theorem Trav.exec_inv {c : TravCfg} (evs : List TravEv) {s s' : Trav} (h : Trav.Inv c s)
    (hs : Trav.exec c s evs = some s') : Trav.Inv c s' := by
  induction evs generalizing s with
  | nil =>
    simp only [Trav.exec, Option.some.injEq] at hs
    subst hs; exact h
  | cons e es ih =>
    obtain ⟨s1, h1, h2⟩ := (Trav.exec_cons c s e es s').mp hs
    exact ih (Trav.step_inv e h h1) h2

/-! ### the fuel of `startLoop` suffices: when `runEval` is done the Go loop condition is false -/

theorem SSet.delete_head (t : Id) (a : Cand) (rest : List Cand) :
    SSet.delete t (a :: rest) a = rest := by
  simp [SSet.delete, candCompare, closerThan_irrefl]

theorem Trav.startQuery_unq_length (c : TravCfg) (s : Trav) (h : s.haveQuery c = true) :
    (s.startQuery c).unq.length + 1 = s.unq.length := by
  unfold Trav.haveQuery at h
  unfold Trav.startQuery
  split
  · rename_i hu
    simp [hu] at h
  · rename_i a rest hu
    simp only [SSet.delete_head]
    split <;> simp [hu]

theorem Trav.startLoop_done (c : TravCfg) (fuel : Nat) (s : Trav) (hf : s.unq.length < fuel) :
    (decide ((Trav.startLoop c fuel s).outstanding < c.alpha) &&
      (Trav.startLoop c fuel s).haveQuery c) = false := by
  induction fuel generalizing s with
  | zero => omega
  | succ fuel ih =>
    unfold Trav.startLoop
    split
    · rename_i hc
      simp only [Bool.and_eq_true, decide_eq_true_eq] at hc
      have := Trav.startQuery_unq_length c s hc.2
      exact ih _ (by omega)
    · rename_i hc
      simpa using hc

/-! ### a concrete lookup, used by the non-vacuity examples of Props/C04 and Props/C02

Target 0^160, K = 2, Alpha = 2, a node filter that rejects port 1. Four seeds
(one of them filtered); the first reply lists address 10.0.0.4 under two IDs,
an address that is already being queried, and a filtered node. -/

namespace TravEx

def nid (b : UInt8) : Id := List.replicate 19 0 ++ [b]
def addr (b : UInt8) (port : Nat := 6881) : Addr := ⟨1, [10, 0, 0, b], port⟩

def cfg : TravCfg :=
  { target := List.replicate 20 0, k := 2, alpha := 2, nodeFilter := fun n => n.addr.port != 1 }

def r1 : QResult :=
  { responder := some (nid 3)
    data := some [1]
    nodes := [⟨some (nid 1), addr 4⟩, ⟨some (nid 4), addr 4⟩, ⟨some (nid 6), addr 2⟩,
              ⟨some (nid 0), addr 8 1⟩] }

def evs : List TravEv := [
  .addNodes [⟨some (nid 3), addr 1⟩, ⟨some (nid 5), addr 2⟩, ⟨some (nid 7), addr 3⟩,
             ⟨some (nid 2), addr 9 1⟩],
  .runEval,
  .queryReturn (addr 1) r1,
  .addClosest (addr 1), .addReplyNodes (addr 1), .addReplyNodes6 (addr 1), .finish (addr 1),
  .runWake .broadcast, .runEval,
  .queryReturn (addr 2) { responder := some (nid 5) },
  .addClosest (addr 2), .addReplyNodes (addr 2), .addReplyNodes6 (addr 2), .finish (addr 2),
  .runWake .broadcast, .runEval,
  .queryReturn (addr 4) { responder := some (nid 1), data := some [2] },
  .addClosest (addr 4), .addReplyNodes (addr 4), .addReplyNodes6 (addr 4), .finish (addr 4),
  .runWake .broadcast, .runEval ]

end TravEx

end Dht
