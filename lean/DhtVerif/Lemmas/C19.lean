/- Helper lemmas for C19. -/
import DhtVerif.Model.Server
import DhtVerif.Lemmas.C08
namespace Dht

/-- What passes the write gate is unchanged, the server is open and the destination is not blocked. -/
theorem writeGate_eq_some {c : SrvCfg} {s : Srv} {o o' : Out} (h : writeGate c s o = some o') :
    o' = o ∧ s.closed = false ∧ c.blocked o.dst.ip = false := by
  unfold writeGate at h
  split at h
  · cases h
  · split at h
    · cases h
    · rename_i h1 h2
      exact ⟨(Option.some.inj h).symm, by simpa using h1, by simpa using h2⟩

/-- A passive node's `handleQuery` sends nothing. -/
theorem handleQuery_passive {c : SrvCfg} {mk : TokenFn} {s s' : Srv} {src : NAddr} {m : QMsg} {env : Env}
    {outs : List Out} {effs : List Effect} (hp : c.passive = true)
    (h : handleQuery c mk s src m env = some (s', outs, effs)) : outs = [] ∧ effs = [] := by
  obtain ⟨tbl', h | h⟩ := handleQuery_eq_some h
  · exact ⟨h.2.2.1, h.2.2.2⟩
  · rw [hp] at h; exact absurd h.1.2 (by decide)

theorem processMsg_passive {c : SrvCfg} {mk : TokenFn} {s s' : Srv} {src : NAddr} {m : QMsg} {env : Env}
    {outs : List Out} {effs : List Effect} (hp : c.passive = true)
    (h : processMsg c mk s src m env = some (s', outs, effs)) : outs = [] := by
  by_cases hcl : s.closed = true
  · rw [processMsg_closed hcl] at h
    simp only [Option.some.injEq, Prod.mk.injEq] at h
    exact h.2.1.symm
  · by_cases hy : m.y = str "q"
    · rw [processMsg_query (by simpa using hcl) hy] at h
      exact (handleQuery_passive hp h).1
    · exact processMsg_non_query hy h

end Dht
