/-
Lemmas for C15: the typed layer (`toBV` / `fromBV`) round-trips, what the decoder returns is
well-formed and canonical, `canon` is idempotent.
-/
import DhtVerif.Model.Krpc
import DhtVerif.Lemmas.C15Compact
namespace Dht
namespace Krpc
open Benc


/-! ## Bytes and ports -/

theorem toUInt8_toNat (n : Nat) : (n.toUInt8).toNat = n % 256 := by
  simp [Nat.toUInt8]

theorem be16_length (p : Nat) : (be16 p).length = 2 := rfl

theorem be16dec_be16 (p : Nat) (h : p < 65536) : be16dec (be16 p) = p := by
  simp only [be16, be16dec, toUInt8_toNat]
  omega

theorem be16dec_lt (b : List UInt8) : be16dec b < 65536 := by
  unfold be16dec
  split
  · rename_i x y
    have := x.toNat_lt
    have := y.toNat_lt
    omega
  · omega

theorem NodeAddr.ofBytes_append (ip : List UInt8) (p : Nat) (h : p < 65536) :
    NodeAddr.ofBytes (ip ++ be16 p) = ⟨ip, p⟩ := by
  unfold NodeAddr.ofBytes
  have hl : (ip ++ be16 p).length - 2 = ip.length := by simp [be16_length]
  rw [hl, List.take_left' rfl, List.drop_left' rfl, be16dec_be16 p h]

theorem NodeAddr.ofBytes_marshal (a : NodeAddr) (h : portOk a.port = true) :
    NodeAddr.ofBytes a.marshalBinary = a := by
  cases a with
  | mk ip port =>
    simp only [portOk, decide_eq_true_eq] at h
    exact NodeAddr.ofBytes_append ip port h

theorem marshalBinary_length (a : NodeAddr) : a.marshalBinary.length = a.ip.length + 2 := by
  simp [NodeAddr.marshalBinary, be16_length]

theorem allZero_eq_zeros (a : List UInt8) (h : allZero a = true) : a = zeros a.length := by
  induction a with
  | nil => rfl
  | cons x t ih =>
    simp only [allZero, List.all_cons, Bool.and_eq_true, beq_iff_eq] at h
    have := ih (by simpa [allZero] using h.2)
    simp only [zeros, List.length_cons, List.replicate_succ] at this ⊢
    rw [← this, h.1]

theorem copyInto_self (a : List UInt8) (n : Nat) (h : a.length = n) : copyInto n a = a := by
  unfold copyInto
  rw [← h]
  simp [zeros]

theorem copyInto_length (a : List UInt8) (n : Nat) : (copyInto n a).length = n := by
  unfold copyInto
  simp [zeros, List.length_take]
  omega

/-! ## Getters invert the entry constructors -/

theorem getStr_eStr (s : List UInt8) : getStr (eStr s) = .ok s := by
  unfold eStr
  split
  · rename_i h; rw [h]; rfl
  · rfl

theorem getStr_eReq (s : List UInt8) : getStr (eReq s) = .ok s := rfl

theorem getOptStr_eOptStr (o : Option (List UInt8)) : getOptStr (eOptStr o) = .ok o := by
  cases o <;> rfl

theorem getId_eReq (s : List UInt8) (h : s.length = 20) : getId (eReq s) = .ok s := by
  simp only [eReq, getId, h, Nat.lt_irrefl, if_false]
  rw [← h, List.take_length]

theorem getId_eArr (s : List UInt8) (h : s.length = 20) : getId (eArr s) = .ok s := by
  unfold eArr
  split
  · rename_i hz
    have := allZero_eq_zeros s hz
    rw [h] at this
    simp only [getId]
    rw [← this]
  · exact getId_eReq s h

theorem getArr_eArr (n : Nat) (s : List UInt8) (h : s.length = n) : getArr n (eArr s) = .ok s := by
  unfold eArr
  split
  · rename_i hz
    have := allZero_eq_zeros s hz
    rw [h] at this
    simp only [getArr]
    rw [← this]
  · simp only [getArr, copyInto_self s n h]

theorem getOptArr_eOptStr (n : Nat) (o : Option (List UInt8))
    (h : (o.map (·.length == n)).getD true = true) : getOptArr n (eOptStr o) = .ok o := by
  cases o with
  | none => rfl
  | some s =>
    simp only [Option.map_some, Option.getD_some, beq_iff_eq] at h
    simp only [eOptStr, Option.map_some, getOptArr, copyInto_self s n h]

theorem getInt_eInt (i : Int) (h : inI64 i = true) : getInt (eInt i) = .ok i := by
  unfold eInt
  split
  · rename_i h0; rw [h0]; rfl
  · simp only [getInt, h, if_true]

theorem getOptInt_eOptInt (o : Option Int) (h : (o.map inI64).getD true = true) :
    getOptInt (eOptInt o) = .ok o := by
  cases o with
  | none => rfl
  | some i =>
    simp only [Option.map_some, Option.getD_some] at h
    simp only [eOptInt, Option.map_some, getOptInt, h, if_true]

theorem getBool_eBool (b : Bool) : getBool (eBool b) = .ok b := by
  cases b <;> rfl

theorem allBytes_map (l : List (List UInt8)) : allBytes (l.map BV.bytes) = some l := by
  induction l with
  | nil => rfl
  | cons x t ih => simp [allBytes, ih]

theorem getWant_eWant (o : Option (List (List UInt8))) : getWant (eWant o) = .ok o := by
  cases o with
  | none => rfl
  | some l => simp only [eWant, Option.map_some, getWant, allBytes_map]

theorem getValues_eValues (o : Option (List NodeAddr))
    (h : (o.map (·.all (fun a => portOk a.port))).getD true = true) :
    getValues (eValues o) = .ok o := by
  cases o with
  | none => rfl
  | some l =>
    simp only [Option.map_some, Option.getD_some, List.all_eq_true] at h
    have h1 : allBytes (l.map (fun a => BV.bytes a.marshalBinary)) = some (l.map NodeAddr.marshalBinary) := by
      have := allBytes_map (l.map NodeAddr.marshalBinary)
      rw [List.map_map] at this
      exact this
    have h2 : (l.map NodeAddr.marshalBinary).all (fun s => decide (2 ≤ s.length)) = true := by
      simp only [List.all_map, List.all_eq_true, Function.comp, decide_eq_true_eq]
      intro a _
      rw [marshalBinary_length]; omega
    have h3 : (l.map NodeAddr.marshalBinary).map NodeAddr.ofBytes = l := by
      rw [List.map_map]
      conv => rhs; rw [← List.map_id l]
      apply List.map_congr_left
      intro a ha
      exact NodeAddr.ofBytes_marshal a (h a ha)
    simp only [eValues, Option.map_some, getValues, h1, h2, if_true, h3]

theorem getAddr_eAddr (o : Option NodeAddr) (h : (o.map (fun a => portOk a.port)).getD true = true) :
    getAddr (eAddr o) = .ok o := by
  cases o with
  | none => rfl
  | some a =>
    simp only [Option.map_some, Option.getD_some] at h
    have hl : ¬ a.marshalBinary.length < 2 := by rw [marshalBinary_length]; omega
    simp only [eAddr, Option.map_some, getAddr, hl, if_false, NodeAddr.ofBytes_marshal a h]

theorem getErr_eErr (o : Option KError) (h : (o.map (fun e => inI64 e.code)).getD true = true) :
    getErr (eErr o) = .ok o := by
  cases o with
  | none => rfl
  | some e =>
    simp only [Option.map_some, Option.getD_some] at h
    simp only [eErr, Option.map_some, getErr, h, if_true]

theorem getSamples_eSamples (o : Option (List (List UInt8)))
    (h : (o.map (·.all (·.length == 20))).getD true = true) :
    getSamples Gen.sizeInfohash (eSamples o) = .ok o := by
  cases o with
  | none => rfl
  | some l =>
    simp only [Option.map_some, Option.getD_some, List.all_eq_true, beq_iff_eq] at h
    have := decCompact_flatten Gen.sizeInfohash (by decide) l (by intro c hc; rw [h c hc]; rfl)
    simp only [eSamples, Option.map_some, getSamples, this]




theorem ipTo4_length {ip x : List UInt8} (h : ipTo4 ip = some x) : x.length = 4 := by
  unfold ipTo4 at h
  split at h
  · cases h; assumption
  · split at h
    · rename_i h16
      cases h
      simp [List.length_drop, h16.1]
    · cases h

theorem ipTo16_length {ip x : List UInt8} (h : ipTo16 ip = some x) : x.length = 16 := by
  unfold ipTo16 at h
  split at h
  · rename_i h4
    cases h
    simp [v4InV6Prefix, h4]
  · split at h
    · cases h; assumption
    · cases h

theorem ipTo4_of_length4 {x : List UInt8} (h : x.length = 4) : ipTo4 x = some x := by
  simp [ipTo4, h]

theorem ipTo16_of_length16 {x : List UInt8} (h : x.length = 16) : ipTo16 x = some x := by
  simp [ipTo16, h]

/-- One compact node entry of the given address width decodes to its parts. -/
theorem NodeInfo.ofBytes_entry (id x : List UInt8) (p : Nat) (hid : id.length = 20) (hp : p < 65536) :
    NodeInfo.ofBytes (id ++ (x ++ be16 p)) = ⟨id, ⟨x, p⟩⟩ := by
  unfold NodeInfo.ofBytes
  rw [List.take_left' hid, List.drop_left' hid, NodeAddr.ofBytes_append x p hp]

theorem getNodes_entries (size : Nat) (hs : 0 < size) (f : NodeInfo → List UInt8) (g : NodeInfo → NodeInfo)
    (l : List NodeInfo) (h : ∀ n ∈ l, (f n).length = size ∧ NodeInfo.ofBytes (f n) = g n) :
    getNodes size (some (.bytes (encCompact (l.map f)))) = .ok (canonNodes g (some l)) := by
  have hd := decCompact_flatten size hs (l.map f) (by
    intro c hc
    simp only [List.mem_map] at hc
    obtain ⟨n, hn, rfl⟩ := hc
    exact (h n hn).1)
  simp only [getNodes, hd]
  cases l with
  | nil => rfl
  | cons n t =>
    simp only [List.map_cons, canonNodes]
    congr 2
    rw [(h n (by simp)).2]
    congr 1
    rw [List.map_map]
    apply List.map_congr_left
    intro a ha
    exact (h a (by simp [ha])).2

theorem getNodes_eNodes4 (o : Option (List NodeInfo)) (h : (o.map (·.all nodeOk4)).getD true = true) :
    getNodes Gen.sizeNodeInfo4 (eNodes4 o) = .ok (canonNodes canonNode4 o) := by
  cases o with
  | none => rfl
  | some l =>
    simp only [Option.map_some, Option.getD_some, List.all_eq_true] at h
    simp only [eNodes4, Option.map_some, encNodes4]
    apply getNodes_entries Gen.sizeNodeInfo4 (by decide)
    intro n hn
    have hok := h n hn
    simp only [nodeOk4, Bool.and_eq_true, beq_iff_eq, portOk, decide_eq_true_eq, Option.isSome_iff_exists] at hok
    obtain ⟨⟨hid, x, hx⟩, hp⟩ := hok
    have hxl := ipTo4_length hx
    refine ⟨?_, ?_⟩
    · simp [hx, hid, hxl, be16_length, Gen.sizeNodeInfo4]
    · simp only [hx, Option.getD_some, canonNode4]
      exact NodeInfo.ofBytes_entry n.id x n.addr.port hid hp

theorem getNodes_eNodes6 (o : Option (List NodeInfo)) (h : (o.map (·.all nodeOk6)).getD true = true) :
    getNodes Gen.sizeNodeInfo6 (eNodes6 o) = .ok (canonNodes canonNode6 o) := by
  cases o with
  | none => rfl
  | some l =>
    simp only [Option.map_some, Option.getD_some, List.all_eq_true] at h
    simp only [eNodes6, Option.map_some, encNodes6]
    apply getNodes_entries Gen.sizeNodeInfo6 (by decide)
    intro n hn
    have hok := h n hn
    simp only [nodeOk6, Bool.and_eq_true, beq_iff_eq, portOk, decide_eq_true_eq, Option.isSome_iff_exists] at hok
    obtain ⟨⟨hid, x, hx⟩, hp⟩ := hok
    have hxl := ipTo16_length hx
    refine ⟨?_, ?_⟩
    · simp [hx, hid, hxl, be16_length, Gen.sizeNodeInfo6]
    · simp only [hx, Option.getD_some, canonNode6]
      exact NodeInfo.ofBytes_entry n.id x n.addr.port hid hp



/-! ## Lookup in the emitted entries -/

theorem get_present_none (k : List UInt8) (es : List (List UInt8 × Option BV))
    (h : k ∉ es.map Prod.fst) : get k (present es) = none := by
  induction es with
  | nil => rfl
  | cons e r ih =>
    obtain ⟨k', o⟩ := e
    simp only [List.map_cons, List.mem_cons, not_or] at h
    cases o with
    | none => exact ih h.2
    | some v =>
      simp only [present, get]
      rw [if_neg (fun hk => h.1 hk.symm)]
      exact ih h.2

/-- With distinct keys, looking a key up in the emitted fields gives exactly what the entry
for that key holds (`none` when the field was omitted). -/
theorem get_present (k : List UInt8) (o : Option BV) (es : List (List UInt8 × Option BV))
    (hnd : (es.map Prod.fst).Nodup) (hm : (k, o) ∈ es) : get k (present es) = o := by
  induction es with
  | nil => cases hm
  | cons e r ih =>
    obtain ⟨k', o'⟩ := e
    simp only [List.map_cons, List.nodup_cons] at hnd
    simp only [List.mem_cons, Prod.mk.injEq] at hm
    cases hm with
    | inl heq =>
      obtain ⟨rfl, rfl⟩ := heq
      cases o with
      | none => exact get_present_none k r hnd.1
      | some v => simp [present, get]
    | inr hr =>
      have hk : k ∈ r.map Prod.fst := List.mem_map.mpr ⟨(k, o), hr, rfl⟩
      have hne : ¬ k' = k := fun h => hnd.1 (h ▸ hk)
      cases o' with
      | none => exact ih hnd.2 hr
      | some v =>
        simp only [present, get]
        rw [if_neg hne]
        exact ih hnd.2 hr

theorem argsKeys_nodup (a : MsgArgs) : ((argsEntries a).map Prod.fst).Nodup := by
  simp only [argsEntries, List.map_cons, List.map_nil]
  decide

theorem returnKeys_nodup (r : Return) : ((returnEntries r).map Prod.fst).Nodup := by
  simp only [returnEntries, List.map_cons, List.map_nil]
  decide

theorem msgKeys_nodup (m : Msg) : ((msgEntries m).map Prod.fst).Nodup := by
  simp only [msgEntries, List.map_cons, List.map_nil]
  decide

theorem ok_bind {α β : Type} (a : α) (f : α → DecodeResult β) :
    (DecodeResult.ok a >>= f) = f a := rfl

theorem ok_bind' {α β : Type} (a : α) (f : α → DecodeResult β) :
    (DecodeResult.ok a).bind f = f a := rfl


/-! ## Round trip of the argument dictionary -/

theorem argsFromDict_entries (a : MsgArgs) (h : a.wf = true) :
    argsFromDict (present (argsEntries a)) = .ok a := by
  have hnd := argsKeys_nodup a
  have g := fun k o (hm : (k, o) ∈ argsEntries a) => get_present k o (argsEntries a) hnd hm
  have e1 := g kId (eReq a.id) (by simp [argsEntries])
  have e2 := g kInfoHash (eArr a.infoHash) (by simp [argsEntries])
  have e3 := g kTarget (eArr a.target) (by simp [argsEntries])
  have e4 := g kToken (eStr a.token) (by simp [argsEntries])
  have e5 := g kPort (eOptInt a.port) (by simp [argsEntries])
  have e6 := g kImpliedPort (eBool a.impliedPort) (by simp [argsEntries])
  have e7 := g kWant (eWant a.want) (by simp [argsEntries])
  have e8 := g kNoseed (eInt a.noSeed) (by simp [argsEntries])
  have e9 := g kScrape (eInt a.scrape) (by simp [argsEntries])
  have e10 := g kV a.v (by simp [argsEntries])
  have e11 := g kSeq (eOptInt a.seq) (by simp [argsEntries])
  have e12 := g kCas (eInt a.cas) (by simp [argsEntries])
  have e13 := g kK (eArr a.k) (by simp [argsEntries])
  have e14 := g kSalt (eOptStr a.salt) (by simp [argsEntries])
  have e15 := g kSig (eArr a.sig) (by simp [argsEntries])
  simp only [MsgArgs.wf, Bool.and_eq_true, beq_iff_eq] at h
  obtain ⟨⟨⟨⟨⟨⟨⟨⟨⟨⟨hid, hih⟩, htg⟩, hport⟩, hns⟩, hsc⟩, _⟩, hseq⟩, hcas⟩, hk⟩, hsig⟩ := h
  unfold argsFromDict
  simp only [e1, e2, e3, e4, e5, e6, e7, e8, e9, e10, e11, e12, e13, e14, e15,
    getId_eReq _ hid, getId_eArr _ hih, getId_eArr _ htg, getStr_eStr, getOptInt_eOptInt _ hport,
    getBool_eBool, getWant_eWant, getInt_eInt _ hns, getInt_eInt _ hsc, getOptInt_eOptInt _ hseq,
    getInt_eInt _ hcas, getArr_eArr 32 _ hk, getOptStr_eOptStr, getArr_eArr 64 _ hsig, ok_bind]
  rfl

theorem getArgs_roundtrip (o : Option MsgArgs) (h : (o.map MsgArgs.wf).getD true = true) :
    getArgs (o.map argsToBV) = .ok o := by
  cases o with
  | none => rfl
  | some a =>
    simp only [Option.map_some, Option.getD_some] at h
    simp only [Option.map_some, argsToBV, getArgs, argsFromDict_entries a h, ok_bind']

/-! ## Round trip of the return dictionary -/

theorem returnFromDict_entries (r : Return) (h : r.wf = true) :
    returnFromDict (present (returnEntries r)) = .ok r.canon := by
  have hnd := returnKeys_nodup r
  have g := fun k o (hm : (k, o) ∈ returnEntries r) => get_present k o (returnEntries r) hnd hm
  have e1 := g kId (eReq r.id) (by simp [returnEntries])
  have e2 := g kNodes (eNodes4 r.nodes) (by simp [returnEntries])
  have e3 := g kNodes6 (eNodes6 r.nodes6) (by simp [returnEntries])
  have e4 := g kToken (eOptStr r.token) (by simp [returnEntries])
  have e5 := g kValues (eValues r.values) (by simp [returnEntries])
  have e6 := g kBFsd (eOptStr r.bfsd) (by simp [returnEntries])
  have e7 := g kBFpe (eOptStr r.bfpe) (by simp [returnEntries])
  have e8 := g kInterval (eOptInt r.interval) (by simp [returnEntries])
  have e9 := g kNum (eOptInt r.num) (by simp [returnEntries])
  have e10 := g kSamples (eSamples r.samples) (by simp [returnEntries])
  have e11 := g kV r.v (by simp [returnEntries])
  have e12 := g kK (eArr r.k) (by simp [returnEntries])
  have e13 := g kSig (eArr r.sig) (by simp [returnEntries])
  have e14 := g kSeq (eOptInt r.seq) (by simp [returnEntries])
  simp only [Return.wf, Bool.and_eq_true, beq_iff_eq] at h
  obtain ⟨⟨⟨⟨⟨⟨⟨⟨⟨⟨⟨⟨hid, hn4⟩, hn6⟩, hvals⟩, hsd⟩, hpe⟩, hint⟩, hnum⟩, hsam⟩, _⟩, hk⟩, hsig⟩, hseq⟩ := h
  unfold returnFromDict
  simp only [e1, e2, e3, e4, e5, e6, e7, e8, e9, e10, e11, e12, e13, e14,
    getId_eReq _ hid, getNodes_eNodes4 _ hn4, getNodes_eNodes6 _ hn6, getOptStr_eOptStr,
    getValues_eValues _ hvals, getOptArr_eOptStr 256 _ hsd, getOptArr_eOptStr 256 _ hpe,
    getOptInt_eOptInt _ hint, getOptInt_eOptInt _ hnum, getSamples_eSamples _ hsam,
    getArr_eArr 32 _ hk, getArr_eArr 64 _ hsig, getOptInt_eOptInt _ hseq, ok_bind]
  rfl

theorem getReturn_roundtrip (o : Option Return) (h : (o.map Return.wf).getD true = true) :
    getReturn (o.map returnToBV) = .ok (o.map Return.canon) := by
  cases o with
  | none => rfl
  | some r =>
    simp only [Option.map_some, Option.getD_some] at h
    simp only [Option.map_some, returnToBV, getReturn, returnFromDict_entries r h, ok_bind']

/-! ## Round trip of the message dictionary -/

theorem msgFromDict_entries (m : Msg) (h : m.wf = true) :
    msgFromDict (present (msgEntries m)) = .ok m.canon := by
  have hnd := msgKeys_nodup m
  have g := fun k o (hm : (k, o) ∈ msgEntries m) => get_present k o (msgEntries m) hnd hm
  have e1 := g kQ (eStr m.q) (by simp [msgEntries])
  have e2 := g kA (m.a.map argsToBV) (by simp [msgEntries])
  have e3 := g kT (eReq m.t) (by simp [msgEntries])
  have e4 := g kY (eReq m.y) (by simp [msgEntries])
  have e5 := g kR (m.r.map returnToBV) (by simp [msgEntries])
  have e6 := g kE (eErr m.e) (by simp [msgEntries])
  have e7 := g kIp (eAddr m.ip) (by simp [msgEntries])
  have e8 := g kRo (eBool m.readOnly) (by simp [msgEntries])
  have e9 := g kV (eStr m.clientId) (by simp [msgEntries])
  simp only [Msg.wf, Bool.and_eq_true] at h
  obtain ⟨⟨⟨ha, hr⟩, he⟩, hip⟩ := h
  unfold msgFromDict
  simp only [e1, e2, e3, e4, e5, e6, e7, e8, e9, getStr_eStr, getArgs_roundtrip _ ha, getStr_eReq,
    getReturn_roundtrip _ hr, getErr_eErr _ he, getAddr_eAddr _ hip, getBool_eBool, ok_bind]
  rfl

/-! ## The encoder emits well-formed (sorted, duplicate-free) dictionaries -/

theorem mem_keys_present (k : List UInt8) (es : List (List UInt8 × Option BV))
    (h : k ∈ (present es).map Prod.fst) : k ∈ es.map Prod.fst := by
  induction es with
  | nil => simp [present] at h
  | cons e r ih =>
    obtain ⟨k', o⟩ := e
    cases o with
    | none => simp only [present] at h; simp [ih h]
    | some v =>
      simp only [present, List.map_cons, List.mem_cons] at h ⊢
      cases h with
      | inl h => exact Or.inl h
      | inr h => exact Or.inr (ih h)

theorem keysSorted_present (es : List (List UInt8 × Option BV))
    (h : keysSorted (es.map Prod.fst) = true) : keysSorted ((present es).map Prod.fst) = true := by
  induction es with
  | nil => rfl
  | cons e r ih =>
    obtain ⟨k, o⟩ := e
    simp only [List.map_cons, keysSorted, Bool.and_eq_true, List.all_eq_true] at h
    cases o with
    | none => exact ih h.2
    | some v =>
      simp only [present, List.map_cons, keysSorted, Bool.and_eq_true, List.all_eq_true]
      exact ⟨fun x hx => h.1 x (mem_keys_present x r hx), ih h.2⟩

/-- An entry that is either omitted or a well-formed value. -/
def optWf (o : Option BV) : Bool := (o.map Benc.wf).getD true

theorem wfVals_present (es : List (List UInt8 × Option BV))
    (h : ∀ e ∈ es, optWf e.2 = true) : wfVals (present es) = true := by
  induction es with
  | nil => rfl
  | cons e r ih =>
    obtain ⟨k, o⟩ := e
    have hr := ih (fun e' he' => h e' (by simp [he']))
    cases o with
    | none => exact hr
    | some v =>
      have hv : Benc.wf v = true := by simpa [optWf] using h (k, some v) (by simp)
      simp only [present, wfVals, hv, hr, Bool.and_self]

theorem wfList_map_bytes (l : List (List UInt8)) : wfList (l.map BV.bytes) = true := by
  induction l with
  | nil => rfl
  | cons x t ih => simp [wfList, Benc.wf, ih]

theorem optWf_eStr (s : List UInt8) : optWf (eStr s) = true := by
  unfold eStr; split <;> rfl
theorem optWf_eReq (s : List UInt8) : optWf (eReq s) = true := rfl
theorem optWf_eOptStr (o : Option (List UInt8)) : optWf (eOptStr o) = true := by cases o <;> rfl
theorem optWf_eInt (i : Int) : optWf (eInt i) = true := by unfold eInt; split <;> rfl
theorem optWf_eOptInt (o : Option Int) : optWf (eOptInt o) = true := by cases o <;> rfl
theorem optWf_eBool (b : Bool) : optWf (eBool b) = true := by cases b <;> rfl
theorem optWf_eArr (a : List UInt8) : optWf (eArr a) = true := by unfold eArr; split <;> rfl
theorem optWf_eNodes4 (o : Option (List NodeInfo)) : optWf (eNodes4 o) = true := by cases o <;> rfl
theorem optWf_eNodes6 (o : Option (List NodeInfo)) : optWf (eNodes6 o) = true := by cases o <;> rfl
theorem optWf_eSamples (o : Option (List (List UInt8))) : optWf (eSamples o) = true := by cases o <;> rfl
theorem optWf_eAddr (o : Option NodeAddr) : optWf (eAddr o) = true := by cases o <;> rfl
theorem optWf_eErr (o : Option KError) : optWf (eErr o) = true := by cases o <;> rfl
theorem optWf_eWant (o : Option (List (List UInt8))) : optWf (eWant o) = true := by
  cases o with
  | none => rfl
  | some l => simp [optWf, eWant, Benc.wf, wfList_map_bytes]
theorem optWf_eValues (o : Option (List NodeAddr)) : optWf (eValues o) = true := by
  cases o with
  | none => rfl
  | some l =>
    have := wfList_map_bytes (l.map NodeAddr.marshalBinary)
    rw [List.map_map] at this
    simp only [optWf, eValues, Option.map_some, Option.getD_some, Benc.wf]
    exact this

theorem argsToBV_wf (a : MsgArgs) (h : a.wf = true) : Benc.wf (argsToBV a) = true := by
  simp only [MsgArgs.wf, Bool.and_eq_true, beq_iff_eq] at h
  have hv : optWf a.v = true := h.1.1.1.1.2
  simp only [argsToBV, Benc.wf, Bool.and_eq_true]
  refine ⟨keysSorted_present _ ?_, wfVals_present _ ?_⟩
  · simp only [argsEntries, List.map_cons, List.map_nil]; decide
  · intro e he
    simp only [argsEntries, List.mem_cons, List.not_mem_nil, or_false] at he
    rcases he with rfl | rfl | rfl | rfl | rfl | rfl | rfl | rfl | rfl | rfl | rfl | rfl | rfl | rfl | rfl <;>
      simp only [optWf_eStr, optWf_eReq, optWf_eOptStr, optWf_eInt, optWf_eOptInt, optWf_eBool, optWf_eArr,
        optWf_eWant, hv]

theorem returnToBV_wf (r : Return) (h : r.wf = true) : Benc.wf (returnToBV r) = true := by
  simp only [Return.wf, Bool.and_eq_true, beq_iff_eq] at h
  have hv : optWf r.v = true := h.1.1.1.2
  simp only [returnToBV, Benc.wf, Bool.and_eq_true]
  refine ⟨keysSorted_present _ ?_, wfVals_present _ ?_⟩
  · simp only [returnEntries, List.map_cons, List.map_nil]; decide
  · intro e he
    simp only [returnEntries, List.mem_cons, List.not_mem_nil, or_false] at he
    rcases he with rfl | rfl | rfl | rfl | rfl | rfl | rfl | rfl | rfl | rfl | rfl | rfl | rfl | rfl <;>
      simp only [optWf_eReq, optWf_eOptStr, optWf_eOptInt, optWf_eArr,
        optWf_eNodes4, optWf_eNodes6, optWf_eSamples, optWf_eValues, hv]

theorem toBV_wf (m : Msg) (h : m.wf = true) : Benc.wf (toBV m) = true := by
  simp only [Msg.wf, Bool.and_eq_true] at h
  obtain ⟨⟨⟨ha, hr⟩, _⟩, _⟩ := h
  have hA : optWf (m.a.map argsToBV) = true := by
    cases hm : m.a with
    | none => rfl
    | some a =>
      rw [hm] at ha
      simpa [optWf] using argsToBV_wf a (by simpa using ha)
  have hR : optWf (m.r.map returnToBV) = true := by
    cases hm : m.r with
    | none => rfl
    | some r =>
      rw [hm] at hr
      simpa [optWf] using returnToBV_wf r (by simpa using hr)
  simp only [toBV, Benc.wf, Bool.and_eq_true]
  refine ⟨keysSorted_present _ ?_, wfVals_present _ ?_⟩
  · simp only [msgEntries, List.map_cons, List.map_nil]; decide
  · intro e he
    simp only [msgEntries, List.mem_cons, List.not_mem_nil, or_false] at he
    rcases he with rfl | rfl | rfl | rfl | rfl | rfl | rfl | rfl | rfl <;>
      simp only [optWf_eStr, optWf_eReq, optWf_eBool, optWf_eAddr, optWf_eErr, hA, hR]

/-- Typed round trip on values. -/
theorem fromBV_toBV (m : Msg) (h : m.wf = true) : fromBV (toBV m) = .ok m.canon := by
  have hw := toBV_wf m h
  unfold fromBV
  rw [hw]
  simp only [if_true, toBV]
  exact msgFromDict_entries m h

/-! ## What the decoder returns is well-formed and already canonical -/

theorem bind_eq_ok {α β : Type} (x : DecodeResult α) (f : α → DecodeResult β) (b : β) :
    (x >>= f) = .ok b ↔ ∃ a, x = .ok a ∧ f a = .ok b := by
  cases x with
  | ok a => exact ⟨fun h => ⟨a, rfl, h⟩, fun ⟨a', ha, h⟩ => by cases ha; exact h⟩
  | err => exact ⟨fun h => (nomatch h), fun ⟨_, ha, _⟩ => (nomatch ha)⟩
  | unmodelled => exact ⟨fun h => (nomatch h), fun ⟨_, ha, _⟩ => (nomatch ha)⟩

theorem bind_eq_ok' {α β : Type} (x : DecodeResult α) (f : α → DecodeResult β) (b : β) :
    x.bind f = .ok b ↔ ∃ a, x = .ok a ∧ f a = .ok b := bind_eq_ok x f b

theorem pure_eq_ok {α : Type} (x a : α) : (pure x : DecodeResult α) = .ok a ↔ x = a :=
  ⟨fun h => by cases h; rfl, fun h => by rw [h]; rfl⟩

theorem get_wf (k : List UInt8) (d : List (List UInt8 × BV)) (v : BV) (hd : wfVals d = true)
    (h : get k d = some v) : Benc.wf v = true := by
  induction d with
  | nil => cases h
  | cons e r ih =>
    obtain ⟨k', v'⟩ := e
    simp only [wfVals, Bool.and_eq_true] at hd
    simp only [get] at h
    split at h
    · cases h; exact hd.1
    · exact ih hd.2 h

theorem get_optWf (k : List UInt8) (d : List (List UInt8 × BV)) (hd : wfVals d = true) :
    optWf (get k d) = true := by
  cases h : get k d with
  | none => rfl
  | some v => simpa [optWf] using get_wf k d v hd h

theorem zeros_length (n : Nat) : (zeros n).length = n := by simp [zeros]

theorem getId_ok (o : Option BV) (x : List UInt8) (h : getId o = .ok x) : x.length = 20 := by
  unfold getId at h
  split at h
  · cases h; exact zeros_length 20
  · split at h
    · cases h
    · cases h; rw [List.length_take]; omega
  · cases h
  · cases h

theorem getArr_ok (n : Nat) (o : Option BV) (x : List UInt8) (h : getArr n o = .ok x) : x.length = n := by
  unfold getArr at h
  split at h
  · cases h; exact zeros_length n
  · cases h; exact copyInto_length _ n
  · cases h
  · cases h

theorem getOptArr_ok (n : Nat) (o : Option BV) (x : Option (List UInt8)) (h : getOptArr n o = .ok x) :
    (x.map (·.length == n)).getD true = true := by
  unfold getOptArr at h
  split at h
  · cases h; rfl
  · cases h; simp [copyInto_length]
  · cases h
  · cases h

theorem getInt_ok (o : Option BV) (x : Int) (h : getInt o = .ok x) : inI64 x = true := by
  unfold getInt at h
  split at h
  · cases h; decide
  · split at h
    · cases h; assumption
    · cases h
  · cases h
  · cases h

theorem getOptInt_ok (o : Option BV) (x : Option Int) (h : getOptInt o = .ok x) :
    (x.map inI64).getD true = true := by
  unfold getOptInt at h
  split at h
  · cases h; rfl
  · split at h
    · cases h; simpa
    · cases h
  · cases h
  · cases h

theorem NodeAddr.ofBytes_portOk (b : List UInt8) : portOk (NodeAddr.ofBytes b).port = true := by
  simp [portOk, NodeAddr.ofBytes, be16dec_lt]

theorem getValues_ok (o : Option BV) (x : Option (List NodeAddr)) (h : getValues o = .ok x) :
    (x.map (·.all (fun a => portOk a.port))).getD true = true := by
  unfold getValues at h
  split at h
  · cases h; rfl
  · split at h
    · split at h
      · cases h
        simp [List.all_map, Function.comp_def, NodeAddr.ofBytes_portOk]
      · cases h
    · split at h <;> cases h
  · cases h
  · cases h
  · cases h

theorem getAddr_ok (o : Option BV) (x : Option NodeAddr) (h : getAddr o = .ok x) :
    (x.map (fun a => portOk a.port)).getD true = true := by
  unfold getAddr at h
  split at h
  · cases h; rfl
  · split at h
    · cases h
    · cases h; simp [NodeAddr.ofBytes_portOk]
  · cases h
  · cases h

theorem getErr_ok (o : Option BV) (x : Option KError) (h : getErr o = .ok x) :
    (x.map (fun e => inI64 e.code)).getD true = true := by
  unfold getErr at h
  split at h
  · cases h; rfl
  · cases h; rfl
  · split at h
    · cases h; simpa
    · cases h
  · cases h

theorem getSamples_ok (o : Option BV) (x : Option (List (List UInt8)))
    (h : getSamples Gen.sizeInfohash o = .ok x) : (x.map (·.all (·.length == 20))).getD true = true := by
  unfold getSamples at h
  split at h
  · cases h; rfl
  · split at h
    · rename_i cs hcs
      cases h
      have := (decCompact_sound _ _ cs hcs).2
      simp only [Option.map_some, Option.getD_some, List.all_eq_true, beq_iff_eq]
      intro c hc
      rw [this c hc]; rfl
    · cases h
  · cases h
  · cases h

/-- A compact node entry of `20 + w + 2` bytes decodes to an ID of 20 and an address of `w` bytes. -/
theorem NodeInfo.ofBytes_shape (c : List UInt8) (w : Nat) (h : c.length = 20 + w + 2) :
    (NodeInfo.ofBytes c).id.length = 20 ∧ (NodeInfo.ofBytes c).addr.ip.length = w ∧
      portOk (NodeInfo.ofBytes c).addr.port = true := by
  refine ⟨?_, ?_, NodeAddr.ofBytes_portOk _⟩
  · simp only [NodeInfo.ofBytes, List.length_take]; omega
  · simp only [NodeInfo.ofBytes, NodeAddr.ofBytes, List.length_take, List.length_drop]; omega

theorem canonNodes_fixed (f : NodeInfo → NodeInfo) (l : List NodeInfo) (hne : l ≠ [])
    (hf : ∀ n ∈ l, f n = n) : canonNodes f (some l) = some l := by
  cases l with
  | nil => exact absurd rfl hne
  | cons a t =>
    simp only [canonNodes]
    congr 1
    conv => rhs; rw [← List.map_id (a :: t)]
    exact List.map_congr_left (fun n hn => by simpa using hf n hn)

theorem getNodes_ok (size w : Nat) (hsize : size = 20 + w + 2) (ok : NodeInfo → Bool) (f : NodeInfo → NodeInfo)
    (hok : ∀ n : NodeInfo, n.id.length = 20 → n.addr.ip.length = w → portOk n.addr.port = true →
      ok n = true ∧ f n = n)
    (o : Option BV) (x : Option (List NodeInfo)) (h : getNodes size o = .ok x) :
    (x.map (·.all ok)).getD true = true ∧ canonNodes f x = x := by
  unfold getNodes at h
  split at h
  · cases h; exact ⟨rfl, rfl⟩
  · split at h
    · cases h; exact ⟨rfl, rfl⟩
    · rename_i cs hne hcs
      cases h
      have hlen := (decCompact_sound _ _ cs hcs).2
      have hall : ∀ n ∈ cs.map NodeInfo.ofBytes, ok n = true ∧ f n = n := by
        intro n hn
        simp only [List.mem_map] at hn
        obtain ⟨c, hc, rfl⟩ := hn
        obtain ⟨h1, h2, h3⟩ := NodeInfo.ofBytes_shape c w (by rw [hlen c hc, hsize])
        exact hok _ h1 h2 h3
      refine ⟨?_, ?_⟩
      · simp only [Option.map_some, Option.getD_some, List.all_eq_true]
        exact fun n hn => (hall n hn).1
      · apply canonNodes_fixed
        · intro hnil
          have : cs = [] := by simpa using hnil
          exact hne this
        · exact fun n hn => (hall n hn).2
    · cases h
  · cases h
  · cases h

theorem argsFromDict_ok (d : List (List UInt8 × BV)) (hd : wfVals d = true) (a : MsgArgs)
    (h : argsFromDict d = .ok a) : a.wf = true := by
  simp only [argsFromDict, bind_eq_ok, pure_eq_ok] at h
  obtain ⟨id, h1, ih, h2, tg, h3, tok, _, port, h5, imp, _, want, _, ns, h8, sc, h9, seq, h10, cas, h11,
    k, h12, salt, _, sig, h14, rfl⟩ := h
  have hv := get_optWf kV d hd
  simp only [optWf] at hv
  simp only [MsgArgs.wf, getId_ok _ _ h1, getId_ok _ _ h2, getId_ok _ _ h3, getOptInt_ok _ _ h5,
    getInt_ok _ _ h8, getInt_ok _ _ h9, getOptInt_ok _ _ h10, getInt_ok _ _ h11, getArr_ok _ _ _ h12,
    getArr_ok _ _ _ h14, hv, beq_self_eq_true, Bool.and_self]

theorem getArgs_ok (o : Option BV) (ho : optWf o = true) (x : Option MsgArgs) (h : getArgs o = .ok x) :
    (x.map MsgArgs.wf).getD true = true := by
  unfold getArgs at h
  split at h
  · cases h; rfl
  · rename_i d
    simp only [bind_eq_ok'] at h
    obtain ⟨a, ha, hx⟩ := h
    cases hx
    have hd : wfVals d = true := by
      simp only [optWf, Option.map_some, Option.getD_some, Benc.wf, Bool.and_eq_true] at ho
      exact ho.2
    simpa using argsFromDict_ok d hd a ha
  · cases h
  · cases h
  · cases h

theorem nodeOk4_of_shape (n : NodeInfo) (h1 : n.id.length = 20) (h2 : n.addr.ip.length = 4)
    (h3 : portOk n.addr.port = true) : nodeOk4 n = true ∧ canonNode4 n = n := by
  have := ipTo4_of_length4 h2
  refine ⟨by simp [nodeOk4, h1, this, h3], ?_⟩
  cases n with
  | mk id addr => cases addr with
    | mk ip port => simp only [canonNode4] at this ⊢; simp [this]

theorem nodeOk6_of_shape (n : NodeInfo) (h1 : n.id.length = 20) (h2 : n.addr.ip.length = 16)
    (h3 : portOk n.addr.port = true) : nodeOk6 n = true ∧ canonNode6 n = n := by
  have := ipTo16_of_length16 h2
  refine ⟨by simp [nodeOk6, h1, this, h3], ?_⟩
  cases n with
  | mk id addr => cases addr with
    | mk ip port => simp only [canonNode6] at this ⊢; simp [this]

theorem returnFromDict_ok (d : List (List UInt8 × BV)) (hd : wfVals d = true) (r : Return)
    (h : returnFromDict d = .ok r) : r.wf = true ∧ r.canon = r := by
  simp only [returnFromDict, bind_eq_ok, pure_eq_ok] at h
  obtain ⟨id, h1, n4, h2, n6, h3, tok, _, vals, h5, sd, h6, pe, h7, int, h8, num, h9, sam, h10,
    k, h11, sig, h12, seq, h13, rfl⟩ := h
  have hv := get_optWf kV d hd
  simp only [optWf] at hv
  have hn4 := getNodes_ok Gen.sizeNodeInfo4 4 (by decide) nodeOk4 canonNode4 nodeOk4_of_shape _ _ h2
  have hn6 := getNodes_ok Gen.sizeNodeInfo6 16 (by decide) nodeOk6 canonNode6 nodeOk6_of_shape _ _ h3
  refine ⟨?_, ?_⟩
  · simp only [Return.wf, getId_ok _ _ h1, hn4.1, hn6.1, getValues_ok _ _ h5, getOptArr_ok _ _ _ h6,
      getOptArr_ok _ _ _ h7, getOptInt_ok _ _ h8, getOptInt_ok _ _ h9, getSamples_ok _ _ h10,
      getArr_ok _ _ _ h11, getArr_ok _ _ _ h12, getOptInt_ok _ _ h13, hv, beq_self_eq_true, Bool.and_self]
  · simp only [Return.canon, hn4.2, hn6.2]

theorem getReturn_ok (o : Option BV) (ho : optWf o = true) (x : Option Return) (h : getReturn o = .ok x) :
    (x.map Return.wf).getD true = true ∧ x.map Return.canon = x := by
  unfold getReturn at h
  split at h
  · cases h; exact ⟨rfl, rfl⟩
  · rename_i d
    simp only [bind_eq_ok'] at h
    obtain ⟨r, hr, hx⟩ := h
    cases hx
    have hd : wfVals d = true := by
      simp only [optWf, Option.map_some, Option.getD_some, Benc.wf, Bool.and_eq_true] at ho
      exact ho.2
    have := returnFromDict_ok d hd r hr
    exact ⟨by simpa using this.1, by simp [this.2]⟩
  · cases h
  · cases h
  · cases h

theorem msgFromDict_ok (d : List (List UInt8 × BV)) (hd : wfVals d = true) (m : Msg)
    (h : msgFromDict d = .ok m) : m.wf = true ∧ m.canon = m := by
  simp only [msgFromDict, bind_eq_ok, pure_eq_ok] at h
  obtain ⟨q, _, a, h2, t, _, y, _, r, h5, e, h6, ip, h7, ro, _, cid, _, rfl⟩ := h
  have hr := getReturn_ok _ (get_optWf kR d hd) _ h5
  refine ⟨?_, ?_⟩
  · simp only [Msg.wf, getArgs_ok _ (get_optWf kA d hd) _ h2, hr.1, getErr_ok _ _ h6, getAddr_ok _ _ h7,
      Bool.and_self]
  · simp only [Msg.canon, hr.2]

/-- Everything the typed decoder returns is a well-formed message that `canon` leaves alone. -/
theorem fromBV_ok (b : BV) (m : Msg) (h : fromBV b = .ok m) : m.wf = true ∧ m.canon = m := by
  unfold fromBV at h
  split at h
  · rename_i hw
    split at h
    · rename_i d
      simp only [Benc.wf, Bool.and_eq_true] at hw
      exact msgFromDict_ok d hw.2 m h
    · cases h
    · cases h
  · cases h

/-! ## `canon` -/

theorem canonNode4_idem (n : NodeInfo) : canonNode4 (canonNode4 n) = canonNode4 n := by
  simp only [canonNode4]
  cases h : ipTo4 n.addr.ip with
  | none => simp [ipTo4]
  | some x => simp [ipTo4_of_length4 (ipTo4_length h)]

theorem canonNode6_idem (n : NodeInfo) : canonNode6 (canonNode6 n) = canonNode6 n := by
  simp only [canonNode6]
  cases h : ipTo16 n.addr.ip with
  | none => simp [ipTo16]
  | some x => simp [ipTo16_of_length16 (ipTo16_length h)]

theorem canonNodes_idem (f : NodeInfo → NodeInfo) (hf : ∀ n, f (f n) = f n) (o : Option (List NodeInfo)) :
    canonNodes f (canonNodes f o) = canonNodes f o := by
  cases o with
  | none => rfl
  | some l =>
    cases l with
    | nil => rfl
    | cons a t => simp [canonNodes, hf, Function.comp_def]

theorem Return.canon_idem (r : Return) : r.canon.canon = r.canon := by
  simp [Return.canon, canonNodes_idem _ canonNode4_idem, canonNodes_idem _ canonNode6_idem]

theorem Msg.canon_idem (m : Msg) : m.canon.canon = m.canon := by
  cases hr : m.r with
  | none => simp [Msg.canon, hr]
  | some r => simp [Msg.canon, hr, Return.canon_idem]

theorem Msg.canon_wf (m : Msg) (h : m.wf = true) : m.canon.wf = true :=
  (fromBV_ok _ _ (fromBV_toBV m h)).1

/-! ## Well-formed messages never trip the encoder's width assertion -/

theorem wf_not_encPanics (m : Msg) (h : m.wf = true) : m.encPanics = false := by
  simp only [Msg.wf, Bool.and_eq_true] at h
  obtain ⟨⟨⟨_, hr⟩, _⟩, _⟩ := h
  cases hm : m.r with
  | none => simp [Msg.encPanics, hm]
  | some r =>
    rw [hm] at hr
    simp only [Option.map_some, Option.getD_some, Return.wf, Bool.and_eq_true, beq_iff_eq] at hr
    have hn4 := hr.1.1.1.1.1.1.1.1.1.1.1.2
    have hn6 := hr.1.1.1.1.1.1.1.1.1.1.2
    have h4 : (r.nodes.map famOk4).getD true = true := by
      cases hn : r.nodes with
      | none => rfl
      | some l =>
        rw [hn] at hn4
        simp only [Option.map_some, Option.getD_some, List.all_eq_true, famOk4] at hn4 ⊢
        intro n hn'
        have := hn4 n hn'
        simp only [nodeOk4, Bool.and_eq_true] at this
        exact this.1.2
    have h6 : (r.nodes6.map famOk6).getD true = true := by
      cases hn : r.nodes6 with
      | none => rfl
      | some l =>
        rw [hn] at hn6
        simp only [Option.map_some, Option.getD_some, List.all_eq_true, famOk6] at hn6 ⊢
        intro n hn'
        have := hn6 n hn'
        simp only [nodeOk6, Bool.and_eq_true] at this
        exact this.1.2
    simp [Msg.encPanics, hm, Return.encPanics, h4, h6]

/-! ## `canon` and the encoding -/

theorem encNodes4_canon (l : List NodeInfo) : encNodes4 (l.map canonNode4) = encNodes4 l := by
  simp only [encNodes4, List.map_map]
  congr 1
  apply List.map_congr_left
  intro n _
  simp only [Function.comp, canonNode4]
  cases h : ipTo4 n.addr.ip with
  | none => simp [ipTo4]
  | some x => simp [ipTo4_of_length4 (ipTo4_length h)]

theorem encNodes6_canon (l : List NodeInfo) : encNodes6 (l.map canonNode6) = encNodes6 l := by
  simp only [encNodes6, List.map_map]
  congr 1
  apply List.map_congr_left
  intro n _
  simp only [Function.comp, canonNode6]
  cases h : ipTo16 n.addr.ip with
  | none => simp [ipTo16]
  | some x => simp [ipTo16_of_length16 (ipTo16_length h)]

theorem eNodes4_canon (o : Option (List NodeInfo)) (h : o ≠ some []) :
    eNodes4 (canonNodes canonNode4 o) = eNodes4 o := by
  cases o with
  | none => rfl
  | some l =>
    cases l with
    | nil => exact absurd rfl h
    | cons a t => simp only [canonNodes, eNodes4, Option.map_some, encNodes4_canon]

theorem eNodes6_canon (o : Option (List NodeInfo)) (h : o ≠ some []) :
    eNodes6 (canonNodes canonNode6 o) = eNodes6 o := by
  cases o with
  | none => rfl
  | some l =>
    cases l with
    | nil => exact absurd rfl h
    | cons a t => simp only [canonNodes, eNodes6, Option.map_some, encNodes6_canon]

theorem toBV_canon (m : Msg) (h : ∀ r, m.r = some r → r.nodes ≠ some [] ∧ r.nodes6 ≠ some []) :
    toBV m.canon = toBV m := by
  cases hm : m.r with
  | none => simp [toBV, msgEntries, Msg.canon, hm]
  | some r =>
    obtain ⟨h4, h6⟩ := h r hm
    have : returnToBV r.canon = returnToBV r := by
      simp only [returnToBV, returnEntries, Return.canon, eNodes4_canon _ h4, eNodes6_canon _ h6]
    simp only [toBV, msgEntries, Msg.canon, hm, Option.map_some, this]

end Krpc
end Dht
