package main

// Traversal ownership facts (C14 `every_start_is_stopped`).
//
// For every function of the module that calls traversal.Start, for every function that receives a
// *traversal.Operation from such a function (hand-off through a result), and for every function
// literal they `go`, `defer` or invoke in place, this file emits a control-flow graph:
//
//   ownerFns : List (String × String × Bool)   (function, variable holding the operation, returns the operation?)
//   ownerJudged : List String                  (top-level functions whose return paths are judged)
//   ownerCfg : List (String × Nat × String × String × String × List Nat)
//                                              (function, node, kind, a, b, successors)
//
// Node kinds: entry | call a=callee | asg a=variable | start a=opVar | callop a=opVar b=callee |
// if+ / if- a=condition | loop | select | switch | case a=text | label a=name | goto a=name |
// go / defer / inline a=sub-function | ret a=opflag b=errflag | exit a=opflag b=errflag.
// opflag: "op" the operation is returned to the caller, "noop" it is not, "-" the function has no
// operation result. errflag: "err" the variable `err` is returned as the error, "nil", "other", "-".
//
// The extractor only transcribes syntax; the analysis ("on every path from the start to a return
// the operation has been stopped, or its stop is deferred, or it is handed to a goroutine / the
// caller that stops it") is done in Lean over these graphs.

import (
	"fmt"
	"go/ast"
	"go/token"
	"go/types"
	"sort"
	"strings"
)

type cnode struct {
	kind, a, b string
	succ       []int
}

type handoff struct {
	name    string // callee as written at call sites (same package)
	full    string // file:name, the key of its graph
	opIdx   int
	nRes    int
	lastErr bool
}

type brTarget struct {
	label     string
	isLoop    bool
	breaks    []int
	continues []int
}

type cfgB struct {
	name    string
	nodes   []*cnode
	root    *cfgRoot
	targets []*brTarget
	labels  map[string]int
	gotos   map[string][]int
	// result shape of the function this graph belongs to
	opResIdx  int // -1: none
	opResName string
	errLast   bool
	errName   string
	nRes      int
	isSub     bool
}

type cfgRoot struct {
	fn       string
	opVar    string
	handoffs map[string]handoff
	subs     []*cfgB
	nsub     int
}

func (b *cfgB) add(kind, a, bb string, preds []int) int {
	id := len(b.nodes)
	b.nodes = append(b.nodes, &cnode{kind: kind, a: a, b: bb})
	b.link(preds, id)
	return id
}

func (b *cfgB) link(preds []int, to int) {
	for _, p := range preds {
		dup := false
		for _, s := range b.nodes[p].succ {
			if s == to {
				dup = true
			}
		}
		if !dup {
			b.nodes[p].succ = append(b.nodes[p].succ, to)
		}
	}
}

func (b *cfgB) sub(body *ast.BlockStmt, single ast.Expr) string {
	r := b.root
	r.nsub++
	sb := &cfgB{name: fmt.Sprintf("%s$%d", r.fn, r.nsub), root: r, labels: map[string]int{}, gotos: map[string][]int{}, opResIdx: -1, isSub: true}
	r.subs = append(r.subs, sb)
	fr := []int{sb.add("entry", "", "", nil)}
	if body != nil {
		fr = sb.block(body.List, fr)
	} else {
		fr = []int{sb.add("call", types.ExprString(single), "", fr)}
	}
	if len(fr) > 0 {
		sb.add("exit", "-", "-", fr)
	}
	return sb.name
}

func isCallTo(e ast.Expr, name string) (*ast.CallExpr, bool) {
	c, ok := e.(*ast.CallExpr)
	if !ok {
		return nil, false
	}
	return c, types.ExprString(c.Fun) == name
}

// Calls of an expression in evaluation order. Function literals that are not invoked are skipped.
func (b *cfgB) expr(e ast.Expr, fr []int) []int {
	if e == nil {
		return fr
	}
	switch x := e.(type) {
	case *ast.CallExpr:
		for _, a := range x.Args {
			fr = b.expr(a, fr)
		}
		if lit, ok := x.Fun.(*ast.FuncLit); ok {
			name := b.sub(lit.Body, nil)
			return []int{b.add("inline", name, "", fr)}
		}
		if se, ok := x.Fun.(*ast.SelectorExpr); ok {
			fr = b.expr(se.X, fr)
		}
		callee := types.ExprString(x.Fun)
		if callee == "traversal.Start" {
			missing = append(missing, "unsupported:start-not-assigned:"+b.name)
		}
		if _, ok := b.root.handoffs[callee]; ok {
			missing = append(missing, "unsupported:handoff-not-assigned:"+b.name)
		}
		return []int{b.add("call", callee, "", fr)}
	case *ast.FuncLit:
		return fr
	case *ast.BinaryExpr:
		return b.expr(x.Y, b.expr(x.X, fr))
	case *ast.ParenExpr:
		return b.expr(x.X, fr)
	case *ast.SelectorExpr:
		return b.expr(x.X, fr)
	case *ast.StarExpr:
		return b.expr(x.X, fr)
	case *ast.UnaryExpr:
		return b.expr(x.X, fr)
	case *ast.IndexExpr:
		return b.expr(x.Index, b.expr(x.X, fr))
	case *ast.SliceExpr:
		return b.expr(x.X, fr)
	case *ast.TypeAssertExpr:
		return b.expr(x.X, fr)
	case *ast.KeyValueExpr:
		return b.expr(x.Value, fr)
	case *ast.CompositeLit:
		for _, el := range x.Elts {
			fr = b.expr(el, fr)
		}
		return fr
	}
	return fr
}

func lhsName(e ast.Expr) string { return types.ExprString(e) }

func (b *cfgB) assign(lhs []ast.Expr, rhs []ast.Expr, fr []int) []int {
	if len(rhs) == 1 {
		if c, ok := isCallTo(rhs[0], "traversal.Start"); ok && len(lhs) == 1 {
			for _, a := range c.Args {
				fr = b.expr(a, fr)
			}
			v := lhsName(lhs[0])
			if b.root.opVar == "" {
				b.root.opVar = v
			} else if b.root.opVar != v {
				missing = append(missing, "unsupported:two-operations:"+b.name)
			}
			return []int{b.add("start", v, "traversal.Start", fr)}
		}
		if c, ok := rhs[0].(*ast.CallExpr); ok {
			if h, ok := b.root.handoffs[types.ExprString(c.Fun)]; ok && len(lhs) == h.nRes {
				for _, a := range c.Args {
					fr = b.expr(a, fr)
				}
				v := lhsName(lhs[h.opIdx])
				if b.root.opVar == "" {
					b.root.opVar = v
				} else if b.root.opVar != v {
					missing = append(missing, "unsupported:two-operations:"+b.name)
				}
				fr = []int{b.add("callop", v, h.full, fr)}
				for i, l := range lhs {
					n := lhsName(l)
					if i == h.opIdx || n == "_" {
						continue
					}
					if h.lastErr && i == h.nRes-1 && n == "err" {
						continue // the callee's error state flows into `err`
					}
					fr = []int{b.add("asg", n, "", fr)}
				}
				if !(h.lastErr && lhsName(lhs[h.nRes-1]) == "err") {
					fr = []int{b.add("asg", "err", "", fr)}
				}
				return fr
			}
		}
	}
	for _, r := range rhs {
		fr = b.expr(r, fr)
	}
	for _, l := range lhs {
		if n := lhsName(l); n != "_" {
			fr = []int{b.add("asg", n, "", fr)}
		}
	}
	return fr
}

func (b *cfgB) retFlags(results []ast.Expr) (string, string) {
	if b.isSub {
		return "-", "-"
	}
	op, er := "-", "-"
	if b.opResIdx >= 0 {
		op = "noop"
		if len(results) == 0 {
			if b.opResName != "" && b.opResName == b.root.opVar {
				op = "op"
			}
		} else if len(results) == b.nRes && types.ExprString(results[b.opResIdx]) == b.root.opVar {
			op = "op"
		}
	}
	if b.errLast {
		er = "other"
		if len(results) == 0 {
			if b.errName == "err" {
				er = "err"
			}
		} else if len(results) == b.nRes {
			switch types.ExprString(results[b.nRes-1]) {
			case "nil":
				er = "nil"
			case "err":
				er = "err"
			}
		}
	}
	return op, er
}

func (b *cfgB) findTarget(label string, needLoop bool) *brTarget {
	for i := len(b.targets) - 1; i >= 0; i-- {
		t := b.targets[i]
		if label != "" {
			if t.label == label {
				return t
			}
			continue
		}
		if needLoop && !t.isLoop {
			continue
		}
		return t
	}
	return nil
}

func (b *cfgB) block(list []ast.Stmt, fr []int) []int {
	for _, s := range list {
		fr = b.stmt(s, fr, "")
	}
	return fr
}

func (b *cfgB) stmt(s ast.Stmt, fr []int, label string) []int {
	switch x := s.(type) {
	case nil:
		return fr
	case *ast.EmptyStmt:
		return fr
	case *ast.ExprStmt:
		return b.expr(x.X, fr)
	case *ast.SendStmt:
		return b.expr(x.Value, b.expr(x.Chan, fr))
	case *ast.IncDecStmt:
		return fr
	case *ast.AssignStmt:
		return b.assign(x.Lhs, x.Rhs, fr)
	case *ast.DeclStmt:
		if gd, ok := x.Decl.(*ast.GenDecl); ok {
			for _, sp := range gd.Specs {
				if vs, ok := sp.(*ast.ValueSpec); ok {
					var lhs []ast.Expr
					for _, n := range vs.Names {
						lhs = append(lhs, n)
					}
					fr = b.assign(lhs, vs.Values, fr)
				}
			}
		}
		return fr
	case *ast.BlockStmt:
		return b.block(x.List, fr)
	case *ast.ReturnStmt:
		for _, r := range x.Results {
			fr = b.expr(r, fr)
		}
		op, er := b.retFlags(x.Results)
		b.add("ret", op, er, fr)
		return nil
	case *ast.GoStmt, *ast.DeferStmt:
		kind := "go"
		var call *ast.CallExpr
		if g, ok := x.(*ast.GoStmt); ok {
			call = g.Call
		} else {
			kind = "defer"
			call = x.(*ast.DeferStmt).Call
		}
		for _, a := range call.Args {
			fr = b.expr(a, fr)
		}
		var name string
		if lit, ok := call.Fun.(*ast.FuncLit); ok {
			name = b.sub(lit.Body, nil)
		} else {
			name = b.sub(nil, call.Fun)
		}
		return []int{b.add(kind, name, "", fr)}
	case *ast.IfStmt:
		fr = b.stmt(x.Init, fr, "")
		fr = b.expr(x.Cond, fr)
		cond := types.ExprString(x.Cond)
		tn := b.add("if+", cond, "", fr)
		en := b.add("if-", cond, "", fr)
		outs := b.block(x.Body.List, []int{tn})
		if x.Else != nil {
			outs = append(outs, b.stmt(x.Else, []int{en}, "")...)
		} else {
			outs = append(outs, en)
		}
		return outs
	case *ast.ForStmt:
		fr = b.stmt(x.Init, fr, "")
		head := b.add("loop", "", "", fr)
		cfr := b.expr(x.Cond, []int{head})
		t := &brTarget{label: label, isLoop: true}
		b.targets = append(b.targets, t)
		body := b.block(x.Body.List, cfr)
		b.targets = b.targets[:len(b.targets)-1]
		back := append(body, t.continues...)
		back = b.stmt(x.Post, back, "")
		b.link(back, head)
		outs := t.breaks
		if x.Cond != nil {
			outs = append(outs, cfr...)
		}
		return outs
	case *ast.RangeStmt:
		fr = b.expr(x.X, fr)
		head := b.add("loop", "", "", fr)
		t := &brTarget{label: label, isLoop: true}
		b.targets = append(b.targets, t)
		body := b.block(x.Body.List, []int{head})
		b.targets = b.targets[:len(b.targets)-1]
		b.link(append(body, t.continues...), head)
		return append(t.breaks, head)
	case *ast.SelectStmt:
		sel := b.add("select", "", "", fr)
		t := &brTarget{label: label}
		b.targets = append(b.targets, t)
		var outs []int
		for _, c := range x.Body.List {
			cc := c.(*ast.CommClause)
			txt := "default"
			if cc.Comm != nil {
				txt = stmtText(cc.Comm)
			}
			cfr := []int{b.add("case", txt, "", []int{sel})}
			cfr = b.stmt(cc.Comm, cfr, "")
			outs = append(outs, b.block(cc.Body, cfr)...)
		}
		b.targets = b.targets[:len(b.targets)-1]
		return append(outs, t.breaks...)
	case *ast.SwitchStmt, *ast.TypeSwitchStmt:
		var body *ast.BlockStmt
		if sw, ok := x.(*ast.SwitchStmt); ok {
			fr = b.stmt(sw.Init, fr, "")
			fr = b.expr(sw.Tag, fr)
			body = sw.Body
		} else {
			ts := x.(*ast.TypeSwitchStmt)
			fr = b.stmt(ts.Init, fr, "")
			fr = b.stmt(ts.Assign, fr, "")
			body = ts.Body
		}
		swn := b.add("switch", "", "", fr)
		t := &brTarget{label: label}
		b.targets = append(b.targets, t)
		var outs []int
		hasDefault := false
		for _, c := range body.List {
			cc := c.(*ast.CaseClause)
			txt := "default"
			if cc.List == nil {
				hasDefault = true
			} else {
				var parts []string
				for _, e := range cc.List {
					parts = append(parts, types.ExprString(e))
				}
				txt = strings.Join(parts, ",")
			}
			cfr := []int{b.add("case", txt, "", []int{swn})}
			outs = append(outs, b.block(cc.Body, cfr)...)
		}
		b.targets = b.targets[:len(b.targets)-1]
		if !hasDefault {
			outs = append(outs, swn)
		}
		return append(outs, t.breaks...)
	case *ast.LabeledStmt:
		l := b.add("label", x.Label.Name, "", fr)
		b.labels[x.Label.Name] = l
		b.link(b.gotos[x.Label.Name], l)
		delete(b.gotos, x.Label.Name)
		return b.stmt(x.Stmt, []int{l}, x.Label.Name)
	case *ast.BranchStmt:
		lab := ""
		if x.Label != nil {
			lab = x.Label.Name
		}
		switch x.Tok {
		case token.BREAK:
			if t := b.findTarget(lab, false); t != nil {
				t.breaks = append(t.breaks, fr...)
			} else {
				missing = append(missing, "unsupported:break-target:"+b.name)
			}
		case token.CONTINUE:
			if t := b.findTarget(lab, true); t != nil {
				t.continues = append(t.continues, fr...)
			} else {
				missing = append(missing, "unsupported:continue-target:"+b.name)
			}
		case token.GOTO:
			g := b.add("goto", lab, "", fr)
			if l, ok := b.labels[lab]; ok {
				b.link([]int{g}, l)
			} else {
				b.gotos[lab] = append(b.gotos[lab], g)
			}
		default:
			missing = append(missing, "unsupported:fallthrough:"+b.name)
		}
		return nil
	}
	missing = append(missing, fmt.Sprintf("unsupported:%T:%s", s, b.name))
	return fr
}

func stmtText(s ast.Stmt) string {
	switch x := s.(type) {
	case *ast.ExprStmt:
		return types.ExprString(x.X)
	case *ast.AssignStmt:
		var l []string
		for _, e := range x.Lhs {
			l = append(l, types.ExprString(e))
		}
		return strings.Join(l, ",") + " " + x.Tok.String() + " " + types.ExprString(x.Rhs[0])
	case *ast.SendStmt:
		return types.ExprString(x.Chan) + " <- " + types.ExprString(x.Value)
	}
	return "?"
}

func buildOwner(rel string, fd *ast.FuncDecl, handoffs map[string]handoff) (*cfgRoot, *cfgB) {
	r := &cfgRoot{fn: enclosing(rel, fd), handoffs: handoffs}
	b := &cfgB{name: r.fn, root: r, labels: map[string]int{}, gotos: map[string][]int{}, opResIdx: -1}
	// result shape
	if fd.Type.Results != nil {
		i := 0
		for _, f := range fd.Type.Results.List {
			names := []string{""}
			if len(f.Names) > 0 {
				names = nil
				for _, n := range f.Names {
					names = append(names, n.Name)
				}
			}
			for _, n := range names {
				t := types.ExprString(f.Type)
				if t == "*traversal.Operation" {
					b.opResIdx, b.opResName = i, n
				}
				b.errLast, b.errName = t == "error", n
				i++
			}
		}
		b.nRes = i
	}
	fr := []int{b.add("entry", "", "", nil)}
	fr = b.block(fd.Body.List, fr)
	if len(fr) > 0 {
		op, er := b.retFlags(nil)
		b.add("exit", op, er, fr)
	}
	for l := range b.gotos {
		missing = append(missing, "unsupported:goto-unresolved:"+l+":"+b.name)
	}
	return r, b
}

func containsCall(fd *ast.FuncDecl, name string) bool {
	found := false
	ast.Inspect(fd.Body, func(n ast.Node) bool {
		if c, ok := n.(*ast.CallExpr); ok && types.ExprString(c.Fun) == name {
			found = true
		}
		return true
	})
	return found
}

// Everything C14 adds to Gen/Facts.lean.
func c14Facts() {
	funcEvents("evTransactionQuerySender", "server.go", "Server", "transactionQuerySender")
	funcEvents("evServerClose", "server.go", "Server", "Close")
	// the loop condition of transactionSender (event lists do not carry conditions of `for`)
	cond := ""
	if fd := findFunc("transaction.go", "", "transactionSender"); fd != nil {
		ast.Inspect(fd, func(n ast.Node) bool {
			if fs, ok := n.(*ast.ForStmt); ok && cond == "" && fs.Cond != nil {
				cond = types.ExprString(fs.Cond)
			}
			return true
		})
	}
	if cond == "" {
		missing = append(missing, "loopcond:transactionSender")
	}
	fmt.Fprintf(&out, "/-- transaction.go transactionSender: condition of the send loop -/\ndef transactionSenderLoopCond : String := %s\n\n", leanStr(cond))
	ownerFacts()
}

func ownerFacts() {
	type site struct {
		rel string
		fd  *ast.FuncDecl
	}
	var starts []site
	var all []site
	for _, rel := range allNonTestFiles() {
		f := parse(rel)
		if f == nil {
			continue
		}
		for _, d := range f.Decls {
			if fd, ok := d.(*ast.FuncDecl); ok && fd.Body != nil {
				all = append(all, site{rel, fd})
				if containsCall(fd, "traversal.Start") {
					starts = append(starts, site{rel, fd})
				}
			}
		}
	}
	// functions that hand the operation to their caller through a result
	handoffs := map[string]handoff{}
	handoffDir := map[string]string{}
	for _, s := range starts {
		if s.fd.Type.Results == nil || s.fd.Recv != nil {
			continue
		}
		i, idx := 0, -1
		lastErr := false
		for _, f := range s.fd.Type.Results.List {
			n := len(f.Names)
			if n == 0 {
				n = 1
			}
			for k := 0; k < n; k++ {
				if types.ExprString(f.Type) == "*traversal.Operation" {
					idx = i
				}
				lastErr = types.ExprString(f.Type) == "error"
				i++
			}
		}
		if idx >= 0 {
			handoffs[s.fd.Name.Name] = handoff{s.fd.Name.Name, enclosing(s.rel, s.fd), idx, i, lastErr}
			handoffDir[s.fd.Name.Name] = dirOf(s.rel)
		}
	}
	judged := map[string]site{}
	for _, s := range starts {
		judged[enclosing(s.rel, s.fd)] = s
	}
	for _, s := range all {
		for h := range handoffs {
			if dirOf(s.rel) == handoffDir[h] && containsCall(s.fd, h) {
				judged[enclosing(s.rel, s.fd)] = s
			}
		}
	}
	var names []string
	for n := range judged {
		names = append(names, n)
	}
	sort.Strings(names)
	var fns, cfg strings.Builder
	first := true
	emit := func(b *cfgB, returnsOp bool) {
		if !first {
			fns.WriteString(",\n  ")
		}
		first = false
		fmt.Fprintf(&fns, "(%s, %s, %v)", leanStr(b.name), leanStr(b.root.opVar), returnsOp)
		for id, n := range b.nodes {
			var ss []string
			for _, s := range n.succ {
				ss = append(ss, fmt.Sprint(s))
			}
			if cfg.Len() > 0 {
				cfg.WriteString(",\n  ")
			}
			fmt.Fprintf(&cfg, "(%s, %d, %s, %s, %s, [%s])", leanStr(b.name), id, leanStr(n.kind), leanStr(n.a), leanStr(n.b), strings.Join(ss, ", "))
		}
	}
	for _, n := range names {
		s := judged[n]
		r, b := buildOwner(s.rel, s.fd, handoffs)
		if r.opVar == "" {
			missing = append(missing, "unsupported:no-operation-variable:"+n)
		}
		emit(b, b.opResIdx >= 0)
		for _, sb := range r.subs {
			emit(sb, false)
		}
	}
	fmt.Fprintf(&out, "/-- traversal owners and the function literals they go/defer/invoke: (function, variable holding the operation, returns the operation to its caller) -/\ndef ownerFns : List (String × String × Bool) := [\n  %s]\n\n", fns.String())
	defStrList("ownerJudged", names, "top-level functions that start a traversal or receive the operation from a function that does")
	fmt.Fprintf(&out, "/-- control-flow graphs of the traversal owners: (function, node, kind, a, b, successors); see extract/owners.go -/\ndef ownerCfg : List (String × Nat × String × String × String × List Nat) := [\n  %s]\n\n", cfg.String())
}

func dirOf(rel string) string {
	if i := strings.LastIndex(rel, "/"); i >= 0 {
		return rel[:i]
	}
	return ""
}
