package main

// Lock facts (C01 "neither panics nor DEADLOCKS": Props/C01Locks.lean, Model/Locks.lean, Lemmas/C01Locks.lean).
//
// For every function, method and function literal of the module (all non-test files outside cmd/,
// internal/ and verif_hooks.go: the same file set as allNonTestFiles, minus files excluded by build
// constraints) this file emits
//
//   lockFiles     : List String     the files
//   lockMutexes   : List String     mutex classes ("Server.mu", "traversal.Operation.mu", "sendLimiterMu", ...):
//                                   every struct field / variable of type sync.Mutex / sync.RWMutex;
//                                   the index in the list is the mutex id
//   lockFuncNames : List String     analysed functions (F$n = n-th function literal of F that is not invoked
//                                   in place), then the "slots" through which function values are called
//                                   (field:X struct field X, param:F.p parameter, var:... variable,
//                                   iface:T.M interface method, dyn:* untracked); index = function id
//   lockNumFuncs, lockNumNodes      number of functions, of functions and slots
//   lockFuncs     : per function    (id, acquires, calls, exit)
//        acquires : (mutex, op, state)      op 0 = Lock, 1 = RLock; state = what is known about every
//                                           mutex just before the acquisition
//        calls    : (callee, mode, state)   mode 0 = same goroutine (call, or deferred call expanded at
//                                           the returns), 1 = `go` (new goroutine: inherits nothing);
//                                           the calls of a slot are its bindings
//        exit     : state                   join over all return points, after the deferred calls
//   lockBinds     : (slot, value)   function value `value` (a function id or another slot) may be what
//                                   a dynamic call through `slot` calls (the same pairs as the slots' calls)
//   lockMayAcq, lockAnyAcq, lockHeldOnEntry, lockLeaves : LTree, lockRank : List Nat
//                                   certificates for the interprocedural part (see below)
//   lockUnboundSlots, lockExternalHeld, lockExternalKinds, lockByName   audit lists
//   lockUnsupported                 shapes the walk does not model; Lean requires it to be empty
//
// A state is a list (mutex, bits) and describes each mutex RELATIVE TO THE ENTRY of the function:
//   bit 1 (E)  the function has not touched the mutex: it is as the caller left it
//   bit 2 (H)  the function has locked it (Lock or RLock) and not unlocked it since
//   bit 4 (U)  the function has unlocked it and not locked it since
// Several bits: it depends on the path taken (branches are joined by union, loops and gotos iterated to
// a fixpoint). A mutex that is not listed has bits = 1. Tracking "unlocked since entry" is what lets
// `pingQuestionableNodesInBucket` (RUnlock ... wait ... RLock on its caller's lock) and the deferred
// `func() { s.mu.RUnlock(); op.Stop(); ... }()` of refreshBucket pass without exemptions.
//
// The extractor does the intraprocedural walk only (syntax directed: statement lists, branches,
// loops, `defer` expanded at every return after it, function literals that are invoked or deferred
// in place analysed inline, `go` = new goroutine). The interprocedural part -- which mutexes a callee
// may acquire and through which chain of calls, whether a callee may return with a mutex locked, which
// mutexes callers may hold on entry, the lock order -- is DEFINED and CHECKED in Lean. For speed the
// least fixpoints are computed here and handed over as certificates; Lean's kernel checks that they are
// post-fixpoints (resp. a valid rank), which is all the soundness lemmas need.
//
// Names are resolved with go/types (imports from outside the module are replaced by empty packages,
// type errors are ignored: only the module's own declarations have to resolve). What does not
// resolve is listed, not dropped: lockUnsupported (must be empty), lockExternalHeld (calls that leave
// the analysed code while a mutex is held), lockByName (calls resolved by method name only).
// A summary ("locks: ...", with the call path of every violation) is printed on stdout.

import (
	"fmt"
	"go/ast"
	"go/build"
	"go/constant"
	"go/token"
	"go/types"
	"os"
	"path/filepath"
	"sort"
	"strings"
)

const (
	bitE = 1
	bitH = 2
	bitU = 4
)

type lstate map[string]uint8

func (s lstate) get(m string) uint8 {
	if b, ok := s[m]; ok {
		return b
	}
	return bitE
}

func (s lstate) clone() lstate {
	if s == nil {
		return nil
	}
	c := lstate{}
	for k, v := range s {
		c[k] = v
	}
	return c
}

// join of two states; nil is the unreachable state
func ljoin(a, b lstate) lstate {
	if a == nil {
		return b.clone()
	}
	if b == nil {
		return a.clone()
	}
	c := lstate{}
	for k := range a {
		c[k] = a.get(k) | b.get(k)
	}
	for k := range b {
		c[k] = a.get(k) | b.get(k)
	}
	return c
}

func lequal(a, b lstate) bool {
	if (a == nil) != (b == nil) {
		return false
	}
	for k := range a {
		if a.get(k) != b.get(k) {
			return false
		}
	}
	for k := range b {
		if a.get(k) != b.get(k) {
			return false
		}
	}
	return true
}

func (s lstate) key() string {
	var ks []string
	for k, v := range s {
		if v != bitE {
			ks = append(ks, fmt.Sprintf("%s=%d", k, v))
		}
	}
	sort.Strings(ks)
	return strings.Join(ks, ",")
}

func (s lstate) anyHeld() bool {
	for _, v := range s {
		if v&bitH != 0 {
			return true
		}
	}
	return false
}

type lacq struct {
	m  string
	op int
	st lstate
}

type lcall struct {
	callee string
	mode   int
	st     lstate
}

type lockFn struct {
	name  string
	pkg   *lpkg
	body  *ast.BlockStmt
	order int
	acqs  []lacq
	calls []lcall
	exit  lstate
	seen  map[string]bool
	nlit  *int // literal counter shared with the enclosing declaration
	top   string
	ftype *ast.FuncType
}

type lpkg struct {
	dir   string // "" for the root package
	name  string
	path  string
	files []*ast.File
	rels  []string
	tpkg  *types.Package
}

type lockWorld struct {
	modPath   string
	pkgs      map[string]*lpkg // by dir
	byPath    map[string]*lpkg
	info      *types.Info
	fns       map[string]*lockFn
	fnOrder   []*lockFn
	litFn     map[*ast.FuncLit]*lockFn
	funcName  map[*types.Func]string
	mutexes   map[types.Object]string // field / variable objects that are mutexes
	declType  map[types.Object]ast.Expr
	varSlot   map[types.Object]string
	methods   map[string][]string // method name -> analysed functions with that name
	binds     map[string]map[string]bool
	slotCall  map[string]bool
	unsup     map[string]bool
	external  map[string]bool
	byName    map[string]bool
	queue     []*lockFn
	checking  map[string]bool
	lenConsts map[string][]string // import path -> names used as array lengths

	initExpr    map[types.Object]ast.Expr // the expression a variable is first defined from
	typed       map[string]bool           // slots that are variables / fields of the module (they also receive dyn:*)
	ifaces      map[string]bool           // interface method nodes
	methodsOnly map[string][]string       // name -> analysed methods with that name
	kinds       map[string]bool           // kinds of calls that leave the analysed code while a mutex is held
}

var lw *lockWorld

func (w *lockWorld) unsupported(format string, a ...interface{}) {
	w.unsup[fmt.Sprintf(format, a...)] = true
}

func (w *lockWorld) posStr(p token.Pos) string {
	ps := fset.Position(p)
	r, err := filepath.Rel(repo, ps.Filename)
	if err != nil {
		r = ps.Filename
	}
	return fmt.Sprintf("%s:%d", r, ps.Line)
}

// ---------------------------------------------------------------------------------------------
// loading and type checking

func fakeName(path string) string {
	parts := strings.Split(path, "/")
	n := parts[len(parts)-1]
	if len(parts) > 1 && len(n) >= 2 && n[0] == 'v' && strings.Trim(n[1:], "0123456789") == "" {
		n = parts[len(parts)-2]
	}
	n = strings.TrimPrefix(n, "go-")
	return strings.ReplaceAll(n, "-", "_")
}

func (w *lockWorld) Import(path string) (*types.Package, error) {
	if path == w.modPath || strings.HasPrefix(path, w.modPath+"/") {
		dir := strings.TrimPrefix(strings.TrimPrefix(path, w.modPath), "/")
		if p, ok := w.pkgs[dir]; ok {
			return w.check(p), nil
		}
	}
	// every package outside the module is an empty package, except for the constants the module uses as
	// array lengths (`[sha1.Size]byte`): go/types cannot continue past an array type of unknown length
	p := types.NewPackage(path, fakeName(path))
	for _, c := range w.lenConsts[path] {
		p.Scope().Insert(types.NewConst(token.NoPos, p, c, types.Typ[types.UntypedInt], constant.MakeInt64(1)))
	}
	p.MarkComplete()
	return p, nil
}

func (w *lockWorld) check(p *lpkg) *types.Package {
	if p.tpkg != nil {
		return p.tpkg
	}
	if w.checking[p.dir] {
		w.unsupported("import-cycle:%s", p.dir)
		return types.NewPackage(p.path, p.name)
	}
	w.checking[p.dir] = true
	conf := types.Config{Importer: w, Error: func(error) {}, FakeImportC: true, DisableUnusedImportCheck: true}
	var tp *types.Package
	func() {
		defer func() {
			if r := recover(); r != nil {
				w.unsupported("typecheck-panic:%s", p.path)
			}
		}()
		tp, _ = conf.Check(p.path, fset, p.files, w.info)
	}()
	if tp == nil {
		tp = types.NewPackage(p.path, p.name)
	}
	p.tpkg = tp
	return tp
}

func (w *lockWorld) load() {
	w.modPath = "github.com/anacrolix/dht/v2"
	if b, err := os.ReadFile(filepath.Join(repo, "go.mod")); err == nil {
		for _, l := range strings.Split(string(b), "\n") {
			if f := strings.Fields(l); len(f) == 2 && f[0] == "module" {
				w.modPath = f[1]
				break
			}
		}
	}
	for _, rel := range allNonTestFiles() {
		dir := dirOf(rel)
		if ok, err := build.Default.MatchFile(filepath.Join(repo, dir), filepath.Base(rel)); err == nil && !ok {
			continue // other operating systems, build tags
		}
		f := parse(rel)
		if f == nil {
			continue
		}
		p := w.pkgs[dir]
		if p == nil {
			path := w.modPath
			if dir != "" {
				path += "/" + dir
			}
			p = &lpkg{dir: dir, name: f.Name.Name, path: path}
			w.pkgs[dir] = p
			w.byPath[path] = p
		}
		p.files = append(p.files, f)
		p.rels = append(p.rels, rel)
		// constants of other packages used as array lengths
		imports := map[string]string{}
		for _, im := range f.Imports {
			path := strings.Trim(im.Path.Value, "\"")
			name := fakeName(path)
			if im.Name != nil {
				name = im.Name.Name
			}
			imports[name] = path
		}
		ast.Inspect(f, func(n ast.Node) bool {
			if at, ok := n.(*ast.ArrayType); ok && at.Len != nil {
				ast.Inspect(at.Len, func(m ast.Node) bool {
					if se, ok := m.(*ast.SelectorExpr); ok {
						if id, ok := se.X.(*ast.Ident); ok {
							if path, ok := imports[id.Name]; ok {
								w.lenConsts[path] = append(w.lenConsts[path], se.Sel.Name)
							}
						}
					}
					return true
				})
			}
			return true
		})
	}
	var dirs []string
	for d := range w.pkgs {
		dirs = append(dirs, d)
	}
	sort.Strings(dirs)
	for _, d := range dirs {
		w.check(w.pkgs[d])
	}
}

func (w *lockWorld) pkgPrefix(tp *types.Package) string {
	if tp == nil {
		return "?."
	}
	if p, ok := w.byPath[tp.Path()]; ok {
		if p.dir == "" {
			return ""
		}
		return p.name + "."
	}
	return tp.Name() + "."
}

func namedOf(t types.Type) *types.Named {
	for {
		switch x := t.(type) {
		case *types.Pointer:
			t = x.Elem()
			continue
		case *types.Named:
			return x
		case *types.Alias:
			t = types.Unalias(x)
			continue
		}
		return nil
	}
}

// the analysed name of a declared function or method ("Server.Query", "traversal.Operation.run", "limiterWait")
func (w *lockWorld) nameOfFunc(f *types.Func) string {
	f = f.Origin()
	if n, ok := w.funcName[f]; ok {
		return n
	}
	n := w.pkgPrefix(f.Pkg())
	if sig, ok := f.Type().(*types.Signature); ok && sig.Recv() != nil {
		if nt := namedOf(sig.Recv().Type()); nt != nil {
			n += nt.Obj().Name() + "."
		} else {
			n += "?."
		}
	}
	n += f.Name()
	w.funcName[f] = n
	return n
}

func isMutexType(e ast.Expr) bool {
	if st, ok := e.(*ast.StarExpr); ok {
		e = st.X
	}
	s := types.ExprString(e)
	return s == "sync.Mutex" || s == "sync.RWMutex"
}

// mutex classes, declared types of fields / variables / parameters, parameter slots
func (w *lockWorld) collectDecls() {
	for _, p := range w.pkgs {
		for _, f := range p.files {
			ast.Inspect(f, func(n ast.Node) bool {
				switch x := n.(type) {
				case *ast.TypeSpec:
					st, ok := x.Type.(*ast.StructType)
					if !ok {
						return true
					}
					for _, fld := range st.Fields.List {
						for _, nm := range fld.Names {
							obj := w.info.Defs[nm]
							if obj == nil {
								continue
							}
							w.declType[obj] = fld.Type
							if isMutexType(fld.Type) {
								w.mutexes[obj] = w.pkgPrefix(p.tpkg) + x.Name.Name + "." + nm.Name
							}
						}
						if len(fld.Names) == 0 && isMutexType(fld.Type) {
							w.unsupported("embedded-mutex:%s.%s", p.name, x.Name.Name)
						}
					}
				case *ast.ValueSpec:
					for _, nm := range x.Names {
						obj := w.info.Defs[nm]
						if obj == nil {
							continue
						}
						if len(x.Values) == len(x.Names) {
							for i, v := range x.Values {
								if x.Names[i] == nm {
									w.initExpr[obj] = v
								}
							}
						} else if len(x.Values) == 1 {
							w.initExpr[obj] = x.Values[0]
						}
						if x.Type != nil {
							w.declType[obj] = x.Type
							if isMutexType(x.Type) {
								if obj.Parent() == p.tpkg.Scope() {
									w.mutexes[obj] = w.pkgPrefix(p.tpkg) + nm.Name
								} else {
									w.mutexes[obj] = w.pkgPrefix(p.tpkg) + "local:" + nm.Name + "@" + w.posStr(nm.Pos())
								}
							}
						}
					}
				case *ast.AssignStmt:
					if x.Tok == token.DEFINE {
						for i, l := range x.Lhs {
							id, ok := l.(*ast.Ident)
							if !ok {
								continue
							}
							obj := w.info.Defs[id]
							if obj == nil {
								continue
							}
							if len(x.Rhs) == len(x.Lhs) {
								w.initExpr[obj] = x.Rhs[i]
							} else if len(x.Rhs) == 1 {
								w.initExpr[obj] = x.Rhs[0]
							}
						}
					}
				case *ast.RangeStmt:
					if x.Tok == token.DEFINE {
						for _, l := range []ast.Expr{x.Key, x.Value} {
							if id, ok := l.(*ast.Ident); ok {
								if obj := w.info.Defs[id]; obj != nil {
									w.initExpr[obj] = x.X
								}
							}
						}
					}
				case *ast.Field:
					for _, nm := range x.Names {
						if obj := w.info.Defs[nm]; obj != nil {
							if _, ok := w.declType[obj]; !ok {
								w.declType[obj] = x.Type
							}
						}
					}
				}
				return true
			})
		}
	}
}

// ---------------------------------------------------------------------------------------------
// the functions

func (w *lockWorld) newFn(name string, p *lpkg, body *ast.BlockStmt, ftype *ast.FuncType, nlit *int, top string) *lockFn {
	if old, ok := w.fns[name]; ok {
		// the same name declared twice (build-tag variants): keep both under distinct names
		name = fmt.Sprintf("%s#%d", name, len(w.fnOrder))
		_ = old
	}
	if top == "" {
		top = name
	}
	fn := &lockFn{name: name, pkg: p, body: body, ftype: ftype, order: len(w.fnOrder), seen: map[string]bool{}, nlit: nlit, top: top}
	w.fns[name] = fn
	w.fnOrder = append(w.fnOrder, fn)
	w.queue = append(w.queue, fn)
	return fn
}

func (w *lockWorld) paramSlots(fnName string, ft *ast.FuncType) {
	if ft == nil || ft.Params == nil {
		return
	}
	for _, fld := range ft.Params.List {
		for _, nm := range fld.Names {
			if obj := w.info.Defs[nm]; obj != nil && nm.Name != "_" {
				w.varSlot[obj] = "param:" + fnName + "." + nm.Name
			}
		}
	}
}

func (w *lockWorld) collectFuncs() {
	var dirs []string
	for d := range w.pkgs {
		dirs = append(dirs, d)
	}
	sort.Strings(dirs)
	for _, d := range dirs {
		p := w.pkgs[d]
		for _, f := range p.files {
			for _, decl := range f.Decls {
				switch x := decl.(type) {
				case *ast.FuncDecl:
					if x.Body == nil {
						continue
					}
					var name string
					if obj, ok := w.info.Defs[x.Name].(*types.Func); ok && obj != nil {
						name = w.nameOfFunc(obj)
					} else {
						name = w.pkgPrefix(p.tpkg)
						if r := recvName(x); r != "" {
							name += r + "."
						}
						name += x.Name.Name
					}
					if x.Name.Name == "init" || x.Name.Name == "_" {
						name = fmt.Sprintf("%s@%s", name, w.posStr(x.Pos()))
					}
					n := 0
					fn := w.newFn(name, p, x.Body, x.Type, &n, "")
					if obj, ok := w.info.Defs[x.Name].(*types.Func); ok && obj != nil {
						w.funcName[obj] = fn.name
					}
					w.paramSlots(fn.name, x.Type)
					w.methods[x.Name.Name] = append(w.methods[x.Name.Name], fn.name)
					if x.Recv != nil {
						w.methodsOnly[x.Name.Name] = append(w.methodsOnly[x.Name.Name], fn.name)
					}
				case *ast.GenDecl:
					if x.Tok != token.VAR {
						continue
					}
					// package-level initialisers: one pseudo function per declaration that contains a call or a literal
					hasCode := false
					ast.Inspect(x, func(n ast.Node) bool {
						switch n.(type) {
						case *ast.CallExpr, *ast.FuncLit:
							hasCode = true
						}
						return !hasCode
					})
					if !hasCode {
						continue
					}
					var stmts []ast.Stmt
					stmts = append(stmts, &ast.DeclStmt{Decl: x})
					name := fmt.Sprintf("%svar@%s", w.pkgPrefix(p.tpkg), w.posStr(x.Pos()))
					n := 0
					w.newFn(name, p, &ast.BlockStmt{List: stmts, Lbrace: x.Pos(), Rbrace: x.End()}, nil, &n, "")
				}
			}
		}
	}
}

// a function literal that is not invoked in place: a function of its own
func (w *lockWorld) litFunc(lit *ast.FuncLit, parent *lockFn) *lockFn {
	if fn, ok := w.litFn[lit]; ok {
		return fn
	}
	*parent.nlit++
	name := fmt.Sprintf("%s$%d", parent.top, *parent.nlit)
	fn := w.newFn(name, parent.pkg, lit.Body, lit.Type, parent.nlit, parent.top)
	w.litFn[lit] = fn
	w.paramSlots(fn.name, lit.Type)
	return fn
}

func (w *lockWorld) bind(slot, value string) {
	if slot == value {
		return
	}
	if w.binds[slot] == nil {
		w.binds[slot] = map[string]bool{}
	}
	w.binds[slot][value] = true
}

const dynAny = "dyn:*"

func (w *lockWorld) slotOfVar(obj types.Object) string {
	if s, ok := w.varSlot[obj]; ok {
		return s
	}
	v, ok := obj.(*types.Var)
	if !ok {
		return dynAny
	}
	var s string
	switch {
	case v.IsField():
		s = "field:" + v.Name()
	case v.Pkg() != nil && v.Parent() == v.Pkg().Scope():
		s = "var:" + w.pkgPrefix(v.Pkg()) + v.Name()
	default:
		s = "var:" + v.Name() + "@" + w.posStr(v.Pos())
	}
	w.varSlot[obj] = s
	return s
}

func couldBeFunc(t types.Type) bool {
	if t == nil {
		return true
	}
	switch u := t.Underlying().(type) {
	case *types.Signature:
		return true
	case *types.Basic:
		return u.Kind() == types.Invalid
	case *types.Interface:
		return false
	}
	return false
}

// ---------------------------------------------------------------------------------------------
// the walk

type ltarget struct {
	label     string
	isLoop    bool
	breaks    lstate
	continues lstate
}

type ldefer struct {
	pos    token.Pos
	top    bool // a statement of the function body itself: runs at every later return
	inLoop bool // registered in a loop: a return earlier in the text may follow it
	call   *ast.CallExpr
}

type lframe struct {
	inline  bool
	defers  []ldefer
	exit    lstate
	targets []*ltarget
	body    *ast.BlockStmt
}

type lwalker struct {
	loopDepth int
	declOnly  bool // externalExpr: trust declared types only
	gotoIn    map[string]lstate
	gotoOut   map[string]lstate
	visiting  map[types.Object]bool
	w         *lockWorld
	fn        *lockFn
	fr        *lframe
	cur       lstate
	emit      bool
}

func (lk *lwalker) info() *types.Info { return lk.w.info }

func (lk *lwalker) addAcq(m string, op int) {
	if !lk.emit || lk.cur == nil {
		return
	}
	k := fmt.Sprintf("a|%s|%d|%s", m, op, lk.cur.key())
	if lk.fn.seen[k] {
		return
	}
	lk.fn.seen[k] = true
	lk.fn.acqs = append(lk.fn.acqs, lacq{m, op, lk.cur.clone()})
}

func (lk *lwalker) addCall(callee string, mode int) {
	if !lk.emit || lk.cur == nil {
		return
	}
	k := fmt.Sprintf("c|%s|%d|%s", callee, mode, lk.cur.key())
	if lk.fn.seen[k] {
		return
	}
	lk.fn.seen[k] = true
	lk.fn.calls = append(lk.fn.calls, lcall{callee, mode, lk.cur.clone()})
}

func (lk *lwalker) topLevel(s ast.Stmt) bool {
	if lk.fr.body == nil {
		return false
	}
	for _, t := range lk.fr.body.List {
		if t == s {
			return true
		}
	}
	return false
}

func (w *lockWorld) analyse(fn *lockFn) {
	// `goto`: the states that reach a label by a jump are fed back until they are stable
	gotoIn := map[string]lstate{}
	for iter := 0; ; iter++ {
		lk := &lwalker{w: w, fn: fn, emit: false, cur: lstate{}, visiting: map[types.Object]bool{}, gotoIn: gotoIn, gotoOut: map[string]lstate{}}
		lk.fr = &lframe{body: fn.body}
		lk.block(fn.body.List)
		lk.leave(fn.body.End())
		stable := true
		for l, st := range lk.gotoOut {
			j := ljoin(gotoIn[l], st)
			if !lequal(j, gotoIn[l]) {
				gotoIn[l] = j
				stable = false
			}
		}
		if stable {
			break
		}
		if iter > 20 {
			w.unsupported("goto-not-stable:%s", fn.name)
			break
		}
	}
	lk := &lwalker{w: w, fn: fn, emit: true, cur: lstate{}, visiting: map[types.Object]bool{}, gotoIn: gotoIn, gotoOut: map[string]lstate{}}
	lk.fr = &lframe{body: fn.body}
	lk.block(fn.body.List)
	lk.leave(fn.body.End())
	fn.exit = lk.fr.exit
	if fn.exit == nil {
		fn.exit = lstate{} // never returns
	}
}

// a return point at position p: run the deferred calls registered before it, last first
func (lk *lwalker) leave(p token.Pos) {
	if lk.cur == nil {
		return
	}
	fr := lk.fr
	saved := fr.defers
	for i := len(saved) - 1; i >= 0; i-- {
		d := saved[i]
		if d.pos >= p && !d.inLoop {
			continue // registered after this return in the source
		}
		before := lk.cur.clone()
		fr.defers = nil // a deferred call does not see the frame's own deferred list
		lk.call(d.call, 0)
		if !d.top {
			// registered under a condition or in a loop: it may or may not run
			lk.cur = ljoin(lk.cur, before)
		}
	}
	fr.defers = saved
	fr.exit = ljoin(fr.exit, lk.cur)
	lk.cur = nil
}

// body of a function literal that is invoked (or deferred) in place: same goroutine, same event sink
func (lk *lwalker) inline(lit *ast.FuncLit) {
	if lk.cur == nil {
		return
	}
	outer, depth := lk.fr, lk.loopDepth
	lk.fr, lk.loopDepth = &lframe{body: lit.Body, inline: true}, 0
	lk.block(lit.Body.List)
	lk.leave(lit.Body.End())
	lk.cur = lk.fr.exit
	lk.fr, lk.loopDepth = outer, depth
}

func (lk *lwalker) block(l []ast.Stmt) {
	for _, s := range l {
		lk.stmt(s, "")
	}
}

func (lk *lwalker) findTarget(label string, needLoop bool) *ltarget {
	ts := lk.fr.targets
	for i := len(ts) - 1; i >= 0; i-- {
		t := ts[i]
		if label != "" {
			if t.label == label {
				return t
			}
			continue
		}
		if needLoop && !t.isLoop {
			continue
		}
		return t
	}
	return nil
}

// loop: iterate the body until the state at the head is stable, then walk it once more with events on
func (lk *lwalker) loop(label string, head func(), body func(), post func(), hasExitAtHead bool) {
	entry := lk.cur
	if entry == nil {
		return
	}
	lk.loopDepth++
	defer func() { lk.loopDepth-- }()
	emit := lk.emit
	headState := entry.clone()
	var t *ltarget
	for iter := 0; ; iter++ {
		lk.emit = false
		lk.cur = headState.clone()
		t = &ltarget{label: label, isLoop: true}
		lk.fr.targets = append(lk.fr.targets, t)
		head()
		body()
		lk.cur = ljoin(lk.cur, t.continues)
		post()
		lk.fr.targets = lk.fr.targets[:len(lk.fr.targets)-1]
		next := ljoin(headState, lk.cur)
		if lequal(next, headState) {
			break
		}
		headState = next
		if iter > 20 {
			lk.w.unsupported("loop-not-stable:%s", lk.fn.name)
			break
		}
	}
	lk.emit = emit
	lk.cur = headState.clone()
	t = &ltarget{label: label, isLoop: true}
	lk.fr.targets = append(lk.fr.targets, t)
	head()
	afterHead := lk.cur.clone()
	body()
	lk.cur = ljoin(lk.cur, t.continues)
	post()
	lk.fr.targets = lk.fr.targets[:len(lk.fr.targets)-1]
	out := t.breaks
	if hasExitAtHead {
		out = ljoin(out, afterHead)
	}
	lk.cur = out
}

func (lk *lwalker) stmt(s ast.Stmt, label string) {
	if ls, ok := s.(*ast.LabeledStmt); ok && lk.cur == nil && !lk.fr.inline {
		if in, ok := lk.gotoIn[ls.Label.Name]; ok {
			lk.cur = in.clone() // reached by jumps only
		}
	}
	if s == nil || lk.cur == nil {
		// unreachable code is still searched for function literals, so that every literal is analysed
		if s != nil {
			lk.deadScan(s)
		}
		return
	}
	switch x := s.(type) {
	case *ast.EmptyStmt:
	case *ast.ExprStmt:
		lk.expr(x.X)
	case *ast.SendStmt:
		lk.expr(x.Chan)
		lk.valueTo(x.Value, dynAny)
	case *ast.IncDecStmt:
		lk.expr(x.X)
	case *ast.AssignStmt:
		if len(x.Lhs) == len(x.Rhs) {
			for i := range x.Rhs {
				lk.valueTo(x.Rhs[i], lk.slotOfExpr(x.Lhs[i]))
			}
		} else {
			for _, r := range x.Rhs {
				lk.expr(r)
			}
		}
		for _, l := range x.Lhs {
			if _, ok := l.(*ast.Ident); !ok {
				lk.expr(l)
			}
		}
	case *ast.DeclStmt:
		if gd, ok := x.Decl.(*ast.GenDecl); ok {
			for _, sp := range gd.Specs {
				if vs, ok := sp.(*ast.ValueSpec); ok {
					if len(vs.Names) == len(vs.Values) {
						for i, v := range vs.Values {
							lk.valueTo(v, lk.slotOfExpr(vs.Names[i]))
						}
					} else {
						for _, v := range vs.Values {
							lk.expr(v)
						}
					}
				}
			}
		}
	case *ast.BlockStmt:
		lk.block(x.List)
	case *ast.LabeledStmt:
		if in, ok := lk.gotoIn[x.Label.Name]; ok && !lk.fr.inline {
			lk.cur = ljoin(lk.cur, in)
		}
		lk.stmt(x.Stmt, x.Label.Name)
	case *ast.ReturnStmt:
		for _, r := range x.Results {
			lk.valueTo(r, dynAny)
		}
		lk.leave(x.Pos())
	case *ast.DeferStmt:
		// the function value and the arguments are evaluated now, the call runs at the returns
		lk.callOperands(x.Call)
		registered := false
		for _, d := range lk.fr.defers {
			if d.call == x.Call {
				registered = true // the walk passes a statement several times (loops, gotos)
			}
		}
		if !registered {
			lk.fr.defers = append(lk.fr.defers, ldefer{pos: x.Pos(), top: lk.topLevel(s), inLoop: lk.loopDepth > 0, call: x.Call})
		}
	case *ast.GoStmt:
		lk.callOperands(x.Call)
		lk.call(x.Call, 1)
	case *ast.IfStmt:
		lk.stmt(x.Init, "")
		lk.expr(x.Cond)
		start := lk.cur.clone()
		lk.block(x.Body.List)
		thenOut := lk.cur
		lk.cur = start
		if x.Else != nil {
			lk.stmt(x.Else, "")
		}
		lk.cur = ljoin(thenOut, lk.cur)
	case *ast.ForStmt:
		lk.stmt(x.Init, "")
		lk.loop(label,
			func() {
				if x.Cond != nil {
					lk.expr(x.Cond)
				}
			},
			func() { lk.block(x.Body.List) },
			func() {
				if x.Post != nil && lk.cur != nil {
					lk.stmt(x.Post, "")
				}
			},
			x.Cond != nil)
	case *ast.RangeStmt:
		lk.expr(x.X)
		lk.loop(label, func() {}, func() { lk.block(x.Body.List) }, func() {}, true)
	case *ast.SwitchStmt, *ast.TypeSwitchStmt, *ast.SelectStmt:
		var clauses []ast.Stmt
		isSelect := false
		switch y := x.(type) {
		case *ast.SwitchStmt:
			lk.stmt(y.Init, "")
			if y.Tag != nil {
				lk.expr(y.Tag)
			}
			clauses = y.Body.List
		case *ast.TypeSwitchStmt:
			lk.stmt(y.Init, "")
			lk.stmt(y.Assign, "")
			clauses = y.Body.List
		case *ast.SelectStmt:
			clauses = y.Body.List
			isSelect = true
		}
		if lk.cur == nil {
			return
		}
		start := lk.cur.clone()
		t := &ltarget{label: label}
		lk.fr.targets = append(lk.fr.targets, t)
		var out lstate
		hasDefault := false
		for _, c := range clauses {
			lk.cur = start.clone()
			switch cc := c.(type) {
			case *ast.CaseClause:
				if cc.List == nil {
					hasDefault = true
				}
				for _, e := range cc.List {
					lk.expr(e)
				}
				lk.block(cc.Body)
			case *ast.CommClause:
				if cc.Comm == nil {
					hasDefault = true
				} else {
					lk.stmt(cc.Comm, "")
				}
				lk.block(cc.Body)
			}
			out = ljoin(out, lk.cur)
		}
		lk.fr.targets = lk.fr.targets[:len(lk.fr.targets)-1]
		if !hasDefault && !isSelect {
			out = ljoin(out, start)
		}
		if isSelect && len(clauses) == 0 {
			out = nil // select {} blocks for ever
		}
		lk.cur = ljoin(out, t.breaks)
	case *ast.BranchStmt:
		lab := ""
		if x.Label != nil {
			lab = x.Label.Name
		}
		switch x.Tok {
		case token.BREAK:
			if t := lk.findTarget(lab, false); t != nil {
				t.breaks = ljoin(t.breaks, lk.cur)
			} else {
				lk.w.unsupported("break-target:%s", lk.fn.name)
			}
		case token.CONTINUE:
			if t := lk.findTarget(lab, true); t != nil {
				t.continues = ljoin(t.continues, lk.cur)
			} else {
				lk.w.unsupported("continue-target:%s", lk.fn.name)
			}
		case token.GOTO:
			if lk.fr.inline {
				lk.w.unsupported("goto-in-inline-literal:%s", lk.fn.name)
			} else {
				lk.gotoOut[lab] = ljoin(lk.gotoOut[lab], lk.cur)
			}
		default:
			lk.w.unsupported("%s:%s", strings.ToLower(x.Tok.String()), lk.fn.name)
		}
		lk.cur = nil
	default:
		lk.w.unsupported("%T:%s", s, lk.fn.name)
	}
}

// function literals in unreachable code are still analysed as functions of their own
func (lk *lwalker) deadScan(n ast.Node) {
	ast.Inspect(n, func(m ast.Node) bool {
		if lit, ok := m.(*ast.FuncLit); ok {
			fn := lk.w.litFunc(lit, lk.fn)
			lk.w.bind(dynAny, fn.name)
			return false
		}
		return true
	})
}

func unparen(e ast.Expr) ast.Expr {
	for {
		p, ok := e.(*ast.ParenExpr)
		if !ok {
			return e
		}
		e = p.X
	}
}

// the slot an assignment target stands for
func (lk *lwalker) slotOfExpr(e ast.Expr) string {
	switch x := unparen(e).(type) {
	case *ast.Ident:
		if x.Name == "_" {
			return ""
		}
		if obj := lk.info().ObjectOf(x); obj != nil {
			if _, ok := obj.(*types.Var); ok {
				return lk.w.slotOfVar(obj)
			}
		}
		return dynAny
	case *ast.SelectorExpr:
		if sel, ok := lk.info().Selections[x]; ok {
			if sel.Kind() == types.FieldVal {
				return lk.w.slotOfVar(sel.Obj())
			}
			return dynAny
		}
		return "field:" + x.Sel.Name
	}
	return dynAny
}

// If e denotes a function value (literal, method value, declared function, or a variable / field that
// may hold one) return its node name.
func (lk *lwalker) funcValue(e ast.Expr) (string, bool) {
	switch x := unparen(e).(type) {
	case *ast.FuncLit:
		return lk.w.litFunc(x, lk.fn).name, true
	case *ast.Ident:
		switch obj := lk.info().ObjectOf(x).(type) {
		case *types.Func:
			if _, ok := lk.w.byPath[pkgPath(obj)]; ok {
				return lk.w.nameOfFunc(obj), true
			}
		case *types.Var:
			if couldBeFunc(obj.Type()) {
				return lk.w.slotOfVar(obj), true
			}
		}
	case *ast.SelectorExpr:
		if sel, ok := lk.info().Selections[x]; ok {
			switch sel.Kind() {
			case types.MethodVal:
				if f, ok := sel.Obj().(*types.Func); ok {
					if names := lk.w.methodTargets(sel, f); len(names) > 0 {
						if len(names) == 1 {
							return names[0], true
						}
						// a method value of an interface: a slot bound to every implementation
						slot := "methodvalue:" + f.Name() + "@" + lk.w.posStr(x.Pos())
						for _, n := range names {
							lk.w.bind(slot, n)
						}
						return slot, true
					}
				}
			case types.FieldVal:
				if couldBeFunc(sel.Obj().Type()) {
					return lk.w.slotOfVar(sel.Obj()), true
				}
			}
			return "", false
		}
		// qualified identifier of a module package
		if id, ok := x.X.(*ast.Ident); ok {
			if pn, ok := lk.info().ObjectOf(id).(*types.PkgName); ok {
				if f, ok := lk.info().ObjectOf(x.Sel).(*types.Func); ok {
					if _, ok := lk.w.byPath[pn.Imported().Path()]; ok {
						return lk.w.nameOfFunc(f), true
					}
				}
				return "", false
			}
		}
		// unknown receiver type: a field of that name, or a method of that name
		if ms := lk.w.methodsOnly[x.Sel.Name]; len(ms) > 0 && !lk.externalExpr(x.X) {
			slot := "methodvalue:" + x.Sel.Name + "@" + lk.w.posStr(x.Pos())
			for _, n := range ms {
				lk.w.bind(slot, n)
			}
			lk.w.byName[fmt.Sprintf("%s|%s (value)|%s", lk.fn.name, types.ExprString(x), strings.Join(ms, ","))] = true
			return slot, true
		}
		return "field:" + x.Sel.Name, true
	}
	return "", false
}

func pkgPath(o types.Object) string {
	if o == nil || o.Pkg() == nil {
		return ""
	}
	return o.Pkg().Path()
}

// walk e; if it is a function value, record that it flows into slot
func (lk *lwalker) valueTo(e ast.Expr, slot string) {
	if e == nil {
		return
	}
	u := unparen(e)
	if _, isCall := u.(*ast.CallExpr); !isCall {
		if v, ok := lk.funcValue(u); ok {
			if slot != "" {
				lk.w.bind(slot, v)
			} else {
				lk.w.bind(dynAny, v)
			}
			// operands of a method value are evaluated
			if se, ok := u.(*ast.SelectorExpr); ok {
				lk.expr(se.X)
			}
			return
		}
	}
	lk.expr(e)
}

func (lk *lwalker) expr(e ast.Expr) {
	if e == nil || lk.cur == nil {
		if e != nil {
			lk.deadScan(e)
		}
		return
	}
	switch x := e.(type) {
	case *ast.CallExpr:
		lk.callOperands(x)
		lk.call(x, 0)
	case *ast.FuncLit:
		// a literal in a position that is not tracked: it escapes
		lk.w.bind(dynAny, lk.w.litFunc(x, lk.fn).name)
	case *ast.ParenExpr:
		lk.expr(x.X)
	case *ast.BinaryExpr:
		lk.expr(x.X)
		lk.expr(x.Y)
	case *ast.UnaryExpr:
		lk.expr(x.X)
	case *ast.StarExpr:
		lk.expr(x.X)
	case *ast.SelectorExpr:
		if sel, ok := lk.info().Selections[x]; ok && sel.Kind() == types.MethodVal {
			// a method value in an untracked position
			if v, ok := lk.funcValue(x); ok {
				lk.w.bind(dynAny, v)
			}
		}
		lk.expr(x.X)
	case *ast.IndexExpr:
		lk.expr(x.X)
		lk.expr(x.Index)
	case *ast.IndexListExpr:
		lk.expr(x.X)
	case *ast.SliceExpr:
		lk.expr(x.X)
		lk.expr(x.Low)
		lk.expr(x.High)
		lk.expr(x.Max)
	case *ast.TypeAssertExpr:
		lk.expr(x.X)
	case *ast.KeyValueExpr:
		lk.expr(x.Key)
		lk.expr(x.Value)
	case *ast.CompositeLit:
		for _, el := range x.Elts {
			if kv, ok := el.(*ast.KeyValueExpr); ok {
				slot := dynAny
				if id, ok := kv.Key.(*ast.Ident); ok {
					if v, isVar := lk.info().ObjectOf(id).(*types.Var); (isVar && v.IsField()) || lk.info().ObjectOf(id) == nil {
						slot = "field:" + id.Name
					} else {
						lk.expr(kv.Key)
					}
				} else {
					lk.expr(kv.Key)
				}
				lk.valueTo(kv.Value, slot)
			} else {
				lk.valueTo(el, dynAny)
			}
		}
	case *ast.Ident:
		// a declared function or a function variable used as a value in an untracked position
		if f, ok := lk.info().ObjectOf(x).(*types.Func); ok {
			if _, ok := lk.w.byPath[pkgPath(f)]; ok {
				lk.w.bind(dynAny, lk.w.nameOfFunc(f))
			}
		}
	}
}

// is the expression's declared type a type of a package outside the module (net.PacketConn, log.Logger, ...)?
func (lk *lwalker) externalExpr(e ast.Expr) bool {
	var obj types.Object
	switch x := unparen(e).(type) {
	case *ast.Ident:
		obj = lk.info().ObjectOf(x)
		if _, ok := obj.(*types.PkgName); ok {
			return true
		}
	case *ast.SelectorExpr:
		if sel, ok := lk.info().Selections[x]; ok {
			obj = sel.Obj()
		} else if id, ok := x.X.(*ast.Ident); ok {
			if _, ok := lk.info().ObjectOf(id).(*types.PkgName); ok {
				return true // pkg.Var
			}
		}
	case *ast.CallExpr:
		// result of a call of an external function
		if se, ok := x.Fun.(*ast.SelectorExpr); ok {
			return lk.externalExpr(se.X)
		}
	case *ast.StarExpr:
		return lk.externalExpr(x.X)
	case *ast.UnaryExpr:
		return lk.externalExpr(x.X)
	case *ast.IndexExpr:
		return lk.externalExpr(x.X)
	}
	if obj == nil {
		return false
	}
	if dt, ok := lk.w.declType[obj]; ok {
		return lk.externalTypeExpr(dt)
	}
	if ie, ok := lk.w.initExpr[obj]; ok && !lk.visiting[obj] && !lk.declOnly {
		// defined from a call of / a selection on something external
		lk.visiting[obj] = true
		defer delete(lk.visiting, obj)
		switch y := unparen(ie).(type) {
		case *ast.CallExpr:
			if ts := lk.resolve(y); len(ts.names) == 0 && ts.external {
				return true
			}
			return false
		case *ast.CompositeLit:
			return y.Type != nil && lk.externalTypeExpr(y.Type)
		case *ast.UnaryExpr:
			if cl, ok := y.X.(*ast.CompositeLit); ok {
				return cl.Type != nil && lk.externalTypeExpr(cl.Type)
			}
		}
		return lk.externalExpr(ie)
	}
	return false
}

func (lk *lwalker) externalTypeExpr(t ast.Expr) bool {
	switch x := t.(type) {
	case *ast.StarExpr:
		return lk.externalTypeExpr(x.X)
	case *ast.ParenExpr:
		return lk.externalTypeExpr(x.X)
	case *ast.IndexExpr:
		return lk.externalTypeExpr(x.X)
	case *ast.IndexListExpr:
		return lk.externalTypeExpr(x.X)
	case *ast.SelectorExpr:
		if id, ok := x.X.(*ast.Ident); ok {
			if pn, ok := lk.info().ObjectOf(id).(*types.PkgName); ok {
				_, local := lk.w.byPath[pn.Imported().Path()]
				return !local
			}
			if lk.info().ObjectOf(id) == nil {
				return true // unresolved qualifier: an import the fake importer named differently
			}
		}
	case *ast.Ident:
		switch x.Name {
		case "error":
			return true
		}
	}
	return false
}

// the analysed functions a method selection may call. A method of an interface becomes a node of its
// own ("iface:pkg.Iface.Method"), bound to the method of every analysed type that implements the interface.
func (w *lockWorld) methodTargets(sel *types.Selection, f *types.Func) []string {
	recv := sel.Recv()
	isIface := false
	if _, ok := recv.Underlying().(*types.Interface); ok {
		isIface = true
	} else if p, ok := recv.Underlying().(*types.Pointer); ok {
		_, isIface = p.Elem().Underlying().(*types.Interface)
	}
	if _, ok := recv.(*types.TypeParam); ok {
		isIface = true
	}
	if !isIface {
		if _, ok := w.byPath[pkgPath(f)]; !ok {
			return nil
		}
		return []string{w.nameOfFunc(f)}
	}
	var iface *types.Interface
	if i, ok := recv.Underlying().(*types.Interface); ok {
		iface = i
	}
	node := "iface:"
	if nt := namedOf(recv); nt != nil {
		node += w.pkgPrefix(nt.Obj().Pkg()) + nt.Obj().Name() + "."
	} else {
		node += "?."
	}
	node += f.Name()
	if w.ifaces[node] {
		return []string{node}
	}
	w.ifaces[node] = true
	for _, p := range w.pkgs {
		if p.tpkg == nil {
			continue
		}
		sc := p.tpkg.Scope()
		for _, n := range sc.Names() {
			tn, ok := sc.Lookup(n).(*types.TypeName)
			if !ok {
				continue
			}
			nt, ok := tn.Type().(*types.Named)
			if !ok {
				continue
			}
			if _, isI := nt.Underlying().(*types.Interface); isI {
				continue
			}
			if iface != nil && nt.TypeParams().Len() == 0 &&
				!types.Implements(nt, iface) && !types.Implements(types.NewPointer(nt), iface) {
				continue
			}
			for i := 0; i < nt.NumMethods(); i++ {
				if m := nt.Method(i); m.Name() == f.Name() {
					w.bind(node, w.nameOfFunc(m))
				}
			}
		}
	}
	return []string{node}
}

var lockOps = map[string]int{"Lock": 0, "RLock": 1, "Unlock": 2, "RUnlock": 3, "TryLock": 4, "TryRLock": 4}

// the mutex class an expression denotes, "" if none
func (lk *lwalker) mutexOf(e ast.Expr) string {
	switch x := unparen(e).(type) {
	case *ast.Ident:
		if obj := lk.info().ObjectOf(x); obj != nil {
			return lk.w.mutexes[obj]
		}
	case *ast.SelectorExpr:
		if sel, ok := lk.info().Selections[x]; ok {
			return lk.w.mutexes[sel.Obj()]
		}
		if obj := lk.info().ObjectOf(x.Sel); obj != nil {
			return lk.w.mutexes[obj]
		}
	case *ast.UnaryExpr:
		return lk.mutexOf(x.X)
	case *ast.StarExpr:
		return lk.mutexOf(x.X)
	}
	return ""
}

// evaluate what a call evaluates before it runs: the receiver expression and the arguments.
// Arguments that are function values are bound to the callee's parameters in call().
func (lk *lwalker) callOperands(c *ast.CallExpr) {
	switch f := unparen(c.Fun).(type) {
	case *ast.SelectorExpr:
		lk.expr(f.X)
	case *ast.FuncLit:
	case *ast.Ident:
	default:
		lk.expr(f)
	}
	for _, a := range c.Args {
		u := unparen(a)
		if _, isCall := u.(*ast.CallExpr); !isCall {
			if _, ok := lk.funcValue(u); ok {
				if se, ok := u.(*ast.SelectorExpr); ok {
					lk.expr(se.X)
				}
				continue // bound in call()
			}
		}
		lk.expr(a)
	}
}

type ltargetSet struct {
	names    []string // analysed functions or slots
	external bool     // leaves the analysed code
	kind     string   // what kind of external call: pkg:<import path>, ext:<type>, byname:<method>, unknown:<text>
	text     string
}

func isValidType(t types.Type) bool {
	if t == nil {
		return false
	}
	if b, ok := t.Underlying().(*types.Basic); ok && b.Kind() == types.Invalid {
		return false
	}
	if p, ok := t.Underlying().(*types.Pointer); ok {
		return isValidType(p.Elem())
	}
	return true
}

// declared type of the object an expression denotes, as source text
func (lk *lwalker) declTypeText(e ast.Expr) string {
	var obj types.Object
	switch x := unparen(e).(type) {
	case *ast.Ident:
		obj = lk.info().ObjectOf(x)
	case *ast.SelectorExpr:
		if sel, ok := lk.info().Selections[x]; ok {
			obj = sel.Obj()
		}
	}
	if obj != nil {
		if dt, ok := lk.w.declType[obj]; ok {
			return types.ExprString(dt)
		}
	}
	return "?"
}

func (lk *lwalker) typedSlot(obj types.Object) string {
	s := lk.w.slotOfVar(obj)
	lk.w.typed[s] = true
	return s
}

func (lk *lwalker) resolve(c *ast.CallExpr) ltargetSet {
	fun := unparen(c.Fun)
	text := types.ExprString(fun)
	switch f := fun.(type) {
	case *ast.Ident:
		switch obj := lk.info().ObjectOf(f).(type) {
		case *types.Func:
			if _, ok := lk.w.byPath[pkgPath(obj)]; ok {
				return ltargetSet{names: []string{lk.w.nameOfFunc(obj)}, text: text}
			}
			return ltargetSet{external: true, kind: "pkg:" + pkgPath(obj), text: text}
		case *types.Var:
			return ltargetSet{names: []string{lk.typedSlot(obj)}, text: text}
		case *types.Builtin, *types.TypeName, *types.Nil:
			return ltargetSet{text: text}
		case nil:
			// unresolved identifier: a function of this package that did not type check?
			if ms := lk.w.methods[f.Name]; len(ms) > 0 {
				lk.w.byName[fmt.Sprintf("%s|%s|%s", lk.fn.name, text, strings.Join(ms, ","))] = true
				return ltargetSet{names: ms, text: text}
			}
			return ltargetSet{external: true, kind: "unknown:" + text, text: text}
		}
		return ltargetSet{external: true, kind: "unknown:" + text, text: text}
	case *ast.SelectorExpr:
		if sel, ok := lk.info().Selections[f]; ok {
			switch sel.Kind() {
			case types.MethodVal:
				m := sel.Obj().(*types.Func)
				names := lk.w.methodTargets(sel, m)
				if len(names) == 0 {
					return ltargetSet{external: true, kind: "ext:" + pkgPath(m), text: text}
				}
				return ltargetSet{names: names, text: text}
			case types.FieldVal:
				return ltargetSet{names: []string{lk.typedSlot(sel.Obj())}, text: text}
			}
			return ltargetSet{external: true, kind: "unknown:" + text, text: text}
		}
		if id, ok := f.X.(*ast.Ident); ok {
			if pn, ok := lk.info().ObjectOf(id).(*types.PkgName); ok {
				if _, local := lk.w.byPath[pn.Imported().Path()]; local {
					if fo, ok := lk.info().ObjectOf(f.Sel).(*types.Func); ok {
						return ltargetSet{names: []string{lk.w.nameOfFunc(fo)}, text: text}
					}
					if _, ok := lk.info().ObjectOf(f.Sel).(*types.TypeName); ok {
						return ltargetSet{text: text}
					}
					if vo, ok := lk.info().ObjectOf(f.Sel).(*types.Var); ok {
						return ltargetSet{names: []string{lk.typedSlot(vo)}, text: text}
					}
				}
				return ltargetSet{external: true, kind: "pkg:" + pn.Imported().Path(), text: text}
			}
			if lk.info().ObjectOf(id) == nil {
				return ltargetSet{external: true, kind: "pkg:?" + id.Name, text: text} // unresolved qualifier
			}
		}
		ms := lk.w.methodsOnly[f.Sel.Name]
		lk.declOnly = len(ms) > 0 // a value merely obtained from other modules may still be of a type of this module
		ext := lk.externalExpr(f.X)
		lk.declOnly = false
		if ext {
			return ltargetSet{external: true, kind: "ext:" + lk.declTypeText(f.X), text: text}
		}
		if tv, ok := lk.info().Types[f.X]; ok && isValidType(tv.Type) {
			// the receiver has a type of the module, the method is not one of its own: promoted from an
			// embedded type of another module
			return ltargetSet{external: true, kind: "ext:embedded in " + tv.Type.String(), text: text}
		}
		// receiver of unknown type: every analysed method of that name, and a field of that name
		names := append([]string{}, ms...)
		names = append(names, "field:"+f.Sel.Name)
		if len(ms) > 0 {
			lk.w.byName[fmt.Sprintf("%s|%s|%s", lk.fn.name, text, strings.Join(ms, ","))] = true
			return ltargetSet{names: names, external: true, kind: "byname:" + f.Sel.Name, text: text}
		}
		return ltargetSet{names: names, external: true, kind: "ext:?", text: text}
	case *ast.FuncLit:
		return ltargetSet{text: "func literal"}
	case *ast.ArrayType, *ast.MapType, *ast.ChanType, *ast.FuncType, *ast.InterfaceType, *ast.StarExpr, *ast.StructType:
		return ltargetSet{text: text} // conversion
	case *ast.IndexExpr:
		// generic instantiation f[T](...) or a call of a slice / map element
		inner := &ast.CallExpr{Fun: f.X, Args: c.Args}
		if tv, ok := lk.info().Types[f.X]; ok && !tv.IsType() {
			if _, isFn := lk.info().ObjectOf(identOf(f.X)).(*types.Func); isFn {
				return lk.resolve(inner)
			}
		}
		if tv, ok := lk.info().Types[f]; ok && tv.IsType() {
			return ltargetSet{text: text}
		}
		if id := identOf(f.X); id != nil {
			if _, isPkgFn := f.X.(*ast.SelectorExpr); isPkgFn && lk.externalExpr(f.X.(*ast.SelectorExpr).X) {
				return lk.resolve(inner)
			}
		}
		return ltargetSet{names: []string{dynAny}, external: true, kind: "unknown:" + text, text: text}
	}
	return ltargetSet{names: []string{dynAny}, external: true, kind: "unknown:" + text, text: text}
}

func identOf(e ast.Expr) *ast.Ident {
	switch x := e.(type) {
	case *ast.Ident:
		return x
	case *ast.SelectorExpr:
		return x.Sel
	}
	return nil
}

func (lk *lwalker) call(c *ast.CallExpr, mode int) {
	if lk.cur == nil {
		return
	}
	fun := unparen(c.Fun)
	// conversion?
	if tv, ok := lk.info().Types[fun]; ok && tv.IsType() {
		return
	}
	// literal invoked in place
	if lit, ok := fun.(*ast.FuncLit); ok {
		if mode == 1 {
			fn := lk.w.litFunc(lit, lk.fn)
			lk.addCall(fn.name, 1)
			lk.bindArgs(c, []string{fn.name}, false)
			return
		}
		lk.bindArgs(c, nil, false)
		lk.inline(lit)
		return
	}
	// lock operation?
	if se, ok := fun.(*ast.SelectorExpr); ok && len(c.Args) == 0 {
		if op, isOp := lockOps[se.Sel.Name]; isOp {
			m := lk.mutexOf(se.X)
			if m == "" {
				if _, declared := lk.w.methods[se.Sel.Name]; !declared {
					lk.w.unsupported("lock-op-on-unknown-mutex:%s:%s", lk.fn.name, types.ExprString(fun))
				}
			} else {
				if mode == 1 {
					lk.w.unsupported("go-lock-op:%s:%s", lk.fn.name, types.ExprString(fun))
					return
				}
				switch op {
				case 0, 1:
					lk.addAcq(m, op)
					lk.cur[m] = bitH
				case 2, 3:
					lk.cur[m] = bitU
				default:
					lk.w.unsupported("trylock:%s:%s", lk.fn.name, types.ExprString(fun))
				}
				return
			}
		}
	}
	ts := lk.resolve(c)
	for _, n := range ts.names {
		if strings.Contains(n, ":") { // a slot
			lk.w.slotCall[n] = true
		}
		lk.addCall(n, mode)
	}
	if ts.external && mode == 0 && lk.emit && lk.cur.anyHeld() {
		lk.w.external[lk.fn.name+"|"+ts.text+"|"+ts.kind+"|"+lk.cur.key()] = true
		lk.w.kinds[ts.kind] = true
	}
	lk.bindArgs(c, ts.names, ts.external || len(ts.names) == 0)
}

// function values among the arguments: bound to the parameters of the analysed callees; when the
// callee is not (only) analysed code, assumed to be invoked by it there and then, and to escape.
func (lk *lwalker) bindArgs(c *ast.CallExpr, callees []string, external bool) {
	for i, a := range c.Args {
		u := unparen(a)
		if _, isCall := u.(*ast.CallExpr); isCall {
			continue
		}
		v, ok := lk.funcValue(u)
		if !ok {
			continue
		}
		bound := false
		for _, cal := range callees {
			fn, ok := lk.w.fns[cal]
			if !ok {
				continue
			}
			if pn := lk.w.paramName(fn, i); pn != "" {
				lk.w.bind("param:"+fn.name+"."+pn, v)
				bound = true
			}
		}
		if !bound || external {
			lk.w.bind(dynAny, v)
			// a function value handed to code we do not see: assume it is called right here
			lk.addCall(v, 0)
		}
	}
}

// name of the i-th parameter of an analysed function (the variadic parameter takes the rest)
func (w *lockWorld) paramName(fn *lockFn, i int) string {
	ft := fn.ftype
	if ft == nil || ft.Params == nil {
		return ""
	}
	k := 0
	var last string
	for _, fld := range ft.Params.List {
		names := fld.Names
		if len(names) == 0 {
			k++
			last = ""
			continue
		}
		for _, nm := range names {
			if k == i {
				if nm.Name == "_" {
					return ""
				}
				return nm.Name
			}
			last = nm.Name
			k++
		}
		if _, variadic := fld.Type.(*ast.Ellipsis); variadic && i >= k && last != "_" {
			return last
		}
	}
	return ""
}

// ---------------------------------------------------------------------------------------------
// emission

func lockFacts() {
	w := &lockWorld{
		pkgs: map[string]*lpkg{}, byPath: map[string]*lpkg{},
		info: &types.Info{
			Types: map[ast.Expr]types.TypeAndValue{}, Defs: map[*ast.Ident]types.Object{}, Uses: map[*ast.Ident]types.Object{},
			Selections: map[*ast.SelectorExpr]*types.Selection{}, Implicits: map[ast.Node]types.Object{},
		},
		fns: map[string]*lockFn{}, litFn: map[*ast.FuncLit]*lockFn{}, funcName: map[*types.Func]string{},
		mutexes: map[types.Object]string{}, declType: map[types.Object]ast.Expr{}, varSlot: map[types.Object]string{},
		methods: map[string][]string{}, binds: map[string]map[string]bool{}, slotCall: map[string]bool{},
		unsup: map[string]bool{}, external: map[string]bool{}, byName: map[string]bool{}, checking: map[string]bool{}, lenConsts: map[string][]string{},
		initExpr: map[types.Object]ast.Expr{}, typed: map[string]bool{}, ifaces: map[string]bool{}, methodsOnly: map[string][]string{}, kinds: map[string]bool{},
	}
	lw = w
	w.load()
	w.collectDecls()
	w.collectFuncs()
	for len(w.queue) > 0 {
		fn := w.queue[0]
		w.queue = w.queue[1:]
		w.analyse(fn)
	}

	// mutex ids
	mset := map[string]bool{}
	for _, m := range w.mutexes {
		mset[m] = true
	}
	var mutexes []string
	for m := range mset {
		mutexes = append(mutexes, m)
	}
	sort.Strings(mutexes)
	mid := map[string]int{}
	for i, m := range mutexes {
		mid[m] = i
	}

	// Slots. A dynamic call through a variable / parameter / field of the module (a "typed" slot) may call
	// what was bound to the slot, what flows into it from other slots, and any function value whose flow
	// was not tracked (dyn:*). A call `x.f()` on a receiver of unknown type may call a function bound to a
	// field named f. Slots that nothing can flow into are dropped, together with the calls through them;
	// typed slots and interface methods are kept even then (they are the callbacks the audit lists).
	isSlot := func(n string) bool { _, isFn := w.fns[n]; return !isFn }
	called := map[string]bool{}
	for _, fn := range w.fnOrder {
		for _, c := range fn.calls {
			if isSlot(c.callee) {
				called[c.callee] = true
			}
		}
	}
	for s := range called {
		if w.typed[s] && s != dynAny {
			w.bind(s, dynAny)
		}
	}
	nonEmpty := map[string]bool{}
	for changed := true; changed; {
		changed = false
		for s, vs := range w.binds {
			if nonEmpty[s] {
				continue
			}
			for v := range vs {
				if !isSlot(v) || nonEmpty[v] {
					nonEmpty[s] = true
					changed = true
					break
				}
			}
		}
	}
	keep := map[string]bool{}
	for s := range called {
		if nonEmpty[s] || w.typed[s] || w.ifaces[s] || s == dynAny {
			keep[s] = true
		}
	}
	for changed := true; changed; {
		changed = false
		for s, vs := range w.binds {
			if !keep[s] {
				continue
			}
			for v := range vs {
				if isSlot(v) && !keep[v] && (nonEmpty[v] || v == dynAny) {
					keep[v] = true
					changed = true
				}
			}
		}
	}
	var slots []string
	for s := range keep {
		slots = append(slots, s)
	}
	sort.Strings(slots)
	fid := map[string]int{}
	var names []string
	for _, fn := range w.fnOrder {
		fid[fn.name] = len(names)
		names = append(names, fn.name)
	}
	for _, s := range slots {
		fid[s] = len(names)
		names = append(names, s)
	}
	type bindRow struct{ s, v string }
	var bindRows []bindRow
	var unbound []string
	for _, s := range slots {
		var vs []string
		own := 0
		for v := range w.binds[s] {
			if _, ok := fid[v]; ok {
				vs = append(vs, v)
				if v != dynAny {
					own++
				}
			}
		}
		if own == 0 && s != dynAny {
			unbound = append(unbound, s)
		}
		sort.Strings(vs)
		for _, v := range vs {
			bindRows = append(bindRows, bindRow{s, v})
		}
	}

	st := func(s lstate) string {
		var parts []string
		for _, m := range mutexes {
			if b := s.get(m); b != bitE {
				parts = append(parts, fmt.Sprintf("(%d, %d)", mid[m], b))
			}
		}
		return "[" + strings.Join(parts, ", ") + "]"
	}

	var files []string
	var dirs []string
	for d := range w.pkgs {
		dirs = append(dirs, d)
	}
	sort.Strings(dirs)
	for _, d := range dirs {
		files = append(files, w.pkgs[d].rels...)
	}
	defStrList("lockFiles", files, "files whose functions are analysed for the lock facts (extract/locks.go)")
	defStrList("lockMutexes", mutexes, "mutex classes: every struct field / variable of type sync.Mutex or sync.RWMutex in lockFiles; index = mutex id")
	defStrList("lockFuncNames", names, "analysed functions (`F$n`: n-th function literal of F that is not invoked in place), then the slots through which function values are called; index = function id")
	fmt.Fprintf(&out, "/-- number of analysed functions: ids below are functions, ids from here on are slots -/\ndef lockNumFuncs : Nat := %d\n\n/-- number of functions and slots -/\ndef lockNumNodes : Nat := %d\n\n", len(w.fnOrder), len(names))
	out.WriteString("/-- per function: (id, acquires, calls, exit); a slot's calls are its bindings (lockBinds).\n" +
		"acquires: (mutex, op 0=Lock 1=RLock, state just before); calls: (callee, mode 0=same goroutine 1=go, state at the call);\n" +
		"exit: state at return. A state lists (mutex, bits) relative to the function's entry: 1 = untouched (E), 2 = locked by the\n" +
		"function (H), 4 = unlocked by the function (U), sums = depends on the path; an unlisted mutex has bits 1. See extract/locks.go. -/\n" +
		"def lockFuncs : List (Nat × List (Nat × Nat × List (Nat × Nat)) × List (Nat × Nat × List (Nat × Nat)) × List (Nat × Nat)) := [\n")
	for i, n := range names {
		var acqs, calls []string
		exit := "[]"
		if fn, ok := w.fns[n]; ok {
			for _, a := range fn.acqs {
				acqs = append(acqs, fmt.Sprintf("(%d, %d, %s)", mid[a.m], a.op, st(a.st)))
			}
			for _, c := range fn.calls {
				id, ok := fid[c.callee]
				if !ok {
					if !isSlot(c.callee) {
						w.unsupported("callee-without-id:%s:%s", fn.name, c.callee)
					}
					continue // a slot nothing flows into
				}
				calls = append(calls, fmt.Sprintf("(%d, %d, %s)", id, c.mode, st(c.st)))
			}
			exit = st(fn.exit)
		}
		for _, b := range bindRows {
			if b.s == n {
				calls = append(calls, fmt.Sprintf("(%d, 0, [])", fid[b.v]))
			}
		}
		sep := ","
		if i == len(names)-1 {
			sep = ""
		}
		fmt.Fprintf(&out, "  /- %s -/ (%d, [%s], [%s], %s)%s\n", strings.ReplaceAll(n, "-/", "- /"), i, strings.Join(acqs, ", "), strings.Join(calls, ", "), exit, sep)
	}
	out.WriteString("]\n\n")
	out.WriteString("/-- (slot, value): a dynamic call through `slot` may call `value` (a function id, or another slot).\n" +
		"field:X = struct field X of function type (keyed by field name), param:F.p = parameter p of F, var:… = variable,\n" +
		"dyn:* = function values whose flow is not tracked (returned, stored in containers, handed to code outside the module). -/\n" +
		"def lockBinds : List (Nat × Nat) := [")
	for i, b := range bindRows {
		if i > 0 {
			out.WriteString(",")
		}
		fmt.Fprintf(&out, "\n  /- %s <- %s -/ (%d, %d)", b.s, b.v, fid[b.s], fid[b.v])
	}
	out.WriteString("]\n\n")
	// Certificates for the interprocedural part. Lean does not trust them: it checks that each table is a
	// post-fixpoint of the corresponding rule over lockFuncs / lockBinds (Model/Locks.lean `closed`,
	// `closedH`), which is all the soundness lemmas need; least fixpoints are computed here only because
	// evaluating a fixpoint inside the Lean kernel is slow.
	type ncall struct {
		callee, mode int
		st           lstate
	}
	type nacq struct {
		m  int
		st lstate
	}
	type nfn struct {
		acqs  []nacq
		calls []ncall
		exit  lstate
	}
	nprog := make([]nfn, len(names))
	for i, n := range names {
		if fn, ok := w.fns[n]; ok {
			for _, a := range fn.acqs {
				nprog[i].acqs = append(nprog[i].acqs, nacq{mid[a.m], a.st})
			}
			for _, c := range fn.calls {
				if id, ok := fid[c.callee]; ok {
					nprog[i].calls = append(nprog[i].calls, ncall{id, c.mode, c.st})
				}
			}
			nprog[i].exit = fn.exit
		}
	}
	for _, b := range bindRows {
		nprog[fid[b.s]].calls = append(nprog[fid[b.s]].calls, ncall{fid[b.v], 0, lstate{}})
	}
	newTbl := func() []map[int]bool {
		t := make([]map[int]bool, len(names))
		for i := range t {
			t[i] = map[int]bool{}
		}
		return t
	}
	acquire := func(rel bool) []map[int]bool {
		t := newTbl()
		for changed := true; changed; {
			changed = false
			for f, fn := range nprog {
				for _, a := range fn.acqs {
					if (!rel || a.st.get(mutexes[a.m])&bitE != 0) && !t[f][a.m] {
						t[f][a.m] = true
						changed = true
					}
				}
				for _, c := range fn.calls {
					if c.mode != 0 {
						continue
					}
					for m := range t[c.callee] {
						if (!rel || c.st.get(mutexes[m])&bitE != 0) && !t[f][m] {
							t[f][m] = true
							changed = true
						}
					}
				}
			}
		}
		return t
	}
	mayAcq := acquire(true)
	anyAcq := acquire(false)
	heldOn := newTbl()
	for changed := true; changed; {
		changed = false
		for f, fn := range nprog {
			for _, c := range fn.calls {
				if c.mode != 0 {
					continue
				}
				for mi, m := range mutexes {
					b := c.st.get(m)
					if (b&bitH != 0 || (b&bitE != 0 && heldOn[f][mi])) && !heldOn[c.callee][mi] {
						heldOn[c.callee][mi] = true
						changed = true
					}
				}
			}
		}
	}
	// lock order: m1 -> m2 if m2 is acquired while m1 is held; rank = longest path (0 everywhere if cyclic)
	edge := map[[2]int]bool{}
	for _, fn := range nprog {
		for _, a := range fn.acqs {
			for mi, m := range mutexes {
				if a.st.get(m)&bitH != 0 && mi != a.m {
					edge[[2]int{mi, a.m}] = true
				}
			}
		}
		for _, c := range fn.calls {
			if c.mode != 0 {
				continue
			}
			for mi, m := range mutexes {
				if c.st.get(m)&bitH != 0 {
					for m2 := range anyAcq[c.callee] {
						if m2 != mi {
							edge[[2]int{mi, m2}] = true
						}
					}
				}
			}
		}
	}
	rank := make([]int, len(mutexes))
	for round := 0; round <= len(mutexes); round++ {
		changed := false
		for e := range edge {
			if rank[e[1]] < rank[e[0]]+1 {
				rank[e[1]] = rank[e[0]] + 1
				changed = true
			}
		}
		if !changed {
			break
		}
		if round == len(mutexes) {
			for i := range rank {
				rank[i] = 0 // cyclic: no rank exists
			}
		}
	}
	out.WriteString("/-- search tree keyed by function id: the form in which the tables below are looked up by the kernel -/\n" +
		"inductive LTree where\n  | leaf\n  | node (l : LTree) (k : Nat) (v : List Nat) (r : LTree)\n  deriving Repr\n\n")
	sparse := func(name, doc string, t []map[int]bool) {
		type ent struct {
			f  int
			ms string
		}
		var ents []ent
		for f := range t {
			if len(t[f]) == 0 {
				continue
			}
			var ms []string
			for mi := range mutexes {
				if t[f][mi] {
					ms = append(ms, fmt.Sprint(mi))
				}
			}
			ents = append(ents, ent{f, strings.Join(ms, ", ")})
		}
		var build func(lo, hi int, ind string) string
		build = func(lo, hi int, ind string) string {
			if lo >= hi {
				return ".leaf"
			}
			mid := (lo + hi) / 2
			e := ents[mid]
			l, r := build(lo, mid, ind+" "), build(mid+1, hi, ind+" ")
			if l == ".leaf" && r == ".leaf" {
				return fmt.Sprintf("(.node .leaf %d [%s] .leaf /- %s -/)", e.f, e.ms, strings.ReplaceAll(names[e.f], "-/", "- /"))
			}
			return fmt.Sprintf("(.node\n%s %s\n%s %d [%s] /- %s -/\n%s %s)", ind, l, ind, e.f, e.ms, strings.ReplaceAll(names[e.f], "-/", "- /"), ind, r)
		}
		fmt.Fprintf(&out, "/-- %s -/\ndef %s : LTree :=\n  %s\n\n", doc, name, build(0, len(ents), "  "))
	}
	// Diagnostics on stdout (not part of the facts, not trusted): what the Lean checks will find.
	{
		var path func(f, m, fuel int) []string
		path = func(f, m, fuel int) []string {
			if fuel == 0 {
				return []string{names[f], "..."}
			}
			for _, a := range nprog[f].acqs {
				if a.m == m && a.st.get(mutexes[m])&bitE != 0 {
					return []string{names[f]}
				}
			}
			for _, c := range nprog[f].calls {
				if c.mode == 0 && c.st.get(mutexes[m])&bitE != 0 && mayAcq[c.callee][m] {
					return append([]string{names[f]}, path(c.callee, m, fuel-1)...)
				}
			}
			return []string{names[f]}
		}
		bad := 0
		for f, fn := range nprog {
			for _, a := range fn.acqs {
				if a.st.get(mutexes[a.m])&bitH != 0 {
					fmt.Printf("locks: RECURSION %s locks %s while it holds it\n", names[f], mutexes[a.m])
					bad++
				}
			}
			for _, c := range fn.calls {
				if c.mode != 0 {
					continue
				}
				for mi, m := range mutexes {
					if c.st.get(m)&bitH != 0 && mayAcq[c.callee][mi] {
						fmt.Printf("locks: RECURSION %s holds %s and calls %s\n", names[f], m, strings.Join(path(c.callee, mi, 64), " -> "))
						bad++
					}
					if nprog[c.callee].exit.get(m)&bitH != 0 && c.st.get(m) != bitH {
						fmt.Printf("locks: HAND-OFF %s calls %s, which may return holding %s\n", names[f], names[c.callee], m)
						bad++
					}
				}
			}
		}
		cyclic := len(edge) > 0
		for _, r := range rank {
			if r != 0 {
				cyclic = false
			}
		}
		if cyclic {
			var es []string
			for e := range edge {
				es = append(es, mutexes[e[0]]+" < "+mutexes[e[1]])
			}
			sort.Strings(es)
			fmt.Printf("locks: CYCLIC lock order among: %s\n", strings.Join(es, "; "))
			bad++
		}
		if bad == 0 {
			fmt.Printf("locks: no recursion, lock order acyclic (%d functions, %d slots, %d mutexes)\n", len(w.fnOrder), len(names)-len(w.fnOrder), len(mutexes))
		}
	}
	sparse("lockMayAcq", "certificate: (function, mutexes it may lock, itself or through same-goroutine calls, while it has not touched them itself); checked to be a post-fixpoint in Lean", mayAcq)
	sparse("lockAnyAcq", "certificate: (function, mutexes it may lock, itself or through same-goroutine calls); checked to be a post-fixpoint in Lean", anyAcq)
	sparse("lockHeldOnEntry", "certificate: (function, mutexes that callers may hold when it is entered); checked to be a post-fixpoint in Lean", heldOn)
	leaves := newTbl()
	for f, fn := range nprog {
		for mi, m := range mutexes {
			if fn.exit.get(m)&bitH != 0 {
				leaves[f][mi] = true
			}
		}
	}
	sparse("lockLeaves", "(function, mutexes it may still hold when it returns): read off the exit states of lockFuncs, checked against them in Lean", leaves)
	var rk []int64
	for _, r := range rank {
		rk = append(rk, int64(r))
	}
	defNatList("lockRank", rk, "certificate: a rank per mutex id that increases along \"acquired while held\" (all 0 if the lock order is cyclic); checked in Lean")

	var ext, byn, uns []string
	for k := range w.external {
		ext = append(ext, k)
	}
	sort.Strings(ext)
	for k := range w.byName {
		byn = append(byn, k)
	}
	sort.Strings(byn)
	for k := range w.unsup {
		uns = append(uns, k)
	}
	sort.Strings(uns)
	var kinds []string
	for k := range w.kinds {
		kinds = append(kinds, k)
	}
	sort.Strings(kinds)
	defStrList("lockUnboundSlots", unbound, "slots and interface methods that are called but have no function of the module bound to them: callbacks supplied by the user of the package (besides dyn:*)")
	defStrList("lockExternalHeld", ext, "function | callee | kind | state: calls that leave the analysed code (other modules, methods of types of other modules) while the function itself holds a mutex")
	defStrList("lockExternalKinds", kinds, "the kinds that occur in lockExternalHeld: pkg:<import path> function of another module, ext:<type> method of a type of another module, byname:<name> receiver of unknown type (also resolved to the module's methods of that name), unknown:<text>")
	defStrList("lockByName", byn, "function | callee | candidates: calls whose receiver type is unknown, resolved to every analysed function of that name")
	defStrList("lockUnsupported", uns, "shapes the lock walk does not model (goto, fallthrough, lock operations on unknown receivers, TryLock, embedded mutexes, ...); must be empty")
}
