package main

import (
	"fmt"
	"go/ast"
	"go/parser"
	"go/printer"
	"go/token"
	"go/types"
	"path/filepath"
	"reflect"
	"sort"
	"strconv"
	"strings"
)

func generate() {
	newServer := findFunc("server.go", "", "NewServer")
	// routing table K and the node count of replies
	v, ok := evalInt(compositeField(newServer, "table", "k"), nil)
	defNat("tableK", v, ok, "server.go NewServer: table{k: …}")
	mrn := findFunc("server.go", "Server", "makeReturnNodes")
	v, ok = firstIntArg(mrn, "s.closestGoodNodeInfos", 0)
	defNat("returnK", v, ok, "server.go makeReturnNodes: first argument of closestGoodNodeInfos")
	// token server
	v, ok = evalInt(compositeField(newServer, "tokenServer", "interval"), nil)
	defNat("tokenIntervalNs", v, ok, "server.go NewServer: tokenServer{interval: …} in ns")
	v, ok = evalInt(compositeField(newServer, "tokenServer", "maxIntervalDelta"), nil)
	defNat("tokenMaxDelta", v, ok, "server.go NewServer: tokenServer{maxIntervalDelta: …}")
	// IsGood windows
	isGood := findFunc("node.go", "Server", "IsGood")
	var windows []int64
	if isGood != nil {
		ast.Inspect(isGood, func(n ast.Node) bool {
			if be, ok := n.(*ast.BinaryExpr); ok && be.Op == token.LSS {
				if v, ok := evalInt(be.Y, nil); ok {
					windows = append(windows, v)
				}
			}
			return true
		})
	}
	if len(windows) != 2 {
		missing = append(missing, "const:goodWindows")
	}
	defNatList("goodWindowsNs", windows, "node.go IsGood: the two `< 15*time.Minute` windows in ns")
	// BEP 42 masks
	mf := findFunc("security.go", "", "maskForIP")
	var masks [][]int64
	if mf != nil {
		ast.Inspect(mf, func(n ast.Node) bool {
			if cl, ok := n.(*ast.CompositeLit); ok && types.ExprString(cl.Type) == "[]byte" {
				var m []int64
				for _, e := range cl.Elts {
					v, _ := evalInt(e, nil)
					m = append(m, v)
				}
				masks = append(masks, m)
			}
			return true
		})
	}
	if len(masks) != 2 {
		missing = append(missing, "const:masks")
		masks = [][]int64{nil, nil}
	}
	defNatList("v4Mask", masks[0], "security.go maskForIP: IPv4 mask")
	defNatList("v6Mask", masks[1], "security.go maskForIP: IPv6 mask")
	// compact element sizes
	for _, c := range [][3]string{
		{"sizeNodeAddr4", "krpc/CompactIPv4NodeAddrs.go", "CompactIPv4NodeAddrs"},
		{"sizeNodeAddr6", "krpc/CompactIPv6NodeAddrs.go", "CompactIPv6NodeAddrs"},
		{"sizeNodeInfo4", "krpc/CompactIPv4NodeInfo.go", "CompactIPv4NodeInfo"},
		{"sizeNodeInfo6", "krpc/CompactIPv6NodeInfo.go", "CompactIPv6NodeInfo"},
		{"sizeInfohash", "krpc/compact-infohashes.go", "CompactInfohashes"},
	} {
		fd := findFunc(c[1], c[2], "ElemSize")
		v, ok := returnedInt(fd)
		defNat(c[0], v, ok, c[1]+" ElemSize")
	}
	// error codes
	consts := constBlock("krpc/error.go")
	for _, n := range []string{"ErrorCodeGenericError", "ErrorCodeServerError", "ErrorCodeProtocolError", "ErrorCodeMethodUnknown",
		"ErrorCodeMessageValueFieldTooBig", "ErrorCodeInvalidSignature", "ErrorCodeSaltFieldTooBig",
		"ErrorCodeCasHashMismatched", "ErrorCodeSequenceNumberLessThanCurrent"} {
		v, ok := consts[n]
		defNat(strings.ToLower(n[:1])+n[1:], v, ok, "krpc/error.go "+n)
	}
	// which krpc code each bep44 error variable carries
	for _, n := range []string{"ErrValueFieldTooBig", "ErrInvalidSignature", "ErrSaltFieldTooBig", "ErrCasHashMismatched", "ErrSequenceNumberLessThanCurrent"} {
		code := varCompositeField("bep44/error.go", n, "Code")
		var v int64
		ok := false
		if se, isSel := code.(*ast.SelectorExpr); isSel {
			v, ok = consts[se.Sel.Name]
		}
		defNat("bep44"+n, v, ok, "bep44/error.go "+n+".Code")
	}
	// BEP 44 limits in Check
	chk := findFunc("bep44/item.go", "", "Check")
	var lims []int64
	if chk != nil {
		ast.Inspect(chk, func(n ast.Node) bool {
			if be, ok := n.(*ast.BinaryExpr); ok && be.Op == token.GTR {
				if v, ok := evalInt(be.Y, nil); ok {
					lims = append(lims, v)
				}
			}
			return true
		})
	}
	if len(lims) != 2 {
		missing = append(missing, "const:bep44limits")
		lims = []int64{0, 0}
	}
	defNat("bep44MaxV", lims[0], true, "bep44/item.go Check: `len(bv) > …`")
	defNat("bep44MaxSalt", lims[1], true, "bep44/item.go Check: `len(i.Salt) > …`")
	// query / traversal defaults
	tc := constBlock("transaction.go")
	v, ok = tc["defaultMaxQuerySends"]
	defNat("defaultMaxQuerySends", v, ok, "transaction.go defaultMaxQuerySends")
	start := findFunc("traversal/operation.go", "", "Start")
	av, aok := assignedIntAfterZeroTest(start, "herp.Alpha")
	defNat("traversalDefaultAlpha", av, aok, "traversal/operation.go Start: default Alpha")
	kv, kok := assignedIntAfterZeroTest(start, "herp.K")
	defNat("traversalDefaultK", kv, kok, "traversal/operation.go Start: default K")

	// schemas from struct tags
	schema("schemaMsg", "krpc/msg.go", "Msg")
	schema("schemaMsgArgs", "krpc/msg.go", "MsgArgs")
	schema("schemaReturn", "krpc/msg.go", "Return")
	schema("schemaBep51Return", "krpc/msg.go", "Bep51Return")
	schema("schemaBep44Return", "krpc/msg.go", "Bep44Return")

	// ordered events
	funcEvents("evRun", "traversal/operation.go", "Operation", "run")
	funcEvents("evStop", "traversal/operation.go", "Operation", "Stop")
	funcEvents("evStartQuery", "traversal/operation.go", "Operation", "startQuery")
	funcEvents("evAddNodeLocked", "traversal/operation.go", "Operation", "addNodeLocked")
	funcEvents("evAddClosest", "traversal/operation.go", "Operation", "addClosest")
	funcEvents("evWriteToNode", "server.go", "Server", "writeToNode")
	funcEvents("evServe", "server.go", "Server", "serve")
	funcEvents("evProcessPacket", "server.go", "Server", "processPacket")
	funcEvents("evHandleQuery", "server.go", "Server", "handleQuery")
	funcEvents("evReply", "server.go", "Server", "reply")
	funcEvents("evSendError", "server.go", "Server", "sendError")
	funcEvents("evMakeQueryBytes", "server.go", "Server", "makeQueryBytes")
	funcEvents("evQuery", "server.go", "Server", "Query")
	funcEvents("evTransactionSender", "transaction.go", "", "transactionSender")
	funcEvents("evWrapperPut", "bep44/store.go", "Wrapper", "Put")
	funcEvents("evWrapperGet", "bep44/store.go", "Wrapper", "Get")
	funcEvents("evSetReturnNodes", "server.go", "Server", "setReturnNodes")
	funcEvents("evBootstrap", "bootstrap.go", "Server", "BootstrapContext")
	funcEvents("evAnnounceTraversal", "announce.go", "Server", "AnnounceTraversal")
	funcEvents("evGetputGet", "exts/getput/getput.go", "", "Get")
	funcEvents("evGetputPut", "exts/getput/getput.go", "", "Put")
	funcEvents("evStartGetTraversal", "exts/getput/getput.go", "", "startGetTraversal")
	funcEvents("evRefreshBucket", "server.go", "Server", "refreshBucket")
	funcEvents("evNodeInfoUnmarshalBinary", "krpc/nodeinfo.go", "NodeInfo", "UnmarshalBinary")
	funcEvents("evLimiterWait", "ratelimit_serial.go", "", "limiterWait")
	defStrList("limiterCancelSites", callSitesWithArgs("CancelAt", []int{0}), "enclosing function | instant argument of every CancelAt call (abandoned limiter reservation), whole module, non-test files")
	defStrList("limiterGiveBackCounts", incSites("sendLimiterGiveBacks"), "functions that increment sendLimiterGiveBacks (the count a reservation compares before it is cancelled)")
	defStrList("limiterReserveSites", callSitesWithArgs("ReserveN", []int{0}), "enclosing function | instant argument of every ReserveN call, whole module, non-test files")

	// every call of socket.WriteTo / WriteTo( outside tests: function it sits in
	defStrList("writeToSites", callSites("WriteTo"), "functions (file:recv.name) containing a call of a method named WriteTo, whole module, non-test files")
	defStrList("updateNodeSites", callSitesWithArg("server.go", "s.updateNode", 2), "server.go: enclosing function and tryAdd argument of every s.updateNode call")
	defStrList("traversalStartSites", callSites("traversal.Start"), "functions containing traversal.Start")

	// C20: every call of writeToNode with its `wait` and `rate` arguments, and the two function
	// literals that compute them in transactionQuerySender as decision expressions
	defStrList("writeToNodeCalls", callSitesWithArgs("writeToNode", []int{3, 4}), "enclosing function | wait argument | rate argument of every call of a method named writeToNode, whole module, non-test files")
	out.WriteString("/-- decision expression of a Go function body made of `if`/`else`/`return` only -/\ninductive DExp where\n  | ite (c : String) (t e : DExp)\n  | ret (e : String)\n  | fall\n  | other\n  deriving DecidableEq, Repr\n\n")
	tqs := findFunc("server.go", "Server", "transactionQuerySender")
	var wArg, rArg ast.Expr
	if tqs != nil {
		ast.Inspect(tqs, func(n ast.Node) bool {
			if c, ok := n.(*ast.CallExpr); ok && types.ExprString(c.Fun) == "s.writeToNode" && len(c.Args) == 5 && wArg == nil {
				wArg, rArg = c.Args[3], c.Args[4]
			}
			return true
		})
	}
	if wArg == nil {
		missing = append(missing, "call:transactionQuerySender:s.writeToNode")
	}
	defDExp("queryWaitExpr", wArg, "server.go transactionQuerySender: `wait` argument of s.writeToNode")
	defDExp("queryRateExpr", rArg, "server.go transactionQuerySender: `rate` argument of s.writeToNode")
	// the same ordered events as evWriteToNode, as structured tokens for path enumeration in Lean
	out.WriteString("/-- control-flow token of an ordered event list -/\ninductive FTok where\n  | iff (c : String)\n  | thn\n  | els\n  | close\n  | ret\n  | func\n  | loop\n  | ev (s : String)\n  deriving DecidableEq, Repr\n\n")
	defFlow("flowWriteToNode", "server.go", "Server", "writeToNode")
	// the process-wide default limiter
	var dr, db int64
	drOK, dbOK := false, false
	if f := parse("globals.go"); f != nil {
		ast.Inspect(f, func(n ast.Node) bool {
			vs, ok := n.(*ast.ValueSpec)
			if !ok {
				return true
			}
			for i, nm := range vs.Names {
				if nm.Name == "DefaultSendLimiter" && i < len(vs.Values) {
					if c, ok := vs.Values[i].(*ast.CallExpr); ok && types.ExprString(c.Fun) == "rate.NewLimiter" && len(c.Args) == 2 {
						dr, drOK = evalInt(c.Args[0], nil)
						db, dbOK = evalInt(c.Args[1], nil)
					}
				}
			}
			return true
		})
	}
	defNat("defaultSendRate", dr, drOK, "globals.go DefaultSendLimiter: events per second")
	defNat("defaultSendBurst", db, dbOK, "globals.go DefaultSendLimiter: burst")
	// C13: does bep44.Wrapper.Put / Get hold one mutex from before its first store call until it returns?
	putLocked, putMu := lockedAcross(findFunc("bep44/store.go", "Wrapper", "Put"), "w.s.Get")
	getLocked, getMu := lockedAcross(findFunc("bep44/store.go", "Wrapper", "Get"), "w.s.Get")
	defBool("wrapperPutLocked", putLocked,
		"bep44/store.go Wrapper.Put: `X.Lock(); defer X.Unlock()` precedes the first w.s.Get (derived from the events of evWrapperPut)")
	defBool("wrapperGetLocked", getLocked,
		"bep44/store.go Wrapper.Get: `X.Lock(); defer X.Unlock()` precedes w.s.Get (derived from the events of evWrapperGet)")
	defBool("wrapperSameLock", putLocked && getLocked && putMu == getMu && strings.HasPrefix(putMu, "w."),
		"bep44/store.go: Wrapper.Put and Wrapper.Get lock the same field of the wrapper")
	// decision expressions of small pure functions, interpreted by Lean (Model/SourceTrees.lean)
	funcDExp("treeCheckIncoming", "bep44/item.go", "", "CheckIncoming")
	funcDExp("treeShouldReturnNodes", "server.go", "", "shouldReturnNodes")
	funcDExp("treeShouldReturnNodes6", "server.go", "", "shouldReturnNodes6")
	funcDExp("treeNodeErr", "server.go", "Server", "nodeErr")
	funcDExp("treeIsGood", "node.go", "Server", "IsGood")
	funcDExp("treeHaveQuery", "traversal/operation.go", "Operation", "haveQuery")
	funcDExp("treeValidNodeAddr", "server.go", "", "validNodeAddr")
	// second batch (Props/SourceTrees2.lean)
	funcDExp("treeCloserThanTargetCompare", "containers/addr-maybe-ids-by-distance.go", "closerThanTarget", "Compare")
	funcDExp("treeLessComparerCompare", "k-nearest-nodes/k-nearest-nodes.go.go", "lessComparer", "Compare")
	funcDExp("treeBep44Check", "bep44/item.go", "", "Check")
	funcDExp("treeBep44Verify", "bep44/key.go", "", "Verify")
	funcDExp("treeItemIsMutable", "bep44/item.go", "Item", "IsMutable")
	funcDExp("treePutIsMutable", "bep44/put.go", "Put", "IsMutable")
	funcDExp("treeItemTarget", "bep44/item.go", "Item", "Target")
	funcDExp("treePutTarget", "bep44/put.go", "Put", "Target")
	funcDExp("treeMakeMutableTarget", "bep44/target.go", "", "MakeMutableTarget")
	funcDExp("treeIsLocalNetwork", "security.go", "", "isLocalNetwork")
	funcDExp("treeSecurityInit", "security.go", "", "init")
	funcDExp("treeTraversalNodeFilter", "server.go", "Server", "TraversalNodeFilter")
	funcDExp("treeIsQuestionable", "node.go", "Server", "IsQuestionable")
	// statement trees: bodies that thread a local variable through assignments
	out.WriteString("/-- statement tree of a Go function body made of simple statements, `if`/`else` and `return`:\n`seq s k` is the assignment / declaration `s` (source text) followed by `k`; a statement after an `if` is\ncopied into both branches. -/\ninductive SExp where\n  | seq (s : String) (k : SExp)\n  | ite (c : String) (t e : SExp)\n  | ret (e : String)\n  | fall\n  | other\n  deriving DecidableEq, Repr\n\n")
	funcSExp("stmCloserThan", "types/addr-maybe-id.go", "AddrMaybeId", "CloserThan")
	funcSExp("stmIssue", "transactions/key-issuer.go", "varintIdIssuer", "Issue")
	funcSExp("stmNextTransactionID", "server.go", "Server", "nextTransactionID")
	c14Facts()  // C14: sender/Close event lists, control-flow graphs of the traversal owners (owners.go)
	lockFacts() // C01 (deadlock part): mutex acquisitions, calls and held sets of every function (locks.go)
}

func defFlow(name, rel, recv, fn string) {
	fd := findFunc(rel, recv, fn)
	var ev []string
	if fd != nil && fd.Body != nil {
		ev = events(fd.Body)
	}
	fmt.Fprintf(&out, "/-- control-flow tokens of `%s.%s` in %s -/\ndef %s : List FTok := [", recv, fn, rel, name)
	for i, e := range ev {
		if i > 0 {
			out.WriteString(", ")
		}
		if i%6 == 0 {
			out.WriteString("\n  ")
		}
		switch {
		case strings.HasPrefix(e, "if:"):
			out.WriteString(".iff " + leanStr(e[3:]))
		case e == "then{":
			out.WriteString(".thn")
		case e == "else{":
			out.WriteString(".els")
		case e == "}":
			out.WriteString(".close")
		case e == "return":
			out.WriteString(".ret")
		case e == "func{":
			out.WriteString(".func")
		case strings.HasSuffix(e, "{"):
			out.WriteString(".loop")
		default:
			out.WriteString(".ev " + leanStr(e))
		}
	}
	out.WriteString("]\n\n")
}

// Render an argument expression: a plain expression is `ret e`; an immediately called function
// literal is the decision tree of its body.
func dexpOfArg(e ast.Expr) string {
	if e == nil {
		return "DExp.other"
	}
	if c, ok := e.(*ast.CallExpr); ok && len(c.Args) == 0 {
		if fl, ok := c.Fun.(*ast.FuncLit); ok {
			return dexpOfStmts(fl.Body.List)
		}
	}
	return "DExp.ret " + leanStr(types.ExprString(e))
}

// statements skipped while reading a body as a decision expression (assignments, declarations)
var dexpLets []string

func dexpOfStmts(l []ast.Stmt) string {
	if len(l) == 0 {
		return "DExp.fall"
	}
	switch x := l[0].(type) {
	case *ast.AssignStmt, *ast.DeclStmt:
		dexpLets = append(dexpLets, simpleStmtText(x))
		return dexpOfStmts(l[1:])
	case *ast.ReturnStmt:
		if len(x.Results) == 1 {
			return "DExp.ret " + leanStr(types.ExprString(x.Results[0]))
		}
		return "DExp.other"
	case *ast.BlockStmt:
		return dexpOfStmts(append(append([]ast.Stmt{}, x.List...), l[1:]...))
	case *ast.IfStmt:
		if x.Init != nil {
			// `if v := e; cond`: the init statement is a skipped simple statement like any other
			// assignment (recorded in the lets); anything but an assignment is not read
			as, ok := x.Init.(*ast.AssignStmt)
			if !ok {
				return "DExp.other"
			}
			dexpLets = append(dexpLets, simpleStmtText(as))
		}
		thenS := append(append([]ast.Stmt{}, x.Body.List...), l[1:]...)
		var elseS []ast.Stmt
		if x.Else != nil {
			elseS = append(elseS, x.Else)
		}
		elseS = append(elseS, l[1:]...)
		return "DExp.ite " + leanStr(types.ExprString(x.Cond)) + " (" + dexpOfStmts(thenS) + ") (" + dexpOfStmts(elseS) + ")"
	}
	return "DExp.other"
}

// source text of a simple statement, whitespace normalised
func simpleStmtText(x ast.Stmt) string {
	var b strings.Builder
	printer.Fprint(&b, fset, x)
	return strings.Join(strings.Fields(b.String()), " ")
}

// Like dexpOfStmts, but assignments and declarations stay in the tree, in order (`SExp.seq`), so that
// Lean can interpret bodies whose tests and result depend on a local variable that is updated on the way.
func sexpOfStmts(l []ast.Stmt) string {
	if len(l) == 0 {
		return "SExp.fall"
	}
	switch x := l[0].(type) {
	case *ast.AssignStmt, *ast.DeclStmt, *ast.ExprStmt, *ast.IncDecStmt:
		return "SExp.seq " + leanStr(simpleStmtText(x)) + " (" + sexpOfStmts(l[1:]) + ")"
	case *ast.ReturnStmt:
		if len(x.Results) == 1 {
			return "SExp.ret " + leanStr(types.ExprString(x.Results[0]))
		}
		return "SExp.other"
	case *ast.BlockStmt:
		return sexpOfStmts(append(append([]ast.Stmt{}, x.List...), l[1:]...))
	case *ast.IfStmt:
		thenS := append(append([]ast.Stmt{}, x.Body.List...), l[1:]...)
		var elseS []ast.Stmt
		if x.Else != nil {
			elseS = append(elseS, x.Else)
		}
		elseS = append(elseS, l[1:]...)
		ite := "SExp.ite " + leanStr(types.ExprString(x.Cond)) + " (" + sexpOfStmts(thenS) + ") (" + sexpOfStmts(elseS) + ")"
		if x.Init != nil {
			as, ok := x.Init.(*ast.AssignStmt)
			if !ok {
				return "SExp.other"
			}
			return "SExp.seq " + leanStr(simpleStmtText(as)) + " (" + ite + ")"
		}
		return ite
	}
	return "SExp.other"
}

func funcSExp(name, rel, recv, fn string) {
	fd := freshFuncAlpha(rel, recv, fn)
	e := "SExp.other"
	if fd != nil && fd.Body != nil {
		e = sexpOfStmts(fd.Body.List)
	}
	fmt.Fprintf(&out, "/-- statement tree of `%s` in %s -/\ndef %s : SExp := %s\n\n", fn, rel, name, e)
}

func defDExp(name string, e ast.Expr, src string) {
	fmt.Fprintf(&out, "/-- %s -/\ndef %s : DExp := %s\n\n", src, name, dexpOfArg(e))
}

// Every call of a function or method named `name` in non-test files: enclosing function and the
// rendered arguments at the given positions.
func callSitesWithArgs(name string, idx []int) (sites []string) {
	for _, rel := range allNonTestFiles() {
		f := parse(rel)
		if f == nil {
			continue
		}
		for _, d := range f.Decls {
			fd, ok := d.(*ast.FuncDecl)
			if !ok || fd.Body == nil {
				continue
			}
			ast.Inspect(fd.Body, func(n ast.Node) bool {
				if c, ok := n.(*ast.CallExpr); ok {
					s := types.ExprString(c.Fun)
					if s == name || strings.HasSuffix(s, "."+name) {
						row := enclosing(rel, fd)
						for _, i := range idx {
							a := "?"
							if i < len(c.Args) {
								a = types.ExprString(c.Args[i])
							}
							row += "|" + a
						}
						sites = append(sites, row)
					}
				}
				return true
			})
		}
	}
	return
}

func firstIntArg(fn *ast.FuncDecl, callee string, idx int) (int64, bool) {
	var v int64
	ok := false
	if fn == nil {
		return 0, false
	}
	ast.Inspect(fn, func(n ast.Node) bool {
		if c, isCall := n.(*ast.CallExpr); isCall && types.ExprString(c.Fun) == callee && len(c.Args) > idx {
			v, ok = evalInt(c.Args[idx], nil)
		}
		return true
	})
	return v, ok
}

func returnedInt(fn *ast.FuncDecl) (int64, bool) {
	if fn == nil || fn.Body == nil || len(fn.Body.List) != 1 {
		return 0, false
	}
	if rs, ok := fn.Body.List[0].(*ast.ReturnStmt); ok && len(rs.Results) == 1 {
		return evalInt(rs.Results[0], nil)
	}
	return 0, false
}

func constBlock(rel string) map[string]int64 {
	ret := map[string]int64{}
	f := parse(rel)
	if f == nil {
		return ret
	}
	for _, d := range f.Decls {
		gd, ok := d.(*ast.GenDecl)
		if !ok || gd.Tok != token.CONST {
			continue
		}
		for _, s := range gd.Specs {
			vs := s.(*ast.ValueSpec)
			for i, n := range vs.Names {
				if i < len(vs.Values) {
					if v, ok := evalInt(vs.Values[i], ret); ok {
						ret[n.Name] = v
					}
				}
			}
		}
	}
	return ret
}

func varCompositeField(rel, varName, field string) ast.Expr {
	f := parse(rel)
	if f == nil {
		return nil
	}
	var ret ast.Expr
	for _, d := range f.Decls {
		gd, ok := d.(*ast.GenDecl)
		if !ok || gd.Tok != token.VAR {
			continue
		}
		for _, s := range gd.Specs {
			vs := s.(*ast.ValueSpec)
			for i, n := range vs.Names {
				if n.Name != varName || i >= len(vs.Values) {
					continue
				}
				if cl, ok := vs.Values[i].(*ast.CompositeLit); ok {
					for _, el := range cl.Elts {
						if kv, ok := el.(*ast.KeyValueExpr); ok {
							if id, ok := kv.Key.(*ast.Ident); ok && id.Name == field {
								ret = kv.Value
							}
						}
					}
				}
			}
		}
	}
	return ret
}

// `if X == 0 { X = N }`
func assignedIntAfterZeroTest(fn *ast.FuncDecl, lhs string) (int64, bool) {
	var v int64
	ok := false
	if fn == nil {
		return 0, false
	}
	ast.Inspect(fn, func(n ast.Node) bool {
		is, isIf := n.(*ast.IfStmt)
		if !isIf {
			return true
		}
		if types.ExprString(is.Cond) != lhs+" == 0" {
			return true
		}
		for _, s := range is.Body.List {
			if as, isAs := s.(*ast.AssignStmt); isAs && len(as.Lhs) == 1 && types.ExprString(as.Lhs[0]) == lhs {
				v, ok = evalInt(as.Rhs[0], nil)
			}
		}
		return true
	})
	return v, ok
}

// Struct-tag schema: "GoField|type|key|omitempty(0/1)|embedded(0/1)" per field in declaration order.
func schema(name, rel, typ string) {
	f := parse(rel)
	var rows []string
	found := false
	if f != nil {
		ast.Inspect(f, func(n ast.Node) bool {
			ts, ok := n.(*ast.TypeSpec)
			if !ok || ts.Name.Name != typ {
				return true
			}
			st, ok := ts.Type.(*ast.StructType)
			if !ok {
				return true
			}
			found = true
			for _, fld := range st.Fields.List {
				t := types.ExprString(fld.Type)
				if len(fld.Names) == 0 {
					rows = append(rows, fmt.Sprintf("%s|%s||0|1", t, t))
					continue
				}
				key, omit := "", "0"
				if fld.Tag != nil {
					tag, _ := strconv.Unquote(fld.Tag.Value)
					bt := reflect.StructTag(tag).Get("bencode")
					parts := strings.Split(bt, ",")
					key = parts[0]
					for _, p := range parts[1:] {
						if p == "omitempty" {
							omit = "1"
						}
					}
				}
				for _, nm := range fld.Names {
					k := key
					if k == "" {
						k = nm.Name
					}
					rows = append(rows, fmt.Sprintf("%s|%s|%s|%s|0", nm.Name, t, k, omit))
				}
			}
			return false
		})
	}
	if !found {
		missing = append(missing, "struct:"+rel+":"+typ)
	}
	defStrList(name, rows, "struct "+typ+" in "+rel+": field|type|bencode key|omitempty|embedded")
}

var moduleFiles []string

func allNonTestFiles() []string {
	if moduleFiles != nil {
		return moduleFiles
	}
	for _, pat := range []string{"*.go", "*/*.go", "exts/*/*.go"} {
		m, _ := filepathGlob(pat)
		for _, p := range m {
			if strings.HasSuffix(p, "_test.go") || strings.HasPrefix(p, "cmd/") || strings.HasPrefix(p, "internal/") || strings.Contains(p, "verif_hooks") {
				continue
			}
			moduleFiles = append(moduleFiles, p)
		}
	}
	return moduleFiles
}

func enclosing(rel string, fd *ast.FuncDecl) string {
	r := recvName(fd)
	if r != "" {
		r += "."
	}
	return rel + ":" + r + fd.Name.Name
}

func callSites(suffix string) (sites []string) {
	for _, rel := range allNonTestFiles() {
		f := parse(rel)
		if f == nil {
			continue
		}
		for _, d := range f.Decls {
			fd, ok := d.(*ast.FuncDecl)
			if !ok || fd.Body == nil {
				continue
			}
			ast.Inspect(fd.Body, func(n ast.Node) bool {
				if c, ok := n.(*ast.CallExpr); ok {
					s := types.ExprString(c.Fun)
					if s == suffix || strings.HasSuffix(s, "."+suffix) {
						sites = append(sites, enclosing(rel, fd))
					}
				}
				return true
			})
		}
	}
	return
}

func callSitesWithArg(rel, callee string, idx int) (sites []string) {
	f := parse(rel)
	if f == nil {
		return
	}
	for _, d := range f.Decls {
		fd, ok := d.(*ast.FuncDecl)
		if !ok || fd.Body == nil {
			continue
		}
		ast.Inspect(fd.Body, func(n ast.Node) bool {
			if c, ok := n.(*ast.CallExpr); ok && types.ExprString(c.Fun) == callee && len(c.Args) > idx {
				sites = append(sites, enclosing(rel, fd)+"|"+types.ExprString(c.Args[idx]))
			}
			return true
		})
	}
	return
}

func defBool(name string, v bool, src string) {
	fmt.Fprintf(&out, "/-- %s -/\ndef %s : Bool := %v\n\n", src, name, v)
}

// In the ordered events of fn: an event "X.Lock" immediately followed by "defer", "X.Unlock", all of it before the
// first occurrence of the event `first`. (A write lock: RLock does not count.) Any other locking shape yields false;
// the harness then reports a disagreement if it cannot interleave two calls (B44 lockfact).
func lockedAcross(fn *ast.FuncDecl, first string) (bool, string) {
	if fn == nil || fn.Body == nil {
		return false, ""
	}
	ev := events(fn.Body)
	for i, e := range ev {
		if e == first {
			return false, ""
		}
		if strings.HasSuffix(e, ".Lock") && i+2 < len(ev) && ev[i+1] == "defer" &&
			ev[i+2] == strings.TrimSuffix(e, ".Lock")+".Unlock" {
			// the deferred unlock covers every return path
			for _, f := range ev[i+3:] {
				if f == first {
					return true, strings.TrimSuffix(e, ".Lock")
				}
			}
			return false, ""
		}
	}
	return false, ""
}

// The body of a function made of if / return (and skipped simple statements) as a DExp, plus the skipped statements.
// A fresh parse of the function (not the shared, cached AST) in which every variable DECLARED INSIDE the body
// (:=, var, range, parameters of nested function literals) is renamed to $1, $2, ... in order of declaration:
// the decision trees are then independent of the names a maintainer gives to locals. Parameters, receivers,
// fields, package-level names and constants keep their names.
func freshFuncAlpha(rel, recv, fn string) *ast.FuncDecl {
	if findFunc(rel, recv, fn) == nil {
		return nil
	}
	f, err := parser.ParseFile(fset, filepath.Join(repo, rel), nil, 0)
	if err != nil {
		return nil
	}
	var fd *ast.FuncDecl
	for _, d := range f.Decls {
		if x, ok := d.(*ast.FuncDecl); ok && x.Name.Name == fn && recvName(x) == recv {
			fd = x
		}
	}
	if fd == nil || fd.Body == nil {
		return fd
	}
	type objInfo struct {
		pos token.Pos
		ids []*ast.Ident
	}
	objs := map[*ast.Object]*objInfo{}
	ast.Inspect(fd.Body, func(n ast.Node) bool {
		id, ok := n.(*ast.Ident)
		if !ok || id.Obj == nil || id.Obj.Kind != ast.Var || id.Name == "_" {
			return true
		}
		if p := id.Obj.Pos(); p < fd.Body.Pos() || p > fd.Body.End() {
			return true
		}
		oi := objs[id.Obj]
		if oi == nil {
			oi = &objInfo{pos: id.Obj.Pos()}
			objs[id.Obj] = oi
		}
		oi.ids = append(oi.ids, id)
		return true
	})
	var order []*objInfo
	for _, oi := range objs {
		order = append(order, oi)
	}
	sort.Slice(order, func(i, j int) bool { return order[i].pos < order[j].pos })
	for k, oi := range order {
		for _, id := range oi.ids {
			id.Name = fmt.Sprintf("$%d", k+1)
		}
	}
	return fd
}

func funcDExp(name, rel, recv, fn string) {
	fd := freshFuncAlpha(rel, recv, fn)
	dexpLets = nil
	e := "DExp.other"
	if fd != nil && fd.Body != nil {
		e = dexpOfStmts(fd.Body.List)
	}
	fmt.Fprintf(&out, "/-- decision expression of `%s` in %s -/\ndef %s : DExp := %s\n\n", fn, rel, name, e)
	defStrList(name+"Lets", dexpLets, "simple statements of `"+fn+"` skipped while reading it as a decision expression")
}

// Functions (file:recv.name) containing `<name>++`, non-test files of the root package.
func incSites(name string) (sites []string) {
	for _, rel := range allNonTestFiles() {
		f := parse(rel)
		if f == nil {
			continue
		}
		for _, d := range f.Decls {
			fd, ok := d.(*ast.FuncDecl)
			if !ok || fd.Body == nil {
				continue
			}
			found := false
			ast.Inspect(fd.Body, func(n ast.Node) bool {
				if x, ok := n.(*ast.IncDecStmt); ok && x.Tok == token.INC && types.ExprString(x.X) == name {
					found = true
				}
				return true
			})
			if found {
				sites = append(sites, enclosing(rel, fd))
			}
		}
	}
	return
}
