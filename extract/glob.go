package main

import (
	"path/filepath"
	"sort"
)

func filepathGlob(pat string) ([]string, error) {
	m, err := filepath.Glob(filepath.Join(repo, pat))
	var rel []string
	for _, p := range m {
		r, _ := filepath.Rel(repo, p)
		rel = append(rel, r)
	}
	sort.Strings(rel)
	return rel, err
}
