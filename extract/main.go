// extract: reads /repo's current working tree (go/parser only, no network, no type checking) and
// regenerates the Lean module DhtVerif/Gen/Facts.lean: constants, struct-tag schemas and ordered
// call sequences of the functions the property theorems depend on. An unexpected shape (missing
// function, literal that cannot be evaluated) is reported as a definition `missing : List String`
// that the property modules require to be empty.
package main

import (
	"fmt"
	"go/ast"
	"go/parser"
	"go/token"
	"go/types"
	"os"
	"path/filepath"
	"reflect"
	"sort"
	"strconv"
	"strings"
)

var (
	repo    = "/repo"
	fset    = token.NewFileSet()
	files   = map[string]*ast.File{}
	missing []string
	out     strings.Builder
)

func parse(rel string) *ast.File {
	if f, ok := files[rel]; ok {
		return f
	}
	f, err := parser.ParseFile(fset, filepath.Join(repo, rel), nil, parser.ParseComments)
	if err != nil {
		missing = append(missing, "parse:"+rel)
		files[rel] = nil
		return nil
	}
	files[rel] = f
	return f
}

func recvName(fd *ast.FuncDecl) string {
	if fd.Recv == nil || len(fd.Recv.List) == 0 {
		return ""
	}
	t := fd.Recv.List[0].Type
	for {
		switch x := t.(type) {
		case *ast.StarExpr:
			t = x.X
			continue
		case *ast.IndexExpr:
			t = x.X
			continue
		case *ast.Ident:
			return x.Name
		}
		return types.ExprString(t)
	}
}

func findFunc(rel, recv, name string) *ast.FuncDecl {
	f := parse(rel)
	if f == nil {
		return nil
	}
	for _, d := range f.Decls {
		if fd, ok := d.(*ast.FuncDecl); ok && fd.Name.Name == name && recvName(fd) == recv {
			return fd
		}
	}
	missing = append(missing, fmt.Sprintf("func:%s:%s.%s", rel, recv, name))
	return nil
}

// Evaluate integer constant expressions built from literals, + - * / << and time units.
func evalInt(e ast.Expr, consts map[string]int64) (int64, bool) {
	switch x := e.(type) {
	case *ast.BasicLit:
		if x.Kind == token.INT {
			v, err := strconv.ParseInt(x.Value, 0, 64)
			return v, err == nil
		}
	case *ast.ParenExpr:
		return evalInt(x.X, consts)
	case *ast.Ident:
		if v, ok := consts[x.Name]; ok {
			return v, true
		}
	case *ast.SelectorExpr:
		if id, ok := x.X.(*ast.Ident); ok && id.Name == "time" {
			switch x.Sel.Name {
			case "Nanosecond":
				return 1, true
			case "Microsecond":
				return 1e3, true
			case "Millisecond":
				return 1e6, true
			case "Second":
				return 1e9, true
			case "Minute":
				return 60e9, true
			case "Hour":
				return 3600e9, true
			}
		}
		if id, ok := x.X.(*ast.Ident); ok {
			if v, ok := consts[id.Name+"."+x.Sel.Name]; ok {
				return v, true
			}
		}
	case *ast.BinaryExpr:
		l, ok1 := evalInt(x.X, consts)
		r, ok2 := evalInt(x.Y, consts)
		if !ok1 || !ok2 {
			return 0, false
		}
		switch x.Op {
		case token.ADD:
			return l + r, true
		case token.SUB:
			return l - r, true
		case token.MUL:
			return l * r, true
		case token.QUO:
			if r != 0 {
				return l / r, true
			}
		case token.SHL:
			return l << uint(r), true
		}
	case *ast.CallExpr:
		// conversions such as int64(x), time.Duration(x)
		if len(x.Args) == 1 {
			return evalInt(x.Args[0], consts)
		}
	}
	return 0, false
}

// Find the value of field `field` in the first composite literal of type `typ` inside fn.
func compositeField(fn *ast.FuncDecl, typ, field string) ast.Expr {
	var ret ast.Expr
	if fn == nil {
		return nil
	}
	ast.Inspect(fn, func(n ast.Node) bool {
		cl, ok := n.(*ast.CompositeLit)
		if !ok || ret != nil {
			return true
		}
		if types.ExprString(cl.Type) != typ {
			return true
		}
		for _, el := range cl.Elts {
			if kv, ok := el.(*ast.KeyValueExpr); ok {
				if id, ok := kv.Key.(*ast.Ident); ok && id.Name == field {
					ret = kv.Value
				}
			}
		}
		return true
	})
	return ret
}

func defNat(name string, v int64, ok bool, src string) {
	if !ok {
		missing = append(missing, "const:"+name)
		v = 0
	}
	fmt.Fprintf(&out, "/-- %s -/\ndef %s : Nat := %d\n\n", src, name, v)
}

func defInt(name string, v int64, ok bool, src string) {
	if !ok {
		missing = append(missing, "const:"+name)
		v = 0
	}
	fmt.Fprintf(&out, "/-- %s -/\ndef %s : Int := %d\n\n", src, name, v)
}

func leanStr(s string) string { return strconv.Quote(s) }

func defStrList(name string, xs []string, src string) {
	fmt.Fprintf(&out, "/-- %s -/\ndef %s : List String := [", src, name)
	for i, x := range xs {
		if i > 0 {
			out.WriteString(", ")
		}
		if i%6 == 0 {
			out.WriteString("\n  ")
		}
		out.WriteString(leanStr(x))
	}
	out.WriteString("]\n\n")
}

func defNatList(name string, xs []int64, src string) {
	fmt.Fprintf(&out, "/-- %s -/\ndef %s : List Nat := [", src, name)
	for i, x := range xs {
		if i > 0 {
			out.WriteString(", ")
		}
		fmt.Fprintf(&out, "%d", x)
	}
	out.WriteString("]\n\n")
}

// Ordered event sequence of a function body: calls (rendered callee), defer/go markers, function
// literal and loop/select brackets, returns, channel receives and sends.
func events(n ast.Node) (ev []string) {
	var walk func(n ast.Node)
	walkList := func(l []ast.Stmt) {
		for _, s := range l {
			walk(s)
		}
	}
	walk = func(n ast.Node) {
		if n == nil || reflect.ValueOf(n).IsNil() {
			return
		}
		switch x := n.(type) {
		case *ast.FuncLit:
			ev = append(ev, "func{")
			walk(x.Body)
			ev = append(ev, "}")
		case *ast.DeferStmt:
			ev = append(ev, "defer")
			walk(x.Call)
		case *ast.GoStmt:
			ev = append(ev, "go")
			walk(x.Call)
		case *ast.CallExpr:
			if _, isLit := x.Fun.(*ast.FuncLit); !isLit {
				// arguments are evaluated before the call
				for _, a := range x.Args {
					walk(a)
				}
				if se, ok := x.Fun.(*ast.SelectorExpr); ok {
					walk(se.X)
				}
				ev = append(ev, types.ExprString(x.Fun))
			} else {
				for _, a := range x.Args {
					walk(a)
				}
				walk(x.Fun)
				ev = append(ev, "call}")
			}
		case *ast.ForStmt:
			ev = append(ev, "for{")
			walk(x.Init)
			walk(x.Cond)
			walk(x.Body)
			walk(x.Post)
			ev = append(ev, "}")
		case *ast.RangeStmt:
			ev = append(ev, "for{")
			walk(x.X)
			walk(x.Body)
			ev = append(ev, "}")
		case *ast.SelectStmt:
			ev = append(ev, "select{")
			walk(x.Body)
			ev = append(ev, "}")
		case *ast.CommClause:
			if x.Comm == nil {
				ev = append(ev, "default:")
			} else {
				ev = append(ev, "case:")
				walk(x.Comm)
			}
			walkList(x.Body)
		case *ast.SwitchStmt:
			ev = append(ev, "switch{")
			walk(x.Init)
			walk(x.Tag)
			walk(x.Body)
			ev = append(ev, "}")
		case *ast.CaseClause:
			lab := "case"
			if x.List == nil {
				lab = "default"
			}
			for _, e := range x.List {
				lab += ":" + types.ExprString(e)
			}
			ev = append(ev, lab)
			walkList(x.Body)
		case *ast.IfStmt:
			walk(x.Init)
			ev = append(ev, "if:"+types.ExprString(x.Cond))
			walk(x.Cond)
			ev = append(ev, "then{")
			walk(x.Body)
			ev = append(ev, "}")
			if x.Else != nil {
				ev = append(ev, "else{")
				walk(x.Else)
				ev = append(ev, "}")
			}
		case *ast.ReturnStmt:
			for _, r := range x.Results {
				walk(r)
			}
			ev = append(ev, "return")
		case *ast.BranchStmt:
			ev = append(ev, strings.ToLower(x.Tok.String()))
		case *ast.SendStmt:
			walk(x.Value)
			ev = append(ev, "send:"+types.ExprString(x.Chan))
		case *ast.UnaryExpr:
			walk(x.X)
			if x.Op == token.ARROW {
				ev = append(ev, "recv:"+types.ExprString(x.X))
			}
		case *ast.IncDecStmt:
			ev = append(ev, types.ExprString(x.X)+x.Tok.String())
		case *ast.AssignStmt:
			for _, r := range x.Rhs {
				walk(r)
			}
			for _, l := range x.Lhs {
				if _, ok := l.(*ast.Ident); !ok {
					ev = append(ev, "set:"+types.ExprString(l))
				}
			}
		case *ast.BlockStmt:
			walkList(x.List)
		case *ast.ExprStmt:
			walk(x.X)
		case *ast.DeclStmt:
			ast.Inspect(x, func(m ast.Node) bool {
				if vs, ok := m.(*ast.ValueSpec); ok {
					for _, v := range vs.Values {
						walk(v)
					}
					return false
				}
				return true
			})
		case *ast.LabeledStmt:
			walk(x.Stmt)
		case *ast.BinaryExpr:
			walk(x.X)
			walk(x.Y)
		case *ast.ParenExpr:
			walk(x.X)
		case *ast.SelectorExpr:
			walk(x.X)
		case *ast.StarExpr:
			walk(x.X)
			ev = append(ev, "deref:"+types.ExprString(x.X))
		case *ast.IndexExpr:
			walk(x.X)
			walk(x.Index)
		case *ast.CompositeLit:
			for _, e := range x.Elts {
				walk(e)
			}
		case *ast.KeyValueExpr:
			walk(x.Value)
		case *ast.TypeAssertExpr:
			walk(x.X)
		case *ast.SliceExpr:
			walk(x.X)
		}
	}
	walk(n)
	return
}

func funcEvents(name, rel, recv, fn string) {
	fd := findFunc(rel, recv, fn)
	var ev []string
	if fd != nil && fd.Body != nil {
		ev = events(fd.Body)
	}
	defStrList(name, ev, fmt.Sprintf("ordered events of `%s.%s` in %s", recv, fn, rel))
}

func main() {
	if len(os.Args) > 1 {
		repo = os.Args[1]
	}
	outPath := "/verif/lean/DhtVerif/Gen/Facts.lean"
	if len(os.Args) > 2 {
		outPath = os.Args[2]
	}
	out.WriteString("/- GENERATED by /verif/extract from /repo's working tree. Do not edit. -/\nnamespace Dht.Gen\n\n")
	generate()
	sort.Strings(missing)
	defStrList("missing", missing, "source shapes the extractor did not find; must be empty")
	out.WriteString("end Dht.Gen\n")
	old, _ := os.ReadFile(outPath)
	if string(old) != out.String() {
		if err := os.WriteFile(outPath, []byte(out.String()), 0o644); err != nil {
			fmt.Fprintln(os.Stderr, err)
			os.Exit(1)
		}
		fmt.Println("facts: rewritten")
	} else {
		fmt.Println("facts: unchanged")
	}
	if len(missing) > 0 {
		fmt.Println("facts: missing", strings.Join(missing, " "))
	}
}
