module verif/harness

go 1.23

require (
	github.com/anacrolix/dht/v2 v2.19.2-0.20221121215055-066ad8494444
	github.com/anacrolix/generics v0.0.0-20230816105729-c755655aee45
	github.com/anacrolix/log v0.15.2
	github.com/anacrolix/torrent v1.48.1-0.20230103142631-c20f73d53e9f
	golang.org/x/time v0.0.0-20220609170525-579cf78fd858
)

require (
	github.com/anacrolix/chansync v0.3.0 // indirect
	github.com/anacrolix/missinggo v1.3.0 // indirect
	github.com/anacrolix/missinggo/perf v1.0.0 // indirect
	github.com/anacrolix/missinggo/v2 v2.7.1 // indirect
	github.com/anacrolix/multiless v0.3.1-0.20221221005021-2d12701f83f7 // indirect
	github.com/anacrolix/sync v0.4.0 // indirect
	github.com/benbjohnson/immutable v0.4.1-0.20221220213129-8932b999621d // indirect
	github.com/bradfitz/iter v0.0.0-20191230175014-e8f45d346db8 // indirect
	github.com/edsrzf/mmap-go v1.1.0 // indirect
	github.com/huandu/xstrings v1.3.2 // indirect
	github.com/rs/dnscache v0.0.0-20211102005908-e0241e321417 // indirect
	golang.org/x/exp v0.0.0-20221217163422-3c43f8badb15 // indirect
	golang.org/x/sync v0.0.0-20220722155255-886fb9371eb4 // indirect
	golang.org/x/sys v0.6.0 // indirect
)

replace github.com/anacrolix/dht/v2 => /repo
