package main

import (
	"bytes"
	"context"
	"encoding/binary"
	"errors"
	"fmt"
	"net"
	"strings"
	"sync/atomic"
	"time"

	dht "github.com/anacrolix/dht/v2"
	"github.com/anacrolix/dht/v2/krpc"
)

func init() { commands["C07"] = runC07 }

type c07Query struct {
	n      int
	dst    *net.UDPAddr
	t      []byte
	done   chan dht.QueryResult
	res    *dht.QueryResult
	cancel context.CancelFunc
	model  bool // the model says it has been completed
}

func runC07(r *Run) {
	r.Result.Rule = "scenario = 1..6 concurrently outstanding queries (same and different destinations) + a stream of injected datagrams: genuine reply, adjacent/prefix/extended/empty t, right t from other port / other IP / v4-mapped form, duplicates, replays after completion, y in {r,e,junk,absent}; each datagram carries a unique marker so the completed query identifies its datagram; + give-up histories: a query whose datagram is held in the socket write is cancelled (or its write fails) with its genuine reply arriving before/after the cancellation, then a later query that nobody answers must stay pending and complete only with its own reply; + bursts queued while the node is inside its query hook (large genuine reply, junk, equally large response under the same transaction ID from another address); non-trivial = scenario with >= 2 outstanding queries and >= 1 near-miss datagram"
	nScen := r.n(150, 3000)
	for sc := 0; sc < nScen && !r.c14Full(); sc++ {
		r.c07Scenario(sc)
	}
	for i := 0; i < r.n(60, 1000) && !r.c14Full(); i++ {
		r.c07LateReply(i)
	}
	for i := 0; i < r.n(40, 600) && !r.c14Full(); i++ {
		r.c07Unsent(i)
	}
	for i := 0; i < r.n(30, 400) && !r.c14Full(); i++ {
		r.c07Burst(i)
	}
	// varint issuer: differential on many counters
	for i := 0; i < r.n(3000, 100000); i++ {
		var n uint64
		switch r.rng.Intn(4) {
		case 0:
			n = uint64(r.rng.Intn(300))
		case 1:
			n = uint64(1) << uint(r.rng.Intn(63))
		case 2:
			n = (uint64(1) << uint(r.rng.Intn(63))) - 1
		default:
			n = r.rng.Uint64() >> uint(r.rng.Intn(64))
		}
		var buf [binary.MaxVarintLen64]byte
		k := binary.PutUvarint(buf[:], n)
		r.op(fmt.Sprintf("TXN uvarint %d", n), hx(buf[:k]))
	}
}

func (r *Run) c07Scenario(sc int) {
	conn := newFakeConn(nil)
	cfg := baseConfig(conn)
	cfg.QueryResendDelay = func() time.Duration { return time.Hour }
	s, err := dht.NewServer(cfg)
	if err != nil {
		panic(err)
	}
	defer s.Close()
	nq := 1 + r.rng.Intn(6)
	ipA := net.IP{198, 51, 100, byte(1 + r.rng.Intn(200))}
	dsts := []*net.UDPAddr{udp(ipA, 7000), udp(ipA, 7001), udp(net.IP{198, 51, 100, 250}, 7000), udp(r.randIP(1), 7000)}
	var qs []*c07Query
	var events []string
	first := true
	for i := 0; i < nq; i++ {
		q := &c07Query{n: i, dst: dsts[r.rng.Intn(len(dsts))], done: make(chan dht.QueryResult, 1)}
		ctx, cancel := context.WithCancel(context.Background())
		q.cancel = cancel
		before := conn.numWrites()
		go func() {
			q.done <- s.Query(ctx, dht.NewAddr(q.dst), "ping", dht.QueryInput{NumTries: 1})
		}()
		if !conn.waitWrites(before+1, 5*time.Second) {
			r.violation("query sent no datagram", nil)
			return
		}
		d := parseDgram(conn.writes()[before])
		q.t = d.t
		if !sameUDP(d.to, q.dst) {
			r.violation("query datagram went to another address", map[string]string{"dst": q.dst.String(), "to": d.to.String()})
		}
		if first {
			v, _ := binary.Uvarint(q.t)
			r.op(fmt.Sprintf("TXN init %d", v), "ok")
			first = false
		}
		r.op(fmt.Sprintf("TXN reg %d %s %s", q.n, hx([]byte(dht.NewAddr(q.dst).String())), hx(q.t)), "ok")
		events = append(events, fmt.Sprintf("query %d to %s t=%x", q.n, q.dst, q.t))
		// concurrently outstanding queries never share a transaction ID
		for _, o := range qs {
			if string(o.t) == string(q.t) {
				r.violation("two outstanding queries share a transaction ID", events)
			}
		}
		qs = append(qs, q)
	}
	// injected stream
	type inj struct {
		src    *net.UDPAddr
		t      []byte
		marker [20]byte
	}
	var injected []inj
	nearMiss := 0
	nd := 3 + r.rng.Intn(20)
	poll := func(wait bool) {
		for _, q := range qs {
			if q.res != nil {
				continue
			}
			if wait && q.model {
				select {
				case res := <-q.done:
					q.res = &res
				case <-time.After(5 * time.Second):
					r.violation("matching reply did not complete its query", events)
				}
			} else {
				select {
				case res := <-q.done:
					q.res = &res
				default:
				}
			}
		}
	}
	for i := 0; i < nd; i++ {
		q := qs[r.rng.Intn(len(qs))]
		src := q.dst
		t := append([]byte{}, q.t...)
		kind := r.rng.Intn(13)
		switch kind {
		case 12:
			// (address, t) pair whose concatenation equals the genuine one: drop the first character
			// of the address string and append it to t
			if v4 := q.dst.IP.To4(); v4 != nil && v4[0] >= 110 && (v4[0]/10)%10 != 0 {
				ip := append(net.IP{}, v4...)
				first := byte('0' + v4[0]/100)
				ip[0] = v4[0] % 100
				src = udp(ip, q.dst.Port)
				t = append(t, first)
			}
		case 0, 1, 2: // genuine
		case 3:
			t = append(t, byte(r.rng.Intn(256)))
		case 4:
			if len(t) > 0 {
				t = t[:len(t)-1]
			}
		case 5:
			t[len(t)-1]++
		case 6:
			t = nil
		case 7:
			src = udp(q.dst.IP, q.dst.Port+1)
		case 8:
			ip := append(net.IP{}, q.dst.IP...)
			ip[len(ip)-1] ^= 1
			src = udp(ip, q.dst.Port)
		case 9:
			src = udp(q.dst.IP.To16(), q.dst.Port)
		case 10:
			other := qs[r.rng.Intn(len(qs))]
			t = append([]byte{}, other.t...)
		case 11:
			if len(injected) > 0 {
				old := injected[r.rng.Intn(len(injected))]
				src, t = old.src, old.t
			}
		}
		omitT := false
		if r.rng.Intn(14) == 0 {
			// two datagrams: the right transaction ID from ANOTHER host (ignored), directly followed by a datagram
			// from the queried address that has no `t` key at all: state left by the first must not complete the query
			ip := append(net.IP{}, q.dst.IP...)
			ip[len(ip)-1] ^= 2
			var m0 [20]byte
			r.rng.Read(m0[:])
			conn.inject(mkReply(string(q.t), bD("id", bB(m0[:]))).enc(), udp(ip, q.dst.Port))
			conn.waitIdle(5 * time.Second)
			r.op(fmt.Sprintf("TXN in %s %s", hx([]byte(dht.NewAddr(udp(ip, q.dst.Port)).String())), hx(q.t)), "none")
			events = append(events, fmt.Sprintf("inject from %s t=%x (right ID, other host)", udp(ip, q.dst.Port), q.t))
			src, t, omitT, kind = q.dst, nil, true, 13
			r.hist("datagram-kind/13-no-t-key-after-foreign-reply")
		}
		if (kind >= 3 && kind <= 8) || kind == 12 || kind == 13 {
			nearMiss++
		}
		var marker [20]byte
		r.rng.Read(marker[:])
		var msg *bval
		switch r.rng.Intn(6) {
		case 0:
			msg = mkError(string(t), 201, "x")
			msg.set("v", bB(marker[:]))
		case 1:
			msg = bD("t", bB(t), "y", bS("x"), "r", bD("id", bB(marker[:])))
		case 2:
			msg = bD("t", bB(t), "r", bD("id", bB(marker[:])))
		default:
			msg = mkReply(string(t), bD("id", bB(marker[:])))
		}
		if omitT {
			msg.del("t")
		}
		r.hist(fmt.Sprintf("datagram-kind/%d", kind))
		conn.inject(msg.enc(), src)
		injected = append(injected, inj{src, t, marker})
		if !conn.waitIdle(5 * time.Second) {
			r.violation("server stopped reading datagrams", events)
			return
		}
		// which query does the implementation complete?
		srcStr := dht.NewAddr(src).String()
		events = append(events, fmt.Sprintf("inject from %s t=%x marker=%x", srcStr, t, marker[:4]))
		// model-independent expectation
		var want *c07Query
		for _, o := range qs {
			if o.res == nil && !o.model && dht.NewAddr(o.dst).String() == srcStr && string(o.t) == string(t) {
				want = o
			}
		}
		if want != nil {
			want.model = true
		}
		poll(true)
		time.Sleep(200 * time.Microsecond)
		poll(false)
		got := "none"
		for _, o := range qs {
			if o.res == nil || o.cancel == nil {
				continue
			}
			// newly completed
			o.cancel()
			o.cancel = nil
			got = fmt.Sprintf("deliver %d", o.n)
			rep := o.res.Reply
			var m []byte
			if rep.R != nil {
				m = rep.R.ID[:]
			} else {
				m = []byte(rep.ClientId)
			}
			if o.res.Err != nil {
				r.violation("outstanding query failed although nothing addressed it: "+o.res.Err.Error(), events)
			} else if string(m) != string(marker[:]) {
				r.violation("query completed by a datagram other than the one just delivered", events)
			}
			if dht.NewAddr(o.dst).String() != srcStr || string(o.t) != string(t) {
				r.violation("query completed by a reply from another address or with another transaction ID", map[string]interface{}{"events": events, "query": o.n})
			}
			r.op(fmt.Sprintf("TXN in %s %s", hx([]byte(srcStr)), hx(t)), got)
			r.op(fmt.Sprintf("TXN done %s %s", hx([]byte(dht.NewAddr(o.dst).String())), hx(o.t)), "ok")
		}
		if got == "none" {
			r.op(fmt.Sprintf("TXN in %s %s", hx([]byte(srcStr)), hx(t)), got)
			if want != nil {
				r.violation("genuine reply did not complete its query", events)
			}
		}
	}
	// quiescence: nothing else completes
	time.Sleep(2 * time.Millisecond)
	poll(false)
	pending := 0
	for _, o := range qs {
		if o.res != nil && o.cancel != nil {
			r.violation("query completed without a matching datagram", events)
		}
		if o.res == nil {
			pending++
		}
	}
	if st := s.Stats(); st.OutstandingTransactions != pending {
		r.violation(fmt.Sprintf("OutstandingTransactions=%d but %d queries are pending", st.OutstandingTransactions, pending), events)
	}
	r.op("TXN pending", itoa(pending))
	for _, o := range qs {
		if o.cancel != nil {
			o.cancel()
			select {
			case <-o.done:
			case <-time.After(5 * time.Second):
				r.violation("cancelled query did not return", events)
			}
		}
	}
	r.count(fmt.Sprint(events), nq >= 2 && nearMiss >= 1)
	r.Result.TracesValidated++
	if sc < 2 {
		r.sample(events)
	}
}

// State left behind by a finished query must not complete a later one. Query A's datagram is held in
// the socket write; A is cancelled and its genuine reply arrives in either order (the transaction is
// still registered while the sender is blocked); the write is released and A returns. Query B (same
// or another destination) is then issued and nobody answers it: it must stay pending, and complete
// only with its own reply.
func (r *Run) c07LateReply(i int) {
	conn := newFakeConn(nil)
	cfg := baseConfig(conn)
	cfg.QueryResendDelay = func() time.Duration { return time.Hour }
	s, err := dht.NewServer(cfg)
	if err != nil {
		panic(err)
	}
	defer s.Close()
	gate := make(chan struct{})
	var hold atomic.Bool
	var held atomic.Pointer[[]byte]
	conn.onWrite = func(w written) {
		if hold.Load() {
			b := append([]byte{}, w.B...)
			held.Store(&b)
			<-gate
		}
	}
	failing := r.rng.Intn(4) == 0
	if failing {
		var once atomic.Bool
		conn.failWrite = func(n int, p []byte, addr net.Addr) error {
			if hold.Load() && !once.Swap(true) {
				b := append([]byte{}, p...)
				held.Store(&b)
				<-gate
				return errors.New("sendto: network is unreachable")
			}
			return nil
		}
	}
	var events []string
	dstA := udp(net.IP{198, 51, 100, byte(1 + r.rng.Intn(200))}, 7000)
	dstB := dstA
	if r.rng.Intn(3) != 0 {
		dstB = udp(net.IP{198, 51, 101, byte(1 + r.rng.Intn(200))}, 7001)
	}
	rounds := 1 + r.rng.Intn(3)
	for k := 0; k < rounds; k++ {
		hold.Store(true)
		ctxA, cancelA := context.WithCancel(context.Background())
		doneA := make(chan dht.QueryResult, 1)
		held.Store(nil)
		go func() { doneA <- s.Query(ctxA, dht.NewAddr(dstA), "ping", dht.QueryInput{NumTries: 1}) }()
		// wait until the sender is inside the socket write
		if !waitFor(func() bool { return held.Load() != nil }, 5*time.Second) {
			r.violation("query did not reach the socket write", events)
			cancelA()
			hold.Store(false)
			close(gate)
			return
		}
		hv, _, herr := bdecode(*held.Load())
		if herr != nil {
			r.violation("query datagram is not bencode", events)
			cancelA()
			hold.Store(false)
			close(gate)
			return
		}
		tA, _ := hv.get("t").str()
		var mA [20]byte
		r.rng.Read(mA[:])
		order := r.rng.Intn(3)
		if order == 0 {
			cancelA()
			time.Sleep(time.Duration(r.rng.Intn(300)) * time.Microsecond)
		}
		if order != 2 {
			conn.inject(mkReply(string(tA), bD("id", bB(mA[:]))).enc(), dstA)
			conn.waitIdle(5 * time.Second)
			time.Sleep(100 * time.Microsecond)
		}
		if order == 1 {
			cancelA()
		}
		if order == 2 {
			cancelA()
		}
		hold.Store(false)
		gate <- struct{}{}
		var resA dht.QueryResult
		select {
		case resA = <-doneA:
		case <-time.After(5 * time.Second):
			r.violation("cancelled query did not return", events)
			return
		}
		events = append(events, fmt.Sprintf("query A to %s t=%x held in the socket write (write fails=%v); order=%d (0 cancel,reply; 1 reply,cancel; 2 cancel only); reply marker=%x; A returned err=%v", dstA, tA, failing && k == 0, order, mA[:4], resA.Err))
		if resA.Err == nil && resA.Reply.R != nil && string(resA.Reply.R.ID[:]) != string(mA[:]) {
			r.violation("query completed by a datagram other than its own reply", events)
		}
		r.hist(fmt.Sprintf("give-up/order%d/failing=%v/A-err=%v", order, failing && k == 0, resA.Err != nil))
		// B: nobody answers
		ctxB, cancelB := context.WithCancel(context.Background())
		doneB := make(chan dht.QueryResult, 1)
		w0 := conn.numWrites()
		go func() { doneB <- s.Query(ctxB, dht.NewAddr(dstB), "ping", dht.QueryInput{NumTries: 1}) }()
		if !waitFor(func() bool { return conn.numWrites() > w0 || len(doneB) > 0 }, 5*time.Second) {
			r.violation("query sent no datagram", events)
			cancelB()
			return
		}
		var tB []byte
		if conn.numWrites() > w0 {
			tB = parseDgram(conn.writes()[w0]).t
		}
		events = append(events, fmt.Sprintf("query B to %s t=%x; no datagram is delivered", dstB, tB))
		select {
		case res := <-doneB:
			what := "query completed without a matching datagram"
			if res.Err == nil && res.Reply.R != nil && string(res.Reply.R.ID[:]) == string(mA[:]) {
				what = "query completed by a reply from another address or with another transaction ID (the reply to an earlier, abandoned query)"
			}
			r.violation(what, events)
			cancelB()
			return
		case <-time.After(1500 * time.Microsecond):
		}
		var mB [20]byte
		r.rng.Read(mB[:])
		conn.inject(mkReply(string(tB), bD("id", bB(mB[:]))).enc(), dstB)
		select {
		case res := <-doneB:
			if res.Err != nil || res.Reply.R == nil || string(res.Reply.R.ID[:]) != string(mB[:]) {
				r.violation("genuine reply did not complete its query with its own contents", events)
			}
		case <-time.After(5 * time.Second):
			r.violation("genuine reply did not complete its query", events)
		}
		cancelB()
	}
	if st := s.Stats(); st.OutstandingTransactions != 0 {
		r.violation(fmt.Sprintf("OutstandingTransactions=%d but 0 queries are pending", st.OutstandingTransactions), events)
	}
	r.count(fmt.Sprint(events), true)
	r.Result.TracesValidated++
	if i < 1 {
		r.sample(events)
	}
}

// Queries that end without ever reaching the wire (socket error, cancelled before the send) while younger
// queries are outstanding: whatever is rolled back for the unsent one, the IDs of outstanding queries stay
// pairwise different - the next query must not be given the ID of one that is still waiting.
func (r *Run) c07Unsent(i int) {
	conn := newFakeConn(nil)
	cfg := baseConfig(conn)
	cfg.QueryResendDelay = func() time.Duration { return time.Hour }
	s, err := dht.NewServer(cfg)
	if err != nil {
		panic(err)
	}
	defer s.Close()
	dead := udp(net.IP{198, 51, 100, 9}, 7009)
	gate := make(chan struct{})
	var held atomic.Int32
	conn.failWrite = func(n int, p []byte, addr net.Addr) error {
		if ua, _ := addr.(*net.UDPAddr); ua != nil && sameUDP(ua, dead) {
			held.Add(1)
			<-gate
			return errors.New("sendto: network is unreachable")
		}
		return nil
	}
	var events []string
	type oq struct {
		t      string
		cancel context.CancelFunc
		done   chan dht.QueryResult
		dst    *net.UDPAddr
	}
	var out []oq
	issue := func(dst *net.UDPAddr) (oq, bool) {
		ctx, cancel := context.WithCancel(context.Background())
		q := oq{cancel: cancel, done: make(chan dht.QueryResult, 1), dst: dst}
		w0 := conn.numWrites()
		go func() { q.done <- s.Query(ctx, dht.NewAddr(dst), "ping", dht.QueryInput{NumTries: 1}) }()
		if !conn.waitWrites(w0+1, 5*time.Second) {
			cancel()
			return q, false
		}
		q.t = string(parseDgram(conn.writes()[w0]).t)
		return q, true
	}
	live := udp(net.IP{198, 51, 100, byte(20 + r.rng.Intn(100))}, 7100)
	rounds := 1 + r.rng.Intn(3)
	for k := 0; k < rounds; k++ {
		// Q1: to the dead address, its only write is held and will fail
		h0 := held.Load()
		ctx1, cancel1 := context.WithCancel(context.Background())
		done1 := make(chan dht.QueryResult, 1)
		go func() { done1 <- s.Query(ctx1, dht.NewAddr(dead), "ping", dht.QueryInput{NumTries: 1}) }()
		if !waitFor(func() bool { return held.Load() > h0 }, 5*time.Second) {
			cancel1()
			r.violation("query did not reach the socket write", events)
			close(gate)
			return
		}
		events = append(events, "query Q1 issued; its only socket write is held and will fail")
		r.lastInput(strings.Join(events, " | "))
		// younger queries are issued and stay outstanding (same or different destinations)
		for j := 0; j < 1+r.rng.Intn(2); j++ {
			dst := live
			if r.rng.Intn(2) == 0 {
				dst = udp(net.IP{198, 51, 100, byte(130 + r.rng.Intn(100))}, 7200+j)
			}
			q, ok := issue(dst)
			if !ok {
				r.violation("query sent no datagram", events)
				cancel1()
				close(gate)
				return
			}
			events = append(events, fmt.Sprintf("younger query to %s outstanding with t=%x", dst, q.t))
			out = append(out, q)
		}
		r.lastInput(strings.Join(events, " | ") + " | Q1's write now fails; then the next query is issued")
		gate <- struct{}{}
		res1 := <-done1
		cancel1()
		events = append(events, fmt.Sprintf("Q1's write fails; Q1 returns err=%v writes=%d", res1.Err, res1.Writes))
		// the next query
		q3, ok := issue(live)
		if !ok {
			r.violation("query sent no datagram", events)
			close(gate)
			return
		}
		events = append(events, fmt.Sprintf("next query to %s gets t=%x", live, q3.t))
		for _, o := range out {
			if o.t == q3.t {
				r.violation("two outstanding queries share a transaction ID", append([]string{}, events...))
			}
		}
		out = append(out, q3)
	}
	for _, o := range out {
		o.cancel()
		select {
		case <-o.done:
		case <-time.After(5 * time.Second):
			r.violation("cancelled query did not return", events)
		}
	}
	r.hist(fmt.Sprintf("unsent-then-next/rounds=%d", rounds))
	r.count(fmt.Sprint(events), true)
	r.Result.TracesValidated++
}

// A burst: while the node is busy with one datagram (its query hook is slow), several more arrive back to back,
// among them the large genuine reply to an outstanding query and, behind it, an equally large response under the same
// transaction ID from another address. The query completes with what its own peer sent, whatever arrives around it.
func (r *Run) c07Burst(i int) {
	conn := newFakeConn(nil)
	cfg := baseConfig(conn)
	cfg.QueryResendDelay = func() time.Duration { return time.Hour }
	gate := make(chan struct{})
	var inHook atomic.Bool
	z := udp(net.IP{198, 51, 100, byte(1 + r.rng.Intn(200))}, 7100)
	cfg.OnQuery = func(q *krpc.Msg, src net.Addr) bool {
		if src.String() == z.String() && !inHook.Swap(true) {
			<-gate
		}
		return true
	}
	s, err := dht.NewServer(cfg)
	if err != nil {
		panic(err)
	}
	defer s.Close()
	x := udp(net.IP{198, 51, 101, byte(1 + r.rng.Intn(200))}, 7101)
	y := udp(net.IP{198, 51, 102, byte(1 + r.rng.Intn(200))}, 7102)
	done := make(chan dht.QueryResult, 1)
	go func() { done <- s.Query(context.Background(), dht.NewAddr(x), "ping", dht.QueryInput{NumTries: 1}) }()
	rep := map[string]interface{}{"scenario": i}
	if !waitFor(func() bool { return conn.numWrites() >= 1 }, 5*time.Second) {
		r.violation("query was not sent", rep)
		close(gate)
		return
	}
	v, _, _ := bdecode(conn.writes()[0].B)
	t, _ := v.get("t").str()
	var idX, idY, idZ [20]byte
	r.rng.Read(idX[:])
	r.rng.Read(idY[:])
	r.rng.Read(idZ[:])
	padLen := []int{200, 5000, 30000, 60000}[r.rng.Intn(4)]
	padX, padY := bytes.Repeat([]byte{'x'}, padLen), bytes.Repeat([]byte{'y'}, padLen)
	genuine := bD("t", bB(t), "y", bS("r"), "r", bD("id", bB(idX[:])), "zpad", bB(padX)).enc()
	other := bD("t", bB(t), "y", bS("r"), "r", bD("id", bB(idY[:])), "zpad", bB(padY)).enc()
	conn.inject(bD("t", bS("zz"), "y", bS("q"), "q", bS("ping"), "a", bD("id", bB(idZ[:]))).enc(), z)
	if !waitFor(func() bool { return inHook.Load() }, 5*time.Second) {
		r.violation("query hook was not called for a ping", rep)
		close(gate)
		return
	}
	// the burst, queued while the node is inside its hook
	order := r.rng.Intn(3)
	rep["order"], rep["size"] = order, len(genuine)
	switch order {
	case 0:
		conn.inject(genuine, x)
		conn.inject([]byte("d1:y1:qe"), y)
		conn.inject(other, y)
	case 1:
		conn.inject([]byte("junk"), y)
		conn.inject(genuine, x)
		conn.inject(other, y)
		conn.inject(other, y)
	default:
		conn.inject(other, y)
		conn.inject(genuine, x)
		conn.inject(other, y)
		conn.inject(other, y)
	}
	close(gate)
	select {
	case res := <-done:
		switch {
		case res.Err != nil:
			r.violation("query failed although its peer's reply arrived: "+res.Err.Error(), rep)
		case res.Reply.R == nil || [20]byte(res.Reply.R.ID) != idX:
			r.violation("query completed with content its peer did not send (bytes of another datagram of the burst)", rep)
		}
	case <-time.After(5 * time.Second):
		r.violation("query not completed by its peer's reply, which arrived in a burst of datagrams", rep)
	}
	r.hist(fmt.Sprintf("burst/order%d/size%d", order, padLen))
	r.count(fmt.Sprintf("burst %d %d %d", i, order, padLen), true)
}
