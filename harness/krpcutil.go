package main

import (
	"encoding/binary"
	"net"

	"github.com/anacrolix/dht/v2/krpc"
)

// KRPC datagram construction and inspection through the independent bencode reader.

func udp(ip net.IP, port int) *net.UDPAddr { return &net.UDPAddr{IP: ip, Port: port} }

// compact node info: id(20) ip port(2)
func compactNode(id [20]byte, ip net.IP, port int) []byte {
	b := append([]byte{}, id[:]...)
	b = append(b, ip...)
	var p [2]byte
	binary.BigEndian.PutUint16(p[:], uint16(port))
	return append(b, p[:]...)
}

func compactAddr(ip net.IP, port int) []byte {
	b := append([]byte{}, ip...)
	var p [2]byte
	binary.BigEndian.PutUint16(p[:], uint16(port))
	return append(b, p[:]...)
}

func mkQuery(t string, q string, a *bval) *bval {
	m := bD("t", bS(t), "y", bS("q"), "q", bS(q))
	if a != nil {
		m.set("a", a)
	}
	return m
}

func mkReply(t string, r *bval) *bval {
	return bD("t", bS(t), "y", bS("r"), "r", r)
}

func mkError(t string, code int64, msg string) *bval {
	return bD("t", bS(t), "y", bS("e"), "e", bL(bI(code), bS(msg)))
}

type dgram struct {
	raw []byte
	v   *bval
	to  *net.UDPAddr
	t   []byte
	y   string
	q   string
	ok  bool
	at  written
}

func parseDgram(w written) dgram {
	d := dgram{raw: w.B, to: w.Addr, at: w}
	v, n, err := bdecode(w.B)
	if err != nil || n != len(w.B) || v.k != bDict {
		return d
	}
	d.v = v
	d.ok = true
	d.t, _ = v.get("t").str()
	y, _ := v.get("y").str()
	d.y = string(y)
	q, _ := v.get("q").str()
	d.q = string(q)
	return d
}

func sameUDP(a, b *net.UDPAddr) bool {
	return a != nil && b != nil && a.IP.Equal(b.IP) && a.Port == b.Port && a.Zone == b.Zone
}

func nodeInfo(id [20]byte, a *net.UDPAddr) krpc.NodeInfo {
	return krpc.NodeInfo{ID: id, Addr: krpc.NodeAddr{IP: a.IP, Port: a.Port}}
}
