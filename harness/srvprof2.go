package main

import (
	"context"
	"encoding/binary"
	"fmt"
	"net"
	"sort"
	"strings"
	"sync"
	"time"

	dht "github.com/anacrolix/dht/v2"
	"github.com/anacrolix/dht/v2/krpc"
	peer_store "github.com/anacrolix/dht/v2/peer-store"
)

func init() {
	commands["C10"] = runC10
	commands["C11"] = runC11
	commands["C19"] = runC19
}

// ---------------- C10: tokens ----------------

func runC10(r *Run) {
	r.Result.Rule = "scenario = server with recording peer store, announce callback and BEP 44 store; tokens are obtained from real get_peers/get replies at chosen offsets inside the 5-minute rotation grid and presented after chosen delays (0 .. 20 min, on both sides of every interval boundary) in announce_peer and put, from the same IP (same and other port, v4-mapped form), from another IP, mutated (bit flip, truncation, extension, empty, random) and taken from another server; non-trivial = distinct (method, delay, variant)"
	n := r.n(40, 800)
	other := r.newSrvScen(srvOpts{noSecurity: true, peerStore: true, mute: true})
	defer other.close()
	for i := 0; i < n; i++ {
		sc := r.newSrvScen(srvOpts{noSecurity: true, peerStore: i%4 != 3, callback: i%2 == 0 || i%4 == 3, hook: false})
		sc.tokenGrid(other)
		r.Result.TracesValidated++
		if i < 2 {
			r.sample(append([]string{}, sc.events[:min(len(sc.events), 8)]...))
		}
		sc.close()
	}
}

func (sc *srvScen) tokenGrid(other *srvScen) {
	r := sc.r.rng
	sec := time.Second
	offsets := []time.Duration{0, 1, sec, 150 * sec, 300*sec - 1}
	delays := []time.Duration{0, sec, 299 * sec, 300 * sec, 301 * sec, 599 * sec, 600 * sec, 601 * sec, 899 * sec, 900 * sec, 901 * sec, 1200 * sec,
		// long uptime: whole multiples of 2^8, 2^16 and 2^32 rotation intervals later (counters that wrap)
		256 * 300 * sec, 65536 * 300 * sec, 65536*300*sec + 61*sec, 2 * 65536 * 300 * sec, 4294967296 * 300 * sec}
	// move to a chosen offset inside the interval
	sc.advance(offsets[r.Intn(len(offsets))] + time.Duration(r.Intn(3))*300*sec)
	for round := 0; round < 6 && !sc.dead; round++ {
		kind := []int{0, 0, 1, 2}[r.Intn(4)]
		src := sc.freshSrc(kind)
		id := sc.r.randID()
		issuedAt := sc.now
		tokMethod := "get"
		if sc.o.peerStore && r.Intn(2) == 0 {
			tokMethod = "get_peers" // without a peer store only `get` replies carry a token
		}
		tq := sc.mkQuery(tokMethod, id, sc.r.randID())
		tq.ro = true
		res := sc.send(src, tq)
		if !res.obs.hasTok {
			sc.viol("C10", "get_peers/get reply carries no token although a store is configured")
			continue
		}
		tok := res.obs.token
		delay := delays[r.Intn(len(delays))]
		if delay > 0 {
			sc.advance(delay)
		}
		age := time.Duration(sc.now - issuedAt)
		for use := 0; use < 4 && !sc.dead; use++ {
			if use > 0 && r.Intn(3) == 0 {
				// the same token is presented again later (a token that checked out once says nothing about now)
				sc.advance([]time.Duration{sec, 61 * sec, 299 * sec, 301 * sec}[r.Intn(4)])
				age = time.Duration(sc.now - issuedAt)
				sc.r.hist("token-use/again-after-a-pause")
			}
			variant := r.Intn(9)
			from := src
			t := tok
			genuine := true
			switch variant {
			case 0, 1, 2: // as issued
			case 3: // other port, same IP
				from = udp(src.IP, src.Port+1+r.Intn(100))
			case 4: // other representation of the same IP
				if v4 := src.IP.To4(); v4 != nil {
					if len(src.IP) == 4 {
						from = udp(v4.To16(), src.Port)
					} else {
						from = udp(v4, src.Port)
					}
				}
			case 5: // other IP
				ip := append(net.IP{}, src.IP...)
				ip[len(ip)-1] ^= byte(1 + r.Intn(255))
				from = udp(ip, src.Port)
				genuine = false
			case 6, 7:
				t = mutateToken(sc.r, tok)
				genuine = string(t) == string(tok)
			case 8: // a token another server issued to this IP
				oq := other.mkQuery("get", id, sc.r.randID())
				oq.ro = true
				ores := other.send(src, oq)
				if ores.obs.hasTok {
					t = ores.obs.token
					genuine = false
				}
			}
			method := []string{"announce_peer", "put"}[r.Intn(2)]
			q := sc.mkQuery(method, id, sc.r.randID())
			q.ro = true
			q.token, q.hasTok = t, variant != 6 || len(t) > 0 || r.Intn(2) == 0
			if method == "put" {
				s := int64(1)
				q.seq = &s
				if r.Intn(4) == 0 {
					q.seq = nil // malformed put: the token must still be judged first
				}
			}
			res := sc.send(from, q)
			replied := res.obs.n > 0
			// the property's own bounds (independent of the rotation rule)
			if genuine && age <= 10*time.Minute && !replied {
				sc.viol("C10", fmt.Sprintf("token not honoured %v after issue (must be honoured for at least 10 minutes)", age))
			}
			if (!genuine || age > 15*time.Minute) && replied {
				sc.viol("C10", fmt.Sprintf("write accepted with a token that is not valid (genuine=%v, age=%v, variant=%d)", genuine, age, variant))
			}
			sc.r.hist(fmt.Sprintf("token-use/variant=%d", variant))
			sc.r.hist(fmt.Sprintf("token-age/%dmin", int(age/time.Minute)))
			sc.r.count(fmt.Sprintf("%s|%v|%d", method, age, variant), true)
		}
	}
}

// ---------------- C11: announce / get_peers ----------------

func runC11(r *Run) {
	r.Result.Rule = "scenario = server with the bundled in-memory peer store (wrapped by a recorder); announces with ports 1..65535, implied_port on/off, missing port, IPv4/IPv6/v4-mapped sources (same IP re-announcing, both representations of one IPv4), several infohashes, a popular infohash with 60..120 announcers, interleaved with get_peers; bursts of first announces for a brand-new infohash delivered back to back (stores overlap) and concurrent first stores on the bundled peer store directly; carrying every want combination from either family; non-trivial = get_peers reply that carries values"
	n := r.n(40, 800)
	for i := 0; i < n; i++ {
		sc := r.newSrvScen(srvOpts{noSecurity: true, peerStore: true, callback: i%3 == 0, defaultWant: i%2 == 1})
		if i%8 == 3 {
			// a popular infohash: more announcers than any fixed reply size someone might have in mind
			sc.swarm = 60 + r.rng.Intn(60)
			sc.announceHistory(sc.swarm + 30)
		} else {
			sc.announceHistory(50)
		}
		r.Result.TracesValidated++
		if i < 2 {
			r.sample(append([]string{}, sc.events[:min(len(sc.events), 8)]...))
		}
		sc.close()
	}
	for i := 0; i < r.n(40, 600); i++ {
		r.c11Burst(i)
	}
	r.c11StoreRace(r.n(4000, 80000))
}

// First announces for a brand-new infohash arriving back to back from several addresses: the handler
// stores each one on its own goroutine, so the stores overlap. Every accepted announce must be
// returned by a later get_peers.
func (r *Run) c11Burst(i int) {
	sc := r.newSrvScen(srvOpts{noSecurity: true, peerStore: true, mute: true})
	defer sc.close()
	k := 2 + r.rng.Intn(5)
	type ann struct {
		src  *net.UDPAddr
		port int
		raw  []byte
	}
	type ihRec struct {
		ih  [20]byte
		eps map[string]bool
	}
	var known []ihRec
	for round := 0; round < 6; round++ {
		ih := r.randID()
		var as []ann
		for j := 0; j < k; j++ {
			// distinct IPs: the store keeps one endpoint per IP
			src := udp(net.IP{198, 18, byte(round*8 + j), byte(1 + i%250)}, 2000+j)
			id := r.randID()
			tok := sc.fetchToken(src, id)
			q := sc.mkQuery("announce_peer", id, ih)
			q.t = []byte(fmt.Sprintf("b%d", j))
			q.ro = true
			q.token, q.hasTok = tok, tok != nil
			p := int64(1 + r.rng.Intn(65535))
			q.port = &p
			q.implied = false
			as = append(as, ann{src, int(p), q.bval().enc()})
		}
		sc.conn.waitIdle(time.Second)
		w0 := sc.conn.numWrites()
		a0 := sc.ps.numAdds()
		for _, a := range as {
			sc.conn.inject(a.raw, a.src)
		}
		sc.events = []string{fmt.Sprintf("%d announce_peer for the new infohash %x delivered back to back from %d addresses", k, ih[:4], k)}
		if !sc.conn.waitWrites(w0+k, 5*time.Second) || !waitFor(func() bool { return sc.ps.numAdds() >= a0+k }, 5*time.Second) {
			sc.viol("C11", "announce_peer with a fresh token was not accepted")
			return
		}
		accepted := 0
		for _, w := range sc.conn.writes()[w0:] {
			if d := parseDgram(w); d.ok && d.y == "r" {
				accepted++
			}
		}
		got := map[string]bool{}
		for _, p := range sc.ps.inner.GetPeers(ih) {
			got[hx(p.IP.To16())+"/"+itoa(p.Port)] = true
		}
		missing := 0
		for _, a := range as {
			if !got[hx(a.src.IP.To16())+"/"+itoa(a.port)] {
				missing++
			}
		}
		r.hist(fmt.Sprintf("burst-announce/k=%d", k))
		r.count(fmt.Sprintf("burst/%d/%d/%d", i, round, k), true)
		if accepted == k && missing > 0 {
			sc.viol("C11", fmt.Sprintf("%d announces for a new infohash were acknowledged, %d of their endpoints are not returned afterwards", k, missing))
			return
		}
		known = append(known, ihRec{ih, got})
		// get_peers for several infohashes delivered back to back: replies are encoded on their own goroutines
		// after the handler has moved on; each must carry the endpoints of ITS infohash only
		if len(known) >= 2 {
			type ask struct {
				src *net.UDPAddr
				t   string
				rec ihRec
			}
			var asks []ask
			for j := 0; j < 2*len(known); j++ {
				rec := known[j%len(known)]
				a := ask{udp(net.IP{198, 19, byte(round), byte(j + 1)}, 3000+j), fmt.Sprintf("g%d.%d", round, j), rec}
				asks = append(asks, a)
			}
			sc.conn.waitIdle(time.Second)
			w1 := sc.conn.numWrites()
			for _, a := range asks {
				q := sc.mkQuery("get_peers", r.randID(), a.rec.ih)
				q.t, q.ro, q.want, q.target = []byte(a.t), true, nil, nil
				sc.conn.inject(q.bval().enc(), a.src)
			}
			sc.events = []string{fmt.Sprintf("%d get_peers for %d infohashes with stored peers delivered back to back", len(asks), len(known))}
			if !sc.conn.waitWrites(w1+len(asks), 5*time.Second) {
				sc.viol("C11", "get_peers not answered with a response")
				return
			}
			for _, w := range sc.conn.writes()[w1:] {
				d := parseDgram(w)
				if !d.ok || d.y != "r" {
					continue
				}
				for _, a := range asks {
					if string(d.t) != a.t || !sameUDP(w.Addr, a.src) {
						continue
					}
					vals := d.v.get("r").get("values")
					n := 0
					if vals != nil && vals.k == bList {
						for _, e := range vals.l {
							b, _ := e.str()
							if len(b) != 6 {
								continue
							}
							n++
							key := hx(net.IP(b[:4]).To16()) + "/" + itoa(int(b[4])<<8|int(b[5]))
							if !a.rec.eps[key] {
								sc.viol("C11", fmt.Sprintf("get_peers returned an endpoint that was never announced for this infohash: %s (back-to-back get_peers for different infohashes)", net.IP(b[:4]).String()+":"+itoa(int(b[4])<<8|int(b[5]))))
								return
							}
						}
					}
					if n != len(a.rec.eps) {
						sc.viol("C11", fmt.Sprintf("get_peers returned %d of the %d endpoints announced for the infohash (back-to-back get_peers)", n, len(a.rec.eps)))
						return
					}
				}
			}
			r.hist("burst-get_peers")
		}
	}
	r.Result.TracesValidated++
}

// The bundled peer store on its own: concurrent first stores for one new infohash.
func (r *Run) c11StoreRace(rounds int) {
	var st peer_store.InMemory
	lost := 0
	for i := 0; i < rounds && lost == 0; i++ {
		ih := peer_store.InfoHash(r.randID())
		k := 2 + i%3
		start := make(chan struct{})
		var wg sync.WaitGroup
		for j := 0; j < k; j++ {
			wg.Add(1)
			na := krpc.NodeAddr{IP: net.IP{10, byte(i >> 16), byte(i >> 8), byte(j + 1)}, Port: 1000 + j}
			go func() {
				defer wg.Done()
				<-start
				st.AddPeer(ih, na)
			}()
		}
		close(start)
		wg.Wait()
		if n := len(st.GetPeers(ih)); n != k {
			lost++
			r.violation(fmt.Sprintf("%d announces for a new infohash were acknowledged, %d of their endpoints are not returned afterwards (peer store, concurrent first stores)", k, k-n), map[string]interface{}{"round": i, "infohash": hx(ih[:])})
		}
	}
	r.hist("store-race/rounds")
	r.count("store-race", true)
}

func (sc *srvScen) announceHistory(n int) {
	r := sc.r.rng
	ihs := [][20]byte{sc.r.randID(), sc.r.randID(), sc.r.randID()}
	var srcs []*net.UDPAddr
	for i := 0; i < max(6, sc.swarm); i++ {
		srcs = append(srcs, sc.freshSrc([]int{0, 0, 1, 2}[r.Intn(4)]))
	}
	if sc.swarm > 0 {
		ihs = ihs[:1]
	}
	// both representations of one IPv4 address
	srcs = append(srcs, udp(srcs[0].IP.To16(), srcs[0].Port))
	for i := 0; i < n && !sc.dead; i++ {
		ih := ihs[r.Intn(len(ihs))]
		if r.Intn(2) == 0 || i < sc.swarm {
			src := srcs[r.Intn(len(srcs))]
			if i < sc.swarm {
				src = srcs[i]
			}
			if r.Intn(4) == 0 {
				src = udp(src.IP, 1+r.Intn(65535)) // same IP, other UDP port
			}
			id := sc.r.randID()
			tok := sc.fetchToken(src, id)
			q := sc.mkQuery("announce_peer", id, ih)
			q.ro = true
			q.token, q.hasTok = tok, tok != nil
			p := int64([]int{1, 80, 6881, 65535, 1 + r.Intn(65535)}[r.Intn(5)])
			q.port = &p
			if r.Intn(8) == 0 {
				q.port = nil
			}
			q.implied = r.Intn(3) == 0
			res := sc.send(src, q)
			if res.obs.kind == "rep" {
				port := -1
				if q.port != nil {
					port = int(*q.port)
				}
				if q.implied {
					port = src.Port
				}
				if port >= 0 {
					m := sc.announced[hx(ih[:])]
					if m == nil {
						m = map[string]int{}
						sc.announced[hx(ih[:])] = m
					}
					m[hx(src.IP)] = port
				} else {
					// no derivable port: outside the property's quantifier; keep the model in step only
					m := sc.announced[hx(ih[:])]
					if m == nil {
						m = map[string]int{}
						sc.announced[hx(ih[:])] = m
					}
					m[hx(src.IP)] = 0
				}
				sc.r.hist("announce/accepted")
			} else {
				sc.viol("C11", "announce_peer with a fresh token was not accepted")
			}
		} else {
			src := sc.freshSrc([]int{0, 1, 2}[r.Intn(3)])
			q := sc.mkQuery("get_peers", sc.r.randID(), ih)
			q.ro = true
			res := sc.send(src, q)
			sc.oraclePeers(src, q, ih, res.obs)
			sc.r.count(fmt.Sprintf("%x|%v|%d|%d", ih[:2], q.want, len(src.IP), len(res.obs.values)), len(res.obs.values) > 0)
			sc.r.hist(fmt.Sprintf("get_peers/values=%d", len(res.obs.values)))
		}
		if i%10 == 9 {
			sc.op("SRV peers "+hx(ih[:]), sc.peersDump(ih))
		}
	}
}

func (sc *srvScen) peersDump(ih [20]byte) string {
	var l []string
	for _, p := range sc.ps.GetPeers(ih) {
		l = append(l, hx(p.IP)+"/"+itoa(p.Port))
	}
	sort.Strings(l)
	return strings.Join(l, ",")
}

func (sc *srvScen) oraclePeers(src *net.UDPAddr, q *qspec, ih [20]byte, o obsOut) {
	if o.kind != "rep" {
		sc.viol("C11", "get_peers not answered with a response")
		return
	}
	if !o.hasTok {
		sc.viol("C11", "get_peers reply carries no token although a peer store is configured")
	}
	want4, want6 := src.IP.To4() != nil, src.IP.To4() == nil
	if len(q.want) > 0 {
		want4, want6 = false, false
		for _, w := range q.want {
			want4 = want4 || w == "n4"
			want6 = want6 || w == "n6"
		}
	}
	ann := sc.announced[hx(ih[:])]
	got := map[string]bool{}
	for _, v := range o.values {
		if len(v) != 6 && len(v) != 18 {
			sc.viol("C11", fmt.Sprintf("values entry of %d bytes", len(v)))
			continue
		}
		if len(v) == 6 && !want4 {
			sc.viol("C11", "6-byte values entry sent to a requester that does not want IPv4")
		}
		if len(v) == 18 && !want6 {
			sc.viol("C11", "18-byte values entry sent to a requester that does not want IPv6")
		}
		ip := net.IP(v[:len(v)-2])
		port := int(binary.BigEndian.Uint16(v[len(v)-2:]))
		ok := false
		for raw, p := range ann {
			rip, _ := parseHexIP(raw)
			if rip.Equal(ip) && p&0xffff == port {
				ok = true
				got[raw] = true
			}
		}
		if !ok {
			sc.viol("C11", fmt.Sprintf("get_peers returned an endpoint that was never announced for this infohash: %s:%d", ip, port))
		}
	}
	for raw := range ann {
		rip, _ := parseHexIP(raw)
		is4 := len(rip) == 4
		is6 := len(rip) == 16 && rip.To4() == nil
		if ((is4 && want4) || (is6 && want6)) && !got[raw] {
			sc.viol("C11", "announced endpoint missing from get_peers values although the requester wants its family: "+rip.String())
		}
	}
	if len(o.values) > 0 && (len(o.nodes) > 0 || len(o.nodes6) > 0) && false {
	}
}

func parseHexIP(h string) (net.IP, bool) {
	if h == "_" {
		return net.IP{}, true
	}
	b := make([]byte, len(h)/2)
	_, err := fmt.Sscanf(h, "%x", &b)
	return net.IP(b), err == nil
}

// ---------------- C19: blocklist and passive ----------------

func runC19(r *Run) {
	r.Result.Rule = "scenario = blocklist (single addresses, ranges, IPv4 and IPv6, installed at construction or later) x passive on/off x every query method from blocked and unblocked sources (also with undecodable sender IDs, to passive nodes and from blocked sources), plus outbound paths (ping/AddNode-triggered ping, questionable ping, bootstrap and announce traversals seeded with blocked and unblocked addresses); destinations and ro flag of every written datagram are checked; non-trivial = scenario that delivers traffic from or towards a blocked address"
	n := r.n(40, 800)
	for i := 0; i < n; i++ {
		bl := r.randBlocklist()
		o := srvOpts{noSecurity: true, passive: i%3 == 2, peerStore: i%2 == 0}
		late := i%4 == 1
		if !late {
			o.blocked = bl
		}
		sc := r.newSrvScen(o)
		if late {
			sc.mixedFrom(bl, 6)
			// contacts that are already known (routing-table entries holding a valid write token) when the list
			// that covers them is installed: from then on their datagrams have no effect either
			type earlyC struct {
				src *net.UDPAddr
				id  [20]byte
				tok []byte
			}
			var early []earlyC
			for j := 0; j < 3 && !sc.dead; j++ {
				src, id := sc.addrFor(bl, true), sc.r.randID()
				sc.send(src, sc.mkQuery("ping", id, id))
				early = append(early, earlyC{src, id, sc.fetchToken(src, id)})
			}
			sc.setBlocklist(bl)
			for _, e := range early {
				if !sc.isBlocked(e.src.IP) {
					continue
				}
				for _, m := range []string{"announce_peer", "put", "find_node"} {
					q := sc.mkQuery(m, e.id, sc.r.randID())
					q.token, q.hasTok = e.tok, e.tok != nil
					if q.port == nil {
						p := int64(6881)
						q.port = &p
					}
					p0, puts0, cbs0 := 0, sc.st.numPuts(), sc.numCbs()
					if sc.ps != nil {
						p0 = sc.ps.numAdds()
					}
					sc.ev("%s from %s, a routing-table entry with a valid token, after the blocklist covering it was installed", m, e.src)
					sc.send(e.src, q)
					time.Sleep(200 * time.Microsecond)
					if (sc.ps != nil && sc.ps.numAdds() != p0) || sc.st.numPuts() != puts0 || sc.numCbs() != cbs0 {
						sc.viol("C19", "datagram from a blocklisted source changed stored data")
					}
					sc.r.hist("inbound/blocked-known-contact/" + m)
				}
			}
		}
		sc.mixedFrom(bl, 25)
		for j := 0; j < 3; j++ {
			sc.blockedMidQuery(sc.addrFor(bl, false), sc.r.randID())
		}
		sc.outboundPaths(bl)
		sc.emitTable()
		r.Result.TracesValidated++
		r.count(fmt.Sprint(sc.events), true)
		if i < 2 {
			r.sample(append([]string{}, sc.events[:min(len(sc.events), 8)]...))
		}
		sc.close()
	}
}

func (r *Run) randBlocklist() *rangeList {
	l := &rangeList{}
	n := 1 + r.rng.Intn(3)
	for i := 0; i < n; i++ {
		switch r.rng.Intn(3) {
		case 0: // single v4
			ip := r.randIP(0).To16()
			l.rs = append(l.rs, ipRange{ip, ip})
		case 1: // v4 /24-like range
			ip := r.randIP(0).To16()
			lo, hi := append(net.IP{}, ip...), append(net.IP{}, ip...)
			lo[15], hi[15] = 0, 255
			l.rs = append(l.rs, ipRange{lo, hi})
		default: // v6 range
			ip := r.randIP(1)
			lo, hi := append(net.IP{}, ip...), append(net.IP{}, ip...)
			for j := 8; j < 16; j++ {
				lo[j], hi[j] = 0, 255
			}
			l.rs = append(l.rs, ipRange{lo, hi})
		}
	}
	sort.Slice(l.rs, func(i, j int) bool { return string(l.rs[i].lo) < string(l.rs[j].lo) })
	return l
}

// An address inside the list (as 4-byte, 16-byte mapped or v6 form) or outside it.
func (sc *srvScen) addrFor(bl *rangeList, inside bool) *net.UDPAddr {
	r := sc.r.rng
	if !inside {
		for {
			a := sc.freshSrc([]int{0, 1, 2}[r.Intn(3)])
			if !bl.has(a.IP) {
				return a
			}
		}
	}
	rg := bl.rs[r.Intn(len(bl.rs))]
	ip := append(net.IP{}, rg.lo...)
	for j := range ip {
		if rg.lo[j] != rg.hi[j] {
			ip[j] = byte(int(rg.lo[j]) + r.Intn(int(rg.hi[j])-int(rg.lo[j])+1))
		}
	}
	if v4 := ip.To4(); v4 != nil && r.Intn(2) == 0 {
		ip = v4
	}
	sc.nextPt++
	return udp(ip, sc.nextPt)
}

func (sc *srvScen) mixedFrom(bl *rangeList, n int) {
	r := sc.r.rng
	for i := 0; i < n && !sc.dead; i++ {
		inside := r.Intn(2) == 0
		src := sc.addrFor(bl, inside)
		id := sc.r.randID()
		var q *qspec
		switch r.Intn(8) {
		case 0:
			q = &qspec{y: "q", q: methods[r.Intn(len(methods))], t: sc.randT()}
		case 1:
			q = sc.mkQuery("nonsense", id, sc.r.randID())
		case 2:
			// a query whose arguments do not decode: still a datagram from that source, to that node. (Only where
			// the property demands silence: a passive node, or a blocklisted source.)
			if !sc.o.passive && !sc.isBlocked(src.IP) {
				continue
			}
			badID := []*bval{bB(id[:3]), bB(id[:19]), bI(20), bL()}[r.Intn(4)]
			m := bD("t", bB(sc.randT()), "y", bS("q"), "q", bS(methods[r.Intn(len(methods))]),
				"a", bD("id", badID, "target", bB(id[:]), "info_hash", bB(id[:])))
			sc.ev("query with an undecodable sender ID from %s", src)
			sc.inject(src, m.enc(), "ud", nil, false, "ok", "nf")
			sc.r.hist("inbound/undecodable-query")
			continue
		default:
			q = sc.mkQuery(methods[r.Intn(len(methods))], id, sc.r.randID())
			if (q.q == "announce_peer" || q.q == "put") && r.Intn(3) != 0 {
				if tok := sc.fetchToken(src, id); tok != nil {
					q.token, q.hasTok = tok, true
				}
			}
		}
		adds0 := sc.ps != nil && false
		_ = adds0
		p0 := 0
		if sc.ps != nil {
			p0 = sc.ps.numAdds()
		}
		puts0 := sc.st.numPuts()
		sc.send(src, q)
		if sc.isBlocked(src.IP) {
			if (sc.ps != nil && sc.ps.numAdds() != p0) || sc.st.numPuts() != puts0 {
				sc.viol("C19", "datagram from a blocklisted source changed stored data")
			}
			sc.r.hist("inbound/blocked-source")
		} else {
			sc.r.hist("inbound/unblocked-source")
		}
	}
}

// Outbound paths: every way the server may decide to write to an address.
func (sc *srvScen) outboundPaths(bl *rangeList) {
	r := sc.r.rng
	for i := 0; i < 6 && !sc.dead; i++ {
		inside := r.Intn(2) == 0
		addr := sc.addrFor(bl, inside)
		id := sc.r.randID()
		w0 := sc.conn.numWrites()
		switch r.Intn(3) {
		case 0:
			sc.respondingNode(addr, id, false)
		case 1:
			// AddNode with a zero ID pings the address in the background
			sc.addNode(addr, [20]byte{})
			if !sc.isBlocked(addr.IP) {
				waitFor(func() bool { return sc.conn.numWrites() > w0 }, 2*time.Second)
			} else {
				time.Sleep(300 * time.Microsecond)
			}
		default:
			sc.addNode(addr, id)
			sc.failPing(addr, id)
		}
		sc.checkWrites(w0)
	}
	// the public Query API towards blocked addresses, crossed with every rate-limiting option of the caller
	// (the options select different send paths) and the query methods
	for m := 0; m < 16 && !sc.dead; m++ {
		addr := sc.addrFor(bl, true)
		if !sc.isBlocked(addr.IP) {
			continue
		}
		rl := dht.QueryRateLimiting{NotFirst: m&1 != 0, NotAny: m&2 != 0, WaitOnRetries: m&4 != 0, NoWaitFirst: m&8 != 0}
		w0 := sc.conn.numWrites()
		sc.resend.Store(int64(time.Millisecond))
		ctx, cancel := context.WithTimeout(context.Background(), 2*time.Second)
		method := []string{"ping", "find_node", "get_peers", "get"}[r.Intn(4)]
		tgt := sc.r.randID()
		res := sc.s.Query(ctx, dht.NewAddr(addr), method, dht.QueryInput{RateLimiting: rl, NumTries: 1 + r.Intn(3),
			MsgArgs: krpc.MsgArgs{Target: tgt, InfoHash: tgt}})
		cancel()
		sc.resend.Store(int64(time.Hour))
		sc.ev("Query(%s) to blocked %s with %+v -> err=%v writes=%d", method, addr, rl, res.Err, res.Writes)
		if res.Err == nil {
			sc.viol("C19", "query to a blocklisted address reports success")
		}
		sc.checkWrites(w0)
		sc.r.hist(fmt.Sprintf("outbound/query-to-blocked/flags=%d", m))
	}
	// traversals seeded with blocked and unblocked addresses: announce (get_peers) and bootstrap (find_node)
	var seeds []dht.Addr
	for i := 0; i < 6; i++ {
		seeds = append(seeds, dht.NewAddr(sc.addrFor(bl, i%2 == 0)))
	}
	w0 := sc.conn.numWrites()
	sc.resend.Store(int64(2 * time.Millisecond))
	cfgSeeds := seeds
	_ = cfgSeeds
	for _, a := range seeds {
		// seeds enter through the public AddNode API with a non-zero ID as well
		ua := a.Raw().(*net.UDPAddr)
		sc.addNode(ua, sc.r.randID())
	}
	a, err := sc.s.AnnounceTraversal(sc.r.randID())
	if err == nil {
		go func() {
			for range a.Peers {
			}
		}()
		select {
		case <-a.Finished():
		case <-time.After(5 * time.Second):
			a.Close()
		}
	}
	sc.s.Bootstrap()
	sc.resend.Store(int64(time.Hour))
	sc.checkWrites(w0)
}

// A query is outstanding to addr; a blocklist covering addr is installed; then addr answers. The
// answer must have no effect at all (no completed query, no table entry).
func (sc *srvScen) blockedMidQuery(addr *net.UDPAddr, id [20]byte) {
	if sc.dead || sc.isBlocked(addr.IP) {
		return
	}
	w0 := sc.conn.numWrites()
	done := make(chan dht.QueryResult, 1)
	ctx, cancel := context.WithCancel(context.Background())
	go func() { done <- sc.s.Query(ctx, dht.NewAddr(addr), "ping", dht.QueryInput{NumTries: 1}) }()
	var d dgram
	if !waitFor(func() bool {
		for _, w := range sc.conn.writes()[w0:] {
			if sameUDP(w.Addr, addr) {
				if x := parseDgram(w); x.ok && x.y == "q" {
					d = x
					return true
				}
			}
		}
		return false
	}, 5*time.Second) {
		cancel()
		return
	}
	sc.op(fmt.Sprintf("SRV reg %s %s", addrOp(addr), hx(d.t)), "ok")
	old := sc.bl
	nl := &rangeList{}
	if old != nil {
		nl.rs = append(nl.rs, old.rs...)
	}
	nl.rs = append(nl.rs, ipRange{addr.IP.To16(), addr.IP.To16()})
	sort.Slice(nl.rs, func(i, j int) bool { return string(nl.rs[i].lo) < string(nl.rs[j].lo) })
	sc.setBlocklist(nl)
	q := &qspec{y: "r", t: d.t, rid: &id}
	sc.inject(addr, q.bval().enc(), "m", q, false, "ok", "nf")
	select {
	case res := <-done:
		if res.Err == nil {
			sc.viol("C19", "query completed by a reply from an address that had been blocklisted meanwhile")
			sc.viol("C06", "response from a blocked address completed a query")
		}
	case <-time.After(300 * time.Microsecond):
	}
	cancel()
	select {
	case <-done:
	case <-time.After(5 * time.Second):
		sc.viol("C14", "cancelled query did not return")
	}
	sc.op(fmt.Sprintf("SRV done %s %s", addrOp(addr), hx(d.t)), "ok")
	sc.r.hist("inbound/blocked-while-query-outstanding")
}

// Every datagram written since w0: never to a blocked address; queries of a passive node carry ro=1.
func (sc *srvScen) checkWrites(w0 int) {
	for _, w := range sc.conn.writes()[w0:] {
		if sc.isBlocked(w.Addr.IP) {
			sc.viol("C19", "datagram written to a blocklisted address: "+w.Addr.String())
		}
		d := parseDgram(w)
		if d.ok && d.y == "q" {
			ro, _ := d.v.get("ro").int()
			if sc.o.passive && ro != 1 {
				sc.viol("C19", "query sent by a passive node is not marked read-only")
			}
			if !sc.o.passive && ro != 0 {
				sc.viol("C19", "query of a non-passive node is marked read-only")
			}
			sc.r.hist("outbound/query/" + d.q)
		}
	}
}
