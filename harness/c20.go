package main

import (
	"context"
	"errors"
	"fmt"
	"math/rand"
	"net"
	"runtime"
	"sort"
	"strings"
	"sync"
	"sync/atomic"
	"time"

	dht "github.com/anacrolix/dht/v2"
	"github.com/anacrolix/log"
	"github.com/anacrolix/torrent/iplist"
	"golang.org/x/time/rate"
)

func init() { commands["C20"] = runC20 }

// 2^-9 s. Instants that are multiples of it convert to float64 seconds without rounding
// (10^9 = 2^9 * 5^9), so x/time/rate's float arithmetic is exact for the rates used below.
const c20Quantum = 1953125

// rate = p/q tokens per second
type c20Rate struct{ p, q int64 }

func (x c20Rate) limit() rate.Limit { return rate.Limit(float64(x.p) / float64(x.q)) }
func (x c20Rate) String() string    { return fmt.Sprintf("%d/%d", x.p, x.q) }

// n rated events by dt ns after creation are within burst + rate*dt (exact integers).
func c20Within(x c20Rate, burst int, n int, dt int64) bool {
	if dt < 0 {
		dt = 0
	}
	u := x.q * 1000000000
	return int64(n)*u <= int64(burst)*u+x.p*dt
}

func runC20(r *Run) {
	r.Result.Rule = "T2 limiter: rate.NewLimiter driven by AllowN(t,1) / ReserveN(t,1) / AllowN(t,-1) on synthetic explicit timelines vs the exact Lean bucket; " +
		"float rounding cannot cause disagreement because every instant is a multiple of 2^-9 s (1953125 ns, exactly representable in seconds) and rates are " +
		"integers <= 1000 or dyadic fractions (ReserveN only with power-of-two rates 2^-3..2^9, so the wait is a whole number of quanta); includes steps back in time, " +
		"idle gaps that hit the cap, rate 0 and rate Inf. " +
		"T2 limiter with cancellations: ReserveN / CancelAt / AllowN(+-1) on monotone synthetic timelines (power-of-two rates) vs Model/RateCancel (lastEvent modelled); " +
		"T2 gate: real Server with a limiter whose refill is irrelevant (rate 0, or 1 token/hour) driven sequentially: inbound queries of every method, " +
		"Server.Query with all 16 QueryRateLimiting combinations x NumTries 1..3, WaitToReply on/off, blocklisted destinations, injected socket write failures, closed server; " +
		"each outcome (datagram, logged drop, Query result) vs writeGate/querySend in Lean. " +
		"T3: tight limiters (5/s b3, 50/s b1, 200/s b10, ...) under floods of every method from thousands of spoofed sources plus concurrent Server.Query/Ping; " +
		"plus wait/cancel histories (burst spent, queries waiting for budget, a query refused because its deadline lies before its slot, waiters cancelled, later queries); oracle: every prefix window [t0,t] with t0 taken before the limiter exists. non-trivial = case that drained the bucket or took a refusal/wait path"
	r.note("unmodelled: Reservation.Cancel (a Query whose context ends while its sender waits in SendLimiter.Wait): it restores at most the reserved token and that reservation never becomes a datagram, so the prefix oracle stays sound; counted as flood/unmodelled/cancel-possible")
	r.note("assumed, not verified: x/time/rate orders concurrent callers by the instant each read the clock, not by lock order (a stale `now` moves `last` back); the Lean bucket reproduces this on synthetic timelines (steps back in time), the theorems assume a clock that never steps back")
	c20Policies(r)
	c20Limiter(r)
	c20LimiterCancel(r)
	c20Gate(r)
	c20Floods(r)
	c20Shared(r)
	c20WaitCancel(r)
	c20GiveBackCancel(r)
	c20ShortWrites(r)
}

// A PacketConn that reports short counts without an error: the datagram has left (truncated), so it counts
// against the budget like any other; replies, errors and queries alike.
func c20ShortWrites(r *Run) {
	for i := 0; i < r.n(6, 60); i++ {
		x := c20Rate{1, 3600}
		burst := 1 + r.rng.Intn(3)
		t0 := time.Now()
		lim := rate.NewLimiter(x.limit(), burst)
		conn := newFakeConn(nil)
		conn.shortWrites.Store(true)
		cfg := baseConfig(conn)
		cfg.SendLimiter = lim
		cfg.WaitToReply = false
		s, err := dht.NewServer(cfg)
		if err != nil {
			r.violation("NewServer failed: "+err.Error(), nil)
			return
		}
		n := 10 + r.rng.Intn(20)
		for j := 0; j < n; j++ {
			var id, target [20]byte
			r.rng.Read(id[:])
			r.rng.Read(target[:])
			b, _ := c20Query([]string{"ping", "find_node", "unknown", "noargs_get"}[r.rng.Intn(4)], fmt.Sprintf("s%d", j), id[:], target[:])
			conn.inject(b, &net.UDPAddr{IP: net.IP{10, 9, byte(i), byte(j + 1)}, Port: 4000 + j})
		}
		ctx, cancel := context.WithTimeout(context.Background(), 30*time.Millisecond)
		for j := 0; j < 3; j++ {
			s.Query(ctx, dht.NewAddr(&net.UDPAddr{IP: net.IP{10, 8, byte(i), byte(j + 1)}, Port: 5000 + j}), "ping", dht.QueryInput{NumTries: 1, RateLimiting: dht.QueryRateLimiting{NoWaitFirst: true}})
		}
		cancel()
		conn.waitIdle(2 * time.Second)
		time.Sleep(2 * time.Millisecond)
		s.Close()
		ws := conn.writes()
		for k, w := range ws {
			if !c20Within(x, burst, k+1, w.At.Sub(t0).Nanoseconds()) {
				r.violation(fmt.Sprintf("rated datagrams exceed burst + rate*t: %d datagrams left through a socket that reports short writes, budget %d (rate 1/h)", len(ws), burst),
					map[string]interface{}{"inbound_queries": n, "burst": burst, "written": len(ws)})
				break
			}
		}
		r.hist(fmt.Sprintf("short-writes/burst=%d/written=%d", burst, len(ws)))
		r.count(fmt.Sprintf("short-writes/%d", i), true)
		r.Result.TracesValidated++
	}
}

// ---- policy table (emitted so the diff also covers the driver's parsing) ----

func c20Policies(r *Run) {
	// The policy is not observable in isolation; these lines pin the table the harness itself
	// relies on when it classifies datagrams (written from the QueryRateLimiting doc comments),
	// and the gate/flood sections test it through the real code.
	for first := 0; first < 2; first++ {
		for m := 0; m < 16; m++ {
			nf, na, wr, nwf := m&1 != 0, m&2 != 0, m&4 != 0, m&8 != 0
			wait, rated := c20Policy(first == 1, nf, na, wr, nwf)
			r.op(fmt.Sprintf("RATE policy q %d %s %s %s %s", first, b2s(nf), b2s(na), b2s(wr), b2s(nwf)), b2s(wait)+" "+b2s(rated))
		}
	}
	r.op("RATE policy reply 1", "1 1")
	r.op("RATE policy reply 0", "0 1")
	r.op("RATE policy error", "0 1")
}

// Independent statement of the documented policy: which sends of a query are rated / wait.
func c20Policy(first, notFirst, notAny, waitOnRetries, noWaitFirst bool) (wait, rated bool) {
	rated = !notAny && !(first && notFirst)
	if first {
		wait = !noWaitFirst
	} else {
		wait = waitOnRetries
	}
	return
}

// ---- T2: rate.Limiter vs the Lean bucket on synthetic timelines ----

func c20Limiter(r *Run) {
	base := time.Unix(1700000000, 0)
	intRates := []c20Rate{{1, 1}, {2, 1}, {3, 1}, {5, 1}, {7, 1}, {10, 1}, {25, 1}, {50, 1}, {100, 1}, {200, 1}, {250, 1}, {333, 1}, {1000, 1},
		{1, 8}, {1, 4}, {1, 2}, {3, 2}, {5, 4}, {25, 2}}
	pow2 := []c20Rate{{1, 8}, {1, 4}, {1, 2}, {1, 1}, {2, 1}, {4, 1}, {8, 1}, {16, 1}, {32, 1}, {64, 1}, {128, 1}, {256, 1}, {512, 1}}
	bursts := []int{0, 1, 1, 1, 2, 3, 3, 5, 10, 25}
	cases := r.n(600, 20000)
	for c := 0; c < cases; c++ {
		kind := r.rng.Intn(10)
		var x c20Rate
		reserveOK := false
		inf := false
		switch {
		case kind < 4:
			x = intRates[r.rng.Intn(len(intRates))]
		case kind < 8:
			x = pow2[r.rng.Intn(len(pow2))]
			reserveOK = true
		case kind == 8:
			x = c20Rate{0, 1}
			reserveOK = true
		default:
			inf = true
			reserveOK = true
		}
		burst := bursts[r.rng.Intn(len(bursts))]
		var lim *rate.Limiter
		if inf {
			lim = rate.NewLimiter(rate.Inf, burst)
			r.op("RATE newinf", "ok")
		} else {
			lim = rate.NewLimiter(x.limit(), burst)
			r.op(fmt.Sprintf("RATE new %d %d %d 0", x.p, x.q, burst), "ok")
		}
		// quanta per token, to aim time steps at the refill boundaries
		period := int64(1)
		if x.p > 0 {
			period = 512 * x.q / x.p
			if period < 1 {
				period = 1
			}
		}
		t := int64(0)
		stepsBack := r.rng.Intn(3) == 0
		monotone := true
		var acts []int64 // instants at which granted tokens become usable
		gives := 0
		drained := false
		var replay []string
		steps := 20 + r.rng.Intn(80)
		for i := 0; i < steps; i++ {
			// time step, in quanta
			var dq int64
			switch r.rng.Intn(12) {
			case 0, 1, 2:
				dq = 0
			case 3, 4:
				dq = 1 + int64(r.rng.Intn(3))
			case 5, 6:
				dq = period + int64(r.rng.Intn(3)) - 1
			case 7:
				dq = period / 2
			case 8:
				dq = period*int64(1+r.rng.Intn(burst+2)) + int64(r.rng.Intn(2))
			case 9:
				dq = period * int64(burst+3) // idle long enough to hit the cap
			case 10:
				if stepsBack && t > 0 { // the clock steps back
					dq = -int64(1 + r.rng.Intn(int(min64(t/c20Quantum, 5*period+1))))
					monotone = false
				}
			default:
				dq = int64(r.rng.Intn(int(2*period + 2)))
			}
			if dq < 0 && -dq*c20Quantum > t {
				dq = 0
			}
			t += dq * c20Quantum
			now := base.Add(time.Duration(t))
			var op, got string
			switch k := r.rng.Intn(20); {
			case k < 3 && reserveOK:
				rv := lim.ReserveN(now, 1)
				op = fmt.Sprintf("RATE reserve %d -", t)
				if rv.OK() {
					at := t + int64(rv.DelayFrom(now))
					got = fmt.Sprint(at)
					acts = append(acts, at)
					if at > t {
						drained = true
					}
				} else {
					got = "no"
					drained = true
				}
			case k < 5:
				ok := lim.AllowN(now, -1)
				op, got = fmt.Sprintf("RATE give %d", t), b2s(ok)
				if ok {
					gives++
				}
			default:
				ok := lim.AllowN(now, 1)
				op, got = fmt.Sprintf("RATE allow %d", t), b2s(ok)
				if ok {
					acts = append(acts, t)
				} else {
					drained = true
				}
			}
			r.op(op, got)
			replay = append(replay, op+" => "+got)
			// direct oracle on the limiter itself: tokens usable by now, net of those given
			// back, stay within burst + rate*t (needs a clock that never stepped back)
			if monotone && !inf {
				eff := 0
				for _, a := range acts {
					if a <= t {
						eff++
					}
				}
				if !c20Within(x, burst, eff-gives, t) {
					r.violation("limiter grants exceed burst + rate*t on a synthetic timeline",
						map[string]interface{}{"rate": x.String(), "burst": burst, "ops": replay})
					break
				}
			}
		}
		r.hist(fmt.Sprintf("limiter/reserve=%v/monotone=%v", reserveOK && !inf, monotone))
		r.count(fmt.Sprintf("lim %v %d %v %s", x, burst, inf, strings.Join(replay, ";")), drained && !inf)
		if c < 1 {
			r.sample(map[string]interface{}{"limiter": x.String(), "burst": burst, "ops": replay[:min(len(replay), 12)]})
		}
	}
}

func min64(a, b int64) int64 {
	if a < b {
		return a
	}
	return b
}

// ---- capture of "error replying" log lines: the only observable trace of a dropped reply ----

type c20Tap struct{ ch chan string }

func (h *c20Tap) Handle(rec log.Record) {
	t := rec.Msg.Text()
	if strings.Contains(t, "error replying") {
		select {
		case h.ch <- t:
		default:
		}
	}
}

func c20Logger(tap *c20Tap) log.Logger {
	var lg log.Logger
	lg.SetHandlers(tap)
	return lg.WithFilterLevel(log.Debug)
}

var c20Methods = []string{"ping", "find_node", "get_peers", "get", "unknown", "noargs_find_node", "noargs_get_peers", "noargs_get", "noargs_ping", "announce_badtoken", "put_badtoken", "find_node_want"}

// Builds an inbound query. Returns the datagram and whether the server attempts exactly one
// response or error for it (announce_peer/put carry an `a` dict with a bad token: silently
// ignored; they are never sent without `a`).
func c20Query(method string, tid string, id []byte, target []byte) ([]byte, bool) {
	a := bD("id", bB(id))
	switch method {
	case "ping":
		return bD("t", bS(tid), "y", bS("q"), "q", bS("ping"), "a", a).enc(), true
	case "find_node":
		a.set("target", bB(target))
		return bD("t", bS(tid), "y", bS("q"), "q", bS("find_node"), "a", a).enc(), true
	case "find_node_want":
		a.set("target", bB(target))
		a.set("want", bL(bS("n4"), bS("n6")))
		return bD("t", bS(tid), "y", bS("q"), "q", bS("find_node"), "a", a).enc(), true
	case "get_peers":
		a.set("info_hash", bB(target))
		return bD("t", bS(tid), "y", bS("q"), "q", bS("get_peers"), "a", a).enc(), true
	case "get":
		a.set("target", bB(target))
		return bD("t", bS(tid), "y", bS("q"), "q", bS("get"), "a", a).enc(), true
	case "unknown":
		return bD("t", bS(tid), "y", bS("q"), "q", bS("sample_infohashes_x"), "a", a).enc(), true
	case "noargs_find_node":
		return bD("t", bS(tid), "y", bS("q"), "q", bS("find_node")).enc(), true
	case "noargs_get_peers":
		return bD("t", bS(tid), "y", bS("q"), "q", bS("get_peers")).enc(), true
	case "noargs_get":
		return bD("t", bS(tid), "y", bS("q"), "q", bS("get")).enc(), true
	case "noargs_ping":
		return bD("t", bS(tid), "y", bS("q"), "q", bS("ping")).enc(), true
	case "announce_badtoken":
		a.set("info_hash", bB(target))
		a.set("port", bI(6881))
		a.set("token", bS("nope"))
		return bD("t", bS(tid), "y", bS("q"), "q", bS("announce_peer"), "a", a).enc(), false
	case "put_badtoken":
		a.set("token", bS("nope"))
		a.set("v", bS("x"))
		return bD("t", bS(tid), "y", bS("q"), "q", bS("put"), "a", a).enc(), false
	}
	panic("method " + method)
}

// unknown method -> 204, missing arguments -> 203 (ping ignores its arguments)
func c20AnswersWithError(method string) bool {
	return method == "unknown" || (strings.HasPrefix(method, "noargs_") && method != "noargs_ping")
}

type c20Flags struct{ notFirst, notAny, waitOnRetries, noWaitFirst bool }

func (f c20Flags) rl() dht.QueryRateLimiting {
	return dht.QueryRateLimiting{NotFirst: f.notFirst, NotAny: f.notAny, WaitOnRetries: f.waitOnRetries, NoWaitFirst: f.noWaitFirst}
}
func (f c20Flags) String() string {
	return b2s(f.notFirst) + " " + b2s(f.notAny) + " " + b2s(f.waitOnRetries) + " " + b2s(f.noWaitFirst)
}
func c20FlagsOf(m int) c20Flags { return c20Flags{m&1 != 0, m&2 != 0, m&4 != 0, m&8 != 0} }

func c20QueryEnd(res dht.QueryResult) string {
	err := res.Err
	switch {
	case err == nil:
		return "ok"
	case strings.Contains(err.Error(), "rate limit exceeded"):
		return "err:ratelimited"
	case strings.Contains(err.Error(), "waiting for rate-limit token"):
		return "err:wait"
	case strings.Contains(err.Error(), "blocked by"):
		return "err:blocked"
	case strings.Contains(err.Error(), "server is closed"):
		return "err:closed"
	case strings.Contains(err.Error(), "error writing"):
		return "err:write"
	case errors.Is(err, dht.TransactionTimeout), errors.Is(err, context.DeadlineExceeded):
		return "timeout"
	}
	return "other:" + err.Error()
}

// Run fn, turning a panic in the code under test into a violation.
func (r *Run) c20Guard(what string, replay interface{}, fn func()) {
	defer func() {
		if e := recover(); e != nil {
			r.violation(fmt.Sprintf("panic in %s: %v", what, e), replay)
		}
	}()
	fn()
}

// ---- T2: writeToNode + policies on the real server, sequentially, refill irrelevant ----

func c20Gate(r *Run) {
	cases := r.n(36, 600)
	const delay = 4 * time.Millisecond
	for c := 0; c < cases; c++ {
		x := c20Rate{0, 1}
		hourly := r.rng.Intn(3) == 0
		if hourly {
			x = c20Rate{1, 3600}
		}
		burst := r.rng.Intn(5)
		w2r := !hourly && r.rng.Intn(2) == 0 // with a refilling limiter a waiting reply would wait an hour
		conn := newFakeConn(nil)
		tap := &c20Tap{ch: make(chan string, 64)}
		cfg := baseConfig(conn)
		cfg.Logger = c20Logger(tap)
		cfg.WaitToReply = w2r
		// a query whose peer answers must not race its own resend timer
		var curDelay atomic.Int64
		curDelay.Store(int64(delay))
		cfg.QueryResendDelay = func() time.Duration { return time.Duration(curDelay.Load()) }
		t0 := time.Now()
		cfg.SendLimiter = rate.NewLimiter(x.limit(), burst)
		s, err := dht.NewServer(cfg)
		if err != nil {
			r.violation("NewServer failed: "+err.Error(), nil)
			continue
		}
		blockedNet := net.IP{198, 51, 100, 0}
		s.SetIPBlockList(iplist.New([]iplist.Range{{First: blockedNet, Last: net.IP{198, 51, 100, 255}, Description: "c20"}}))
		r.op(fmt.Sprintf("RATE new %d %d %d 0", x.p, x.q, burst), "ok")
		var wroteTo sync.Map // dst string -> chan struct{}
		var failNext atomic.Bool
		conn.failWrite = func(n int, b []byte, addr net.Addr) error {
			if failNext.Swap(false) {
				return injectedWriteErr(n)
			}
			return nil
		}
		conn.onWrite = func(w written) {
			if ch, ok := wroteTo.Load(w.Addr.String()); ok {
				select {
				case ch.(chan struct{}) <- struct{}{}:
				default:
				}
			}
		}
		var trace []string
		outFlags := map[string]c20Flags{}
		closed := false
		refused := false
		steps := 10 + r.rng.Intn(12)
		for i := 0; i < steps; i++ {
			if i == steps-2 && r.rng.Intn(2) == 0 {
				s.Close()
				closed = true
			}
			now := time.Since(t0).Nanoseconds()
			inbound := r.rng.Intn(5) < 3 && !closed
			if inbound {
				method := c20Methods[r.rng.Intn(len(c20Methods))]
				src := &net.UDPAddr{IP: net.IP{10, byte(c), byte(i), byte(1 + r.rng.Intn(250))}, Port: 1024 + r.rng.Intn(60000)}
				id, target := r.randID(), r.randID()
				b, answers := c20Query(method, fmt.Sprintf("%02x", i), id[:], target[:])
				if !answers {
					conn.inject(b, src) // no response attempt: nothing for the gate to decide
					r.hist("gate/in/" + method + "/silent")
					continue
				}
				wok := r.rng.Intn(5) != 0
				ch := make(chan struct{}, 4)
				wroteTo.Store(src.String(), ch)
				failNext.Store(!wok)
				conn.inject(b, src)
				got := ""
				deadline := time.After(5 * time.Second)
			wait:
				for {
					select {
					case <-ch:
						got = "wrote"
						break wait
					case line := <-tap.ch:
						if !strings.Contains(line, src.String()) {
							continue
						}
						switch {
						case strings.Contains(line, "rate limit exceeded"):
							got = "err:ratelimited"
						case strings.Contains(line, "waiting for rate-limit token"):
							got = "err:wait"
						case strings.Contains(line, "error writing"):
							got = "wrote+fail"
						case strings.Contains(line, "blocked by"):
							got = "err:blocked"
						case strings.Contains(line, "server is closed"):
							got = "err:closed"
						default:
							got = "other:" + line
						}
						break wait
					case <-deadline:
						got = "nothing"
						break wait
					}
				}
				failNext.Store(false)
				// errors never wait (sendError passes wait=false); responses wait iff WaitToReply
				wait := w2r && !c20AnswersWithError(method)
				op := fmt.Sprintf("RATE gatef 0 0 1 %s - %d %s", b2s(wait), now, b2s(wok))
				r.op(op, got)
				trace = append(trace, method+": "+op+" => "+got)
				r.hist("gate/in/" + method + "/" + got)
				if got != "wrote" {
					refused = true
				}
				if got == "nothing" {
					r.violation("no response, error or logged drop observed for an inbound query", map[string]interface{}{"method": method, "trace": trace})
				}
				continue
			}
			// outbound query
			f := c20FlagsOf(r.rng.Intn(16))
			tries := 1 + r.rng.Intn(3)
			blocked := r.rng.Intn(8) == 0
			responsive := r.rng.Intn(4) == 0
			if responsive {
				tries = 1 // otherwise the outcome would depend on the reply beating the resend timer
			}
			failAt := 0
			if r.rng.Intn(5) == 0 {
				failAt = 1 + r.rng.Intn(tries)
			}
			dst := &net.UDPAddr{IP: net.IP{172, 16 + byte(c%16), byte(i), byte(1 + r.rng.Intn(250))}, Port: 1024 + r.rng.Intn(60000)}
			if blocked {
				dst.IP = net.IP{198, 51, 100, byte(1 + r.rng.Intn(250))}
			}
			outFlags[dst.String()] = f
			var sends atomic.Int64
			// per-destination hook: count attempts, fail the chosen one, answer if responsive
			prevFail, prevOn := conn.failWrite, conn.onWrite
			conn.failWrite = func(n int, b []byte, addr net.Addr) error {
				if addr.String() == dst.String() {
					if int(sends.Add(1)) == failAt {
						return injectedWriteErr(n)
					}
				}
				return nil
			}
			conn.onWrite = func(w written) {
				if responsive && w.Addr.String() == dst.String() {
					if m, _, err := bdecode(w.B); err == nil {
						if tid, ok := m.get("t").str(); ok {
							rid := make([]byte, 20)
							conn.inject(bD("t", bB(tid), "y", bS("r"), "r", bD("id", bB(rid))).enc(), dst)
						}
					}
				}
			}
			timeout := time.Duration(tries+1)*delay + 3*time.Second
			if responsive {
				curDelay.Store(int64(2 * time.Second))
			} else {
				curDelay.Store(int64(delay))
			}
			ctx, cancel := context.WithTimeout(context.Background(), timeout)
			var res dht.QueryResult
			r.c20Guard("Server.Query", trace, func() {
				res = s.Query(ctx, dht.NewAddr(dst), "ping", dht.QueryInput{RateLimiting: f.rl(), NumTries: tries})
			})
			cancel()
			conn.failWrite, conn.onWrite = prevFail, prevOn
			got := fmt.Sprintf("%d %s", int(res.Writes), c20QueryEnd(res))
			op := fmt.Sprintf("RATE query %s %s %s %d %d %s %d %d %d", f, b2s(closed), b2s(blocked), timeout.Nanoseconds(), delay.Nanoseconds(), b2s(responsive), failAt, tries, now)
			r.op(op, got)
			trace = append(trace, op+" => "+got)
			r.hist("gate/out/" + c20QueryEnd(res))
			if strings.HasPrefix(c20QueryEnd(res), "err:") {
				refused = true
			}
			// direct oracles, independent of the model
			n := 0
			for _, w := range conn.writes() {
				if w.Addr.String() == dst.String() {
					n++
				}
			}
			if n != int(res.Writes) {
				r.violation("QueryResult.Writes differs from the datagrams written for the query", map[string]interface{}{"trace": trace, "datagrams": n})
			}
			if closed && n > 0 {
				r.violation("datagram written by a closed server", trace)
			}
			if f.notAny && !closed && !blocked && failAt != 1 && n == 0 {
				r.violation("opt-out query was not sent", trace)
			}
		}
		if !closed {
			s.Close()
		}
		// direct oracle: with a limiter that cannot refill within the case (0 or 1/hour), the
		// rated datagrams of the whole case number at most burst (a failed write leaves no
		// datagram and returns its token, so it does not count either way).
		ws := conn.writes()
		sort.Slice(ws, func(i, j int) bool { return ws[i].Seq < ws[j].Seq })
		rated := 0
		firstTo := map[string]bool{}
		for _, w := range ws {
			m, _, err := bdecode(w.B)
			if err != nil {
				continue
			}
			y, _ := m.get("y").str()
			kind := "reply"
			if string(y) == "q" {
				kind = "query"
				f, ok := outFlags[w.Addr.String()]
				exempt := ok && (f.notAny || (f.notFirst && !firstTo[w.Addr.String()]))
				firstTo[w.Addr.String()] = true
				if exempt {
					continue
				}
			}
			rated++
			if rated > burst {
				r.violation(kind+" sent without budget", map[string]interface{}{"rate": x.String(), "burst": burst, "rated_datagrams": rated, "trace": trace})
				break
			}
		}
		r.Result.TracesValidated++
		r.count(fmt.Sprintf("gate %v %d %v %s", x, burst, w2r, strings.Join(trace, ";")), refused)
		if c < 1 {
			r.sample(map[string]interface{}{"gate_case": map[string]interface{}{"rate": x.String(), "burst": burst, "wait_to_reply": w2r}, "trace": trace[:min(len(trace), 8)]})
		}
	}
}

// ---- T3: floods against tight limiters, real time ----

type c20Scenario struct {
	x         c20Rate
	burst     int
	w2r       bool
	failEvery int // every n-th socket write fails (0: none)
	workers   int // concurrent Server.Query callers
	pings     int // concurrent Server.Ping callers (default policy: waits for its token)
	dur       time.Duration
	seed      int64
	// leave ServerConfig.SendLimiter nil: NewServer must wire in DefaultSendLimiter
	useDefault bool
}

type c20Out struct {
	flags      c20Flags
	tries      int
	responsive bool
	res        dht.QueryResult
	done       bool
}

func c20Floods(r *Run) {
	base := []struct {
		x     c20Rate
		burst int
	}{{c20Rate{5, 1}, 3}, {c20Rate{50, 1}, 1}, {c20Rate{200, 1}, 10}}
	var scs []c20Scenario
	for _, b := range base {
		for _, w2r := range []bool{false, true} {
			for _, fail := range []int{0, 5} {
				// the flood alone, and the flood competing with our own queries
				scs = append(scs, c20Scenario{x: b.x, burst: b.burst, w2r: w2r, failEvery: fail, dur: 600 * time.Millisecond})
				scs = append(scs, c20Scenario{x: b.x, burst: b.burst, w2r: w2r, failEvery: fail, workers: 6, pings: 2, dur: 600 * time.Millisecond})
			}
		}
	}
	// the process-wide default limiter, as wired in by NewServer when the config has none
	if dl := float64(dht.DefaultSendLimiter.Limit()); dl >= 1 && dl <= 1e6 && dl == float64(int64(dl)) {
		scs = append(scs, c20Scenario{x: c20Rate{int64(dl), 1}, burst: dht.DefaultSendLimiter.Burst(), useDefault: true, workers: 4, dur: 500 * time.Millisecond})
	} else {
		r.note(fmt.Sprintf("DefaultSendLimiter has limit %v: not a whole finite rate, default-limiter scenario skipped (theorem src_default_limiter covers the constant)", dl))
	}
	extra := []c20Rate{{1, 2}, {3, 1}, {20, 1}, {125, 1}, {250, 1}, {1000, 1}, {2500, 1}, {5, 2}}
	for i := 0; i < r.n(6, 80); i++ {
		fail := 0
		if r.rng.Intn(2) == 0 {
			fail = 2 + r.rng.Intn(9)
		}
		scs = append(scs, c20Scenario{x: extra[r.rng.Intn(len(extra))], burst: []int{0, 1, 2, 5, 25}[r.rng.Intn(5)], w2r: r.rng.Intn(3) == 0,
			failEvery: fail, workers: r.rng.Intn(12), pings: r.rng.Intn(3), dur: time.Duration(300+r.rng.Intn(500)) * time.Millisecond})
	}
	for i := range scs {
		scs[i].seed = r.rng.Int63()
	}
	// two at a time: the oracle is insensitive to scheduling (a write always follows its grant)
	sem := make(chan struct{}, 2)
	var wg sync.WaitGroup
	for i := range scs {
		wg.Add(1)
		sem <- struct{}{}
		go func(sc c20Scenario) {
			defer wg.Done()
			defer func() { <-sem }()
			r.c20Guard("flood scenario", fmt.Sprintf("%+v", sc), func() { c20Flood(r, sc) })
		}(scs[i])
	}
	wg.Wait()
}

func c20Flood(r *Run, sc c20Scenario) {
	conn := newFakeConn(nil)
	cfg := baseConfig(conn)
	cfg.WaitToReply = sc.w2r
	cfg.QueryResendDelay = func() time.Duration { return 15 * time.Millisecond }
	var failures atomic.Int64
	if sc.failEvery > 0 {
		conn.failWrite = func(n int, b []byte, addr net.Addr) error {
			if n%sc.failEvery == 0 {
				failures.Add(1)
				return injectedWriteErr(n)
			}
			return nil
		}
	}
	// answers to our own queries, for the destinations marked responsive
	var responsive sync.Map
	conn.onWrite = func(w written) {
		if _, ok := responsive.Load(w.Addr.String()); !ok {
			return
		}
		if m, _, err := bdecode(w.B); err == nil {
			if tid, ok := m.get("t").str(); ok {
				go conn.inject(bD("t", bB(tid), "y", bS("r"), "r", bD("id", bB(make([]byte, 20)))).enc(), w.Addr)
			}
		}
	}
	t0 := time.Now() // just BEFORE the limiter exists (a limiter's bucket is full at its first use, not before)
	if sc.useDefault {
		cfg.SendLimiter = nil
	} else {
		cfg.SendLimiter = rate.NewLimiter(sc.x.limit(), sc.burst)
	}
	s, err := dht.NewServer(cfg)
	if err != nil {
		r.violation("NewServer failed: "+err.Error(), nil)
		return
	}
	stop := t0.Add(sc.dur)

	// inbound flood from spoofed sources; with WaitToReply every reply queues for a token, so the
	// flood is sized to what the limiter can serve within the scenario
	type inq struct {
		method   string
		answers  bool
		answered int
	}
	var inMu sync.Mutex
	injected := map[string]*inq{} // "addr|t"
	maxIn := 1 << 30
	if sc.w2r {
		maxIn = sc.burst + int(float64(sc.x.p)/float64(sc.x.q)*sc.dur.Seconds()*0.8)
	}
	nIn, malformed := 0, 0
	var wg sync.WaitGroup
	wg.Add(1)
	go func() {
		defer wg.Done()
		frng := rand.New(rand.NewSource(sc.seed + 1))
		for nIn < maxIn {
			if nIn%64 == 0 && !time.Now().Before(stop) {
				break
			}
			method := c20Methods[frng.Intn(len(c20Methods))]
			if sc.w2r && (method == "announce_badtoken" || method == "put_badtoken") {
				method = "ping"
			}
			src := &net.UDPAddr{IP: net.IP{10, byte(nIn >> 16), byte(nIn >> 8), byte(nIn)}, Port: 1024 + frng.Intn(60000)}
			if frng.Intn(10) == 0 { // several queries from one source (amplification attempt)
				src = &net.UDPAddr{IP: net.IP{10, 200, 0, byte(frng.Intn(4))}, Port: 7000}
			}
			var id, target [20]byte
			frng.Read(id[:])
			frng.Read(target[:])
			tid := fmt.Sprintf("%x", nIn)
			if !sc.w2r && frng.Intn(16) == 0 {
				// malformed stream: none of these may be answered
				var junk []byte
				switch frng.Intn(4) {
				case 0:
					junk = make([]byte, 1+frng.Intn(60))
					frng.Read(junk)
					if junk[0] == 'd' {
						junk[0] = 'x'
					}
				case 1:
					full, _ := c20Query([]string{"ping", "find_node", "get_peers", "get"}[frng.Intn(4)], tid, id[:], target[:])
					junk = full[:1+frng.Intn(len(full)-1)]
				case 2:
					junk = bD("t", bS(tid), "y", bS("x"), "a", bD("id", bB(id[:]))).enc()
				default:
					junk = bD("t", bS(tid), "y", bS("r"), "r", bD("id", bB(id[:]))).enc()
				}
				malformed++
				conn.inject(junk, src)
				nIn++
				continue
			}
			b, answers := c20Query(method, tid, id[:], target[:])
			inMu.Lock()
			injected[src.String()+"|"+tid] = &inq{method: method, answers: answers}
			inMu.Unlock()
			conn.inject(b, src)
			nIn++
		}
	}()

	// concurrent outbound queries, every flag combination
	var outMu sync.Mutex
	outs := map[string]*c20Out{}
	var seq atomic.Int64
	for w := 0; w < sc.workers; w++ {
		wg.Add(1)
		wrng := rand.New(rand.NewSource(sc.seed + 100 + int64(w)))
		go func(w int) {
			defer wg.Done()
			for time.Now().Before(stop) {
				n := seq.Add(1)
				o := &c20Out{flags: c20FlagsOf(int(n) % 16), tries: 1 + wrng.Intn(3), responsive: wrng.Intn(3) == 0}
				dst := &net.UDPAddr{IP: net.IP{172, 16, byte(n >> 8), byte(n)}, Port: 2000 + w}
				outMu.Lock()
				outs[dst.String()] = o
				outMu.Unlock()
				if o.responsive {
					responsive.Store(dst.String(), true)
				}
				ctx, cancel := context.WithTimeout(context.Background(), time.Duration(20+wrng.Intn(60))*time.Millisecond)
				method := []string{"ping", "find_node", "get_peers"}[wrng.Intn(3)]
				res := s.Query(ctx, dht.NewAddr(dst), method, dht.QueryInput{RateLimiting: o.flags.rl(), NumTries: o.tries})
				cancel()
				outMu.Lock()
				o.res, o.done = res, true
				outMu.Unlock()
			}
		}(w)
	}
	// Server.Ping: default policy, no context: waits for its token however long. Bounded count.
	pingBudget := int64(2 + int(float64(sc.x.p)/float64(sc.x.q)*sc.dur.Seconds()/4))
	var pingsDone sync.WaitGroup
	for p := 0; p < sc.pings; p++ {
		pingsDone.Add(1)
		go func(p int) {
			defer pingsDone.Done()
			for time.Now().Before(stop) && atomic.AddInt64(&pingBudget, -1) >= 0 {
				n := seq.Add(1)
				dst := &net.UDPAddr{IP: net.IP{172, 17, byte(n >> 8), byte(n)}, Port: 3000 + p}
				outMu.Lock()
				outs[dst.String()] = &c20Out{tries: 1, responsive: true}
				outMu.Unlock()
				responsive.Store(dst.String(), true)
				s.Ping(dst)
			}
		}(p)
	}
	wg.Wait()
	waitFor(func() bool { return c20Drained(conn) }, 2*time.Second)
	if sc.w2r {
		// waiting replies are all served eventually; give them the time the limiter needs
		need := time.Duration(float64(maxIn+8) / (float64(sc.x.p) / float64(sc.x.q)) * float64(time.Second))
		if need > 1500*time.Millisecond {
			need = 1500 * time.Millisecond
		}
		last := -1
		waitFor(func() bool {
			n := conn.numWrites()
			same := n == last
			last = n
			return same && time.Since(t0) > sc.dur+need
		}, sc.dur+need+time.Second)
	} else {
		// replies are written (or dropped) by goroutines spawned while the packet was processed:
		// wait until the count of datagrams has been stable for a while (late datagrams would
		// only be missed, never misjudged)
		last, since := -1, time.Now()
		waitFor(func() bool {
			if n := conn.numWrites(); n != last {
				last, since = n, time.Now()
			}
			return time.Since(since) > 20*time.Millisecond
		}, time.Second)
	}
	pingWait := make(chan struct{})
	go func() { pingsDone.Wait(); close(pingWait) }()
	select {
	case <-pingWait:
	case <-time.After(1500 * time.Millisecond):
	}
	s.Close()
	conn.Close()

	// ---- evaluation ----
	ws := conn.writes()
	sort.Slice(ws, func(i, j int) bool { return ws[i].At.Before(ws[j].At) })
	replay := map[string]interface{}{"rate": sc.x.String(), "burst": sc.burst, "wait_to_reply": sc.w2r, "fail_every": sc.failEvery,
		"workers": sc.workers, "pings": sc.pings, "seed": sc.seed, "injected": nIn}
	firstTo := map[string]bool{}
	rated, exempt, replies, errorsSent, queries := 0, 0, 0, 0, 0
	tight := false
	perDst := map[string]int{}
	reported := false
	for _, w := range ws {
		m, _, err := bdecode(w.B)
		if err != nil {
			r.violation("server wrote a datagram that is not bencode", replay)
			continue
		}
		y, _ := m.get("y").str()
		tid, _ := m.get("t").str()
		dst := w.Addr.String()
		isRated := true
		switch string(y) {
		case "r", "e":
			if string(y) == "r" {
				replies++
			} else {
				errorsSent++
			}
			inMu.Lock()
			q := injected[dst+"|"+string(tid)]
			if q == nil || !q.answers {
				inMu.Unlock()
				r.violation("reply to a query that was never sent", map[string]interface{}{"scenario": replay, "dst": dst, "t": string(tid)})
				continue
			}
			q.answered++
			dup := q.answered > 1
			inMu.Unlock()
			if dup {
				r.violation("query answered more than once", map[string]interface{}{"scenario": replay, "dst": dst, "t": string(tid)})
			}
		case "q":
			queries++
			perDst[dst]++
			outMu.Lock()
			o := outs[dst]
			outMu.Unlock()
			if o == nil {
				r.violation("query datagram to an address nobody asked to query", map[string]interface{}{"scenario": replay, "dst": dst})
				continue
			}
			// exempt by construction of the scenario: NotAny, or the first datagram of a NotFirst query
			if o.flags.notAny || (o.flags.notFirst && !firstTo[dst]) {
				isRated = false
			}
			firstTo[dst] = true
		default:
			r.violation("server wrote a datagram that is neither query, response nor error", replay)
			continue
		}
		if !isRated {
			exempt++
			continue
		}
		rated++
		dt := w.At.Sub(t0).Nanoseconds()
		ok := c20Within(sc.x, sc.burst, rated, dt)
		if !c20Within(sc.x, sc.burst, rated+1+sc.burst/4, dt) {
			tight = true
		}
		if rated%16 == 1 || !ok {
			r.op(fmt.Sprintf("RATE within %d %d %d %d %d", sc.x.p, sc.x.q, sc.burst, rated, dt), b2s(ok))
		}
		if !ok && !reported {
			reported = true
			kind := "rated datagrams exceed burst + rate*t"
			rep := map[string]interface{}{"scenario": replay, "kind": string(y), "n": rated, "t_ns": dt, "gomaxprocs": runtime.GOMAXPROCS(0)}
			r.violation(kind, rep)
		}
	}
	// Query results against the datagrams seen
	outMu.Lock()
	for dst, o := range outs {
		if !o.done {
			continue
		}
		if int(o.res.Writes) != perDst[dst] {
			r.violation("QueryResult.Writes differs from the datagrams written for the query", map[string]interface{}{"scenario": replay, "dst": dst, "writes": int(o.res.Writes), "datagrams": perDst[dst]})
		}
		if perDst[dst] > o.tries {
			r.violation("query sent more often than NumTries", map[string]interface{}{"scenario": replay, "dst": dst})
		}
		end := c20QueryEnd(o.res)
		if o.responsive && o.tries > 1 && o.flags.waitOnRetries && !o.flags.notAny {
			r.hist("flood/unmodelled/cancel-possible")
		}
		r.hist("flood/query/" + strings.SplitN(end, ":", 3)[0] + ":" + strings.TrimPrefix(end, "err:"))
		r.count(fmt.Sprintf("q %d %s %d %d %s", sc.seed, dst, o.tries, int(o.res.Writes), end), strings.HasPrefix(end, "err:") || perDst[dst] > 1)
	}
	outMu.Unlock()
	answered := 0
	for _, q := range injected {
		if q.answered > 0 {
			answered++
		}
	}
	if sc.w2r && sc.failEvery == 0 && sc.pings == 0 && sc.workers == 0 {
		// nothing competes for tokens and nothing fails: a waiting response is delayed, never
		// dropped (errors never wait, so they may be)
		want, got := 0, 0
		for _, q := range injected {
			if q.answers && !c20AnswersWithError(q.method) {
				want++
				if q.answered > 0 {
					got++
				}
			}
		}
		if got < want {
			r.violation("waiting reply was dropped", map[string]interface{}{"scenario": replay, "answered": got, "want": want})
		}
	}
	r.mu.Lock()
	r.Result.TracesValidated++
	r.mu.Unlock()
	r.hist(fmt.Sprintf("flood/w2r=%v/fail=%v/tight=%v", sc.w2r, sc.failEvery > 0, tight))
	r.count(fmt.Sprintf("flood %+v", sc), tight)
	if c20FloodSamples.Add(1) <= 2 {
		r.sample(map[string]interface{}{"flood": replay, "elapsed_ms": time.Since(t0).Milliseconds(), "rated": rated, "exempt": exempt, "replies": replies,
			"errors": errorsSent, "queries": queries, "answered": answered, "malformed_injected": malformed, "write_failures": failures.Load(), "reached_budget": tight})
	}
}

var c20FloodSamples atomic.Int64

// every injected datagram has been taken by the serve loop
func c20Drained(c *fakeConn) bool { return len(c.in) == 0 }

// ---- T3: one limiter shared by several servers (the default: DefaultSendLimiter is process-wide) ----

// Each server's serve loop runs on its own goroutine, so the limiter sees concurrent callers; with
// fewer Ps than runnable goroutines a caller can be descheduled between reading the clock and
// entering the limiter. The budget is the limiter's, across all servers that share it.
func c20Shared(r *Run) {
	type shared struct {
		x       c20Rate
		burst   int
		servers int
		procs   int
		w2r     bool
	}
	// Whether a run of a scenario shows the excess depends on the schedule (measured: about 6 in 10
	// with 16 servers on 4 Ps), so the configurations that show it most often are repeated.
	var scs []shared
	for i := 0; i < 6; i++ {
		scs = append(scs, shared{c20Rate{200, 1}, 10, 16, 4, false})
	}
	scs = append(scs, shared{c20Rate{200, 1}, 10, 16, 6, false}, shared{c20Rate{200, 1}, 10, 32, 4, false},
		shared{c20Rate{1000, 1}, 5, 8, 4, false}, shared{c20Rate{1000, 1}, 5, 8, 4, false}, shared{c20Rate{250, 1}, 25, 2, 2, false})
	for i := 0; i < r.n(1, 20); i++ {
		scs = append(scs, shared{[]c20Rate{{50, 1}, {200, 1}, {250, 1}, {1000, 1}}[r.rng.Intn(4)], []int{1, 5, 10, 25}[r.rng.Intn(4)], 2 + r.rng.Intn(7), []int{2, 4, 8, 16}[r.rng.Intn(4)], false})
	}
	found := 0
	for _, sc := range scs {
		seed := r.rng.Int63()
		if found >= 3 && !r.thorough() {
			break // shown three times over; the rest would only repeat it
		}
		r.c20Guard("shared-limiter scenario", fmt.Sprintf("%+v", sc), func() {
			prev := runtime.GOMAXPROCS(sc.procs)
			defer runtime.GOMAXPROCS(prev)
			t0 := time.Now() // before the limiter exists
			lim := rate.NewLimiter(sc.x.limit(), sc.burst)
			var conns []*fakeConn
			var srvs []*dht.Server
			for i := 0; i < sc.servers; i++ {
				conn := newFakeConn(&net.UDPAddr{IP: net.IP{203, 0, 113, byte(i + 1)}, Port: 6881})
				cfg := baseConfig(conn)
				cfg.SendLimiter = lim
				cfg.WaitToReply = sc.w2r
				s, err := dht.NewServer(cfg)
				if err != nil {
					r.violation("NewServer failed: "+err.Error(), nil)
					return
				}
				conns, srvs = append(conns, conn), append(srvs, s)
			}
			stop := t0.Add(300 * time.Millisecond)
			var wg sync.WaitGroup
			injected := make([]int, sc.servers)
			for i := range conns {
				wg.Add(1)
				go func(i int) {
					defer wg.Done()
					frng := rand.New(rand.NewSource(seed + int64(i)))
					methods := []string{"ping", "find_node", "get_peers", "get", "unknown", "noargs_get", "find_node_want"}
					for n := 0; ; n++ {
						if n%32 == 0 && !time.Now().Before(stop) {
							injected[i] = n
							return
						}
						var id, target [20]byte
						frng.Read(id[:])
						frng.Read(target[:])
						b, _ := c20Query(methods[frng.Intn(len(methods))], fmt.Sprintf("%x", n), id[:], target[:])
						conns[i].inject(b, &net.UDPAddr{IP: net.IP{10, byte(n >> 16), byte(n >> 8), byte(n)}, Port: 1024 + frng.Intn(60000)})
					}
				}(i)
			}
			wg.Wait()
			for _, c := range conns {
				waitFor(func() bool { return c20Drained(c) }, time.Second)
			}
			total := func() (n int) {
				for _, c := range conns {
					n += c.numWrites()
				}
				return
			}
			last, since := -1, time.Now()
			waitFor(func() bool {
				if n := total(); n != last {
					last, since = n, time.Now()
				}
				return time.Since(since) > 20*time.Millisecond
			}, time.Second)
			for _, s := range srvs {
				s.Close()
			}
			var at []time.Time
			for _, c := range conns {
				c.Close()
				for _, w := range c.writes() {
					at = append(at, w.At) // all responses and errors: all rated
				}
			}
			sort.Slice(at, func(i, j int) bool { return at[i].Before(at[j]) })
			sumIn := 0
			for _, n := range injected {
				sumIn += n
			}
			replay := map[string]interface{}{"rate": sc.x.String(), "burst": sc.burst, "servers_sharing_the_limiter": sc.servers, "gomaxprocs": sc.procs,
				"injected": sumIn, "seed": seed}
			worst, worstN, worstDt, over := int64(0), 0, int64(0), 0
			for i, a := range at {
				n, dt := i+1, a.Sub(t0).Nanoseconds()
				ok := c20Within(sc.x, sc.burst, n, dt)
				if n%16 == 1 || (!ok && over == 0) {
					r.op(fmt.Sprintf("RATE within %d %d %d %d %d", sc.x.p, sc.x.q, sc.burst, n, dt), b2s(ok))
				}
				if !ok {
					over++
					// excess in milli-tokens
					ex := (int64(n)-int64(sc.burst))*1000 - sc.x.p*dt/(sc.x.q*1000000)
					if ex > worst {
						worst, worstN, worstDt = ex, n, dt
					}
				}
			}
			if over > 0 {
				replay["rated_datagrams"] = len(at)
				replay["first_n_over"] = worstN
				replay["t_ns"] = worstDt
				replay["worst_excess_tokens"] = float64(worst) / 1000
				replay["prefixes_over_budget"] = over
				r.violation("rated datagrams exceed burst + rate*t: limiter shared by several servers", replay)
				found++
			}
			r.mu.Lock()
			r.Result.TracesValidated++
			r.mu.Unlock()
			r.hist(fmt.Sprintf("shared/servers=%d/procs=%d/over=%v", sc.servers, sc.procs, over > 0))
			r.count(fmt.Sprintf("shared %+v %d", sc, seed), len(at) >= sc.burst)
			r.sample(map[string]interface{}{"shared_limiter": replay, "rated": len(at), "over_budget_prefixes": over})
		})
	}
}

// ---- T3: reservations abandoned while waiting (context cancelled / deadline before the slot) ----

// A query waiting for send budget holds a reservation in the limiter; giving it up hands the token
// back at the instant of the cancellation. Histories: the burst is spent, one or two queries wait,
// a query whose deadline lies before its slot is refused, the waiters are cancelled, later queries
// are issued. Oracle: every prefix of the datagrams actually written fits burst + rate x elapsed,
// with t0 taken before the limiter exists.
func c20WaitCancel(r *Run) {
	for i := 0; i < r.n(40, 400); i++ {
		x := []c20Rate{{10, 1}, {20, 1}, {40, 1}}[r.rng.Intn(3)]
		burst := 1 + r.rng.Intn(2)
		slot := time.Duration(int64(time.Second) * x.q / x.p)
		t0 := time.Now()
		lim := rate.NewLimiter(x.limit(), burst)
		conn := newFakeConn(nil)
		cfg := baseConfig(conn)
		cfg.SendLimiter = lim
		s, err := dht.NewServer(cfg)
		if err != nil {
			r.violation("NewServer failed: "+err.Error(), nil)
			return
		}
		var events []string
		var wg sync.WaitGroup
		issue := func(name string, ctx context.Context, k int) {
			wg.Add(1)
			dst := dht.NewAddr(&net.UDPAddr{IP: net.IP{198, 51, 100, byte(k + 1)}, Port: 7000 + k})
			go func() {
				defer wg.Done()
				s.Query(ctx, dst, "ping", dht.QueryInput{NumTries: 1})
			}()
			events = append(events, fmt.Sprintf("+%v %s issued", time.Since(t0).Round(time.Millisecond), name))
		}
		short, cancelShort := context.WithTimeout(context.Background(), 400*time.Millisecond)
		k := 0
		for j := 0; j < burst; j++ { // spend the burst
			issue("burst query", short, k)
			k++
		}
		conn.waitWrites(burst, time.Second)
		nWait := 1 + r.rng.Intn(2)
		var cancels []context.CancelFunc
		for j := 0; j < nWait; j++ {
			ctx, cancel := context.WithCancel(context.Background())
			cancels = append(cancels, cancel)
			issue("waiter", ctx, k)
			k++
		}
		time.Sleep(time.Duration(int64(slot) * int64(30+r.rng.Intn(40)) / 100)) // 30..70 % into the first slot
		if r.rng.Intn(4) != 0 {
			// deadline before its slot: refused at once, which also advances the limiter's clock
			dctx, dcancel := context.WithTimeout(context.Background(), slot/10)
			issue("query with a deadline before its slot", dctx, k)
			k++
			defer dcancel()
		}
		time.Sleep(time.Duration(r.rng.Intn(1 + int(slot/20))))
		for j := len(cancels) - 1; j >= 0; j-- {
			cancels[j]()
		}
		events = append(events, fmt.Sprintf("+%v waiters cancelled", time.Since(t0).Round(time.Millisecond)))
		time.Sleep(time.Duration(r.rng.Intn(1 + int(slot/10))))
		for j := 0; j < 1+r.rng.Intn(3); j++ {
			issue("later query", short, k)
			k++
		}
		wg.Wait()
		cancelShort()
		s.Close()
		ws := conn.writes()
		for n, w := range ws {
			dt := w.At.Sub(t0).Nanoseconds()
			if !c20Within(x, burst, n+1, dt) {
				ev := append([]string{}, events...)
				for m, w2 := range ws[:n+1] {
					ev = append(ev, fmt.Sprintf("datagram %d written at +%v", m+1, w2.At.Sub(t0).Round(100*time.Microsecond)))
				}
				r.violation(fmt.Sprintf("rated datagrams exceed burst + rate*t: %d datagrams by +%v with rate %s/s burst %d (a waiting query was abandoned)", n+1, w.At.Sub(t0).Round(100*time.Microsecond), x, burst),
					map[string]interface{}{"events": ev})
				break
			}
		}
		r.hist(fmt.Sprintf("wait-cancel/rate=%s/burst=%d/waiters=%d", x, burst, nWait))
		r.count(fmt.Sprintf("wait-cancel/%d", i), true)
		r.Result.TracesValidated++
	}
}

// ---- T3: a token handed back after a failed write while another query waits for budget ----

// x/time/rate computes what an abandoned reservation restores from the limiter's `lastEvent`;
// handing a token back with AllowN(now, -1) moves `lastEvent` to now, i.e. BEFORE the slot of a
// pending reservation. History: the burst is spent, the socket write of the last of those sends is
// held; a further query waits for budget (reservation); the held write fails (token handed back);
// the waiter is cancelled; later queries are issued. Oracle: prefix budget over the datagrams
// actually written, as everywhere else.
func c20GiveBackCancel(r *Run) {
	for i := 0; i < r.n(12, 120); i++ {
		x := []c20Rate{{1, 1}, {2, 1}, {5, 1}}[r.rng.Intn(3)]
		burst := 2 + r.rng.Intn(3)
		t0 := time.Now()
		lim := rate.NewLimiter(x.limit(), burst)
		conn := newFakeConn(nil)
		cfg := baseConfig(conn)
		cfg.SendLimiter = lim
		s, err := dht.NewServer(cfg)
		if err != nil {
			r.violation("NewServer failed: "+err.Error(), nil)
			return
		}
		var events []string
		ev := func(f string, a ...interface{}) {
			events = append(events, fmt.Sprintf("+%v ", time.Since(t0).Round(100*time.Microsecond))+fmt.Sprintf(f, a...))
		}
		gate := make(chan struct{})
		var held atomic.Bool
		var holdNext atomic.Bool
		conn.failWrite = func(n int, b []byte, addr net.Addr) error {
			if holdNext.Swap(false) {
				held.Store(true)
				<-gate
				return errors.New("sendto: network is unreachable")
			}
			return nil
		}
		var wg sync.WaitGroup
		k := 0
		issue := func(name string, ctx context.Context) {
			wg.Add(1)
			dst := dht.NewAddr(&net.UDPAddr{IP: net.IP{198, 51, 100, byte(k + 1)}, Port: 7000 + k})
			k++
			go func() {
				defer wg.Done()
				s.Query(ctx, dst, "ping", dht.QueryInput{NumTries: 1})
			}()
			ev("%s issued", name)
		}
		all, cancelAll := context.WithCancel(context.Background())
		for j := 0; j < burst-1; j++ {
			issue("burst query", all)
		}
		conn.waitWrites(burst-1, time.Second)
		holdNext.Store(true)
		issue("burst query whose socket write is held and will fail", all)
		if !waitFor(held.Load, time.Second) {
			cancelAll()
			close(gate)
			s.Close()
			continue
		}
		wctx, wcancel := context.WithCancel(context.Background())
		issue("waiter (no budget left: reserves the next slot)", wctx)
		time.Sleep(2 * time.Millisecond)
		close(gate)
		ev("held write fails: its token is handed back")
		time.Sleep(time.Millisecond)
		wcancel()
		ev("waiter cancelled: its reservation is abandoned")
		time.Sleep(time.Millisecond)
		later := 2 + r.rng.Intn(2)
		for j := 0; j < later; j++ {
			issue("later query", all)
		}
		time.Sleep(5 * time.Millisecond)
		cancelAll()
		wg.Wait()
		s.Close()
		ws := conn.writes()
		for n, w := range ws {
			dt := w.At.Sub(t0).Nanoseconds()
			if !c20Within(x, burst, n+1, dt) {
				e := append([]string{}, events...)
				for m, w2 := range ws[:n+1] {
					e = append(e, fmt.Sprintf("datagram %d written at +%v", m+1, w2.At.Sub(t0).Round(100*time.Microsecond)))
				}
				r.violation(fmt.Sprintf("rated datagrams exceed burst + rate*t: %d datagrams by +%v with rate %s/s burst %d (token handed back after a failed write while a query waited, then the waiter was abandoned)", n+1, w.At.Sub(t0).Round(100*time.Microsecond), x, burst),
					map[string]interface{}{"events": e})
				break
			}
		}
		r.hist(fmt.Sprintf("giveback-cancel/rate=%s/burst=%d/written=%d", x, burst, len(ws)))
		r.count(fmt.Sprintf("giveback-cancel/%d", i), true)
		r.Result.TracesValidated++
	}
}

// ---- T2: rate.Limiter incl. Reservation.CancelAt vs the Lean bucket with lastEvent (Model/RateCancel) ----

// Synthetic monotone timelines on the 2^-9 s grid with power-of-two rates (every wait is a whole number
// of quanta, float64 arithmetic exact): AllowN(t,1), ReserveN(t,1), AllowN(t,-1) and CancelAt(t) of a
// PRNG-chosen earlier reservation. The limiter's fields are not observable; agreement is judged on every
// later Allow answer and reservation slot.
func c20LimiterCancel(r *Run) {
	base := time.Unix(1700000000, 0)
	pow2 := []c20Rate{{1, 8}, {1, 4}, {1, 2}, {1, 1}, {2, 1}, {4, 1}, {8, 1}, {16, 1}, {32, 1}, {64, 1}, {128, 1}, {256, 1}, {512, 1}}
	for c := 0; c < r.n(300, 10000); c++ {
		x := pow2[r.rng.Intn(len(pow2))]
		burst := []int{1, 1, 2, 3, 5}[r.rng.Intn(5)]
		lim := rate.NewLimiter(x.limit(), burst)
		r.op(fmt.Sprintf("RATE cnew %d %d %d 0", x.p, x.q, burst), "ok")
		period := 512 * x.q / x.p
		if period < 1 {
			period = 1
		}
		t := int64(0)
		type resv struct {
			rv   *rate.Reservation
			slot int64
			done bool
		}
		var rs []*resv
		var replay []string
		cancels, gives := 0, 0
		for i := 0; i < 15+r.rng.Intn(50); i++ {
			var dq int64
			switch r.rng.Intn(8) {
			case 0, 1, 2:
				dq = 0
			case 3:
				dq = 1
			case 4:
				dq = period / 2
			case 5:
				dq = period
			default:
				dq = int64(r.rng.Intn(int(2*period + 2)))
			}
			t += dq * c20Quantum
			now := base.Add(time.Duration(t))
			var op, got string
			switch k := r.rng.Intn(20); {
			case k < 6:
				rv := lim.ReserveN(now, 1)
				op = fmt.Sprintf("RATE creserve %d -", t)
				if rv.OK() {
					at := t + int64(rv.DelayFrom(now))
					got = fmt.Sprintf("%d %d", len(rs), at)
					rs = append(rs, &resv{rv, at, false})
				} else {
					got = "no"
				}
			case k < 8:
				ok := lim.AllowN(now, -1)
				op, got = fmt.Sprintf("RATE cgive %d", t), b2s(ok)
				gives++
			case k < 13 && len(rs) > 0:
				id := r.rng.Intn(len(rs))
				if rs[id].done {
					continue
				}
				rs[id].rv.CancelAt(now)
				rs[id].done = true
				op, got = fmt.Sprintf("RATE cancel %d %d", id, t), "ok"
				cancels++
			default:
				ok := lim.AllowN(now, 1)
				op, got = fmt.Sprintf("RATE callow %d", t), b2s(ok)
			}
			r.op(op, got)
			replay = append(replay, op+" => "+got)
		}
		r.hist(fmt.Sprintf("limiter-cancel/cancels>0=%v/gives>0=%v", cancels > 0, gives > 0))
		r.count(fmt.Sprintf("limc %v %d %s", x, burst, strings.Join(replay, ";")), cancels > 0)
		if c < 1 {
			r.sample(map[string]interface{}{"limiter": x.String(), "burst": burst, "ops": replay[:min(len(replay), 12)]})
		}
	}
}
