package main

// Traversal harness for C02, C03, C04: a real traversal.Operation whose DoQuery parks every query
// until the PRNG-driven schedule releases it with a result drawn from a generated response graph.
// After every release the operation is polled (snapshot hook) to quiescence, the state is dumped
// for the Lean model and the direct oracles are evaluated.

import (
	"context"
	"fmt"
	"math/big"
	"net"
	"net/netip"
	"sort"
	"strings"
	"sync"
	"sync/atomic"
	"time"

	"github.com/anacrolix/dht/v2/int160"
	k_nearest_nodes "github.com/anacrolix/dht/v2/k-nearest-nodes"
	"github.com/anacrolix/dht/v2/krpc"
	"github.com/anacrolix/dht/v2/traversal"
	"github.com/anacrolix/dht/v2/types"
	"github.com/anacrolix/generics"
)

func init() {
	commands["C02"] = runTrav
	commands["C03"] = runTrav
	commands["C04"] = runTrav
}

type gnode struct {
	ip     []byte
	port   int
	id     [20]byte
	silent bool
	// answers without identifying itself as a responder (the reply has no usable `id`): the contacts it
	// lists are candidates all the same
	nodesOnly bool
	respID    [20]byte
	token     *string
	nbrs      []cand // what it lists
	both      bool   // split the list over Nodes and Nodes6
}

func (g *gnode) key() string { return hx(g.ip) + "/" + itoa(g.port) }

type parkedQ struct {
	addr    krpc.NodeAddr
	ctx     context.Context
	release chan traversal.QueryResult
}

type travScen struct {
	r        *Run
	target   [20]byte
	k, alpha int
	rej      map[string]bool // rejected IPs (hex)
	kClosest []*gnode        // honest network: the K nodes closest to the target
	honest   bool            // honest finite network: every node answers under its true ID with the true K closest nodes
	learned  []cand          // every contact the lookup was told about (seeds, node lists of delivered replies)
	rejID    map[string]bool // rejected node IDs (hex): the filter depends on the identity, as Server.TraversalNodeFilter does
	needData bool
	nodes    map[string]*gnode
	op       *traversal.Operation
	mu       sync.Mutex
	parked   map[string]*parkedQ
	entered  int
	maxConc  int
	perAddr  map[string]int
	events   []string
	mute     bool
	// truth for C02
	responders map[string]respRec // key id/ip/port -> latest data
	reported   map[string]bool
	dead       bool
	stopCalled bool
	stallCh    chan traversal.VerifSnapshot // the watcher's snapshot taken right after it received stalled
	quit       chan struct{}
}

type respRec struct {
	id   [20]byte
	ip   []byte
	port int
	data *string
}

func (t *travScen) ev(f string, a ...interface{}) {
	t.events = append(t.events, fmt.Sprintf(f, a...))
	if len(t.events) > 80 {
		t.events = t.events[len(t.events)-80:]
	}
}

func (t *travScen) viol(prop, what string) {
	if prop == t.r.Prop {
		t.r.violation(what, map[string]interface{}{"target": hx(t.target[:]), "k": t.k, "alpha": t.alpha, "events": append([]string{}, t.events...)})
	}
}

func (t *travScen) op_(op, impl string) {
	if !t.mute {
		t.r.op(op, impl)
	}
}

func naKey(a krpc.NodeAddr) string { return hx(a.IP) + "/" + itoa(a.Port) }

func (t *travScen) doQuery(ctx context.Context, addr krpc.NodeAddr) traversal.QueryResult {
	p := &parkedQ{addr: addr, ctx: ctx, release: make(chan traversal.QueryResult, 1)}
	k := naKey(addr)
	t.mu.Lock()
	t.perAddr[k]++
	if t.perAddr[k] > 1 {
		// queried again: keep both entries so that neither goroutine is stranded
		t.parked[fmt.Sprintf("%s#%d", k, t.perAddr[k])] = p
	} else {
		t.parked[k] = p
	}
	t.entered++
	if len(t.parked) > t.maxConc {
		t.maxConc = len(t.parked)
	}
	t.mu.Unlock()
	res := <-p.release
	return res
}

func (t *travScen) numParked() int { t.mu.Lock(); defer t.mu.Unlock(); return len(t.parked) }

func (t *travScen) filter(a types.AddrMaybeId) bool {
	var ip []byte
	if a.Addr.Addr().IsValid() {
		ip = a.Addr.Addr().AsSlice()
	}
	if a.Id.Ok {
		id := a.Id.Value.AsByteArray()
		if t.rejID[hx(id[:])] {
			return false
		}
	}
	return !t.rej[hx(ip)]
}

// Wait until every started query is parked in DoQuery and the run loop has nothing left to start.
func (t *travScen) quiesce() (traversal.VerifSnapshot, bool) {
	var snap traversal.VerifSnapshot
	ok := waitFor(func() bool {
		// The parked count is read BEFORE the snapshot: it only grows while a reply is being
		// processed, so equality with a later snapshot's Outstanding means the released query has
		// finished and every started query is parked (reading it after the snapshot could pair a
		// stale snapshot with a newer count).
		p := t.numParked()
		snap = t.op.VerifSnapshot()
		if snap.Outstanding != p || t.numParked() != p {
			return false
		}
		if snap.Stopping {
			return true
		}
		return snap.Outstanding >= t.alpha || !snap.HaveQuery
	}, 5*time.Second)
	if ok && snap.Stopping && snap.Outstanding == 0 && !snap.Stopped {
		// the stop waiter signals stopped asynchronously once nothing is outstanding
		if !waitFor(func() bool { snap = t.op.VerifSnapshot(); return snap.Stopped }, 3*time.Second) {
			t.viol("C03", "Stop does not complete although no query is in flight")
		}
		return snap, true
	}
	if ok {
		// the run loop must also have gone back to sleep: a second look must agree
		time.Sleep(50 * time.Microsecond)
		s2 := t.op.VerifSnapshot()
		if s2.Outstanding != snap.Outstanding || len(s2.Unqueried) != len(snap.Unqueried) {
			return t.quiesce()
		}
	}
	return snap, ok
}

func amiCand(a types.AddrMaybeId) string { return amiStr(a) }

func addrPortStrToOp(s string) string {
	ap, err := netip.ParseAddrPort(s)
	if err != nil {
		return "_/0"
	}
	return hx(ap.Addr().AsSlice()) + "/" + itoa(int(ap.Port()))
}

func (t *travScen) closestList() (els []string, canon []string, raw []k_nearest_nodes.Elem) {
	t.op.Closest().Range(func(e k_nearest_nodes.Elem) {
		raw = append(raw, e)
		d := "-"
		if s, ok := e.Data.(string); ok {
			d = hx([]byte(s))
		}
		var ip []byte
		if e.Addr.Addr().IsValid() {
			ip = e.Addr.Addr().AsSlice()
		}
		es := hx(e.ID[:]) + "/" + hx(ip) + "/" + itoa(int(e.Addr.Port())) + "/" + d
		els = append(els, es)
		dist := int160.Distance(e.ID.Int160(), i160(t.target))
		canon = append(canon, hx(dist.Bytes())+"|"+es)
	})
	sort.Strings(canon)
	return
}

func (t *travScen) dump(snap traversal.VerifSnapshot) string {
	var infl []string
	t.mu.Lock()
	for k := range t.parked {
		infl = append(infl, k)
	}
	t.mu.Unlock()
	sort.Strings(infl)
	var unq []string
	for _, a := range snap.Unqueried {
		unq = append(unq, amiCand(a))
	}
	var q []string
	for _, s := range snap.Queried {
		q = append(q, addrPortStrToOp(s))
	}
	sort.Strings(q)
	_, canon, _ := t.closestList()
	offer := b2s(!snap.HaveQuery && snap.Outstanding == 0)
	if snap.Stopping {
		offer = "?"
	}
	return fmt.Sprintf("out=%d infl=%s unq=%s queried=%s closest=%s have=%s offer=%s stopped=%s", snap.Outstanding,
		strings.Join(infl, ","), strings.Join(unq, ","), strings.Join(q, ","), strings.Join(canon, ","), b2s(snap.HaveQuery), offer, b2s(snap.Stopped))
}

func candsArg(cs []cand) string {
	if len(cs) == 0 {
		return "-"
	}
	var l []string
	for _, c := range cs {
		l = append(l, c.str())
	}
	return strings.Join(l, ",")
}

func toNodeInfos(cs []cand) (out []krpc.NodeInfo) {
	for _, c := range cs {
		out = append(out, krpc.NodeInfo{ID: c.id, Addr: krpc.NodeAddr{IP: net.IP(c.ip), Port: c.port}})
	}
	return
}

func toAmis(cs []cand) (out []types.AddrMaybeId) {
	for _, c := range cs {
		out = append(out, c.ami())
	}
	return
}

func (t *travScen) checkDiscipline() {
	t.mu.Lock()
	defer t.mu.Unlock()
	if t.maxConc > t.alpha {
		t.viol("C04", fmt.Sprintf("%d queries in flight at once, Alpha is %d", t.maxConc, t.alpha))
	}
	for k, n := range t.perAddr {
		if n > 1 {
			t.viol("C04", fmt.Sprintf("address %s queried %d times", k, n))
		}
		ip := strings.Split(k, "/")[0]
		if t.rej[ip] {
			t.viol("C04", "address rejected by the node filter was queried: "+k)
		}
	}
}

func runTrav(r *Run) {
	r.Result.Rule = "scenario = target, K in {1,2,3,8,16}, Alpha in {1,2,3,15}, a generated response graph of 5..40 nodes (silent, lying about their ID, duplicate IDs, one address listed under many IDs and across replies and seed sets, filtered addresses listed, ID-less seeds, tokens present/absent with a data filter) and a PRNG schedule releasing parked queries one at a time, with late AddNodes and Stop injected; after each release the operation is polled to quiescence, dumped and compared with the Lean model; non-trivial = graph in which some address is reported more than once or under several IDs"
	n := r.n(500, 12000)
	if r.Prop == "C03" {
		r.staleOfferScenario()
	}
	for i := 0; i < n; i++ {
		t := r.newTravScen(i)
		t.play()
		r.Result.TracesValidated++
		if i < 2 {
			r.sample(map[string]interface{}{"target": hx(t.target[:]), "k": t.k, "alpha": t.alpha, "events": t.events[:min(len(t.events), 10)]})
		}
	}
}

func (r *Run) newTravScen(i int) *travScen {
	t := &travScen{r: r, target: r.randID(), parked: map[string]*parkedQ{}, perAddr: map[string]int{}, rej: map[string]bool{}, rejID: map[string]bool{},
		nodes: map[string]*gnode{}, responders: map[string]respRec{}, reported: map[string]bool{}}
	t.k = []int{1, 2, 3, 8, 8, 16}[r.rng.Intn(6)]
	t.alpha = []int{1, 2, 3, 3, 15}[r.rng.Intn(5)]
	t.needData = r.rng.Intn(3) == 0
	t.mute = i%5 == 4 // oracle-only class: replies may use both Nodes and Nodes6
	nn := 5 + r.rng.Intn(36)
	t.honest = i%4 == 1
	var list []*gnode
	for j := 0; j < nn; j++ {
		g := &gnode{port: 1000 + j, id: r.structuredID(t.target)}
		switch r.rng.Intn(10) {
		case 0, 1:
			g.ip = r.randIP(1)
		case 2:
			// an IPv4 address held in 16-byte (IPv4-mapped) form, as net.ParseIP and resolvers return it
			g.ip = append([]byte{0, 0, 0, 0, 0, 0, 0, 0, 0, 0, 0xff, 0xff}, r.randIP(0)...)
		default:
			g.ip = r.randIP(0)
		}
		if j > 0 && r.rng.Intn(8) == 0 {
			// same host, another port (and often the same ID): one machine behind several ports
			o := list[r.rng.Intn(len(list))]
			g.ip = o.ip
			if r.rng.Intn(2) == 0 {
				g.id = o.id
			}
		}
		g.silent = r.rng.Intn(6) == 0
		g.nodesOnly = !g.silent && r.rng.Intn(9) == 0
		g.respID = g.id
		switch r.rng.Intn(8) {
		case 0:
			g.respID = r.randID() // lies about its ID
			if r.rng.Intn(2) == 0 {
				// ... and the ID it answers with is one the node filter rejects: it is queried (advertised
				// under an acceptable ID, or as an ID-less seed) but must not enter the result set
				t.rejID[hx(g.respID[:])] = true
			}
		case 1:
			if len(list) > 0 {
				g.respID = list[r.rng.Intn(len(list))].id // duplicate ID
			}
		}
		if r.rng.Intn(4) != 0 {
			s := fmt.Sprintf("tok%d", j)
			g.token = &s
		}
		g.both = t.mute && r.rng.Intn(2) == 0
		list = append(list, g)
		t.nodes[g.key()] = g
		if r.rng.Intn(10) == 0 {
			t.rej[hx(g.ip)] = true
		}
		if r.rng.Intn(14) == 0 {
			t.rejID[hx(g.id[:])] = true // rejected under its advertised ID; ID-less seeds still reach it
		}
	}
	if t.honest {
		// The last sentence of C02: distinct IDs and addresses, nobody silent or lying, no filters, and every
		// reply lists exactly the K nodes of the network closest to the target (under their true IDs).
		t.needData = false
		t.rej, t.rejID = map[string]bool{}, map[string]bool{}
		seenID := map[[20]byte]bool{}
		for j, g := range list {
			for seenID[g.id] || g.id == ([20]byte{}) {
				g.id = r.randID()
			}
			seenID[g.id] = true
			if j > 0 && hx(g.ip) == hx(list[j-1].ip) {
				g.ip = r.randIP(0)
			}
			g.silent, g.respID, g.both, g.nodesOnly = false, g.id, false, false
			tk := fmt.Sprintf("tok%d", j)
			g.token = &tk
		}
		t.nodes = map[string]*gnode{}
		for _, g := range list {
			t.nodes[g.key()] = g
		}
		sorted := append([]*gnode{}, list...)
		sort.Slice(sorted, func(a, b int) bool { return distTo(t.target, sorted[a].id).Cmp(distTo(t.target, sorted[b].id)) < 0 })
		kc := sorted
		if len(kc) > t.k {
			kc = kc[:t.k]
		}
		t.kClosest = kc
		for _, g := range list {
			for _, o := range kc {
				g.nbrs = append(g.nbrs, cand{hasID: true, id: o.id, ip: o.ip, port: o.port})
			}
		}
	}
	dup := false
	for _, g := range list {
		if t.honest {
			break
		}
		for j := 0; j < r.rng.Intn(9); j++ {
			o := list[r.rng.Intn(len(list))]
			c := cand{hasID: true, id: o.id, ip: o.ip, port: o.port}
			switch r.rng.Intn(6) {
			case 0: // the same address under another ID
				c.id = r.structuredID(t.target)
				dup = true
			case 1:
				g.nbrs = append(g.nbrs, c) // listed twice
				dup = true
			}
			g.nbrs = append(g.nbrs, c)
		}
	}
	t.op = traversal.Start(traversal.OperationInput{
		Target: t.target, K: t.k, Alpha: t.alpha, DoQuery: t.doQuery, NodeFilter: t.filter,
		DataFilter: func(d any) bool {
			if !t.needData {
				return true
			}
			_, ok := d.(string)
			return ok
		},
	})
	var rej []string
	for ip := range t.rej {
		rej = append(rej, ip)
	}
	sort.Strings(rej)
	rejS := strings.Join(rej, ",")
	if rejS == "" {
		rejS = "-"
	}
	df := "any"
	if t.needData {
		df = "str"
	}
	var rejIDs []string
	for id := range t.rejID {
		rejIDs = append(rejIDs, id)
	}
	sort.Strings(rejIDs)
	rejIDS := strings.Join(rejIDs, ",")
	if rejIDS == "" {
		rejIDS = "-"
	}
	t.op_(fmt.Sprintf("TRAV new %s %d %d %s %s %s", hx(t.target[:]), t.k, t.alpha, rejS, df, rejIDS), "ok")
	// seeds
	var seeds []cand
	for j := 0; j < 1+r.rng.Intn(5); j++ {
		o := list[r.rng.Intn(len(list))]
		c := cand{hasID: r.rng.Intn(3) != 0, id: o.id, ip: o.ip, port: o.port}
		seeds = append(seeds, c)
	}
	if r.rng.Intn(3) == 0 {
		seeds = append(seeds, seeds[0])
		dup = true
	}
	t.addNodes(seeds)
	r.count(fmt.Sprintf("%x|%d|%d|%d", t.target, t.k, t.alpha, nn), dup)
	return t
}

func (t *travScen) addNodes(cs []cand) {
	for _, c := range cs {
		t.reported[hx(c.ip)+"/"+itoa(c.port)] = true
	}
	t.learned = append(t.learned, cs...)
	t.op.AddNodes(toAmis(cs))
	t.ev("AddNodes %s", candsArg(cs))
	snap, ok := t.quiesce()
	if !ok {
		t.viol("C03", "traversal did not reach quiescence after AddNodes (lost wake-up?)")
		t.dead = true
		return
	}
	t.op_("TRAV addnodes "+candsArg(cs), t.dump(snap))
	t.checkDiscipline()
	// From here on a consumer waits on Stalled(), as every caller of the package does. It starts only
	// now, after the run loop has taken up the seeds: a receive that races the very AddNodes into an
	// idle lookup can be served a stale offer (known finding, see staleOfferScenario), which must
	// not be confused with a stalled signal offered while queries are in flight.
	t.startWatcher()
}

func (t *travScen) play() {
	r := t.r.rng
	defer func() {
		if t.quit != nil {
			close(t.quit)
		}
		// never leave goroutines parked
		t.mu.Lock()
		for k, p := range t.parked {
			p.release <- traversal.QueryResult{}
			delete(t.parked, k)
		}
		t.mu.Unlock()
		t.op.Stop()
	}()
	stopped := false
	for step := 0; step < 400 && !t.dead; step++ {
		if t.numParked() == 0 {
			break
		}
		// occasionally: late AddNodes or Stop
		switch r.Intn(25) {
		case 0:
			var cs []cand
			for _, g := range t.nodes {
				cs = append(cs, cand{hasID: r.Intn(2) == 0, id: g.id, ip: g.ip, port: g.port})
				if len(cs) >= 2 {
					break
				}
			}
			if !stopped {
				t.addNodes(cs)
			}
		case 1:
			if !stopped && r.Intn(3) == 0 {
				t.stop()
				stopped = true
			}
		}
		if t.dead {
			return
		}
		// release one parked query
		t.mu.Lock()
		var keys []string
		for k := range t.parked {
			keys = append(keys, k)
		}
		sort.Strings(keys)
		if len(keys) == 0 {
			t.mu.Unlock()
			break
		}
		k := keys[r.Intn(len(keys))]
		p := t.parked[k]
		delete(t.parked, k)
		t.mu.Unlock()
		t.release(k, p)
	}
	if t.dead {
		return
	}
	if !stopped {
		// nothing parked: the lookup must report stalled
		select {
		case snap := <-t.stallCh:
			if snap.Outstanding > 0 || snap.HaveQuery {
				t.viol("C03", "stalled reported while a query is in flight or an eligible contact is still unqueried")
				t.viol("C02", "lookup reported stalled before the candidates of the last reply were taken up (result set incomplete)")
				return
			}
			t.op_("TRAV stalled", "ok")
			t.oracleStalled()
			t.oracleHonest()
		case <-time.After(5 * time.Second):
			t.viol("C03", "lookup does not report stalled although nothing is in flight")
			return
		}
		t.stop()
	}
	select {
	case <-t.op.Stopped():
	case <-time.After(5 * time.Second):
		t.viol("C03", "Stop does not complete although no query is in flight")
	}
	t.oracleClosest()
	t.checkDiscipline()
	t.mu.Lock()
	q := t.entered
	t.mu.Unlock()
	if q > len(t.reported) {
		t.viol("C03", fmt.Sprintf("%d queries for %d distinct reported addresses", q, len(t.reported)))
	}
	t.r.hist(fmt.Sprintf("queries/%02d0s", q/10))
}

func (t *travScen) stop() {
	// when the run loop exits it closes the stalled channel: receives after Stop mean nothing
	t.stopCalled = true
	t.op.Stop()
	t.ev("Stop")
	// every in-flight query's context is cancelled
	t.mu.Lock()
	var ps []*parkedQ
	for _, p := range t.parked {
		ps = append(ps, p)
	}
	t.mu.Unlock()
	for _, p := range ps {
		select {
		case <-p.ctx.Done():
		case <-time.After(3 * time.Second):
			t.viol("C04", "context of an in-flight query not cancelled after Stop")
		}
	}
	snap, ok := t.quiesce()
	if !ok {
		t.viol("C03", "traversal did not settle after Stop")
		t.dead = true
		return
	}
	if len(ps) == 0 {
		waitFor(func() bool { snap = t.op.VerifSnapshot(); return snap.Stopped }, 3*time.Second)
	}
	t.op_("TRAV stop", t.dump(snap))
}

func (t *travScen) release(key string, p *parkedQ) {
	r := t.r.rng
	if i := strings.Index(key, "#"); i >= 0 {
		key = key[:i]
	}
	g := t.nodes[key]
	var res traversal.QueryResult
	rid, data, nodes, nodes6 := "-", "-", []cand{}, []cand{}
	if g != nil && !g.silent {
		if !g.nodesOnly {
			res.ResponseFrom = &krpc.NodeInfo{ID: g.respID, Addr: p.addr}
			rid = hx(g.respID[:])
			if g.token != nil {
				res.ClosestData = *g.token
				data = hx([]byte(*g.token))
			}
		}
		if g.both {
			for i, c := range g.nbrs {
				if i%2 == 0 {
					nodes = append(nodes, c)
				} else {
					nodes6 = append(nodes6, c)
				}
			}
		} else if r.Intn(2) == 0 {
			nodes = g.nbrs
		} else {
			nodes6 = g.nbrs
		}
		res.Nodes = toNodeInfos(nodes)
		res.Nodes6 = toNodeInfos(nodes6)
		for _, c := range g.nbrs {
			t.reported[hx(c.ip)+"/"+itoa(c.port)] = true
		}
		t.learned = append(t.learned, g.nbrs...)
		// truth for C02: a responder that passes both filters
		passData := !t.needData || g.token != nil
		if !g.nodesOnly && !t.rej[hx(p.addr.IP)] && !t.rejID[hx(g.respID[:])] && passData {
			t.responders[hx(g.respID[:])+"/"+key] = respRec{g.respID, p.addr.IP, p.addr.Port, g.token}
		}
	}
	p.release <- res
	t.ev("release %s -> responder %s data %s nodes %s nodes6 %s", key, rid, data, candsArg(nodes), candsArg(nodes6))
	snap, ok := t.quiesce()
	if !ok {
		t.viol("C03", "traversal did not reach quiescence after a query returned (lost wake-up?)")
		t.dead = true
		return
	}
	if t.numParked() > 0 && !t.stopCalled {
		select {
		case ps := <-t.stallCh:
			t.viol("C03", fmt.Sprintf("stalled reported while queries are in flight (outstanding=%d at the time)", ps.Outstanding))
			t.viol("C02", "lookup reported stalled before the candidates of a reply were taken up (a caller stopping here gets an incomplete result set)")
			t.dead = true
			return
		default:
		}
	}
	els, _, _ := t.closestList()
	obs := strings.Join(els, ",")
	if obs == "" {
		obs = "-"
	}
	t.op_(fmt.Sprintf("TRAV release %s %s %s %s %s %s", key, rid, data, candsArg(nodes), candsArg(nodes6), obs), t.dump(snap))
	t.checkDiscipline()
	if len(els) > t.k {
		t.viol("C02", "result set holds more than K contacts")
	}
}

func distTo(t [20]byte, id [20]byte) *big.Int { return new(big.Int).Xor(bigOf(id), bigOf(t)) }

// C02: the final result set is the K nearest responders that passed the filters.
func (t *travScen) oracleClosest() {
	_, _, raw := t.closestList()
	if len(raw) > t.k {
		t.viol("C02", "result set holds more than K contacts")
	}
	member := map[string]bool{}
	var far *big.Int
	for i, e := range raw {
		var ip []byte
		if e.Addr.Addr().IsValid() {
			ip = e.Addr.Addr().AsSlice()
		}
		k := hx(e.ID[:]) + "/" + hx(ip) + "/" + itoa(int(e.Addr.Port()))
		member[k] = true
		rec, ok := t.responders[k]
		if !ok {
			t.viol("C02", "result set member did not answer a query of this lookup or did not pass the filters: "+k)
			continue
		}
		ds, isStr := e.Data.(string)
		if (rec.data == nil) != !isStr || (rec.data != nil && *rec.data != ds) {
			t.viol("C02", "result set member carries data other than what it supplied")
		}
		d := distTo(t.target, e.ID)
		if i > 0 && far != nil && d.Cmp(far) < 0 {
			t.viol("C02", "result set not in distance order")
		}
		far = d
	}
	want := len(t.responders)
	if want > t.k {
		want = t.k
	}
	if len(raw) != want {
		t.viol("C02", fmt.Sprintf("result set holds %d contacts, %d responders passed the filters (K=%d)", len(raw), len(t.responders), t.k))
	}
	for k, rec := range t.responders {
		if member[k] || far == nil {
			continue
		}
		if distTo(t.target, rec.id).Cmp(far) < 0 {
			t.viol("C02", "a responder that passed the filters is strictly closer than a member but absent: "+k)
		}
	}
}

// C03: what may be left unqueried at the moment stalled is reported.
func (t *travScen) oracleStalled() {
	snap := t.op.VerifSnapshot()
	if snap.Outstanding != 0 {
		t.viol("C03", "stalled reported while a query is in flight")
	}
	_, _, raw := t.closestList()
	full := len(raw) >= t.k
	var far *big.Int
	if len(raw) > 0 {
		far = distTo(t.target, raw[len(raw)-1].ID)
	}
	queried := map[string]bool{}
	for _, q := range snap.Queried {
		queried[q] = true
	}
	for _, a := range snap.Unqueried {
		if queried[a.Addr.String()] {
			continue // already asked under another ID
		}
		if !full {
			t.viol("C03", "stalled reported with the result set not full and an unqueried contact left: "+amiStr(a))
			continue
		}
		if a.Id.Ok && distTo(t.target, a.Id.Value.AsByteArray()).Cmp(far) <= 0 {
			t.viol("C03", "stalled reported although an unqueried contact is no farther than the farthest member: "+amiStr(a))
		}
	}
	// The same clause judged from what the lookup was TOLD (seeds and the node lists of the replies it
	// was handed), not from its own frontier: a learned contact that passes the node filter and was
	// never queried must be farther than the farthest member of a full result set.
	t.mu.Lock()
	per := map[string]int{}
	for k, n := range t.perAddr {
		per[k] = n
	}
	t.mu.Unlock()
	for _, c := range t.learned {
		k := hx(c.ip) + "/" + itoa(c.port)
		if per[k] > 0 || t.rej[hx(c.ip)] || (c.hasID && t.rejID[hx(c.id[:])]) {
			continue
		}
		switch {
		case !full:
			t.viol("C03", "stalled reported with the result set not full although a learned contact that passes the node filter was never queried: "+k)
		case c.hasID && distTo(t.target, c.id).Cmp(far) < 0:
			t.viol("C03", "stalled reported although a learned contact strictly closer than the farthest member was never queried: "+hx(c.id[:])+"/"+k)
		}
	}
}

var _ = generics.Some[int]

// C02, last sentence: in an honest finite network the finished lookup holds exactly the K closest nodes
// (C02.honest_network_exact is the theorem; this is the same statement judged on the implementation).
func (t *travScen) oracleHonest() {
	if !t.honest || t.entered == 0 {
		return
	}
	t.r.hist("honest-network/finished")
	_, _, raw := t.closestList()
	got := map[string]bool{}
	for _, e := range raw {
		var ip []byte
		if e.Addr.Addr().IsValid() {
			ip = e.Addr.Addr().AsSlice()
		}
		got[hx(e.ID[:])+"/"+hx(ip)+"/"+itoa(int(e.Addr.Port()))] = true
	}
	for _, g := range t.kClosest {
		k := hx(g.id[:]) + "/" + hx(g.ip) + "/" + itoa(g.port)
		if !got[k] {
			t.viol("C02", fmt.Sprintf("honest network of %d nodes (every node answers with the true %d closest): the finished lookup does not hold the close node %s", len(t.nodes), t.k, k))
			return
		}
	}
	if len(raw) != len(t.kClosest) {
		t.viol("C02", fmt.Sprintf("honest network: the finished lookup holds %d contacts, the network's K closest are %d", len(raw), len(t.kClosest)))
	}
}

// A consumer waits on Stalled() from the moment the seeds are in, as every caller of the package
// does (Start, AddNodes, then <-Stalled()): a stalled signal offered too early is then really received.
func (t *travScen) startWatcher() {
	if t.stallCh != nil {
		return
	}
	t.stallCh = make(chan traversal.VerifSnapshot, 1)
	t.quit = make(chan struct{})
	go func(op *traversal.Operation) {
		select {
		case <-op.Stalled():
			t.stallCh <- op.VerifSnapshot()
		case <-t.quit:
		}
	}(t.op)
}

// KNOWN FINDING (C03): the run loop computes its stalled offer under the lock but hands it over in a
// select together with the wake-up channel. If contacts are added to an idle lookup (AddNodes
// returns) and a consumer then starts to receive from Stalled() before the run loop goroutine has
// been scheduled again, both select cases are ready and Go picks one at random: stalled is
// reported although a contact that passes the filter has just been learned and not been queried.
// The receive below starts strictly after AddNodes has returned.
func (r *Run) staleOfferScenario() {
	hits, tries := 0, r.n(400, 4000)
	for i := 0; i < tries; i++ {
		block := make(chan struct{})
		op := traversal.Start(traversal.OperationInput{
			Target: krpc.ID(r.randID()),
			DoQuery: func(ctx context.Context, a krpc.NodeAddr) traversal.QueryResult {
				<-block
				return traversal.QueryResult{}
			},
		})
		time.Sleep(30 * time.Microsecond) // the run loop is asleep, offering stalled: nothing to do yet
		var added atomic.Bool
		got := make(chan bool, 1)
		go func() {
			for !added.Load() {
			}
			select {
			case <-op.Stalled():
				got <- true
			case <-time.After(200 * time.Microsecond):
				got <- false
			}
		}()
		na := krpc.NodeAddr{IP: net.IP{10, 0, byte(i >> 8), byte(i)}, Port: 1000 + i%1000}
		op.AddNodes([]types.AddrMaybeId{{Addr: na.ToNodeAddrPort()}})
		added.Store(true)
		if <-got {
			hits++
		}
		close(block)
		op.Stop()
		<-op.Stopped()
	}
	r.hist(fmt.Sprintf("stale-stalled-offer/hits-in-%d-tries", tries))
	r.note(fmt.Sprintf("stale stalled offer reproduced in %d of %d tries", hits, tries))
	if hits > 0 {
		r.violation("stale stalled offer: stalled received after AddNodes into an idle lookup had returned, before the added contact was queried",
			map[string]interface{}{"history": []string{"Start (run loop sleeps, offering stalled)", "AddNodes([x]) returns", "receive from Stalled() begins", "stalled is delivered; x has not been queried"}, "hits": hits, "tries": tries})
	}
}
