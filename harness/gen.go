package main

import (
	"net"

	"github.com/anacrolix/dht/v2/int160"
)

// Structured ID generation: extremes, single-bit differences, every shared-prefix length
// relative to a base, small pools so collisions are frequent.

func (r *Run) randID() (id [20]byte) {
	r.rng.Read(id[:])
	return
}

func flipBit(id [20]byte, i int) [20]byte {
	id[i/8] ^= 1 << (7 - uint(i%8))
	return id
}

// An ID sharing exactly n leading bits with base (n < 160), the rest random or minimal.
func (r *Run) idWithPrefix(base [20]byte, n int) [20]byte {
	id := r.randID()
	for i := 0; i < n; i++ {
		bit := base[i/8] >> (7 - uint(i%8)) & 1
		id[i/8] = id[i/8]&^(1<<(7-uint(i%8))) | bit<<(7-uint(i%8))
	}
	// bit n differs
	bit := (base[n/8] >> (7 - uint(n%8)) & 1) ^ 1
	id[n/8] = id[n/8]&^(1<<(7-uint(n%8))) | bit<<(7-uint(n%8))
	if r.rng.Intn(4) == 0 {
		// minimal tail: copy the base after bit n
		for i := n + 1; i < 160; i++ {
			b := base[i/8] >> (7 - uint(i%8)) & 1
			id[i/8] = id[i/8]&^(1<<(7-uint(i%8))) | b<<(7-uint(i%8))
		}
	}
	return id
}

func (r *Run) structuredID(base [20]byte) [20]byte {
	switch r.rng.Intn(10) {
	case 0:
		return [20]byte{}
	case 1:
		var m [20]byte
		for i := range m {
			m[i] = 0xff
		}
		return m
	case 2:
		return base
	case 3:
		return flipBit(base, r.rng.Intn(160))
	case 4, 5, 6:
		return r.idWithPrefix(base, r.rng.Intn(160))
	case 7:
		var id [20]byte
		id[r.rng.Intn(20)] = byte(r.rng.Intn(256))
		return id
	default:
		return r.randID()
	}
}

func (r *Run) randIP(kind int) net.IP {
	switch kind {
	case 0: // 4-byte v4
		ip := make(net.IP, 4)
		r.rng.Read(ip)
		if ip[0] == 0 {
			ip[0] = 1
		}
		return ip
	case 1: // v6
		ip := make(net.IP, 16)
		r.rng.Read(ip)
		ip[0] = 0x20
		return ip
	default: // v4-mapped 16-byte
		ip := make(net.IP, 4)
		r.rng.Read(ip)
		if ip[0] == 0 {
			ip[0] = 1
		}
		return ip.To16()
	}
}

func i160(b [20]byte) int160.T { return int160.FromByteArray(b) }
