package main

// Fault injection at the public extension point ServerConfig.Store: a bep44.Store whose Get or Put
// fails with an ORDINARY Go error (disk full, closed database ...) at a PRNG-chosen call. The
// in-memory store never fails, so the error paths of the put handler and of bep44.Wrapper are
// reached only here. Every put is also replayed through the Lean model of Wrapper.Put over a failing
// store (`B44 fput`, Model/Bep44Fault; theorems in Props/C13Fault). Shared by
//   C08: a put whose store fails is still answered by exactly one well-formed datagram (r or e)
//        echoing the transaction ID;
//   C13: whatever the store reports, the item kept for a target never moves backwards: its sequence
//        number never decreases, an equal number never changes the value, and a put carrying a CAS
//        value replaces the item only if that value is the stored sequence number.

import (
	"bytes"
	"errors"
	"fmt"
	"time"

	"github.com/anacrolix/dht/v2/bep44"
)

var errDiskFull = errors.New("write /var/lib/dht/items.db: no space left on device")

func (r *Run) faultyStoreStream(prop string, rounds int) {
	for i := 0; i < rounds; i++ {
		ps := newParkStore()
		n, err := r.newB44Node(ps, 2*time.Hour)
		if err != nil {
			r.violation("cannot start a server with a custom store: "+err.Error(), nil)
			return
		}
		r.op(fmt.Sprintf("B44 reset %d", (2*time.Hour).Nanoseconds()), "ok")
		priv, pub := r.b44Key()
		var salt []byte
		if r.rng.Intn(2) == 0 {
			salt = []byte("s")
		}
		vals := c13Values()
		var events []string
		var curSeq int64
		var curBv []byte
		have := false
		steps := 5 + r.rng.Intn(8)
		for j := 0; j < steps; j++ {
			it := &b44Item{k: pub, salt: salt, v: vals[r.rng.Intn(len(vals))]}
			it.seq = r.c13Seq(curSeq, have)
			if have && r.rng.Intn(3) == 0 {
				it.cas = r.c13Cas(curSeq, curSeq, have)
			}
			it.sign(priv, salt, it.seq, it.bv())
			if !n.ensureToken() {
				r.violation("no write token from get", events)
				break
			}
			fault := "none"
			if have || j > 0 {
				switch r.rng.Intn(4) {
				case 0:
					fault = "get"
					ps.armFault(1, 0)
				case 1:
					fault = "put"
					ps.armFault(0, 1)
				}
			}
			n.conn.waitIdle(time.Second)
			before := len(n.conn.writes())
			code := n.put(it)
			n.conn.waitIdle(time.Second)
			time.Sleep(200 * time.Microsecond)
			ps.armFault(0, 0)
			tid := fmt.Sprintf("%04x", n.nT)
			ev := fmt.Sprintf("put seq=%d cas=%d v=%s (stored: have=%v seq=%d v=%s) store-fault=%s -> %s", it.seq, it.cas, hx(it.bv()), have, curSeq, hx(curBv), fault, code)
			events = append(events, ev)
			// C08: exactly one datagram for this query
			cnt, malformed := 0, false
			for _, w := range n.conn.writes()[before:] {
				if w.Addr == nil || !w.Addr.IP.Equal(n.src.IP) || w.Addr.Port != n.src.Port {
					continue
				}
				v, _, err := bdecode(w.B)
				if err != nil {
					malformed = true
					cnt++
					continue
				}
				if tt, _ := v.get("t").str(); string(tt) == tid {
					cnt++
					if y, _ := v.get("y").str(); string(y) != "r" && string(y) != "e" {
						malformed = true
					}
				} else {
					cnt++
					malformed = true
				}
			}
			// differential: the same put through the Lean model of Wrapper.Put over a failing store (Model/Bep44Fault)
			r.op("B44 fput "+fault+" "+it.fields()+" "+it.sigFor(), code)
			r.hist("faulty-store/" + fault + "/" + code)
			r.count(fmt.Sprintf("fs/%s/%s/%d/%d/%v", fault, code, it.seq-curSeq, it.cas-curSeq, have), fault != "none")
			if prop == "C08" {
				if cnt != 1 {
					r.b44Violation(fmt.Sprintf("put with a failing store (%s fails with an ordinary error) was answered by %d datagrams", fault, cnt), append([]string{}, events...))
				} else if malformed {
					r.b44Violation("put with a failing store: the datagram sent is not a response or error echoing the transaction ID", append([]string{}, events...))
				}
			}
			// C13: the kept item never moves backwards
			after, gerr := ps.inner.Get(bep44.Target(it.goTarget()))
			if gerr == nil && after != nil {
				abv := safeBv(after)
				if have {
					changed := after.Seq != curSeq || !bytes.Equal(abv, curBv)
					if prop == "C13" {
						switch {
						case after.Seq < curSeq:
							r.b44Violation(fmt.Sprintf("stored sequence number decreased: %d -> %d (store %s failed with an ordinary error during the put)", curSeq, after.Seq, fault), append([]string{}, events...))
						case after.Seq == curSeq && !bytes.Equal(abv, curBv):
							r.b44Violation(fmt.Sprintf("value replaced under the same sequence number %d (store %s failed during the put)", curSeq, fault), append([]string{}, events...))
						case changed && it.cas != 0 && it.cas != curSeq:
							r.b44Violation(fmt.Sprintf("put with cas %d replaced an item whose sequence number is %d (store %s failed during the put)", it.cas, curSeq, fault), append([]string{}, events...))
						}
					}
				}
				curSeq, curBv, have = after.Seq, abv, true
			} else if have && prop == "C13" {
				r.b44Violation("stored item vanished after a put", append([]string{}, events...))
			}
		}
		if i < 1 {
			r.sample(events)
		}
		n.close()
	}
}

// armFault makes the next g Get calls and p Put calls fail with an ordinary (non-KRPC) error.
func (p *parkStore) armFault(g, put int) {
	p.mu.Lock()
	p.failGet, p.failPut = g, put
	p.mu.Unlock()
}

func (p *parkStore) takeFault(kind string) bool {
	p.mu.Lock()
	defer p.mu.Unlock()
	if kind == "g" && p.failGet > 0 {
		p.failGet--
		return true
	}
	if kind == "p" && p.failPut > 0 {
		p.failPut--
		return true
	}
	return false
}
