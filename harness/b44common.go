package main

// Shared machinery of the BEP 44 slices (C12 store side, C13): item descriptions that do not go
// through the bep44 package, an independent statement of the signing buffer and of the target
// derivation, the three ways of reaching the store (bep44.Wrapper API, inbound KRPC `put`/`get`
// at the Conn boundary, Server.Put), and a recording / parking bep44.Store.

import (
	"bytes"
	"context"
	"crypto/ed25519"
	"crypto/sha1"
	"fmt"
	"net"
	"runtime"
	"strconv"
	"strings"
	"sync"
	"time"

	dht "github.com/anacrolix/dht/v2"
	"github.com/anacrolix/dht/v2/bep44"
	"github.com/anacrolix/dht/v2/krpc"
)

// ---------------------------------------------------------------- items

type b44Item struct {
	v            *bval     // nil: no value at all (Go nil / `v` absent); encodes to the empty string
	k            *[32]byte // nil: immutable (no `k`)
	salt         []byte
	sig          [64]byte
	cas          int64
	seq          int64
	noSeq        bool   // wire only: leave `seq` out
	emptySaltKey bool   // the salt is empty but PRESENT: `4:salt0:` on the wire, a non-nil empty slice in the Go API (same item as without salt)
	sigKey       []byte // the (key, message) sig was REALLY made for; nil = made for nothing (garbage)
	sigMsg       []byte
}

func (it *b44Item) bv() []byte {
	if it.v == nil {
		return nil
	}
	return it.v.enc()
}

// BEP 44: "the concatenation of the bencoded salt key and value (if present), seq key and value,
// and v key and value" — written from the BEP text, not from bep44/item.go.
func specSignBuf(salt []byte, seq int64, bv []byte) []byte {
	var b bytes.Buffer
	if len(salt) > 0 {
		b.WriteString("4:salt" + strconv.Itoa(len(salt)) + ":")
		b.Write(salt)
	}
	b.WriteString("3:seqi" + strconv.FormatInt(seq, 10) + "e1:v")
	b.Write(bv)
	return b.Bytes()
}

// BEP 44 target: SHA-1 of key||salt for mutable items, SHA-1 of the bencoded value otherwise.
func specTarget(k *[32]byte, salt, bv []byte) [20]byte {
	if k != nil {
		return sha1.Sum(append(append([]byte{}, k[:]...), salt...))
	}
	return sha1.Sum(bv)
}

// How the Go code will see the item: an all-zero key means immutable there.
func (it *b44Item) goMutable() bool { return it.k != nil && *it.k != [32]byte{} }

func (it *b44Item) goTarget() [20]byte {
	if it.goMutable() {
		return specTarget(it.k, it.salt, it.bv())
	}
	return specTarget(nil, nil, it.bv())
}

// Independent validity judgement (real ed25519, limits from the BEP).
func (it *b44Item) specValid() (ok bool, code int) {
	bv := it.bv()
	if len(bv) > 1000 {
		return false, 205
	}
	if !it.goMutable() {
		return true, 0
	}
	if len(it.salt) > 64 {
		return false, 207
	}
	if !ed25519.Verify(ed25519.PublicKey(it.k[:]), specSignBuf(it.salt, it.seq, bv), it.sig[:]) {
		return false, 206
	}
	return true, 0
}

func (it *b44Item) sign(priv ed25519.PrivateKey, salt []byte, seq int64, bv []byte) {
	msg := specSignBuf(salt, seq, bv)
	copy(it.sig[:], ed25519.Sign(priv, msg))
	it.sigKey = append([]byte{}, priv.Public().(ed25519.PublicKey)...)
	it.sigMsg = msg
}

func goValue(v *bval) interface{} {
	if v == nil {
		return nil
	}
	switch v.k {
	case bInt:
		return v.i.Int64()
	case bStr:
		return string(v.s)
	case bList:
		l := make([]interface{}, 0, len(v.l))
		for _, e := range v.l {
			l = append(l, goValue(e))
		}
		return l
	default:
		m := map[string]interface{}{}
		for _, e := range v.d {
			m[e.k] = goValue(e.v)
		}
		return m
	}
}

func (it *b44Item) goSalt() []byte {
	if len(it.salt) == 0 && it.emptySaltKey {
		return []byte{}
	}
	return append([]byte(nil), it.salt...)
}

func (it *b44Item) toItem() *bep44.Item {
	i := &bep44.Item{V: goValue(it.v), Salt: it.goSalt(), Sig: it.sig, Cas: it.cas, Seq: it.seq}
	if it.k != nil {
		i.K = *it.k
	}
	return i
}

func (it *b44Item) toPut() bep44.Put {
	p := bep44.Put{V: goValue(it.v), Salt: it.goSalt(), Sig: it.sig, Cas: it.cas, Seq: it.seq}
	if it.k != nil {
		k := *it.k
		p.K = &k
	}
	return p
}

func optKeyHx(k *[32]byte) string {
	if k == nil {
		return "-"
	}
	return hx(k[:])
}

// "k salt seq cas bv sig" as the driver parses them.
func (it *b44Item) fields() string {
	seq := strconv.FormatInt(it.seq, 10)
	if it.noSeq {
		seq = "-"
	}
	return optKeyHx(it.k) + " " + hx(it.salt) + " " + seq + " " + strconv.FormatInt(it.cas, 10) + " " + hx(it.bv()) + " " + hx(it.sig[:])
}

func (it *b44Item) sigFor() string {
	if it.sigKey == nil {
		return "- -"
	}
	return hx(it.sigKey) + " " + hx(it.sigMsg)
}

func (it *b44Item) putOp(path string) string {
	return "B44 put " + path + " " + it.fields() + " " + it.sigFor()
}

func (it *b44Item) slashed() string { return strings.ReplaceAll(it.fields(), " ", "/") }

func (it *b44Item) describe() map[string]interface{} {
	return map[string]interface{}{"k": optKeyHx(it.k), "salt": hx(it.salt), "seq": it.seq, "cas": it.cas, "bv": hx(it.bv()),
		"sig": hx(it.sig[:]), "sig_made_for_key": hx(it.sigKey), "sig_made_for_msg": hx(it.sigMsg)}
}

// Deterministic ed25519 key from the run's PRNG.
func (r *Run) b44Key() (ed25519.PrivateKey, *[32]byte) {
	seed := make([]byte, ed25519.SeedSize)
	r.rng.Read(seed)
	priv := ed25519.NewKeyFromSeed(seed)
	var pub [32]byte
	copy(pub[:], priv.Public().(ed25519.PublicKey))
	return priv, &pub
}

// ---------------------------------------------------------------- results

func errCode(err error) string {
	if err == nil {
		return "ok"
	}
	if ke, ok := err.(krpc.Error); ok {
		return "err:" + strconv.Itoa(ke.Code)
	}
	if ke, ok := err.(*krpc.Error); ok && ke != nil {
		return "err:" + strconv.Itoa(ke.Code)
	}
	return "goerr:" + err.Error()
}

// Run f, turning a panic of the code under test into a result.
func guard(f func() string) (res string) {
	defer func() {
		if p := recover(); p != nil {
			res = fmt.Sprintf("panic:%v", p)
		}
	}()
	return f()
}

func itemDump(i *bep44.Item, bv []byte) string {
	k := "-"
	if i.K != ([32]byte{}) {
		k = hx(i.K[:])
	}
	return "item " + k + " " + hx(i.Salt) + " " + strconv.FormatInt(i.Seq, 10) + " " + strconv.FormatInt(i.Cas, 10) + " " + hx(bv) + " " + hx(i.Sig[:])
}

// ---------------------------------------------------------------- a node reached over the wire

type b44Node struct {
	r     *Run
	conn  *fakeConn
	srv   *dht.Server
	src   *net.UDPAddr
	token []byte
	nT    int
	seen  int // index into conn.writes() already examined
}

func (r *Run) newB44Node(store bep44.Store, exp time.Duration) (*b44Node, error) {
	conn := newFakeConn(nil)
	cfg := baseConfig(conn)
	cfg.Store = store
	cfg.Exp = exp
	srv, err := dht.NewServer(cfg)
	if err != nil {
		return nil, err
	}
	n := &b44Node{r: r, conn: conn, srv: srv, src: &net.UDPAddr{IP: net.IP{198, 51, 100, 7}, Port: 4711}}
	return n, nil
}

func (n *b44Node) close() { n.srv.Close(); n.conn.Close() }

var b44SenderID = strings.Repeat("\x11", 20)

// Send a query from n.src and wait for the reply (y = r or e) carrying the same t.
func (n *b44Node) query(q string, args *bval) (*bval, bool) {
	n.nT++
	t := fmt.Sprintf("%04x", n.nT)
	args.set("id", bS(b44SenderID))
	msg := bD("a", args, "q", bS(q), "t", bS(t), "y", bS("q"))
	n.conn.inject(msg.enc(), n.src)
	var reply *bval
	ok := waitFor(func() bool {
		ws := n.conn.writes()
		for ; n.seen < len(ws); n.seen++ {
			w := ws[n.seen]
			if w.Addr == nil || !w.Addr.IP.Equal(n.src.IP) || w.Addr.Port != n.src.Port {
				continue
			}
			v, _, err := bdecode(w.B)
			if err != nil {
				continue
			}
			if tt, _ := v.get("t").str(); string(tt) != t {
				continue
			}
			if y, _ := v.get("y").str(); string(y) == "r" || string(y) == "e" {
				reply = v
				n.seen++
				return true
			}
		}
		return false
	}, 3*time.Second)
	return reply, ok
}

func replyCode(m *bval) string {
	if y, _ := m.get("y").str(); string(y) == "r" {
		return "ok"
	}
	e := m.get("e")
	if e != nil && e.k == bList && len(e.l) >= 1 {
		if c, ok := e.l[0].int(); ok {
			return "err:" + strconv.FormatInt(c, 10)
		}
	}
	return "malformed-error"
}

// `get` for target; askSeq nil = no seq argument. Canonical answer:
// "notfound" | "r <seq> <v> <k|-> <sig>"; also refreshes the write token.
type wireGot struct {
	found  bool
	seq    int64
	hasSeq bool
	v      []byte
	hasV   bool
	k      *[32]byte
	sig    [64]byte
	hasSig bool
	raw    *bval
}

func (n *b44Node) get(target [20]byte, askSeq *int64) (string, *wireGot) {
	args := bD("target", bB(target[:]))
	if askSeq != nil {
		args.set("seq", bI(*askSeq))
	}
	m, ok := n.query("get", args)
	if !ok {
		return "noreply", nil
	}
	if c := replyCode(m); c != "ok" {
		return c, nil
	}
	rr := m.get("r")
	if tok, ok := rr.get("token").str(); ok {
		n.token = tok
	}
	g := &wireGot{raw: rr}
	if s, ok := rr.get("seq").int(); ok {
		g.seq, g.hasSeq = s, true
	}
	if v := rr.get("v"); v != nil {
		g.v, g.hasV = v.encRaw(), true
	}
	if kb, ok := rr.get("k").str(); ok && len(kb) == 32 {
		var k [32]byte
		copy(k[:], kb)
		if k != ([32]byte{}) {
			g.k = &k
		}
	}
	if sb, ok := rr.get("sig").str(); ok && len(sb) == 64 {
		copy(g.sig[:], sb)
		g.hasSig = true
	}
	g.found = g.hasSeq || g.hasV
	if !g.found {
		return "notfound", g
	}
	return "r " + strconv.FormatInt(g.seq, 10) + " " + hx(g.v) + " " + optKeyHx(g.k) + " " + hx(g.sig[:]), g
}

func (n *b44Node) ensureToken() bool {
	if n.token != nil {
		return true
	}
	n.get([20]byte{}, nil)
	return n.token != nil
}

// Inbound `put` with a valid token. Never sent without an `a` dictionary.
func (n *b44Node) put(it *b44Item) string {
	if !n.ensureToken() {
		return "notoken"
	}
	args := bD("token", bB(n.token))
	if it.v != nil {
		args.set("v", it.v)
	}
	if it.k != nil {
		args.set("k", bB(it.k[:]))
	}
	if len(it.salt) > 0 || it.emptySaltKey {
		args.set("salt", bB(it.salt))
	}
	if it.sig != ([64]byte{}) {
		args.set("sig", bB(it.sig[:]))
	}
	if it.cas != 0 {
		args.set("cas", bI(it.cas))
	}
	if !it.noSeq {
		args.set("seq", bI(it.seq))
	}
	m, ok := n.query("put", args)
	if !ok {
		return "noreply"
	}
	return replyCode(m)
}

// Server.Put: stores locally, then queries `node` (which never answers; the context is already
// cancelled so the call returns at once). Only a krpc.Error comes from the store.
func (n *b44Node) apiPut(it *b44Item) string {
	ctx, cancel := context.WithCancel(context.Background())
	cancel()
	res := n.srv.Put(ctx, dht.NewAddr(&net.UDPAddr{IP: net.IP{192, 0, 2, 99}, Port: 999}), it.toPut(), "tok", dht.QueryRateLimiting{})
	if _, isK := res.Err.(krpc.Error); isK {
		return errCode(res.Err)
	}
	return "ok"
}

// ---------------------------------------------------------------- recording / parking store

type storeCall struct {
	Tid   int    `json:"thread"`
	Kind  string `json:"call"` // g, p, d
	Seen  string `json:"seen,omitempty"`
	Item  string `json:"item,omitempty"`
	found bool
	seq   int64
	bv    []byte
}

type parkReq struct {
	tid     int
	kind    string
	release chan struct{}
	done    chan storeCall
}

// A bep44.Store over bep44.Memory that records every call and, when parking is on, holds each
// call until the scheduler releases it.
type parkStore struct {
	inner *bep44.Memory
	mu    sync.Mutex
	calls []storeCall
	muts  int // Put + Del calls
	// parking
	parking bool
	parked  chan *parkReq
	tids    map[int64]int // goroutine id -> thread; others are thread `wireTid`
	wireTid int
	// every *Item handed to inner.Put, in order
	puts []*bep44.Item
	// fault injection (faultstore.go): the next calls fail with an ordinary Go error
	failGet, failPut int
}

func newParkStore() *parkStore {
	return &parkStore{inner: bep44.NewMemory(), parked: make(chan *parkReq, 64), tids: map[int64]int{}}
}

func goid() int64 {
	var buf [64]byte
	n := runtime.Stack(buf[:], false)
	f := strings.Fields(string(buf[:n]))
	if len(f) < 2 {
		return -1
	}
	id, _ := strconv.ParseInt(f[1], 10, 64)
	return id
}

func (p *parkStore) enter(kind string) *parkReq {
	p.mu.Lock()
	on := p.parking
	tid := p.wireTid
	if on {
		if t, ok := p.tids[goid()]; ok {
			tid = t
		}
	}
	p.mu.Unlock()
	if !on {
		return nil
	}
	req := &parkReq{tid: tid, kind: kind, release: make(chan struct{}), done: make(chan storeCall, 1)}
	p.parked <- req
	<-req.release
	return req
}

func (p *parkStore) record(req *parkReq, c storeCall) {
	p.mu.Lock()
	if req != nil {
		c.Tid = req.tid
	}
	p.calls = append(p.calls, c)
	p.mu.Unlock()
	if req != nil {
		req.done <- c
	}
}

func safeBv(i *bep44.Item) []byte {
	bv, _ := bencodeMarshal(i.V)
	return bv
}

func (p *parkStore) Put(i *bep44.Item) error {
	req := p.enter("p")
	if p.takeFault("p") {
		p.record(req, storeCall{Kind: "p", Item: "fault"})
		return errDiskFull
	}
	err := p.inner.Put(i)
	p.mu.Lock()
	p.muts++
	p.puts = append(p.puts, i)
	p.mu.Unlock()
	p.record(req, storeCall{Kind: "p", Item: fmt.Sprintf("seq=%d v=%s", i.Seq, hx(safeBv(i))), seq: i.Seq, bv: safeBv(i)})
	return err
}

func (p *parkStore) Get(t bep44.Target) (*bep44.Item, error) {
	req := p.enter("g")
	if p.takeFault("g") {
		p.record(req, storeCall{Kind: "g", Seen: "fault"})
		return nil, errDiskFull
	}
	i, err := p.inner.Get(t)
	c := storeCall{Kind: "g", Seen: "notfound"}
	if err == nil && i != nil {
		c.found, c.seq, c.bv = true, i.Seq, safeBv(i)
		c.Seen = fmt.Sprintf("seq=%d v=%s", i.Seq, hx(c.bv))
	}
	p.record(req, c)
	return i, err
}

func (p *parkStore) Del(t bep44.Target) error {
	req := p.enter("d")
	err := p.inner.Del(t)
	p.mu.Lock()
	p.muts++
	p.mu.Unlock()
	p.record(req, storeCall{Kind: "d"})
	return err
}

func (p *parkStore) mutations() int {
	p.mu.Lock()
	defer p.mu.Unlock()
	return p.muts
}

// r.violation keeps the first 20 reports only; a defect that shows on thousands of inputs must not crowd out a
// different one, so each family of messages (text up to the first ':') is reported at most 3 times.
var (
	b44FamMu    sync.Mutex
	b44FamCount = map[string]int{}
)

func (r *Run) b44Violation(what string, replay interface{}) {
	fam := what
	if i := strings.Index(what, ":"); i > 0 {
		fam = what[:i]
	}
	b44FamMu.Lock()
	b44FamCount[fam]++
	n := b44FamCount[fam]
	b44FamMu.Unlock()
	r.hist("violation/" + fam)
	if n <= 3 {
		r.violation(what, replay)
	}
}
