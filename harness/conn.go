package main

import (
	"errors"
	"net"
	"os"
	"sync"
	"sync/atomic"
	"syscall"
	"time"

	dht "github.com/anacrolix/dht/v2"
	"github.com/anacrolix/log"
	"golang.org/x/time/rate"
)

type packet struct {
	b    []byte
	addr net.Addr
}

type written struct {
	B    []byte
	Addr *net.UDPAddr
	At   time.Time
	Seq  int
}

// In-memory net.PacketConn: the observable boundary of a Server.
type fakeConn struct {
	local  *net.UDPAddr
	in     chan packet
	closed chan struct{}
	once   sync.Once
	mu     sync.Mutex
	out    []written
	nOut   atomic.Int64
	// called (outside mu) for every write; may inject replies
	onWrite func(w written)
	// returns an error to fail the write
	failWrite   func(n int, b []byte, addr net.Addr) error
	shortWrites atomic.Bool // WriteTo returns len-1, nil
	reads       atomic.Int64
	// number of ReadFrom calls entered
	readCalls atomic.Int64
	injected  atomic.Int64
}

func newFakeConn(local *net.UDPAddr) *fakeConn {
	if local == nil {
		local = &net.UDPAddr{IP: net.IP{203, 0, 113, 1}, Port: 6881}
	}
	return &fakeConn{local: local, in: make(chan packet, 4096), closed: make(chan struct{})}
}

func (c *fakeConn) ReadFrom(p []byte) (int, net.Addr, error) {
	c.readCalls.Add(1)
	select {
	case pk := <-c.in:
		c.reads.Add(1)
		n := copy(p, pk.b)
		return n, pk.addr, nil
	case <-c.closed:
		return 0, nil, errors.New("closed")
	}
}

func (c *fakeConn) WriteTo(p []byte, addr net.Addr) (int, error) {
	select {
	case <-c.closed:
		return 0, errors.New("closed")
	default:
	}
	n := int(c.nOut.Add(1))
	if f := c.failWrite; f != nil {
		if err := f(n, p, addr); err != nil {
			return 0, err
		}
	}
	ua, _ := addr.(*net.UDPAddr)
	w := written{B: append([]byte{}, p...), Addr: ua, At: time.Now(), Seq: n}
	c.mu.Lock()
	c.out = append(c.out, w)
	c.mu.Unlock()
	if f := c.onWrite; f != nil {
		f(w)
	}
	if c.shortWrites.Load() && len(p) > 0 {
		// the transport reports a short count without an error (an MTU-enforcing or proxying PacketConn): the
		// datagram has left, truncated
		return len(p) - 1, nil
	}
	return len(p), nil
}

func (c *fakeConn) Close() error {
	c.once.Do(func() { close(c.closed) })
	return nil
}
func (c *fakeConn) LocalAddr() net.Addr                { return c.local }
func (c *fakeConn) SetDeadline(t time.Time) error      { return nil }
func (c *fakeConn) SetReadDeadline(t time.Time) error  { return nil }
func (c *fakeConn) SetWriteDeadline(t time.Time) error { return nil }

// Deliver a datagram to the server's socket.
func (c *fakeConn) inject(b []byte, from *net.UDPAddr) {
	c.injected.Add(1)
	select {
	case c.in <- packet{append([]byte{}, b...), from}:
	case <-c.closed:
	}
}

func (c *fakeConn) writes() []written {
	c.mu.Lock()
	defer c.mu.Unlock()
	return append([]written{}, c.out...)
}

func (c *fakeConn) numWrites() int {
	c.mu.Lock()
	defer c.mu.Unlock()
	return len(c.out)
}

// True when the serve loop is back in ReadFrom with nothing queued: every datagram injected so far
// has been read AND its processPacket call has returned.
func (c *fakeConn) idle() bool {
	n := c.injected.Load()
	return c.reads.Load() == n && c.readCalls.Load() == n+1
}

func (c *fakeConn) waitIdle(timeout time.Duration) bool { return waitFor(c.idle, timeout) }

func waitFor(cond func() bool, timeout time.Duration) bool {
	deadline := time.Now().Add(timeout)
	for i := 0; ; i++ {
		if cond() {
			return true
		}
		if time.Now().After(deadline) {
			return false
		}
		if i < 50 {
			time.Sleep(50 * time.Microsecond)
		} else {
			time.Sleep(time.Millisecond)
		}
	}
}

// Wait until the number of written datagrams reaches n, or the timeout.
func (c *fakeConn) waitWrites(n int, timeout time.Duration) bool {
	return waitFor(func() bool { return c.numWrites() >= n }, timeout)
}

var discardLogger log.Logger

func init() {
	log.Default.Handlers = []log.Handler{log.DiscardHandler}
	discardLogger = log.Default.FilterLevel(log.Critical)
}

func unlimited() *rate.Limiter { return rate.NewLimiter(rate.Inf, 1000000) }

func baseConfig(conn *fakeConn) *dht.ServerConfig {
	return &dht.ServerConfig{
		Conn:             conn,
		NoSecurity:       true,
		StartingNodes:    func() ([]dht.Addr, error) { return nil, nil },
		SendLimiter:      unlimited(),
		Logger:           discardLogger,
		QueryResendDelay: func() time.Duration { return 30 * time.Millisecond },
	}
}

// Every injected datagram has been taken off the queue by the serve loop.
func (c *fakeConn) drained() bool { return len(c.in) == 0 }

// The errors a UDP socket write fails with in practice, by turns: a caller must not treat any of
// them as anything but "this datagram was not sent".
func injectedWriteErr(n int) error {
	sys := func(e syscall.Errno) error {
		return &net.OpError{Op: "write", Net: "udp", Err: os.NewSyscallError("sendto", e)}
	}
	switch n % 6 {
	case 0:
		return sys(syscall.ENOBUFS)
	case 1:
		return sys(syscall.ENETUNREACH)
	case 2:
		return sys(syscall.EPERM)
	case 3:
		return sys(syscall.EAGAIN)
	case 4:
		return syscall.ENOBUFS
	}
	return errors.New("injected write failure")
}
