package main

import (
	"fmt"
	"math/big"
	"net"
	"net/netip"
	"sort"
	"strings"
	"sync"

	dht "github.com/anacrolix/dht/v2"
	"github.com/anacrolix/dht/v2/containers"
	"github.com/anacrolix/dht/v2/int160"
	k_nearest_nodes "github.com/anacrolix/dht/v2/k-nearest-nodes"
	"github.com/anacrolix/dht/v2/krpc"
	"github.com/anacrolix/dht/v2/types"
	"github.com/anacrolix/generics"
)

func init() { commands["C18"] = runC18 }

func bigOf(b [20]byte) *big.Int { return new(big.Int).SetBytes(b[:]) }

func commonPrefixLen(a, b [20]byte) int {
	for i := 0; i < 160; i++ {
		if (a[i/8]>>(7-uint(i%8)))&1 != (b[i/8]>>(7-uint(i%8)))&1 {
			return i
		}
	}
	return 160
}

type cand struct {
	hasID bool
	id    [20]byte
	ip    []byte
	port  int
}

func (c cand) ami() types.AddrMaybeId {
	na := krpc.NodeAddr{IP: net.IP(c.ip), Port: c.port}
	ret := types.AddrMaybeId{Addr: na.ToNodeAddrPort()}
	if c.hasID {
		ret.Id = generics.Some(int160.FromByteArray(c.id))
	}
	return ret
}

func (c cand) str() string {
	return optHx(c.id[:], c.hasID) + "/" + hx(c.ip) + "/" + itoa(c.port)
}

func amiStr(a types.AddrMaybeId) string {
	var id []byte
	if a.Id.Ok {
		x := a.Id.Value.AsByteArray()
		id = x[:]
	}
	var ip []byte
	if a.Addr.Addr().IsValid() {
		ip = a.Addr.Addr().AsSlice()
	}
	return optHx(id, a.Id.Ok) + "/" + hx(ip) + "/" + itoa(int(a.Addr.Port()))
}

func (r *Run) randCand(base [20]byte, ipPool [][]byte) cand {
	c := cand{}
	if r.rng.Intn(5) != 0 {
		c.hasID = true
		c.id = r.structuredID(base)
	}
	c.ip = ipPool[r.rng.Intn(len(ipPool))]
	c.port = []int{0, 1, 6881, 6882, 65535}[r.rng.Intn(5)]
	return c
}

// Independent reference for closer-than: known before unknown, then numeric distance, then
// (family, bytes, port).
func refCloser(t [20]byte, l, r cand) bool {
	if l.hasID != r.hasID {
		return l.hasID
	}
	if l.hasID {
		dl := new(big.Int).Xor(bigOf(l.id), bigOf(t))
		dr := new(big.Int).Xor(bigOf(r.id), bigOf(t))
		if c := dl.Cmp(dr); c != 0 {
			return c < 0
		}
	}
	la, _ := netip.AddrFromSlice(l.ip)
	ra, _ := netip.AddrFromSlice(r.ip)
	if c := la.Compare(ra); c != 0 {
		return c < 0
	}
	return uint16(l.port) < uint16(r.port)
}

func runC18(r *Run) {
	r.Result.Rule = "structured IDs (extremes, single-bit flips, all 160 shared-prefix lengths, sparse, random) and candidates drawn from small pools (ID-less, equal-distance ties, v4/v6/mapped/invalid addresses, both representations of one host); bucket index, distance and closer-than also from 8 goroutines at once; non-trivial = distinct op line whose operands are not both random"
	nScalar := r.n(20000, 400000)
	base := r.randID()
	// --- int160 ops ---
	for i := 0; i < nScalar; i++ {
		if i%500 == 0 {
			base = r.structuredID(base)
		}
		a := r.structuredID(base)
		b := r.structuredID(a)
		ta, tb := i160(a), i160(b)
		x := int160.Distance(ta, tb)
		y := int160.Distance(tb, ta)
		r.op("I160 xor "+hx(a[:])+" "+hx(b[:]), hx(x.Bytes()))
		r.op("I160 cmp "+hx(a[:])+" "+hx(b[:]), itoa(ta.Cmp(tb)))
		r.op("I160 bitlen "+hx(a[:]), itoa(ta.BitLen()))
		r.op("I160 iszero "+hx(a[:]), b2s(ta.IsZero()))
		bit := r.rng.Intn(160)
		r.op(fmt.Sprintf("I160 getbit %s %d", hx(a[:]), bit), b2s(ta.GetBit(bit)))
		v := r.rng.Intn(2) == 0
		tc := ta
		tc.SetBit(bit, v)
		r.op(fmt.Sprintf("I160 setbit %s %d %s", hx(a[:]), bit, b2s(v)), hx(tc.Bytes()))
		r.count("i160 "+hx(a[:])+hx(b[:]), true)
		// oracles
		if x != y {
			r.violation("distance not symmetric", map[string]string{"a": hx(a[:]), "b": hx(b[:])})
		}
		if x.IsZero() != (a == b) {
			r.violation("distance zero iff equal fails", map[string]string{"a": hx(a[:]), "b": hx(b[:])})
		}
		if ta.Cmp(tb) != bigOf(a).Cmp(bigOf(b)) {
			r.violation("Cmp disagrees with unsigned integer order", map[string]string{"a": hx(a[:]), "b": hx(b[:])})
		}
		if new(big.Int).Xor(bigOf(a), bigOf(b)).Cmp(new(big.Int).SetBytes(x.Bytes())) != 0 {
			r.violation("Distance is not numeric xor", map[string]string{"a": hx(a[:]), "b": hx(b[:])})
		}
		if tc.GetBit(bit) != v {
			r.violation("SetBit/GetBit mismatch", map[string]interface{}{"a": hx(a[:]), "bit": bit})
		}
		// bucket index
		if a != b {
			bi := dht.VerifBucketIndex(a, b)
			r.op("I160 bucket "+hx(a[:])+" "+hx(b[:]), itoa(bi))
			if bi != commonPrefixLen(a, b) {
				r.violation("bucket index is not the shared prefix length", map[string]interface{}{"root": hx(a[:]), "id": hx(b[:]), "got": bi, "want": commonPrefixLen(a, b)})
			}
			r.hist(fmt.Sprintf("bucket/%02d0s", bi/10))
		}
	}
	// every prefix length, exhaustively once per run
	for n := 0; n < 160; n++ {
		root := r.randID()
		id := r.idWithPrefix(root, n)
		bi := dht.VerifBucketIndex(root, id)
		r.op("I160 bucket "+hx(root[:])+" "+hx(id[:]), itoa(bi))
		if bi != n {
			r.violation("bucket index is not the shared prefix length", map[string]interface{}{"root": hx(root[:]), "id": hx(id[:]), "got": bi, "want": n})
		}
		for j := 0; j < r.n(3, 30); j++ {
			out := func() (out [20]byte) {
				defer func() {
					if e := recover(); e != nil {
						r.violation(fmt.Sprintf("randomIdInBucket panicked: %v", e), map[string]interface{}{"root": hx(root[:]), "bucket": n})
					}
				}()
				return dht.VerifRandomIdInBucket(root, n)
			}()
			got := dht.VerifBucketIndex(root, out)
			r.op(fmt.Sprintf("I160 rndbucket %s %d %s", hx(root[:]), n, hx(out[:])), "1 "+itoa(got))
			if got != n {
				r.violation("random ID for bucket landed elsewhere", map[string]interface{}{"root": hx(root[:]), "bucket": n, "id": hx(out[:]), "landed": got})
			}
			r.count(fmt.Sprintf("rnd %d %x", n, out), true)
		}
	}
	// --- the same functions from several goroutines at once: a result depends on the arguments only ---
	{
		type job struct{ a, b [20]byte }
		nG, per := 8, r.n(4000, 60000)
		jobs := make([][]job, nG)
		for g := range jobs {
			for i := 0; i < per; i++ {
				a := r.structuredID(base)
				b := r.structuredID(a)
				if a == b {
					b[19] ^= 1
				}
				jobs[g] = append(jobs[g], job{a, b})
			}
		}
		var wg sync.WaitGroup
		for g := range jobs {
			wg.Add(1)
			go func(js []job) {
				defer wg.Done()
				defer func() {
					if e := recover(); e != nil {
						r.violation(fmt.Sprintf("panic under concurrent use: %v", e), map[string]interface{}{})
					}
				}()
				bad := 0
				for _, j := range js {
					bi := dht.VerifBucketIndex(j.a, j.b)
					if want := commonPrefixLen(j.a, j.b); bi != want && bad < 3 {
						bad++
						r.violation("bucket index is not the shared prefix length when computed from several goroutines at once", map[string]interface{}{"root": hx(j.a[:]), "id": hx(j.b[:]), "got": bi, "want": want, "goroutines": nG})
					}
					d := i160(j.a).Distance(i160(j.b))
					var x [20]byte
					for k := range x {
						x[k] = j.a[k] ^ j.b[k]
					}
					if d.AsByteArray() != x && bad < 3 {
						bad++
						r.violation("distance is not the XOR when computed from several goroutines at once", map[string]interface{}{"a": hx(j.a[:]), "b": hx(j.b[:])})
					}
					la, lb := cand{hasID: true, id: j.a, ip: []byte{1, 2, 3, 4}, port: 1}, cand{hasID: true, id: j.b, ip: []byte{1, 2, 3, 4}, port: 2}
					var t [20]byte
					if la.ami().CloserThan(lb.ami(), i160(t)) != refCloser(t, la, lb) && bad < 3 {
						bad++
						r.violation("closer-than disagrees with the numeric order when computed from several goroutines at once", map[string]interface{}{"a": hx(j.a[:]), "b": hx(j.b[:])})
					}
				}
			}(jobs[g])
		}
		wg.Wait()
		r.hist(fmt.Sprintf("concurrent/%d-goroutines", nG))
	}
	// --- closer-than ---
	nTrip := r.n(15000, 300000)
	ipPool := [][]byte{r.randIP(0), r.randIP(0), r.randIP(1), r.randIP(2), {}, {1, 2, 3}}
	ipPool = append(ipPool, append([]byte{}, ipPool[0]...))
	ipPool[6][3] ^= 1
	// the same host in its other representation
	ipPool = append(ipPool, []byte(net.IP(ipPool[0]).To16()), []byte(net.IP(ipPool[6]).To16()))
	for i := 0; i < nTrip; i++ {
		if i%200 == 0 {
			base = r.randID()
		}
		t := r.structuredID(base)
		idPool := [][20]byte{r.structuredID(t), r.structuredID(t), r.structuredID(base)}
		mk := func() cand {
			c := r.randCand(t, ipPool)
			if c.hasID && r.rng.Intn(2) == 0 {
				c.id = idPool[r.rng.Intn(len(idPool))]
			}
			return c
		}
		a, b, c := mk(), mk(), mk()
		tt := i160(t)
		ab := a.ami().CloserThan(b.ami(), tt)
		ba := b.ami().CloserThan(a.ami(), tt)
		bc := b.ami().CloserThan(c.ami(), tt)
		ac := a.ami().CloserThan(c.ami(), tt)
		aa := a.ami().CloserThan(a.ami(), tt)
		r.op("ORD closer "+hx(t[:])+" "+a.str()+" "+b.str(), b2s(ab))
		r.op("ORD closer "+hx(t[:])+" "+b.str()+" "+c.str(), b2s(bc))
		r.op("ORD closer "+hx(t[:])+" "+a.str()+" "+c.str(), b2s(ac))
		rep := map[string]string{"target": hx(t[:]), "a": a.str(), "b": b.str(), "c": c.str()}
		if aa {
			r.violation("closer-than not irreflexive", rep)
		}
		if ab && ba {
			r.violation("closer-than not asymmetric", rep)
		}
		if ab && bc && !ac {
			r.violation("closer-than not transitive", rep)
		}
		if !ab && !ba && a.ami() != b.ami() {
			r.violation("closer-than not total: distinct candidates unordered", rep)
		}
		if ab != refCloser(t, a, b) {
			r.violation("closer-than disagrees with (known first, distance, address, port)", rep)
		}
		tie := a.hasID && b.hasID && a.id == b.id
		r.count("ord "+hx(t[:])+a.str()+b.str()+c.str(), true)
		if tie {
			r.hist("closer/equal-distance-tie")
		}
		if !a.hasID || !b.hasID {
			r.hist("closer/id-less")
		}
	}
	// --- sorted set op sequences ---
	nSeq := r.n(300, 6000)
	for s := 0; s < nSeq; s++ {
		t := r.randID()
		set := containers.NewImmutableAddrMaybeIdsByDistance(i160(t))
		r.op("SET new "+hx(t[:]), "ok")
		var ref []cand
		pool := make([]cand, 6+r.rng.Intn(10))
		for i := range pool {
			pool[i] = r.randCand(t, ipPool)
			if pool[i].hasID && i > 0 && r.rng.Intn(4) == 0 && pool[i-1].hasID {
				pool[i].id = pool[i-1].id
			}
		}
		steps := 10 + r.rng.Intn(40)
		var seq []string
		for i := 0; i < steps; i++ {
			c := pool[r.rng.Intn(len(pool))]
			switch k := r.rng.Intn(10); {
			case k < 5:
				set = set.Add(c.ami())
				r.op("SET add "+c.str(), itoa(set.Len()))
				seq = append(seq, "add "+c.str())
				found := false
				for _, x := range ref {
					if x.ami() == c.ami() {
						found = true
					}
				}
				if !found {
					ref = append(ref, c)
				}
			case k < 7:
				set = set.Delete(c.ami())
				r.op("SET del "+c.str(), itoa(set.Len()))
				seq = append(seq, "del "+c.str())
				for j, x := range ref {
					if x.ami() == c.ami() {
						ref = append(ref[:j], ref[j+1:]...)
						break
					}
				}
			default:
				if set.Len() == 0 {
					r.op("SET len", "0")
					continue
				}
				n := set.Next()
				r.op("SET next", amiStr(n))
				seq = append(seq, "next")
				// oracle: nothing in ref is closer
				for _, x := range ref {
					if refCloser(t, x, cand{}) && false {
					}
					if x.ami() != n && refCloser(t, x, candOf(n)) {
						r.violation("Next did not return the closest element", map[string]interface{}{"target": hx(t[:]), "seq": seq})
					}
				}
			}
			if set.Len() != len(ref) {
				r.violation("sorted set size differs from the set of distinct elements added", map[string]interface{}{"target": hx(t[:]), "seq": seq, "len": set.Len(), "want": len(ref)})
				break
			}
		}
		r.count("set "+strings.Join(seq, ";"), len(ref) > 1)
		if s < 2 {
			r.sample(map[string]interface{}{"kind": "sorted-set ops", "target": hx(t[:]), "ops": seq})
		}
	}
	// --- K nearest push sequences ---
	for s := 0; s < nSeq; s++ {
		t := r.randID()
		k := []int{1, 2, 3, 8, 16}[r.rng.Intn(5)]
		knn := k_nearest_nodes.New(i160(t), k)
		r.op(fmt.Sprintf("KNN new %s %d", hx(t[:]), k), "ok")
		type kelem struct {
			c    cand
			data string
			has  bool
		}
		latest := map[string]kelem{}
		pool := make([]cand, 3+r.rng.Intn(24))
		for i := range pool {
			pool[i] = r.randCand(t, ipPool[:4])
			pool[i].hasID = true
			if i > 0 && r.rng.Intn(4) == 0 {
				pool[i].id = pool[i-1].id
			} else if r.rng.Intn(3) == 0 {
				pool[i].id = r.randID()
			}
		}
		steps := 5 + r.rng.Intn(60)
		var seq []string
		ties := 0
		for i := 0; i < steps; i++ {
			c := pool[r.rng.Intn(len(pool))]
			var data interface{}
			ds := "-"
			ke := kelem{c: c}
			if r.rng.Intn(3) != 0 {
				tok := []byte(fmt.Sprintf("t%d", r.rng.Intn(5)))
				data = string(tok)
				ds = hx(tok)
				ke.data, ke.has = string(tok), true
			}
			ni := krpc.NodeInfo{ID: c.id, Addr: krpc.NodeAddr{IP: net.IP(c.ip), Port: c.port}}
			key := ni.ToNodeInfoAddrPort()
			knn = knn.Push(k_nearest_nodes.Elem{Key: key, Data: data})
			latest[fmt.Sprint(key)] = ke
			var dump []string
			var got []kelem
			knn.Range(func(e k_nearest_nodes.Elem) {
				d := "-"
				ge := kelem{c: cand{hasID: true, id: e.ID, ip: e.Addr.Addr().AsSlice(), port: int(e.Addr.Port())}}
				if s, ok := e.Data.(string); ok {
					d = hx([]byte(s))
					ge.data, ge.has = s, true
				}
				got = append(got, ge)
				dump = append(dump, hx(e.ID[:])+"/"+hx(e.Addr.Addr().AsSlice())+"/"+itoa(int(e.Addr.Port()))+"/"+d)
			})
			es := hx(c.id[:]) + "/" + hx(c.ip) + "/" + itoa(c.port) + "/" + ds
			dl := strings.Join(dump, ",")
			if dl == "" {
				dl = "-"
			}
			r.op("KNN push "+es+" "+dl, "accept")
			seq = append(seq, es)
			r.op("KNN full", b2s(knn.Full()))
			r.op("KNN len", itoa(knn.Len()))
			// direct oracle: exactly the K nearest of the distinct keys pushed, in distance order
			var all []kelem
			for _, v := range latest {
				all = append(all, v)
			}
			dist := func(e kelem) *big.Int { return new(big.Int).Xor(bigOf(e.c.id), bigOf(t)) }
			sort.Slice(all, func(i, j int) bool { return dist(all[i]).Cmp(dist(all[j])) < 0 })
			want := len(all)
			if want > k {
				want = k
			}
			rep := map[string]interface{}{"target": hx(t[:]), "k": k, "pushes": append([]string{}, seq...), "contents": dump}
			if len(got) != want {
				r.violation(fmt.Sprintf("k-nearest holds %d elements, want %d", len(got), want), rep)
				break
			}
			bad := false
			for j := range got {
				if j > 0 && dist(got[j-1]).Cmp(dist(got[j])) > 0 {
					r.violation("k-nearest not in distance order", rep)
					bad = true
				}
				if dist(got[j]).Cmp(dist(all[j])) != 0 {
					r.violation("k-nearest does not hold the K nearest pushed elements", rep)
					bad = true
				}
				lk := fmt.Sprint(krpc.NodeInfo{ID: got[j].c.id, Addr: krpc.NodeAddr{IP: net.IP(got[j].c.ip), Port: got[j].c.port}}.ToNodeInfoAddrPort())
				if l, ok := latest[lk]; !ok || l.has != got[j].has || l.data != got[j].data {
					r.violation("k-nearest element carries data other than its latest push", rep)
					bad = true
				}
				if j > 0 && dist(got[j-1]).Cmp(dist(got[j])) == 0 {
					ties++
				}
			}
			if bad {
				break
			}
			if len(got) > 0 {
				f := knn.Farthest()
				r.op("KNN farthest", new(big.Int).Xor(bigOf(f.ID), bigOf(t)).String())
			}
		}
		if ties > 0 {
			r.hist("knn/histories-with-distance-ties")
		}
		r.hist(fmt.Sprintf("knn/k=%d", k))
		r.count("knn "+strings.Join(seq, ";"), len(latest) > k)
		if s < 2 {
			r.sample(map[string]interface{}{"kind": "k-nearest pushes", "target": hx(t[:]), "k": k, "pushes": seq})
		}
	}
	r.Result.TracesValidated = 2 * nSeq
}

func candOf(a types.AddrMaybeId) cand {
	c := cand{hasID: a.Id.Ok, port: int(a.Addr.Port())}
	if a.Id.Ok {
		c.id = a.Id.Value.AsByteArray()
	}
	if a.Addr.Addr().IsValid() {
		c.ip = a.Addr.Addr().AsSlice()
	}
	return c
}
