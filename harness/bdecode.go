package main

import (
	"bytes"
	"errors"
	"fmt"
	"math/big"
	"sort"
	"strconv"
)

// Independent minimal bencode reader/writer used by the harness to build and inspect datagrams
// without going through the codec under test.

type bkind int

const (
	bInt bkind = iota
	bStr
	bList
	bDict
)

type bval struct {
	k bkind
	i *big.Int
	s []byte
	l []*bval
	d []bkv // in wire order
}

type bkv struct {
	k string
	v *bval
}

func bI(i int64) *bval    { return &bval{k: bInt, i: big.NewInt(i)} }
func bS(s string) *bval   { return &bval{k: bStr, s: []byte(s)} }
func bB(s []byte) *bval   { return &bval{k: bStr, s: s} }
func bL(l ...*bval) *bval { return &bval{k: bList, l: l} }

// Dict from alternating key, value arguments; keys sorted on encoding.
func bD(kv ...interface{}) *bval {
	d := &bval{k: bDict}
	for i := 0; i+1 < len(kv); i += 2 {
		d.d = append(d.d, bkv{kv[i].(string), kv[i+1].(*bval)})
	}
	return d
}

func (v *bval) get(key string) *bval {
	if v == nil || v.k != bDict {
		return nil
	}
	for _, e := range v.d {
		if e.k == key {
			return e.v
		}
	}
	return nil
}

func (v *bval) set(key string, x *bval) {
	for i, e := range v.d {
		if e.k == key {
			v.d[i].v = x
			return
		}
	}
	v.d = append(v.d, bkv{key, x})
}

func (v *bval) del(key string) {
	for i, e := range v.d {
		if e.k == key {
			v.d = append(v.d[:i:i], v.d[i+1:]...)
			return
		}
	}
}

func (v *bval) str() ([]byte, bool) {
	if v == nil || v.k != bStr {
		return nil, false
	}
	return v.s, true
}

func (v *bval) int() (int64, bool) {
	if v == nil || v.k != bInt || !v.i.IsInt64() {
		return 0, false
	}
	return v.i.Int64(), true
}

// Encode with dict keys sorted (canonical).
func (v *bval) enc() []byte {
	var b bytes.Buffer
	v.encTo(&b, true)
	return b.Bytes()
}

// Encode keeping dict keys in the order held (to build non-canonical input).
func (v *bval) encRaw() []byte {
	var b bytes.Buffer
	v.encTo(&b, false)
	return b.Bytes()
}

func (v *bval) encTo(b *bytes.Buffer, sortKeys bool) {
	switch v.k {
	case bInt:
		b.WriteString("i" + v.i.String() + "e")
	case bStr:
		b.WriteString(strconv.Itoa(len(v.s)) + ":")
		b.Write(v.s)
	case bList:
		b.WriteByte('l')
		for _, e := range v.l {
			e.encTo(b, sortKeys)
		}
		b.WriteByte('e')
	case bDict:
		d := v.d
		if sortKeys {
			d = append([]bkv{}, v.d...)
			sort.SliceStable(d, func(i, j int) bool { return d[i].k < d[j].k })
		}
		b.WriteByte('d')
		for _, e := range d {
			b.WriteString(strconv.Itoa(len(e.k)) + ":" + e.k)
			e.v.encTo(b, sortKeys)
		}
		b.WriteByte('e')
	}
}

var errBdec = errors.New("bdecode: malformed")

// Parse one value; returns the value and the number of bytes consumed. Accepts any key order and
// duplicate keys (keeps all); rejects leading zeros, "-0", empty integers.
func bdecode(b []byte) (*bval, int, error) {
	v, n, err := bdec(b, 0, 0)
	return v, n, err
}

func bdec(b []byte, pos, depth int) (*bval, int, error) {
	if depth > 200 || pos >= len(b) {
		return nil, pos, errBdec
	}
	switch c := b[pos]; {
	case c == 'i':
		end := bytes.IndexByte(b[pos:], 'e')
		if end < 0 {
			return nil, pos, errBdec
		}
		s := string(b[pos+1 : pos+end])
		if s == "" || s == "-" || (len(s) > 1 && s[0] == '0') || (len(s) > 1 && s[0] == '-' && s[1] == '0') {
			return nil, pos, errBdec
		}
		for i, ch := range s {
			if !(ch >= '0' && ch <= '9') && !(i == 0 && ch == '-') {
				return nil, pos, errBdec
			}
		}
		n, ok := new(big.Int).SetString(s, 10)
		if !ok {
			return nil, pos, errBdec
		}
		return &bval{k: bInt, i: n}, pos + end + 1, nil
	case c >= '0' && c <= '9':
		colon := bytes.IndexByte(b[pos:], ':')
		if colon < 0 || colon > 10 {
			return nil, pos, errBdec
		}
		ls := string(b[pos : pos+colon])
		if len(ls) > 1 && ls[0] == '0' {
			return nil, pos, errBdec
		}
		n, err := strconv.Atoi(ls)
		if err != nil || pos+colon+1+n > len(b) {
			return nil, pos, errBdec
		}
		start := pos + colon + 1
		return &bval{k: bStr, s: append([]byte{}, b[start:start+n]...)}, start + n, nil
	case c == 'l':
		v := &bval{k: bList}
		p := pos + 1
		for {
			if p >= len(b) {
				return nil, p, errBdec
			}
			if b[p] == 'e' {
				return v, p + 1, nil
			}
			e, np, err := bdec(b, p, depth+1)
			if err != nil {
				return nil, np, err
			}
			v.l = append(v.l, e)
			p = np
		}
	case c == 'd':
		v := &bval{k: bDict}
		p := pos + 1
		for {
			if p >= len(b) {
				return nil, p, errBdec
			}
			if b[p] == 'e' {
				return v, p + 1, nil
			}
			k, np, err := bdec(b, p, depth+1)
			if err != nil || k.k != bStr {
				return nil, np, errBdec
			}
			e, np2, err := bdec(b, np, depth+1)
			if err != nil {
				return nil, np2, err
			}
			v.d = append(v.d, bkv{string(k.s), e})
			p = np2
		}
	}
	return nil, pos, errBdec
}

func (v *bval) String() string {
	if v == nil {
		return "<nil>"
	}
	switch v.k {
	case bInt:
		return v.i.String()
	case bStr:
		return fmt.Sprintf("%q", v.s)
	case bList:
		s := "["
		for i, e := range v.l {
			if i > 0 {
				s += " "
			}
			s += e.String()
		}
		return s + "]"
	default:
		s := "{"
		for i, e := range v.d {
			if i > 0 {
				s += " "
			}
			s += e.k + ":" + e.v.String()
		}
		return s + "}"
	}
}
