package main

// C12 (client side) — "a get traversal hands its caller only values that hash to the requested
// immutable target or verify under the requested mutable target's key and salt, and among those
// the one with the highest sequence number, whatever the remote nodes reply."
//
// A real dht.Server over the fake PacketConn, 3..12 simulated remote nodes seeded through AddNode
// (plus up to 3 nodes only reachable through the `nodes` of replies). Every node answers the
// server's `get` with one reply shape (genuine signed item with seqs from a small pool so that
// ties with different values occur; signature valid for another salt / seq / value / key; signed
// by another key; bit-flipped; `seq`, `k`, `v` or `sig` missing; seq only; short `k` / `sig`;
// immutable value hashing / not hashing to the target; not found; KRPC error; silence); the
// replies of the outstanding queries are injected in PRNG order. getput.Get (mutable without and
// with salt, immutable) and getput.Put run against that network.
//
// Direct oracles (independent of the Lean model; crypto/ed25519, crypto/sha1 and the signing buffer
// of b44common.go): what Get returns hashes to the immutable target or verifies under the target's
// key and salt; a mutable result carries the highest sequence number among the valid replies
// delivered; "value not found" iff no valid reply was delivered; Put hands its callback max(0,
// highest valid mutable seq) and the `put` queries it emits carry the callback's item, go only to
// nodes that answered, once each, at most K, each with that node's own token.
//
// Model: GETPUT fold / check / autoseq / closest ops replay the query outcomes on Model/Getput. The
// arrival order at Get's receive loop is observed through the logger Get takes from its context
// (it logs every received result, in order); when that is not possible the order-free `check` op
// is used instead of `fold`.

import (
	"bytes"
	"context"
	"crypto/ed25519"
	"crypto/sha1"
	"fmt"
	"math"
	"net"
	"os"
	"path/filepath"
	"regexp"
	"sort"
	"strconv"
	"strings"
	"sync"
	"sync/atomic"
	"time"

	dht "github.com/anacrolix/dht/v2"
	"github.com/anacrolix/dht/v2/bep44"
	"github.com/anacrolix/dht/v2/exts/getput"
	"github.com/anacrolix/dht/v2/krpc"
	"github.com/anacrolix/dht/v2/traversal"
	"github.com/anacrolix/log"
)

const (
	// query time-out (one try) in scenarios with a silent node, which is the only kind of node that ever reaches it;
	// scenarios without silent nodes use gcNoTimeout, so that no reply can race a time-out
	gcResend       = 150 * time.Millisecond
	gcNoTimeout    = 20 * time.Second
	gcLateBudget   = 40 * time.Millisecond // silent scenarios: a reply injected later than this after its query is not trusted to have been in time
	msgGcTokenless = "getput.Put sent a put to a node that returned no token"
)

type gcReply struct {
	kind   string
	errRep bool // KRPC error reply
	silent bool
	v      *bval  // nil: no `v`
	k      []byte // as put on the wire; nil: no `k`
	sig    []byte // nil: no `sig`
	seq    int64
	hasSeq bool
	// what the signature was REALLY made for (nil: nothing)
	sigKey, sigMsg []byte
}

func (p *gcReply) noR() bool { return p.errRep || p.silent }

func (p *gcReply) raw() []byte {
	if p.v == nil {
		return nil
	}
	return p.v.enc()
}

// The fixed-size arrays the codec fills from the wire strings (copy; absent = all zero).
func (p *gcReply) kArr() (k [32]byte)   { copy(k[:], p.k); return }
func (p *gcReply) sigArr() (s [64]byte) { copy(s[:], p.sig); return }

type gcNode struct {
	idx        int
	addr       *net.UDPAddr
	id         [20]byte
	token      []byte // nil: issues none
	rep        gcReply
	nbrs       []*gcNode
	seeded     bool
	asked      bool
	tid        string
	askedAt    time.Time
	injected   bool
	injectedAt time.Time
}

type gcPut struct {
	dst             *net.UDPAddr
	token           []byte
	hasToken        bool
	seq             int64
	hasSeq          bool
	v, k, sig, salt []byte
}

type gcScn struct {
	r       *Run
	mode    string // mut, mut-salt, imm
	op      string // get, put
	target  [20]byte
	salt    []byte
	priv    ed25519.PrivateKey
	pub     [32]byte
	nodes   []*gcNode
	byAddr  map[string]*gcNode
	mu      sync.Mutex
	pending []*gcNode
	puts    []gcPut
	events  []string
	bad     []string // violations found inside the conn callback
}

func (sc *gcScn) ev(f string, a ...interface{}) {
	sc.mu.Lock()
	if len(sc.events) < 80 {
		sc.events = append(sc.events, fmt.Sprintf(f, a...))
	}
	sc.mu.Unlock()
}

func (sc *gcScn) violation(what string, extra map[string]interface{}) {
	sc.mu.Lock()
	rep := map[string]interface{}{"op": sc.op, "mode": sc.mode, "target": hx(sc.target[:]), "salt": hx(sc.salt),
		"target_key": hx(sc.pub[:]), "events": append([]string{}, sc.events...)}
	var ns []string
	for _, n := range sc.nodes {
		ns = append(ns, fmt.Sprintf("%s asked=%v kind=%s event=%s", n.addr, n.asked, n.rep.kind, sc.eventField(n)))
	}
	sc.mu.Unlock()
	rep["nodes"] = ns
	for k, v := range extra {
		rep[k] = v
	}
	sc.r.b44Violation(what, rep)
}

// The spec's judgement of one reply, written from the property text: it has an `r`, and its value
// hashes to the target, or it carries a seq, its key and the requested salt hash to the target
// and the signature verifies for (salt, seq, v) under that key.
func (sc *gcScn) specValid(p *gcReply) (valid, mutable bool) {
	if p.noR() {
		return false, false
	}
	raw := p.raw()
	if sha1.Sum(raw) == sc.target {
		return true, false
	}
	if !p.hasSeq {
		return false, false
	}
	k := p.kArr()
	if sha1.Sum(append(append([]byte{}, k[:]...), sc.salt...)) != sc.target {
		return false, false
	}
	sg := p.sigArr()
	return ed25519.Verify(ed25519.PublicKey(k[:]), specSignBuf(sc.salt, p.seq, raw), sg[:]), true
}

func optB(b []byte) string {
	if b == nil {
		return "-"
	}
	return hx(b)
}

// v/k/sig/seq/token/sigKey/sigMsg, or x.
func (sc *gcScn) eventField(n *gcNode) string {
	p := &n.rep
	if p.noR() {
		return "x"
	}
	seq := "-"
	if p.hasSeq {
		seq = strconv.FormatInt(p.seq, 10)
	}
	var k, sg []byte
	if p.k != nil {
		a := p.kArr()
		k = a[:]
	}
	if p.sig != nil {
		a := p.sigArr()
		sg = a[:]
	}
	made := "-/-"
	if p.sigKey != nil {
		made = hx(p.sigKey) + "/" + hx(p.sigMsg)
	}
	return optB(p.raw()) + "/" + optB(k) + "/" + optB(sg) + "/" + seq + "/" + optB(n.token) + "/" + made
}

func gcJoin(fs []string) string {
	if len(fs) == 0 {
		return "-"
	}
	return strings.Join(fs, ",")
}

// ------------------------------------------------------------------ generation

func (sc *gcScn) sign(p *gcReply, priv ed25519.PrivateKey, salt []byte, seq int64, raw []byte) {
	msg := specSignBuf(salt, seq, raw)
	p.sig = ed25519.Sign(priv, msg)
	p.sigKey = append([]byte{}, priv.Public().(ed25519.PublicKey)...)
	p.sigMsg = msg
}

func (sc *gcScn) otherSalt() []byte {
	rng := sc.r.rng
	o := append([]byte{}, sc.salt...)
	switch {
	case len(o) == 0:
		return []byte{byte(rng.Intn(256))}
	case rng.Intn(3) == 0:
		return o[:len(o)-1]
	default:
		o[rng.Intn(len(o))] ^= 1 << uint(rng.Intn(8))
		return o
	}
}

var gcMutKinds = []string{"genuine", "genuine", "genuine", "genuine", "genuine", "genuine", "genuine",
	"other-salt", "other-seq", "other-value", "other-key", "wrong-signer", "bit-flipped", "no-seq", "no-k", "no-v",
	"no-v-signed-empty", "no-sig", "seq-only", "k-short", "sig-short", "imm-miss", "notfound", "error", "random-sig"}

var gcImmKinds = []string{"imm-hit", "imm-hit", "imm-hit", "imm-hit-junk", "imm-hit-junk", "imm-miss", "imm-miss", "imm-miss",
	"genuine-mutable", "no-v", "notfound", "error", "imm-miss-junk"}

func (sc *gcScn) makeReply(kind string, vals []*bval, seqs []int64, priv2 ed25519.PrivateKey, pub2 [32]byte, immV *bval) gcReply {
	rng := sc.r.rng
	p := gcReply{kind: kind}
	v := vals[rng.Intn(len(vals))]
	seq := seqs[rng.Intn(len(seqs))]
	genuine := func() {
		p.v, p.k, p.seq, p.hasSeq = v, sc.pub[:], seq, true
		sc.sign(&p, sc.priv, sc.salt, seq, v.enc())
	}
	switch kind {
	case "genuine", "genuine-mutable":
		genuine()
	case "other-salt":
		genuine()
		sc.sign(&p, sc.priv, sc.otherSalt(), seq, v.enc())
	case "other-seq": // a stale or future signature under a different claimed seq
		genuine()
		d := int64(1 + rng.Intn(3))
		if rng.Intn(2) == 0 {
			d = -d
		}
		sc.sign(&p, sc.priv, sc.salt, seq-d, v.enc())
	case "other-value": // forged value under somebody's genuine signature
		genuine()
		o := vals[rng.Intn(len(vals))]
		if bytes.Equal(o.enc(), v.enc()) {
			o = bS("forged-" + string(v.enc()))
		}
		sc.sign(&p, sc.priv, sc.salt, seq, o.enc())
	case "other-key": // a perfectly valid item of another key
		genuine()
		p.k = pub2[:]
		sc.sign(&p, priv2, sc.salt, seq, v.enc())
	case "wrong-signer": // the target's key, signed by another key
		genuine()
		sc.sign(&p, priv2, sc.salt, seq, v.enc())
	case "bit-flipped":
		genuine()
		p.sig[rng.Intn(64)] ^= 1 << uint(rng.Intn(8))
		p.sigKey, p.sigMsg = nil, nil
	case "random-sig":
		genuine()
		rng.Read(p.sig)
		p.sigKey, p.sigMsg = nil, nil
	case "no-seq":
		genuine()
		p.hasSeq = false
	case "no-k":
		genuine()
		p.k = nil
	case "no-v":
		genuine()
		p.v = nil
	case "no-v-signed-empty": // fields missing, but the signature really covers the empty value
		genuine()
		p.v = nil
		sc.sign(&p, sc.priv, sc.salt, seq, nil)
	case "no-sig":
		genuine()
		p.sig, p.sigKey, p.sigMsg = nil, nil, nil
	case "seq-only":
		p.seq, p.hasSeq = seq, true
	case "k-short":
		genuine()
		p.k = p.k[:31]
	case "sig-short":
		// the codec pads with a zero byte: still the genuine signature when that is its last byte
		// (S < 2^253: one ed25519 signature in 16)
		genuine()
		if p.sig[63] != 0 {
			p.sigKey, p.sigMsg = nil, nil
		}
		p.sig = p.sig[:63]
	case "imm-hit":
		p.v = immV
	case "imm-hit-junk": // the right value with stray mutable fields
		genuine()
		p.v = immV
		if rng.Intn(2) == 0 {
			p.hasSeq = false
		}
		if rng.Intn(2) == 0 {
			p.sig = make([]byte, 64)
			rng.Read(p.sig)
			p.sigKey, p.sigMsg = nil, nil
		}
	case "imm-miss":
		p.v = v
		if immV != nil && bytes.Equal(v.enc(), immV.enc()) {
			p.v = bS("not-it")
		}
	case "imm-miss-junk":
		genuine()
		if immV != nil && bytes.Equal(v.enc(), immV.enc()) {
			p.v = bS("not-it")
		}
	case "notfound":
	case "error":
		p.errRep = true
	case "silent":
		p.silent = true
	default:
		panic("kind " + kind)
	}
	return p
}

// ------------------------------------------------------------------ arrival order from Get's own log

type gcRecv struct {
	mutable bool
	seq     int64
	v       []byte
	sig     [64]byte
}

type gcLogRec struct {
	mu   sync.Mutex
	recv []gcRecv
	bad  int
	slow time.Duration // the consumer's logger is slow: values arrive while Get is still busy with the previous one
}

var gcRecvRe = regexp.MustCompile(`(?s)^received getput\.GetResult\{Seq:(-?\d+), V:bencode\.Bytes\((".*")\), Sig:\[64\]uint8\{([^}]*)\}, Mutable:(true|false)\}$`)

func (l *gcLogRec) Handle(rec log.Record) {
	text := rec.Msg.Text()
	if !strings.HasPrefix(text, "received ") {
		return
	}
	if l.slow > 0 {
		time.Sleep(l.slow)
	}
	l.mu.Lock()
	defer l.mu.Unlock()
	m := gcRecvRe.FindStringSubmatch(text)
	if m == nil {
		l.bad++
		return
	}
	var e gcRecv
	var err error
	e.seq, err = strconv.ParseInt(m[1], 10, 64)
	vs, err2 := strconv.Unquote(m[2])
	parts := strings.Split(m[3], ", ")
	if err != nil || err2 != nil || len(parts) != 64 {
		l.bad++
		return
	}
	e.v = []byte(vs)
	for i, p := range parts {
		b, err := strconv.ParseUint(strings.TrimPrefix(p, "0x"), 16, 8)
		if err != nil {
			l.bad++
			return
		}
		e.sig[i] = byte(b)
	}
	e.mutable = m[4] == "true"
	l.recv = append(l.recv, e)
}

// ------------------------------------------------------------------ scenario

func (r *Run) gcScenario(i int) {
	rng := r.rng
	conn := newFakeConn(nil)
	cfg := baseConfig(conn)
	resend := gcNoTimeout
	cfg.QueryResendDelay = func() time.Duration { return resend } // set below, before the first query
	s, err := dht.NewServer(cfg)
	if err != nil {
		r.b44Violation("NewServer failed: "+err.Error(), nil)
		return
	}
	defer conn.Close()
	defer s.Close()
	sc := &gcScn{r: r, byAddr: map[string]*gcNode{}}
	sc.mode = []string{"mut", "mut-salt", "mut-salt", "imm"}[rng.Intn(4)]
	sc.op = []string{"get", "get", "put"}[rng.Intn(3)]
	priv, pub := r.b44Key()
	priv2, pub2 := r.b44Key()
	sc.priv, sc.pub = priv, *pub
	if sc.mode == "mut-salt" {
		sc.salt = make([]byte, 1+rng.Intn(20))
		rng.Read(sc.salt)
	}
	// value and seq pools: small, so that equal seqs with different values and repeated items occur
	vals := []*bval{bS(fmt.Sprintf("value-%d", rng.Intn(1000))), bI(int64(rng.Intn(100)) - 50), bL(bS("a"), bI(int64(i))),
		bD("n", bI(int64(rng.Intn(9))), "z", bS("")), bS("")}
	rng.Shuffle(len(vals), func(a, b int) { vals[a], vals[b] = vals[b], vals[a] })
	vals = vals[:2+rng.Intn(3)]
	base := int64(rng.Intn(2000)) - 20
	seqs := []int64{base, base, base + 1, base + 2, base - 1}
	switch rng.Intn(8) {
	case 0:
		seqs = append(seqs, math.MinInt64, math.MinInt64+1)
	case 1:
		seqs = append(seqs, -1, 0, 1)
	case 2:
		if sc.op == "get" {
			seqs = append(seqs, math.MaxInt64, math.MaxInt64-1)
		}
	case 3:
		seqs = []int64{math.MinInt64}
	case 4:
		seqs = []int64{-7, -3, -3}
	}
	var immV *bval
	if sc.mode == "imm" {
		immV = vals[0]
		sc.target = sha1.Sum(immV.enc())
	} else {
		sc.target = specTarget(&sc.pub, sc.salt, nil)
	}
	// nodes: one per routing-table bucket of the server, so that AddNode keeps them all
	nn := 3 + rng.Intn(10)
	extra := rng.Intn(4)
	kinds := gcMutKinds
	if sc.mode == "imm" {
		kinds = gcImmKinds
	}
	profile := rng.Intn(10) // 0: nothing valid at all; 1: mostly invalid; else: mixed
	silentLeft := 0
	if rng.Intn(12) == 0 {
		silentLeft = 1 + rng.Intn(2)
	}
	hasSilent := false
	sid := s.ID()
	for j := 0; j < nn+extra; j++ {
		n := &gcNode{idx: j, addr: udp(net.IP{10, byte(1 + i%200), byte(1 + j), byte(1 + rng.Intn(250))}, 3000+j)}
		if j < nn {
			n.id = r.idWithPrefix(sid, j)
			n.seeded = true
		} else {
			n.id = r.idWithPrefix(sc.target, rng.Intn(12))
		}
		if rng.Intn(5) != 0 {
			n.token = []byte(fmt.Sprintf("tok-%d-%d", i, j))
			if rng.Intn(8) == 0 {
				n.token = []byte{}
			}
		}
		kind := kinds[rng.Intn(len(kinds))]
		for tries := 0; tries < 20; tries++ {
			ok := true
			switch profile {
			case 0:
				ok = !strings.HasPrefix(kind, "genuine") && !strings.HasPrefix(kind, "imm-hit") && kind != "no-v-signed-empty"
				if sc.mode == "imm" && kind == "genuine-mutable" {
					ok = true
				}
			case 1:
				ok = (!strings.HasPrefix(kind, "genuine") && !strings.HasPrefix(kind, "imm-hit")) || rng.Intn(4) == 0
			}
			if ok {
				break
			}
			kind = kinds[rng.Intn(len(kinds))]
		}
		if silentLeft > 0 && rng.Intn(nn) < 2 {
			kind = "silent"
			silentLeft--
			hasSilent = true
		}
		n.rep = sc.makeReply(kind, vals, seqs, priv2, *pub2, immV)
		sc.nodes = append(sc.nodes, n)
		sc.byAddr[n.addr.String()] = n
	}
	for j := nn; j < nn+extra; j++ {
		from := sc.nodes[rng.Intn(nn)]
		from.nbrs = append(from.nbrs, sc.nodes[j])
	}
	var seqArg *int64
	if sc.op == "get" && rng.Intn(3) == 0 {
		q := seqs[rng.Intn(len(seqs))]
		seqArg = &q
	}
	// ---- the network
	conn.onWrite = func(w written) {
		d := parseDgram(w)
		if !d.ok || d.y != "q" {
			return
		}
		n := sc.byAddr[w.Addr.String()]
		if n == nil {
			return
		}
		a := d.v.get("a")
		switch d.q {
		case "get":
			tg, _ := a.get("target").str()
			sq, hasSq := a.get("seq").int()
			sc.mu.Lock()
			if !bytes.Equal(tg, sc.target[:]) {
				sc.bad = append(sc.bad, "get query carries another target")
			}
			if (seqArg != nil) != hasSq || (hasSq && sq != *seqArg) {
				sc.bad = append(sc.bad, "get query does not carry the caller's seq")
			}
			if n.asked {
				sc.bad = append(sc.bad, "node queried twice")
				sc.mu.Unlock()
				return
			}
			n.asked, n.tid, n.askedAt = true, string(d.t), w.At
			sc.pending = append(sc.pending, n)
			sc.mu.Unlock()
		case "put":
			o := gcPut{dst: w.Addr}
			o.token, o.hasToken = a.get("token").str()
			o.seq, o.hasSeq = a.get("seq").int()
			if v := a.get("v"); v != nil {
				o.v = v.encRaw()
			}
			o.k, _ = a.get("k").str()
			o.sig, _ = a.get("sig").str()
			o.salt, _ = a.get("salt").str()
			sc.mu.Lock()
			sc.puts = append(sc.puts, o)
			sc.mu.Unlock()
			conn.inject(mkReply(string(d.t), bD("id", bB(n.id[:]))).enc(), n.addr)
		}
	}
	if hasSilent {
		resend = gcResend
	}
	for _, n := range sc.nodes[:nn] {
		s.AddNode(nodeInfo(n.id, n.addr))
	}
	seeded := s.NumNodes()
	// ---- the call
	rec := &gcLogRec{}
	if rng.Intn(3) == 0 {
		rec.slow = time.Duration(2000+rng.Intn(4000)) * time.Microsecond // longer than the rest of the traversal takes
		r.hist("client/slow-consumer")
	}
	lg := log.Default.WithFilterLevel(log.Debug)
	lg.SetHandlers(rec)
	ctx := log.ContextWithLogger(context.Background(), lg)
	if rng.Intn(8) == 0 {
		// no way to see the arrival order: the order-free `check` op is used for this run
		ctx = context.Background()
	}
	var (
		res      getput.GetResult
		stats    *traversal.Stats
		callErr  error
		panicked string
		cbSeqs   []int64
		putItem  bep44.Put
		putBv    []byte
	)
	done := make(chan struct{})
	go func() {
		defer close(done)
		defer func() {
			if p := recover(); p != nil {
				panicked = fmt.Sprint(p)
			}
		}()
		if sc.op == "get" {
			res, stats, callErr = getput.Get(ctx, sc.target, s, seqArg, sc.salt)
			return
		}
		stats, callErr = getput.Put(ctx, krpc.ID(sc.target), s, sc.salt, func(seq int64) bep44.Put {
			cbSeqs = append(cbSeqs, seq)
			if sc.mode == "imm" {
				putItem = bep44.Put{V: goValue(immV)}
				putBv = immV.enc()
				return putItem
			}
			val := bS(fmt.Sprintf("new-%d", i))
			putBv = val.enc()
			k := sc.pub
			putItem = bep44.Put{V: goValue(val), K: &k, Salt: append([]byte(nil), sc.salt...), Seq: seq + 1}
			copy(putItem.Sig[:], ed25519.Sign(sc.priv, specSignBuf(sc.salt, seq+1, putBv)))
			return putItem
		})
	}()
	// ---- release the replies of the outstanding queries in PRNG order
	var order []*gcNode
	late := false
	first := true
	finished := false
	deadline := time.Now().Add(12 * time.Second)
	for !finished {
		if first {
			// all seeds are queried at once (alpha 15 > 12): take them as one batch
			waitFor(func() bool {
				sc.mu.Lock()
				defer sc.mu.Unlock()
				return len(sc.pending) >= seeded
			}, time.Second)
			first = false
		}
		sc.mu.Lock()
		batch := sc.pending
		sc.pending = nil
		sc.mu.Unlock()
		rng.Shuffle(len(batch), func(a, b int) { batch[a], batch[b] = batch[b], batch[a] })
		for _, n := range batch {
			order = append(order, n)
			if n.rep.silent {
				sc.ev("%s silent", n.addr)
				continue
			}
			var m *bval
			if n.rep.errRep {
				m = mkError(n.tid, 201, "no")
			} else {
				rd := bD("id", bB(n.id[:]))
				if n.token != nil {
					rd.set("token", bB(n.token))
				}
				var n4 []byte
				for _, nb := range n.nbrs {
					n4 = append(n4, compactNode(nb.id, nb.addr.IP.To4(), nb.addr.Port)...)
				}
				if len(n4) > 0 {
					rd.set("nodes", bB(n4))
				}
				p := &n.rep
				if p.v != nil {
					rd.set("v", p.v)
				}
				if p.k != nil {
					rd.set("k", bB(p.k))
				}
				if p.sig != nil {
					rd.set("sig", bB(p.sig))
				}
				if p.hasSeq {
					rd.set("seq", bI(p.seq))
				}
				m = mkReply(n.tid, rd)
			}
			n.injected, n.injectedAt = true, time.Now()
			if n.injectedAt.Sub(n.askedAt) > gcLateBudget {
				late = true
			}
			sc.ev("%s <- %s %s", n.addr, n.rep.kind, sc.eventField(n))
			// a panic in the traversal's query goroutine cannot be recovered: leave the input behind
			r.gcLastInput(fmt.Sprintf("getput.%s mode=%s target=%s salt=%s target_key=%s: reply from %s kind=%s v/k/sig/seq/token/sigKey/sigMsg=%s datagram=%q",
				sc.op, sc.mode, hx(sc.target[:]), hx(sc.salt), hx(sc.pub[:]), n.addr, n.rep.kind, sc.eventField(n), m.enc()))
			conn.inject(m.enc(), n.addr)
		}
		// wait for more queries or for the call to return
		for {
			select {
			case <-done:
				finished = true
			default:
			}
			if finished {
				break
			}
			sc.mu.Lock()
			more := len(sc.pending) > 0
			sc.mu.Unlock()
			if more {
				break
			}
			if time.Now().After(deadline) {
				sc.violation(fmt.Sprintf("getput.%s does not return although every query was answered or timed out", sc.op), nil)
				return
			}
			time.Sleep(50 * time.Microsecond)
		}
	}
	conn.waitIdle(time.Second)
	sc.mu.Lock()
	bad := append([]string{}, sc.bad...)
	puts := append([]gcPut{}, sc.puts...)
	sc.mu.Unlock()
	for _, b := range bad {
		sc.violation(b, nil)
	}
	if panicked != "" {
		sc.violation("getput."+sc.op+" panicked: "+panicked, nil)
		return
	}
	r.hist("client/" + sc.op + "/" + sc.mode)
	for _, n := range order {
		r.hist("client/reply/" + sc.mode + "/" + n.rep.kind)
	}
	// Scenarios with a silent node run with a short query time-out: a reply may have missed it
	// (injected late, or processed late on a loaded machine); then what was "delivered" is not
	// known. The traversal's own count of responses tells (responders without token are left out
	// of the comparison: whether they count depends on the closure's token filter).
	if hasSilent {
		tokened := 0
		for _, n := range order {
			if !n.rep.noR() && n.token != nil {
				tokened++
			}
		}
		if late || stats == nil || int(atomic.LoadUint32(&stats.NumResponses)) < tokened {
			r.hist("client/inconclusive/reply-may-have-missed-the-timeout")
			return
		}
	}
	// ---- what the spec says about the delivered replies
	var validMut, validImm []*gcNode
	for _, n := range order {
		ok, mut := sc.specValid(&n.rep)
		switch {
		case ok && mut:
			validMut = append(validMut, n)
		case ok:
			validImm = append(validImm, n)
		}
	}
	var fields []string
	for _, n := range order {
		fields = append(fields, sc.eventField(n))
	}
	head := hx(sc.target[:]) + " " + hx(sc.salt) + " "
	if sc.op == "get" {
		sc.checkGet(res, callErr, order, validMut, validImm, rec, head)
	} else {
		sc.checkPut(callErr, cbSeqs, putItem, putBv, puts, order, validMut, head+gcJoin(fields), gcJoin(fields))
	}
	r.Result.TracesValidated++
	nontrivial := len(validMut)+len(validImm) > 0 && len(order) > len(validMut)+len(validImm)
	r.count("client|"+hashKey(sc.op+sc.mode+head+gcJoin(fields)), nontrivial)
	if i < 3 {
		r.sample(map[string]interface{}{"client": sc.op + "/" + sc.mode, "target": hx(sc.target[:]), "events": append([]string{}, sc.events...)})
	}
}

// Like Run.lastInput, but the file is replaced atomically: the process may die (panic in a query
// goroutine of the code under test) while the next reply is being recorded.
func (r *Run) gcLastInput(s string) {
	r.mu.Lock()
	r.recent = append(r.recent, s)
	if len(r.recent) > 6 {
		r.recent = r.recent[len(r.recent)-6:]
	}
	out := strings.Join(r.recent, "\n")
	r.mu.Unlock()
	tmp := filepath.Join(r.OutDir, "last-input.tmp")
	if os.WriteFile(tmp, []byte(out), 0o644) == nil {
		os.Rename(tmp, filepath.Join(r.OutDir, "last-input.txt"))
	}
}

func gcResultStr(res getput.GetResult, err error) string {
	if err != nil {
		if err.Error() == "value not found" {
			return "notfound"
		}
		return "goerr:" + strings.ReplaceAll(err.Error(), " ", "_")
	}
	v := "-"
	if res.V != nil {
		v = hx(res.V)
	}
	if res.Mutable {
		return "mut " + strconv.FormatInt(res.Seq, 10) + " " + v + " " + hx(res.Sig[:])
	}
	return "imm " + v + " " + hx(res.Sig[:])
}

func (sc *gcScn) checkGet(res getput.GetResult, err error, order []*gcNode, validMut, validImm []*gcNode, rec *gcLogRec, head string) {
	r := sc.r
	got := gcResultStr(res, err)
	x := map[string]interface{}{"returned": got}
	if err != nil && err.Error() != "value not found" {
		sc.violation("getput.Get failed: "+err.Error(), x)
		return
	}
	// --- direct oracles
	switch {
	case err != nil:
		if len(validMut)+len(validImm) > 0 {
			sc.violation("getput.Get reports value not found although a valid reply was delivered", x)
		}
		r.hist("client/get/notfound")
	case !res.Mutable:
		if sha1.Sum(res.V) != sc.target {
			sc.violation("getput.Get returned an immutable value that does not hash to the target", x)
		}
		if len(validImm) == 0 {
			sc.violation("getput.Get returned a value although no valid reply was delivered", x)
		}
		r.hist("client/get/immutable")
	default:
		if !ed25519.Verify(ed25519.PublicKey(sc.pub[:]), specSignBuf(sc.salt, res.Seq, res.V), res.Sig[:]) {
			sc.violation("getput.Get returned a mutable value that does not verify under the target's key and salt", x)
		}
		from := false
		var max int64 = math.MinInt64
		for _, n := range validMut {
			if n.rep.seq > max {
				max = n.rep.seq
			}
			sg := n.rep.sigArr()
			if n.rep.seq == res.Seq && bytes.Equal(n.rep.raw(), res.V) && sg == res.Sig {
				from = true
			}
		}
		if len(validMut) == 0 {
			sc.violation("getput.Get returned a value although no valid reply was delivered", x)
		} else {
			if !from {
				sc.violation("getput.Get returned a value that is none of the valid replies delivered", x)
			}
			if res.Seq != max {
				sc.violation(fmt.Sprintf("getput.Get returned seq %d, the highest valid sequence number delivered is %d", res.Seq, max), x)
			}
		}
		if len(validImm) > 0 {
			sc.violation("getput.Get returned a mutable value although a reply hashing to the target was delivered", x)
		}
		ties := 0
		for _, n := range validMut {
			if n.rep.seq == max && !bytes.Equal(n.rep.raw(), res.V) {
				ties++
			}
		}
		if ties > 0 {
			r.hist("client/get/mutable/tie-with-other-value")
		} else {
			r.hist("client/get/mutable")
		}
	}
	// --- the model: arrival order from Get's own log
	rec.mu.Lock()
	recv := append([]gcRecv{}, rec.recv...)
	badLog := rec.bad
	rec.mu.Unlock()
	// match every logged result (seq, v, sig, kind) to a delivered reply carrying exactly these, first unmatched wins
	slot := make([]int, 0, len(recv)) // index into order, in arrival order
	used := map[int]bool{}
	okOrder := badLog == 0
	for _, e := range recv {
		// several replies may carry the same (seq, v, sig) — e.g. the genuine item and a copy of it
		// without `k`: the one Get consumed is one the closure accepted, so replies the spec calls
		// valid are preferred; identical valid ones are interchangeable
		found := -1
		for pass := 0; pass < 2 && found < 0; pass++ {
			for j, n := range order {
				if used[j] || n.rep.noR() {
					continue
				}
				if n.rep.sigArr() != e.sig || !bytes.Equal(n.rep.raw(), e.v) {
					continue
				}
				if ok, mut := sc.specValid(&n.rep); pass == 0 && (!ok || mut != e.mutable) {
					continue
				}
				if (!e.mutable && e.seq == 0) || (e.mutable && n.rep.hasSeq && n.rep.seq == e.seq) {
					found = j
					break
				}
			}
		}
		if found < 0 {
			okOrder = false
			break
		}
		used[found] = true
		slot = append(slot, found)
	}
	// every result Get consumed is logged: a mutable outcome needs all of the valid replies, any
	// outcome at least one entry unless nothing was found
	if okOrder {
		switch {
		case err != nil:
			okOrder = len(recv) == 0
		case res.Mutable:
			okOrder = len(recv) >= 1 && len(recv) == len(validMut)+len(validImm)
		default:
			okOrder = len(recv) >= 1
		}
	}
	var seq []*gcNode
	if okOrder {
		if err == nil && !res.Mutable {
			// Get left at the first immutable result: what it consumed, then everything else
			for _, j := range slot {
				seq = append(seq, order[j])
			}
			for j, n := range order {
				if !used[j] {
					seq = append(seq, n)
				}
			}
		} else {
			// the consumed results take, in arrival order, the places of the consumed results
			pos := append([]int{}, slot...)
			sort.Ints(pos)
			seq = append([]*gcNode{}, order...)
			for a, j := range slot {
				seq[pos[a]] = order[j]
			}
		}
		same := true
		for j := range seq {
			if seq[j] != order[j] {
				same = false
			}
		}
		if same {
			r.hist("client/order/arrival=injection")
		} else {
			r.hist("client/order/arrival!=injection")
		}
		var fs []string
		for _, n := range seq {
			fs = append(fs, sc.eventField(n))
		}
		r.op("GETPUT fold "+head+gcJoin(fs), got)
	} else {
		r.hist("client/order/unobserved")
		var fs []string
		for _, n := range order {
			fs = append(fs, sc.eventField(n))
		}
		r.op("GETPUT check "+head+gcJoin(fs)+" "+got, "ok")
	}
}

func (sc *gcScn) checkPut(err error, cbSeqs []int64, item bep44.Put, bv []byte, puts []gcPut, order []*gcNode,
	validMut []*gcNode, opArgs string, fields string) {
	r := sc.r
	x := map[string]interface{}{"callback_seqs": cbSeqs}
	if err != nil {
		sc.violation("getput.Put failed: "+err.Error(), x)
		return
	}
	if len(cbSeqs) != 1 {
		sc.violation(fmt.Sprintf("getput.Put called seqToPut %d times", len(cbSeqs)), x)
		return
	}
	var want int64
	for _, n := range validMut {
		if n.rep.seq > want {
			want = n.rep.seq
		}
	}
	if cbSeqs[0] != want {
		sc.violation(fmt.Sprintf("getput.Put handed seqToPut %d, the highest valid mutable sequence number delivered (or 0) is %d", cbSeqs[0], want), x)
	}
	r.op("GETPUT autoseq "+opArgs, strconv.FormatInt(cbSeqs[0], 10))
	if want > 0 {
		r.hist("client/put/autoseq>0")
	} else {
		r.hist("client/put/autoseq=0")
	}
	// --- the put queries
	responders := 0
	for _, n := range order {
		if !n.rep.noR() {
			responders++
		}
	}
	seen := map[string]bool{}
	sentTo := map[*gcNode]gcPut{}
	for _, p := range puts {
		px := map[string]interface{}{"put_to": p.dst.String(), "token": optB(p.token), "callback_seqs": cbSeqs}
		n := sc.byAddr[p.dst.String()]
		if n == nil || !n.asked || n.rep.noR() {
			sc.violation("getput.Put sent a put to a node that did not answer the get", px)
			continue
		}
		if seen[p.dst.String()] {
			sc.violation("getput.Put sent two puts to one node", px)
		}
		seen[p.dst.String()] = true
		sentTo[n] = p
		if n.token == nil {
			// Not part of C12's statement (it speaks about values handed to the caller, not about
			// which nodes a Put writes to), so this is counted and noted, never reported as a
			// violation: getput's `tqr.ClosestData == nil` test cannot fire after the string
			// assertion, so tokenless responders stay in the closest set and get a put with token "".
			r.hist("client/put/to-tokenless-node")
			_ = msgGcTokenless
		} else if !p.hasToken && len(n.token) > 0 || !bytes.Equal(p.token, n.token) {
			sc.violation(fmt.Sprintf("getput.Put sent %s the token %q, that node issued %q", p.dst, p.token, n.token), px)
		}
		if sc.mode != "imm" {
			if !p.hasSeq || p.seq != cbSeqs[0]+1 || !bytes.Equal(p.k, sc.pub[:]) || !bytes.Equal(p.salt, sc.salt) ||
				!bytes.Equal(p.v, bv) || !bytes.Equal(p.sig, item.Sig[:]) {
				sc.violation("getput.Put sent a put that is not the item the callback produced for autoSeq", px)
			}
			if !ed25519.Verify(ed25519.PublicKey(sc.pub[:]), specSignBuf(p.salt, p.seq, p.v), p.sig) {
				sc.violation("getput.Put sent a put whose signature does not verify", px)
			}
		} else if !bytes.Equal(p.v, bv) {
			sc.violation("getput.Put sent a put that is not the item the callback produced for autoSeq", px)
		}
	}
	if len(puts) > 8 {
		sc.violation(fmt.Sprintf("getput.Put sent %d puts (K = 8)", len(puts)), x)
	}
	r.hist(fmt.Sprintf("client/put/puts=%d", len(puts)))
	// what the closure left for the closest set, read back from the puts: decidable when all
	// responders fit into it
	if responders <= 8 {
		var impl []string
		for _, n := range order {
			p, ok := sentTo[n]
			switch {
			case n.rep.noR() || !ok:
				impl = append(impl, "-")
			default:
				impl = append(impl, hx(p.token))
			}
		}
		r.op("GETPUT closest "+fields, gcJoin(impl))
	} else {
		// which 8 of more than 8 responders receive the put is the traversal's K-closest selection (C02/C16)
		r.hist("unmodelled/client/put-target-selection-among-more-than-K-responders")
	}
}

func runC12Client(r *Run) {
	r.Result.Rule += " || CLIENT: getput.Get / getput.Put on a real Server against 3..12 simulated nodes seeded through AddNode (+0..3 reachable through `nodes`), mutable target without / with salt and immutable target; reply shapes: genuine (seq pool with ties and different values, extremes MinInt64/MaxInt64/negative), signature for another salt / seq / value, valid item of another key, target key signed by another key, bit-flipped, random, seq / k / v / sig missing, v missing but signed as empty, seq only, 31-byte k, 63-byte sig, immutable hit (with stray fields) / miss, not found, KRPC error, silence; replies of outstanding queries injected in PRNG order; non-trivial = run with at least one valid and one invalid reply"
	n := r.n(220, 4000)
	for i := 0; i < n; i++ {
		r.gcScenario(i)
	}
}
