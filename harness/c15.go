package main

// C15 — KRPC wire codec round-trips and never panics.
//
// Streams: (1) generated krpc.Msg values over the full field set -> bencode.Marshal -> Unmarshal,
// (2) structured and byte-level mutations of those encodings, (3) raw byte strings, (4) the untyped
// bencode parser on generated/mutated values, (5) every exported Marshal*/Unmarshal* of package krpc
// with lengths covering every residue modulo the element size, (6) Write/ReadNodesFromFile.
//
// Every case is run on the real code under recover(); the op lines go to the Lean driver (section
// KRPC). Inputs whose Go behaviour the model does not transcribe are answered `unmodelled` by the
// model; which inputs those are is decided by the model itself: all op lines are first piped through
// the compiled driver, a line the model answers `unmodelled` is emitted with the implementation
// answer `unmodelled` and counted in the histogram, every other line carries what the Go code did.
// The direct oracles (round trip, re-encode fixpoint, no panic, compact length law) judge every case,
// modelled or not, and never look at the model.

import (
	"bufio"
	"bytes"
	"errors"
	"fmt"
	"math/big"
	"net"
	"os"
	"os/exec"
	"path/filepath"
	"sort"
	"strconv"
	"strings"

	dht "github.com/anacrolix/dht/v2"
	"github.com/anacrolix/dht/v2/krpc"
	"github.com/anacrolix/torrent/bencode"
)

func init() { commands["C15"] = runC15 }

type c15op struct{ op, ans, tag string }

type c15 struct {
	r    *Run
	pend []c15op
	pool [][]byte  // encodings of generated messages, material for mutations
	kept []keptEnc // the last few encoder results, re-checked after every later encode
}

// An encoder result and a private copy of it: what an encoder returns belongs to the caller, a later
// encode (of another value, or of a whole message) must not change it (pooled or shared scratch buffers).
type keptEnc struct {
	what string
	out  []byte
	cp   []byte
}

func (c *c15) keep(what string, out []byte) {
	for _, k := range c.kept {
		if !bytes.Equal(k.out, k.cp) {
			c.r.violation("result of an earlier encode changed when something else was encoded (shared or pooled buffer): "+k.what,
				map[string]string{"earlier": k.what, "was": hx(k.cp), "now": hx(k.out), "after_encoding": what})
			c.kept = nil
			return
		}
	}
	if out == nil {
		return
	}
	c.kept = append(c.kept, keptEnc{what, out, append([]byte{}, out...)})
	if len(c.kept) > 4 {
		c.kept = c.kept[1:]
	}
}

func (c *c15) emit(op, ans string) { c.pend = append(c.pend, c15op{op, ans, ""}) }

// tag: origin of the input, to break the unmodelled count down in the histogram
func (c *c15) emitT(op, ans, tag string) { c.pend = append(c.pend, c15op{op, ans, tag}) }

func drvPath() string {
	if p := os.Getenv("VERIF_DRV"); p != "" {
		return p
	}
	exe, err := os.Executable()
	if err != nil {
		panic(err)
	}
	return filepath.Join(filepath.Dir(exe), "..", "lean", ".lake", "build", "bin", "drv")
}

// Pipe every pending op through the compiled Lean driver; the model's own `unmodelled` verdicts
// decide which lines are not compared (they are still emitted and counted).
func (c *c15) flush() {
	r := c.r
	if len(c.pend) == 0 {
		return
	}
	cmd := exec.Command(drvPath())
	stdin, err := cmd.StdinPipe()
	if err != nil {
		panic(err)
	}
	stdout, err := cmd.StdoutPipe()
	if err != nil {
		panic(err)
	}
	cmd.Stderr = os.Stderr
	if err := cmd.Start(); err != nil {
		panic("C15 needs the compiled Lean driver for the unmodelled classification: " + err.Error())
	}
	go func() {
		w := bufio.NewWriterSize(stdin, 1<<20)
		for _, p := range c.pend {
			w.WriteString(p.op)
			w.WriteByte('\n')
		}
		w.Flush()
		stdin.Close()
	}()
	sc := bufio.NewScanner(stdout)
	sc.Buffer(make([]byte, 1<<20), 1<<28)
	i := 0
	for sc.Scan() {
		if i >= len(c.pend) {
			panic("driver answered more lines than ops")
		}
		p := c.pend[i]
		i++
		kind := opKind(p.op)
		if strings.HasPrefix(sc.Text(), "unmodelled") {
			r.hist("unmodelled/" + kind)
			if p.tag != "" {
				r.hist("unmodelled/" + kind + "/" + p.tag + "/go=" + ansClass(p.ans))
			}
			r.op(p.op, "unmodelled")
		} else {
			r.hist("modelled/" + kind + "/" + ansClass(p.ans))
			r.op(p.op, p.ans)
		}
	}
	if err := cmd.Wait(); err != nil {
		panic("driver failed: " + err.Error())
	}
	if i != len(c.pend) {
		panic(fmt.Sprintf("driver answered %d of %d classification ops", i, len(c.pend)))
	}
	c.pend = nil
}

func opKind(op string) string {
	f := strings.Fields(op)
	if len(f) >= 3 && (f[1] == "compact" || f[1] == "cenc" || f[1] == "compactb") {
		return f[1] + "/" + f[2]
	}
	if len(f) >= 2 {
		return f[1]
	}
	return "?"
}

func ansClass(a string) string {
	switch {
	case strings.HasPrefix(a, "ok:"):
		return "ok"
	case strings.HasPrefix(a, "ok-trailing:"):
		return "ok-trailing"
	case a == "err", a == "panic", a == "crash":
		return a
	}
	return "value"
}

// Run f, turning a Go panic into a value.
func safely(f func()) (pan interface{}) {
	defer func() {
		if e := recover(); e != nil {
			pan = e
		}
	}()
	f()
	return nil
}

// ---------------------------------------------------------------------------------------------
// Dump of Go values in the format of lean/Driver/Krpc.lean

func hxs(s string) string { return hx([]byte(s)) }

func dumpOptInt64(p *int64) string {
	if p == nil {
		return "-"
	}
	return strconv.FormatInt(*p, 10)
}

func dumpList(n int, nilSlice bool, f func(i int) string) string {
	if nilSlice {
		return "-"
	}
	if n == 0 {
		return "[]"
	}
	s := make([]string, n)
	for i := range s {
		s[i] = f(i)
	}
	return strings.Join(s, ",")
}

func dumpAddr(a krpc.NodeAddr) string { return hx(a.IP) + "/" + itoa(a.Port) }
func dumpNode(n krpc.NodeInfo) string { return hx(n.ID[:]) + "/" + dumpAddr(n.Addr) }

func dumpNodes(l []krpc.NodeInfo) string {
	return dumpList(len(l), l == nil, func(i int) string { return dumpNode(l[i]) })
}

func dumpAddrs(l []krpc.NodeAddr) string {
	return dumpList(len(l), l == nil, func(i int) string { return dumpAddr(l[i]) })
}

// Independent conversion of a decoded/constructed interface{} value to the harness' own bencode tree.
func ifaceToBval(v interface{}) (*bval, error) {
	switch x := v.(type) {
	case int:
		return bI(int64(x)), nil
	case int64:
		return bI(x), nil
	case *big.Int:
		return &bval{k: bInt, i: new(big.Int).Set(x)}, nil
	case string:
		return bS(x), nil
	case []interface{}:
		l := &bval{k: bList}
		for _, e := range x {
			b, err := ifaceToBval(e)
			if err != nil {
				return nil, err
			}
			l.l = append(l.l, b)
		}
		return l, nil
	case map[string]interface{}:
		d := &bval{k: bDict}
		keys := make([]string, 0, len(x))
		for k := range x {
			keys = append(keys, k)
		}
		sort.Strings(keys)
		for _, k := range keys {
			b, err := ifaceToBval(x[k])
			if err != nil {
				return nil, err
			}
			d.d = append(d.d, bkv{k, b})
		}
		return d, nil
	}
	return nil, fmt.Errorf("unexpected Go type %T in interface value", v)
}

func bvalToIface(rng func(int) int, v *bval) interface{} {
	switch v.k {
	case bInt:
		if v.i.IsInt64() {
			if rng(2) == 0 {
				return int(v.i.Int64())
			}
			return v.i.Int64()
		}
		return new(big.Int).Set(v.i)
	case bStr:
		return string(v.s)
	case bList:
		l := []interface{}{}
		for _, e := range v.l {
			l = append(l, bvalToIface(rng, e))
		}
		return l
	default:
		m := map[string]interface{}{}
		for _, e := range v.d {
			m[e.k] = bvalToIface(rng, e.v)
		}
		return m
	}
}

func dumpIface(v interface{}) (string, error) {
	if v == nil {
		return "-", nil
	}
	b, err := ifaceToBval(v)
	if err != nil {
		return "", err
	}
	return hx(b.enc()), nil
}

func dumpArgs(a *krpc.MsgArgs) (string, error) {
	if a == nil {
		return "-", nil
	}
	port := "-"
	if a.Port != nil {
		port = itoa(*a.Port)
	}
	v, err := dumpIface(a.V)
	if err != nil {
		return "", err
	}
	salt := "-"
	if a.Salt != nil {
		salt = hx(a.Salt)
	}
	return strings.Join([]string{
		hx(a.ID[:]), hx(a.InfoHash[:]), hx(a.Target[:]), hxs(a.Token), port, b2s(a.ImpliedPort),
		dumpList(len(a.Want), a.Want == nil, func(i int) string { return hxs(string(a.Want[i])) }),
		itoa(a.NoSeed), itoa(a.Scrape), v, dumpOptInt64(a.Seq), strconv.FormatInt(a.Cas, 10),
		hx(a.K[:]), salt, hx(a.Sig[:]),
	}, ";"), nil
}

func dumpReturn(r *krpc.Return) string {
	if r == nil {
		return "-"
	}
	tok := "-"
	if r.Token != nil {
		tok = hxs(*r.Token)
	}
	bf := func(p *krpc.ScrapeBloomFilter) string {
		if p == nil {
			return "-"
		}
		return hx(p[:])
	}
	samples := "-"
	if r.Samples != nil {
		s := *r.Samples
		samples = dumpList(len(s), false, func(i int) string { return hx(s[i][:]) })
	}
	v := "-"
	if len(r.V) != 0 {
		v = hx(r.V)
	}
	return strings.Join([]string{
		hx(r.ID[:]), dumpNodes(r.Nodes), dumpNodes(r.Nodes6), tok, dumpAddrs(r.Values), bf(r.BFsd), bf(r.BFpe),
		dumpOptInt64(r.Interval), dumpOptInt64(r.Num), samples, v, hx(r.K[:]), hx(r.Sig[:]), dumpOptInt64(r.Seq),
	}, ";")
}

func dumpMsg(m krpc.Msg) (string, error) {
	a, err := dumpArgs(m.A)
	if err != nil {
		return "", err
	}
	e := "-"
	if m.E != nil {
		e = itoa(m.E.Code) + "/" + hxs(m.E.Msg)
	}
	ip := "-"
	if m.IP.IP != nil || m.IP.Port != 0 {
		ip = dumpAddr(m.IP)
	}
	return strings.Join([]string{hxs(m.Q), a, hxs(m.T), hxs(m.Y), dumpReturn(m.R), e, ip, b2s(m.ReadOnly), hxs(m.ClientId)}, "|"), nil
}

// What the wire cannot carry (DESIGN.md section 6, note on C15): an empty compact list comes back
// nil, contacts come back in the width of the list that holds them.
func normNodes(l krpc.CompactIPv4NodeInfo, to func(net.IP) net.IP) []krpc.NodeInfo {
	if len(l) == 0 {
		return nil
	}
	out := make([]krpc.NodeInfo, len(l))
	for i, n := range l {
		n.Addr.IP = to(n.Addr.IP)
		out[i] = n
	}
	return out
}

func normMsg(m krpc.Msg) krpc.Msg {
	if m.R != nil {
		r := *m.R
		r.Nodes = normNodes(r.Nodes, net.IP.To4)
		r.Nodes6 = krpc.CompactIPv6NodeInfo(normNodes(krpc.CompactIPv4NodeInfo(r.Nodes6), net.IP.To16))
		m.R = &r
	}
	return m
}

// ---------------------------------------------------------------------------------------------
// Generators

func (c *c15) rn(n int) int { return c.r.rng.Intn(n) }

func (c *c15) bytesN(n int) []byte {
	b := make([]byte, n)
	c.r.rng.Read(b)
	return b
}

func (c *c15) str() string {
	switch c.rn(8) {
	case 0:
		return ""
	case 1:
		return []string{"ping", "find_node", "get_peers", "announce_peer", "get", "put", "sample_infohashes", "q", "r", "e"}[c.rn(10)]
	case 2:
		return "i1e"
	case 3:
		return "3:abc"
	case 4:
		return string(c.bytesN(1 + c.rn(4)))
	case 5:
		return strings.Repeat("e", 1+c.rn(3))
	default:
		return string(c.bytesN(c.rn(24)))
	}
}

func (c *c15) id() (id krpc.ID) {
	switch c.rn(6) {
	case 0: // zero
	case 1:
		for i := range id {
			id[i] = 0xff
		}
	case 2:
		id[c.rn(20)] = byte(1 + c.rn(255))
	case 3:
		copy(id[:], "abcdefghij0123456789")
	default:
		c.r.rng.Read(id[:])
	}
	return
}

func (c *c15) int64v() int64 {
	switch c.rn(9) {
	case 0:
		return 0
	case 1:
		return 1
	case 2:
		return -1
	case 3:
		return -9223372036854775808
	case 4:
		return 9223372036854775807
	case 5:
		return int64(c.rn(65536))
	case 6:
		return -int64(c.rn(1000000))
	case 7:
		return []int64{9, 10, 99, 100, 999, 1000, 1 << 32, -(1 << 32), 1000000007}[c.rn(9)]
	default:
		return int64(c.r.rng.Uint64())
	}
}

func (c *c15) port() int {
	switch c.rn(6) {
	case 0:
		return 0
	case 1:
		return 65535
	case 2:
		return 255 + c.rn(3)
	default:
		return c.rn(65536)
	}
}

// fam: 4 = IPv4 forms (4-byte or v4-mapped), 6 = forms with a To16 (4-byte, mapped, v6),
// 0 = anything including nil, empty and odd lengths.
func (c *c15) ip(fam int) net.IP {
	switch fam {
	case 4:
		if c.rn(3) == 0 {
			return c.r.randIP(2)
		}
		return c.r.randIP(0)
	case 6:
		return c.r.randIP([]int{1, 1, 1, 0, 2}[c.rn(5)])
	}
	switch c.rn(7) {
	case 0:
		return nil
	case 1:
		return net.IP{}
	case 2:
		return net.IP(c.bytesN(1 + c.rn(20)))
	default:
		return c.r.randIP(c.rn(3))
	}
}

func (c *c15) nodes(fam int, bad bool) []krpc.NodeInfo {
	switch c.rn(8) {
	case 0:
		return nil
	case 1:
		return []krpc.NodeInfo{}
	}
	n := 1 + c.rn(9)
	out := make([]krpc.NodeInfo, n)
	for i := range out {
		out[i] = krpc.NodeInfo{ID: c.id(), Addr: krpc.NodeAddr{IP: c.ip(fam), Port: c.port()}}
	}
	if bad {
		// a contact outside the family of the list: no To4 form in `nodes`, no To16 form in `nodes6`
		k := c.rn(n)
		if fam == 4 {
			out[k].Addr.IP = []net.IP{c.r.randIP(1), nil, net.IP(c.bytesN(5))}[c.rn(3)]
		} else {
			out[k].Addr.IP = []net.IP{net.IP(c.bytesN(5)), nil, net.IP(c.bytesN(17))}[c.rn(3)]
		}
	}
	return out
}

// A random bencode tree with distinct dictionary keys.
func (c *c15) bval(depth int) *bval {
	k := c.rn(10)
	if depth <= 0 && k >= 6 {
		k = c.rn(6)
	}
	switch {
	case k < 3:
		switch c.rn(4) {
		case 0:
			v := new(big.Int).SetBytes(c.bytesN(9 + c.rn(8)))
			if c.rn(2) == 0 {
				v.Neg(v)
			}
			return &bval{k: bInt, i: v}
		default:
			return bI(c.int64v())
		}
	case k < 6:
		return bS(c.str())
	case k < 8:
		l := &bval{k: bList}
		for i, n := 0, c.rn(4); i < n; i++ {
			l.l = append(l.l, c.bval(depth-1))
		}
		return l
	default:
		d := &bval{k: bDict}
		seen := map[string]bool{}
		for i, n := 0, c.rn(4); i < n; i++ {
			key := c.str()
			if seen[key] {
				continue
			}
			seen[key] = true
			d.d = append(d.d, bkv{key, c.bval(depth - 1)})
		}
		return d
	}
}

func (c *c15) iface() interface{} {
	if c.rn(5) == 0 {
		return nil
	}
	return bvalToIface(c.rn, c.bval(3))
}

func (c *c15) args() *krpc.MsgArgs {
	a := &krpc.MsgArgs{ID: c.id()}
	if c.rn(2) == 0 {
		a.InfoHash = c.id()
	}
	if c.rn(2) == 0 {
		a.Target = c.id()
	}
	if c.rn(2) == 0 {
		a.Token = c.str()
	}
	if c.rn(2) == 0 {
		p := int(c.int64v())
		if c.rn(2) == 0 {
			p = c.port()
		}
		a.Port = &p
	}
	a.ImpliedPort = c.rn(3) == 0
	switch c.rn(5) {
	case 0:
		a.Want = []krpc.Want{}
	case 1:
		a.Want = []krpc.Want{krpc.WantNodes, krpc.WantNodes6}
	case 2:
		for i, n := 0, 1+c.rn(3); i < n; i++ {
			a.Want = append(a.Want, krpc.Want(c.str()))
		}
	}
	if c.rn(3) == 0 {
		a.NoSeed = int(c.int64v())
	}
	if c.rn(3) == 0 {
		a.Scrape = int(c.int64v())
	}
	if c.rn(2) == 0 {
		a.V = c.iface()
	}
	if c.rn(2) == 0 {
		s := c.int64v()
		a.Seq = &s
	}
	if c.rn(3) == 0 {
		a.Cas = c.int64v()
	}
	if c.rn(3) == 0 {
		c.r.rng.Read(a.K[:])
		if c.rn(4) == 0 {
			a.K = [32]byte{}
			a.K[c.rn(32)] = 1
		}
	}
	switch c.rn(4) {
	case 0:
		a.Salt = []byte{}
	case 1:
		a.Salt = c.bytesN(c.rn(70))
	}
	if c.rn(3) == 0 {
		c.r.rng.Read(a.Sig[:])
	}
	return a
}

func (c *c15) ret(bad bool) *krpc.Return {
	r := &krpc.Return{ID: c.id()}
	badWhich := c.rn(2)
	if c.rn(2) == 0 || (bad && badWhich == 0) {
		r.Nodes = c.nodes(4, bad && badWhich == 0)
		for bad && badWhich == 0 && len(r.Nodes) == 0 {
			r.Nodes = c.nodes(4, true)
		}
	}
	if c.rn(2) == 0 || (bad && badWhich == 1) {
		r.Nodes6 = c.nodes(6, bad && badWhich == 1)
		for bad && badWhich == 1 && len(r.Nodes6) == 0 {
			r.Nodes6 = c.nodes(6, true)
		}
	}
	if c.rn(2) == 0 {
		t := c.str()
		r.Token = &t
	}
	switch c.rn(4) {
	case 0:
		r.Values = []krpc.NodeAddr{}
	case 1:
		for i, n := 0, 1+c.rn(6); i < n; i++ {
			r.Values = append(r.Values, krpc.NodeAddr{IP: c.ip(0), Port: c.port()})
		}
	}
	bloom := func() *krpc.ScrapeBloomFilter {
		var f krpc.ScrapeBloomFilter
		switch c.rn(3) {
		case 0:
		case 1:
			f.AddIp(c.r.randIP(0))
			f.AddIp(c.r.randIP(1))
		default:
			c.r.rng.Read(f[:])
		}
		return &f
	}
	if c.rn(4) == 0 {
		r.BFsd = bloom()
	}
	if c.rn(4) == 0 {
		r.BFpe = bloom()
	}
	if c.rn(3) == 0 {
		v := c.int64v()
		r.Interval = &v
	}
	if c.rn(3) == 0 {
		v := c.int64v()
		r.Num = &v
	}
	switch c.rn(5) {
	case 0:
		r.Samples = new(krpc.CompactInfohashes)
	case 1:
		s := krpc.CompactInfohashes{}
		r.Samples = &s
	case 2:
		s := krpc.CompactInfohashes{}
		for i, n := 0, 1+c.rn(5); i < n; i++ {
			s = append(s, [20]byte(c.id()))
		}
		r.Samples = &s
	}
	if c.rn(3) == 0 {
		r.V = bencode.Bytes(c.bval(3).enc())
	}
	if c.rn(3) == 0 {
		c.r.rng.Read(r.K[:])
	}
	if c.rn(3) == 0 {
		c.r.rng.Read(r.Sig[:])
	}
	if c.rn(3) == 0 {
		v := c.int64v()
		r.Seq = &v
	}
	return r
}

func (c *c15) msg(bad bool) krpc.Msg {
	var m krpc.Msg
	shape := c.rn(10)
	m.T = c.str()
	switch {
	case shape < 3: // query
		m.Y, m.Q, m.A = "q", c.str(), c.args()
	case shape < 6: // response
		m.Y, m.R = "r", c.ret(bad)
	case shape < 7: // error
		m.Y = "e"
		m.E = &krpc.Error{Code: []int{0, 201, 202, 203, 204, 205, 206, 207, 301, 302, -1, int(c.int64v())}[c.rn(12)], Msg: c.str()}
	default: // any subset
		m.Y = c.str()
		if c.rn(2) == 0 {
			m.Q = c.str()
		}
		if c.rn(2) == 0 {
			m.A = c.args()
		}
		if c.rn(2) == 0 || bad {
			m.R = c.ret(bad)
		}
		if c.rn(3) == 0 {
			m.E = &krpc.Error{Code: int(c.int64v()), Msg: c.str()}
		}
	}
	if bad && m.R == nil {
		m.R = c.ret(true)
	}
	switch c.rn(6) {
	case 0:
		m.IP = krpc.NodeAddr{IP: c.ip(0), Port: c.port()}
	case 1:
		m.IP = krpc.NodeAddr{IP: c.r.randIP(c.rn(3)), Port: 1 + c.rn(65535)}
	case 2:
		m.IP = krpc.NodeAddr{IP: net.IP{}, Port: 0}
	}
	m.ReadOnly = c.rn(4) == 0
	if c.rn(3) == 0 {
		m.ClientId = c.str()
	}
	return m
}

// ---------------------------------------------------------------------------------------------
// The message codec under test, with recover

func marshalMsg(m krpc.Msg) (b []byte, err error, pan interface{}) {
	pan = safely(func() { b, err = bencode.Marshal(m) })
	return
}

// trailing = number of unused trailing bytes when the decoder reports only that (the value is
// valid then, and the server's processPacket accepts such datagrams).
func unmarshalMsg(b []byte) (m krpc.Msg, trailing int, err error, pan interface{}) {
	pan = safely(func() { err = bencode.Unmarshal(b, &m) })
	var tb bencode.ErrUnusedTrailingBytes
	if pan == nil && errors.As(err, &tb) {
		return m, tb.NumUnusedBytes, nil, nil
	}
	return
}

// Direct oracle for any byte string: no panic; if it decodes, re-encoding succeeds and is a
// fixpoint. Returns the implementation's answer for the `dec` op.
func (c *c15) judgeDecode(b []byte, origin string) string {
	r := c.r
	rep := map[string]string{"datagram": hx(b), "origin": origin}
	m, trailing, err, pan := unmarshalMsg(b)
	if pan != nil {
		r.violation(fmt.Sprintf("decoding a datagram into krpc.Msg panics: %v", pan), rep)
		return "panic"
	}
	if err != nil {
		r.hist("decode/err")
		return "err"
	}
	if trailing > 0 {
		r.hist("decode/ok-trailing-bytes")
	} else {
		r.hist("decode/ok")
	}
	b2, err2, pan2 := marshalMsg(m)
	if pan2 != nil || err2 != nil {
		r.violation(fmt.Sprintf("a datagram decodes but re-encoding the message fails: panic=%v err=%v", pan2, err2), rep)
	} else {
		m3, tr3, err3, pan3 := unmarshalMsg(b2)
		if pan3 != nil || err3 != nil || tr3 != 0 {
			r.violation(fmt.Sprintf("re-encoded datagram does not decode: panic=%v err=%v trailing=%d", pan3, err3, tr3), rep)
		} else {
			b4, err4, pan4 := marshalMsg(m3)
			if pan4 != nil || err4 != nil || !bytes.Equal(b4, b2) {
				rep["reencoded"] = hx(b2)
				rep["again"] = hx(b4)
				r.violation("re-encoding is not a fixpoint: decode(encode(decode b)) encodes differently", rep)
			}
		}
	}
	d, derr := dumpMsg(m)
	if derr != nil {
		r.violation("decoded message holds a value the dump cannot express: "+derr.Error(), rep)
		return "undumpable"
	}
	if trailing > 0 {
		return "ok-trailing:" + d
	}
	return "ok:" + d
}

// One generated message: encode (model: `enc`), decode what was written (model: `dec`), round trip.
func (c *c15) msgCase(m krpc.Msg, bad bool) {
	r := c.r
	dump, derr := dumpMsg(m)
	if derr != nil {
		panic(derr)
	}
	rep := map[string]string{"msg": dump}
	b, err, pan := marshalMsg(m)
	if pan == nil && err == nil {
		c.keep("bencode.Marshal(krpc.Msg)", b)
	}
	switch {
	case pan != nil:
		if !bad {
			r.violation(fmt.Sprintf("encoding a well-formed message panics: %v", pan), rep)
		}
		r.hist("encode/panic-contact-outside-list-family(not in quantifier)")
		c.emit("KRPC enc "+dump, "panic")
		r.count("enc "+dump, false)
		return
	case err != nil:
		r.violation("encoding a well-formed message fails: "+err.Error(), rep)
		c.emit("KRPC enc "+dump, "err")
		return
	}
	if bad {
		// the generator meant to place a contact outside the family, yet Marshal accepted it
		r.hist("encode/ok-despite-odd-contact")
	}
	r.hist("encode/ok")
	c.emit("KRPC enc "+dump, hx(b))
	c.pool = append(c.pool, b)
	rep["datagram"] = hx(b)
	// the encoding is canonical bencode (independent reader, sorted unique keys)
	if v, n, perr := bdecode(b); perr != nil || n != len(b) || !strictTree(v) {
		r.violation("encoded message is not canonical bencode", rep)
	}
	ans := c.judgeDecode(b, "generated")
	c.emit("KRPC dec "+hx(b), ans)
	want, _ := dumpMsg(normMsg(m))
	if ans != "ok:"+want {
		rep["decoded"] = ans
		rep["expected"] = "ok:" + want
		r.violation("round trip: decoding the encoding does not give the same message", rep)
	}
	r.count("msg "+dump, true)
	r.hist(fmt.Sprintf("msg/y=%q", yClass(m.Y)))
	if m.A != nil {
		r.hist("msg/has-a")
	}
	if m.R != nil {
		r.hist("msg/has-r")
		if m.R.Nodes != nil {
			r.hist(fmt.Sprintf("msg/nodes-len-%s", lenClass(len(m.R.Nodes))))
		}
		if m.R.Samples != nil {
			r.hist("msg/has-samples")
		}
		if len(m.R.V) > 0 {
			r.hist("msg/has-bep44-v")
		}
	}
	if m.E != nil {
		r.hist("msg/has-e")
	}
}

func yClass(y string) string {
	if y == "q" || y == "r" || y == "e" {
		return y
	}
	return "other"
}

func lenClass(n int) string {
	if n == 0 {
		return "0"
	}
	if n == 1 {
		return "1"
	}
	return "n"
}

// Canonical: keys strictly increasing at every level.
func strictTree(v *bval) bool {
	switch v.k {
	case bList:
		for _, e := range v.l {
			if !strictTree(e) {
				return false
			}
		}
	case bDict:
		for i, e := range v.d {
			if i > 0 && v.d[i-1].k >= e.k {
				return false
			}
			if !strictTree(e.v) {
				return false
			}
		}
	}
	return true
}

// ---------------------------------------------------------------------------------------------
// Mutations

func (c *c15) pick() []byte { return c.pool[c.rn(len(c.pool))] }

func (c *c15) mutateBytes(b []byte) ([]byte, string) {
	b = append([]byte{}, b...)
	switch c.rn(9) {
	case 0:
		return b[:c.rn(len(b)+1)], "truncate"
	case 1:
		if len(b) > 0 {
			b[c.rn(len(b))] ^= 1 << uint(c.rn(8))
		}
		return b, "bitflip"
	case 2:
		if len(b) > 0 {
			b[c.rn(len(b))] = "dlie0123456789:-"[c.rn(16)]
		}
		return b, "byte-subst"
	case 3:
		o := c.pick()
		return append(b[:c.rn(len(b)+1)], o[c.rn(len(o)+1):]...), "splice"
	case 4:
		// length-prefix lie
		var cols []int
		for i, ch := range b {
			if ch == ':' && i > 0 && b[i-1] >= '0' && b[i-1] <= '9' {
				cols = append(cols, i)
			}
		}
		if len(cols) == 0 {
			return b, "lenlie-none"
		}
		col := cols[c.rn(len(cols))]
		st := col
		for st > 0 && b[st-1] >= '0' && b[st-1] <= '9' {
			st--
		}
		n, _ := strconv.Atoi(string(b[st:col]))
		var repl string
		switch c.rn(7) {
		case 0:
			repl = itoa(n + 1)
		case 1:
			repl = itoa(n + 1 + c.rn(40))
		case 2:
			if n > 0 {
				repl = itoa(n - 1)
			} else {
				repl = "1"
			}
		case 3:
			repl = "0" + itoa(n)
		case 4:
			repl = []string{"99999", "4294967296", "9223372036854775807", "9223372036854775808", "99999999999999999999999"}[c.rn(5)]
		case 5:
			repl = "-" + itoa(n)
		default:
			repl = ""
		}
		return append(append(append([]byte{}, b[:st]...), repl...), b[col:]...), "lenlie"
	case 5:
		return append(b, c.bytesN(1+c.rn(5))...), "trailing"
	case 6:
		return append(b, "de"[c.rn(2)]), "trailing-e"
	case 7:
		// non-canonical integer
		if i := bytes.Index(b, []byte("i0e")); i >= 0 {
			return append(append(append([]byte{}, b[:i]...), []string{"i-0e", "i00e", "ie", "i-e", "i+0e"}[c.rn(5)]...), b[i+3:]...), "int-noncanon"
		}
		if i := bytes.IndexByte(b, 'i'); i >= 0 && i+1 < len(b) && b[i+1] >= '1' && b[i+1] <= '9' {
			return append(append(append([]byte{}, b[:i+1]...), "0"...), b[i+1:]...), "int-leading-zero"
		}
		return b, "int-none"
	default:
		// insert a deeply nested value under an unknown key just before the closing 'e'
		if len(b) < 2 || b[len(b)-1] != 'e' {
			return b, "nest-none"
		}
		depth := []int{1, 2, 50, 500, c.r.n(2000, 6000)}[c.rn(5)]
		open, close := "l", "e"
		if c.rn(2) == 0 {
			open, close = "d1:x", "e"
		}
		val := strings.Repeat(open, depth)
		if open != "l" {
			val += "i1e"
		}
		val += strings.Repeat(close, depth)
		return append(append(append([]byte{}, b[:len(b)-1]...), ("2:zz"+val)...), 'e'), "deep-nesting"
	}
}

var c15Keys = []string{"a", "e", "ip", "q", "r", "ro", "t", "v", "y"}
var c15InnerKeys = []string{"id", "info_hash", "target", "token", "port", "implied_port", "want", "noseed", "scrape", "v", "seq", "cas", "k", "salt", "sig",
	"nodes", "nodes6", "values", "BFsd", "BFpe", "interval", "num", "samples"}

// Structured mutation on the harness' own tree: keeps the input valid bencode (possibly with
// unsorted or duplicate keys) but changes presence, types and sizes of fields.
func (c *c15) mutateTree(b []byte) ([]byte, string) {
	v, n, err := bdecode(b)
	if err != nil || n != len(b) || v.k != bDict {
		return b, "tree-none"
	}
	// pick the top level or a nested dictionary
	target := v
	var nested []*bval
	for _, e := range v.d {
		if e.v.k == bDict {
			nested = append(nested, e.v)
		}
	}
	inner := len(nested) > 0 && c.rn(3) != 0
	if inner {
		target = nested[c.rn(len(nested))]
	}
	keys := c15Keys
	if inner {
		keys = c15InnerKeys
	}
	key := keys[c.rn(len(keys))]
	raw := false
	what := ""
	switch c.rn(10) {
	case 0:
		target.set(c.str(), c.bval(2))
		what = "unknown-key"
	case 1:
		target.del(key)
		what = "delete-field"
	case 2:
		// wrong bencode type or arbitrary value for a known field
		target.set(key, c.bval(2))
		what = "retype-field"
	case 3:
		if x := target.get(key); x != nil {
			target.set(key, bL(x))
			what = "singleton-list"
		} else {
			target.set(key, bL(c.bval(1)))
			what = "list-field"
		}
	case 4:
		// string field of chosen length (IDs, arrays, compact lists: every residue)
		target.set(key, bB(c.bytesN([]int{0, 1, 2, 5, 6, 7, 18, 19, 20, 21, 25, 26, 27, 31, 32, 33, 38, 39, 40, 52, 63, 64, 65, 76, 255, 256, 257}[c.rn(27)])))
		what = "resize-string"
	case 5:
		target.set(key, []*bval{bI(c.int64v()), {k: bInt, i: new(big.Int).Lsh(big.NewInt(1), 63)}, {k: bInt, i: new(big.Int).Neg(new(big.Int).Lsh(big.NewInt(1), 70))}}[c.rn(3)])
		what = "int-field"
	case 6:
		if len(target.d) >= 2 {
			i, j := c.rn(len(target.d)), c.rn(len(target.d))
			target.d[i], target.d[j] = target.d[j], target.d[i]
			raw = true
		}
		what = "unsorted-keys"
	case 7:
		if len(target.d) >= 1 {
			e := target.d[c.rn(len(target.d))]
			target.d = append(target.d, bkv{e.k, c.bval(1)})
			raw = true
		}
		what = "duplicate-key"
	case 8:
		// error value shapes
		v.set("e", []*bval{bS(c.str()), bL(), bL(bI(201)), bL(bS("x"), bI(1)), bL(bI(201), bS("m"), bI(3)), bL(&bval{k: bInt, i: new(big.Int).Lsh(big.NewInt(1), 64)}, bS("big")), bD("a", bI(1)), bI(5)}[c.rn(8)])
		what = "error-shape"
	default:
		// list-valued fields with odd elements
		k2 := []string{"want", "values"}[c.rn(2)]
		l := &bval{k: bList}
		for i, n := 0, c.rn(4); i < n; i++ {
			if c.rn(4) == 0 {
				l.l = append(l.l, c.bval(1))
			} else {
				l.l = append(l.l, bB(c.bytesN([]int{0, 1, 2, 3, 6, 18, 7}[c.rn(7)])))
			}
		}
		target.set(k2, l)
		what = "list-elements"
	}
	if raw {
		return v.encRaw(), what
	}
	return v.enc(), what
}

func (c *c15) rawBytes() []byte {
	n := c.rn(48)
	b := make([]byte, n)
	alpha := "dddlie0123456789::-aqrty"
	for i := range b {
		if c.rn(5) == 0 {
			b[i] = byte(c.rn(256))
		} else {
			b[i] = alpha[c.rn(len(alpha))]
		}
	}
	if n > 0 && c.rn(2) == 0 {
		b[0] = 'd'
	}
	return b
}

// ---------------------------------------------------------------------------------------------
// Untyped parser

func (c *c15) bdecCase(b []byte) {
	r := c.r
	var v interface{}
	var err error
	pan := safely(func() { err = bencode.Unmarshal(b, &v) })
	ans := "err"
	var tb bencode.ErrUnusedTrailingBytes
	switch {
	case pan != nil:
		r.violation(fmt.Sprintf("bencode.Unmarshal into interface{} panics: %v", pan), map[string]string{"input": hx(b)})
		ans = "panic"
	case err == nil || errors.As(err, &tb):
		t, cerr := ifaceToBval(v)
		if cerr != nil {
			ans = "err" // e.g. nil interface with a nil error never happens; keep it visible in the diff
			if err == nil {
				ans = "undumpable"
			}
		} else {
			ans = hx(t.enc()) + "/" + itoa(tb.NumUnusedBytes)
		}
	}
	c.emit("KRPC bdec "+hx(b), ans)
	r.count("bdec "+hx(b), ans != "err")
}

// ---------------------------------------------------------------------------------------------
// Exported binary / bencode codecs of package krpc

type compactKind struct {
	name string
	size int
	dec  func(b []byte) (dump string, reenc []byte, err error)
	decB func(b []byte) (dump string, err error) // UnmarshalBencode
}

// spoil overwrites a buffer that has been handed to an UnmarshalBinary: encoding.BinaryUnmarshaler
// "must copy the data if it wishes to retain it", so the decoded value must be unaffected.
func spoil(b []byte) {
	for i := range b {
		b[i] ^= 0xa5
	}
}

func compactKinds() []compactKind {
	return []compactKind{
		{"na4", 6, func(b []byte) (string, []byte, error) {
			var x krpc.CompactIPv4NodeAddrs
			buf := append([]byte{}, b...)
			if err := x.UnmarshalBinary(buf); err != nil {
				return "", nil, err
			}
			spoil(buf) // the caller reuses its buffer: a decoded value must not alias it
			out, err := x.MarshalBinary()
			return dumpAddrsNE(x), out, err
		}, func(b []byte) (string, error) {
			var x krpc.CompactIPv4NodeAddrs
			err := x.UnmarshalBencode(b)
			return dumpAddrsNE(x), err
		}},
		{"na6", 18, func(b []byte) (string, []byte, error) {
			var x krpc.CompactIPv6NodeAddrs
			buf := append([]byte{}, b...)
			if err := x.UnmarshalBinary(buf); err != nil {
				return "", nil, err
			}
			spoil(buf) // the caller reuses its buffer: a decoded value must not alias it
			out, err := x.MarshalBinary()
			return dumpAddrsNE(x), out, err
		}, func(b []byte) (string, error) {
			var x krpc.CompactIPv6NodeAddrs
			err := x.UnmarshalBencode(b)
			return dumpAddrsNE(x), err
		}},
		{"ni4", 26, func(b []byte) (string, []byte, error) {
			var x krpc.CompactIPv4NodeInfo
			buf := append([]byte{}, b...)
			if err := x.UnmarshalBinary(buf); err != nil {
				return "", nil, err
			}
			spoil(buf) // the caller reuses its buffer: a decoded value must not alias it
			out, err := x.MarshalBinary()
			return dumpNodesNE(x), out, err
		}, func(b []byte) (string, error) {
			var x krpc.CompactIPv4NodeInfo
			err := x.UnmarshalBencode(b)
			return dumpNodesNE(x), err
		}},
		{"ni6", 38, func(b []byte) (string, []byte, error) {
			var x krpc.CompactIPv6NodeInfo
			buf := append([]byte{}, b...)
			if err := x.UnmarshalBinary(buf); err != nil {
				return "", nil, err
			}
			spoil(buf) // the caller reuses its buffer: a decoded value must not alias it
			out, err := x.MarshalBinary()
			return dumpNodesNE(x), out, err
		}, func(b []byte) (string, error) {
			var x krpc.CompactIPv6NodeInfo
			err := x.UnmarshalBencode(b)
			return dumpNodesNE(x), err
		}},
		{"ih", 20, func(b []byte) (string, []byte, error) {
			var x krpc.CompactInfohashes
			buf := append([]byte{}, b...)
			if err := x.UnmarshalBinary(buf); err != nil {
				return "", nil, err
			}
			spoil(buf) // the caller reuses its buffer: a decoded value must not alias it
			out, err := x.MarshalBinary()
			return dumpHashes(x), out, err
		}, func(b []byte) (string, error) {
			var x krpc.CompactInfohashes
			err := x.UnmarshalBencode(b)
			return dumpHashes(x), err
		}},
	}
}

// nil and empty are the same thing for a decoded compact list (`[]`).
func dumpAddrsNE(l []krpc.NodeAddr) string {
	return dumpList(len(l), false, func(i int) string { return dumpAddr(l[i]) })
}
func dumpNodesNE(l []krpc.NodeInfo) string {
	return dumpList(len(l), false, func(i int) string { return dumpNode(l[i]) })
}
func dumpHashes(l krpc.CompactInfohashes) string {
	return dumpList(len(l), false, func(i int) string { return hx(l[i][:]) })
}

// Element bytes that make the list's own marshaller reproduce them: v4 lists must not hold a
// v4-mapped... (any 4 bytes are fine), v6 lists any 16 bytes.
func (c *c15) compactBinary(k compactKind, b []byte) {
	r := c.r
	rep := map[string]string{"type": k.name, "input": hx(b)}
	var dump string
	var reenc []byte
	var err error
	pan := safely(func() { dump, reenc, err = k.dec(b) })
	ans := dump
	switch {
	case pan != nil:
		r.violation(fmt.Sprintf("compact %s UnmarshalBinary/MarshalBinary panics: %v", k.name, pan), rep)
		ans = "panic"
	case err != nil:
		ans = "err"
		if len(b)%k.size == 0 {
			r.violation(fmt.Sprintf("compact %s: length %d is a multiple of %d but decoding fails: %v", k.name, len(b), k.size, err), rep)
		}
	default:
		if len(b)%k.size != 0 {
			r.violation(fmt.Sprintf("compact %s: length %d is not a multiple of %d but decoding succeeds", k.name, len(b), k.size), rep)
		} else if !bytes.Equal(reenc, b) {
			rep["reencoded"] = hx(reenc)
			r.violation(fmt.Sprintf("compact %s: re-encoding does not return the identical bytes", k.name), rep)
		}
	}
	c.emit("KRPC compact "+k.name+" "+hx(b), ans)
	r.hist(fmt.Sprintf("compact/%s/len%%size=%s", k.name, residueClass(len(b), k.size)))
	r.count("compact "+k.name+hx(b), len(b) > 0)
}

func residueClass(n, size int) string {
	if n%size == 0 {
		return "0"
	}
	return "nonzero"
}

func (c *c15) compactBencode(k compactKind, raw []byte) {
	r := c.r
	var dump string
	var err error
	pan := safely(func() { dump, err = k.decB(raw) })
	ans := dump
	if pan != nil {
		r.violation(fmt.Sprintf("compact %s UnmarshalBencode panics: %v", k.name, pan), map[string]string{"type": k.name, "input": hx(raw)})
		ans = "panic"
	} else if err != nil {
		ans = "err"
	}
	c.emit("KRPC compactb "+k.name+" "+hx(raw), ans)
	r.count("compactb "+k.name+hx(raw), err == nil)
}

func bstr(b []byte) []byte { return append([]byte(itoa(len(b))+":"), b...) }

// A bencoded input for a custom UnmarshalBencode: mostly a well-formed string of the given
// payload, sometimes damaged or another bencode type.
func (c *c15) bencodedInput(payload []byte) []byte {
	switch c.rn(12) {
	case 0:
		return append(bstr(payload), c.bytesN(1+c.rn(3))...)
	case 1:
		b := bstr(payload)
		return b[:c.rn(len(b)+1)]
	case 2:
		return append([]byte("0"), bstr(payload)...)
	case 3:
		return c.bval(2).enc()
	case 4:
		return bL(bB(payload)).enc()
	case 5:
		return c.rawBytes()
	case 6:
		return []byte("de")
	}
	return bstr(payload)
}

func (c *c15) codecSweeps() {
	r := c.r
	kinds := compactKinds()
	reps := r.n(3, 25)
	// compact lists: every length 0..3*size+3, so every residue modulo the size, several fills
	for _, k := range kinds {
		for n := 0; n <= 3*k.size+3; n++ {
			for rep := 0; rep < reps; rep++ {
				b := c.bytesN(n)
				if rep == 1 {
					b = make([]byte, n)
				}
				c.compactBinary(k, b)
				c.compactBencode(k, c.bencodedInput(b))
			}
		}
	}
	// NodeAddr
	for n := 0; n <= 24; n++ {
		for rep := 0; rep < reps; rep++ {
			b := c.bytesN(n)
			var a krpc.NodeAddr
			var err error
			pan := safely(func() { buf := append([]byte{}, b...); err = a.UnmarshalBinary(buf); spoil(buf) })
			ans := "err"
			rp := map[string]string{"input": hx(b)}
			switch {
			case pan != nil:
				r.violation(fmt.Sprintf("NodeAddr.UnmarshalBinary panics: %v", pan), rp)
				ans = "panic"
			case err == nil:
				ans = dumpAddr(a)
				if n < 2 {
					r.violation("NodeAddr.UnmarshalBinary accepts fewer than 2 bytes", rp)
				}
				var out []byte
				if p := safely(func() { out, err = a.MarshalBinary() }); p != nil || err != nil || !bytes.Equal(out, b) {
					r.violation("NodeAddr binary round trip differs", rp)
				}
				c.keep("NodeAddr.MarshalBinary", out)
				var outB []byte
				if p := safely(func() { outB, err = a.MarshalBencode() }); p != nil || err != nil || !bytes.Equal(outB, bstr(b)) {
					r.violation("NodeAddr.MarshalBencode is not the bencoded MarshalBinary", rp)
				}
			default:
				if n >= 2 {
					r.violation("NodeAddr.UnmarshalBinary rejects 2 or more bytes", rp)
				}
			}
			c.emit("KRPC nodeaddr "+hx(b), ans)
			r.count("nodeaddr "+hx(b), true)
			// UnmarshalBencode
			raw := c.bencodedInput(b)
			var a2 krpc.NodeAddr
			pan = safely(func() { err = a2.UnmarshalBencode(raw) })
			ans = "err"
			if pan != nil {
				r.violation(fmt.Sprintf("NodeAddr.UnmarshalBencode panics: %v", pan), map[string]string{"input": hx(raw)})
				ans = "panic"
			} else if err == nil {
				ans = dumpAddr(a2)
			}
			c.emit("KRPC addrb "+hx(raw), ans)
		}
	}
	// NodeInfo
	for n := 0; n <= 45; n++ {
		for rep := 0; rep < reps; rep++ {
			b := c.bytesN(n)
			var ni krpc.NodeInfo
			var err error
			pan := safely(func() { buf := append([]byte{}, b...); err = ni.UnmarshalBinary(buf); spoil(buf) })
			ans := "err"
			rp := map[string]string{"input": hx(b), "len": itoa(n)}
			switch {
			case pan != nil:
				ans = "crash"
				if n < 20 {
					r.violation(fmt.Sprintf("NodeInfo.UnmarshalBinary panics on short input (len=%d): %v", n, pan), rp)
				} else {
					r.violation(fmt.Sprintf("NodeInfo.UnmarshalBinary panics (len=%d): %v", n, pan), rp)
				}
			case err == nil:
				ans = dumpNode(ni)
				if n < 22 {
					r.violation("NodeInfo.UnmarshalBinary accepts fewer than 22 bytes", rp)
				}
				var out []byte
				if p := safely(func() { out, err = ni.MarshalBinary() }); p != nil || err != nil || !bytes.Equal(out, b) {
					r.violation("NodeInfo binary round trip differs", rp)
				}
				c.keep("NodeInfo.MarshalBinary", out)
			default:
				if n >= 22 {
					r.violation("NodeInfo.UnmarshalBinary rejects 22 or more bytes", rp)
				}
			}
			c.emit("KRPC nodeinfo "+hx(b), ans)
			r.hist("nodeinfo/" + ansClass(ans))
			r.count("nodeinfo "+hx(b), true)
		}
	}
	// ID
	for n := 0; n <= 45; n++ {
		for rep := 0; rep < reps; rep++ {
			payload := c.bytesN(n)
			raw := c.bencodedInput(payload)
			var id krpc.ID
			var err error
			pan := safely(func() { err = id.UnmarshalBencode(raw) })
			ans := "err"
			if pan != nil {
				r.violation(fmt.Sprintf("ID.UnmarshalBencode panics: %v", pan), map[string]string{"input": hx(raw)})
				ans = "panic"
			} else if err == nil {
				ans = hx(id[:])
				out, merr := id.MarshalBencode()
				if merr != nil || !bytes.Equal(out, bstr(id[:])) {
					r.violation("ID.MarshalBencode is not \"20:\" followed by the bytes", map[string]string{"id": hx(id[:])})
				}
				var id2 krpc.ID
				if err := id2.UnmarshalBencode(out); err != nil || id2 != id {
					r.violation("ID bencode round trip differs", map[string]string{"id": hx(id[:])})
				}
			}
			c.emit("KRPC idb "+hx(raw), ans)
			r.count("idb "+hx(raw), err == nil)
		}
	}
	// Error
	for i, n := 0, r.n(300, 6000); i < n; i++ {
		var raw []byte
		switch c.rn(8) {
		case 0:
			raw = bS(c.str()).enc()
		case 1:
			raw = bL(bI(c.int64v()), bS(c.str())).enc()
		case 2:
			raw = bL(bI(c.int64v()), bS(c.str()), c.bval(1)).enc()
		case 3:
			raw = bL(c.bval(1), c.bval(1)).enc()
		case 4:
			raw = c.bval(2).enc()
		case 5:
			raw, _ = c.mutateBytes(bL(bI(201), bS("A Generic Error Ocurred")).enc())
		case 6:
			raw = c.rawBytes()
		default:
			raw = bL(&bval{k: bInt, i: new(big.Int).SetBytes(c.bytesN(9))}, bS("big")).enc()
		}
		var e krpc.Error
		var err error
		pan := safely(func() { err = e.UnmarshalBencode(raw) })
		ans := "err"
		if pan != nil {
			r.violation(fmt.Sprintf("Error.UnmarshalBencode panics: %v", pan), map[string]string{"input": hx(raw)})
			ans = "panic"
		} else if err == nil {
			ans = itoa(e.Code) + "/" + hxs(e.Msg)
			var out []byte
			var merr error
			if p := safely(func() { out, merr = e.MarshalBencode() }); p != nil || merr != nil || !bytes.Equal(out, bL(bI(int64(e.Code)), bS(e.Msg)).enc()) {
				r.violation("Error.MarshalBencode is not the list [code, msg]", map[string]string{"input": hx(raw)})
			} else {
				var e2 krpc.Error
				if err := e2.UnmarshalBencode(out); err != nil || e2 != e {
					r.violation("Error bencode round trip differs", map[string]string{"input": hx(raw)})
				}
			}
		}
		c.emit("KRPC errb "+hx(raw), ans)
		r.count("errb "+hx(raw), err == nil)
	}
	// Marshal direction of the compact lists: contacts in and outside the list's family
	for i, n := 0, r.n(400, 8000); i < n; i++ {
		which := c.rn(5)
		bad := c.rn(6) == 0
		var dump string
		var out, outB []byte
		var err, errB error
		var pan interface{}
		name := []string{"na4", "na6", "ni4", "ni6", "ih"}[which]
		switch which {
		case 0, 1:
			var l []krpc.NodeAddr
			for j, m := 0, c.rn(5); j < m; j++ {
				fam := 4
				if which == 1 {
					fam = 6
				}
				l = append(l, krpc.NodeAddr{IP: c.ip(fam), Port: c.port()})
			}
			if bad && len(l) > 0 {
				l[c.rn(len(l))].IP = c.ip(0)
			}
			dump = dumpAddrsNE(l)
			pan = safely(func() {
				if which == 0 {
					out, err = krpc.CompactIPv4NodeAddrs(l).MarshalBinary()
					outB, errB = krpc.CompactIPv4NodeAddrs(l).MarshalBencode()
				} else {
					out, err = krpc.CompactIPv6NodeAddrs(l).MarshalBinary()
					outB, errB = krpc.CompactIPv6NodeAddrs(l).MarshalBencode()
				}
			})
		case 2, 3:
			fam := 4
			if which == 3 {
				fam = 6
			}
			l := c.nodes(fam, bad)
			dump = dumpNodesNE(l)
			pan = safely(func() {
				if which == 2 {
					out, err = krpc.CompactIPv4NodeInfo(l).MarshalBinary()
					outB, errB = krpc.CompactIPv4NodeInfo(l).MarshalBencode()
				} else {
					out, err = krpc.CompactIPv6NodeInfo(l).MarshalBinary()
					outB, errB = krpc.CompactIPv6NodeInfo(l).MarshalBencode()
				}
			})
		default:
			var l krpc.CompactInfohashes
			for j, m := 0, c.rn(5); j < m; j++ {
				l = append(l, [20]byte(c.id()))
			}
			dump = dumpHashes(l)
			pan = safely(func() {
				out, err = l.MarshalBinary()
				outB, errB = l.MarshalBencode()
			})
		}
		ans := hx(out)
		if pan == nil {
			c.keep("compact list MarshalBinary", out)
			c.keep("compact list MarshalBencode", outB)
		}
		switch {
		case pan != nil:
			ans = "panic"
			r.hist("cenc/panic-contact-outside-list-family(not in quantifier)")
		case err != nil || errB != nil:
			ans = "err"
			r.violation(fmt.Sprintf("compact %s MarshalBinary/MarshalBencode fails: %v %v", name, err, errB), map[string]string{"list": dump})
		default:
			if !bytes.Equal(outB, bstr(out)) {
				r.violation(fmt.Sprintf("compact %s MarshalBencode is not the bencoded MarshalBinary", name), map[string]string{"list": dump})
			}
			if len(out)%compactKinds()[which].size != 0 {
				r.violation(fmt.Sprintf("compact %s MarshalBinary length is not a multiple of the element size", name), map[string]string{"list": dump})
			}
		}
		c.emit("KRPC cenc "+name+" "+dump, ans)
		r.count("cenc "+name+dump, pan == nil)
	}
}

// ---------------------------------------------------------------------------------------------
// nodes file

func (c *c15) nodesFile() {
	r := c.r
	dir := filepath.Join(r.OutDir, "nodesfile")
	os.MkdirAll(dir, 0o755)
	path := filepath.Join(dir, "nodes.dat")
	for i, n := 0, r.n(60, 1500); i < n; i++ {
		l := c.nodes(6, false)
		if i%12 == 5 {
			// a table's worth and more: the reader must not stop at some size of its own
			l = make([]krpc.NodeInfo, []int{160, 1279, 1280, 1281, 1400, 2600}[c.rn(6)])
			for j := range l {
				l[j] = krpc.NodeInfo{ID: c.id(), Addr: krpc.NodeAddr{IP: c.ip(6), Port: c.port()}}
			}
		}
		var err error
		pan := safely(func() { err = dht.WriteNodesToFile(l, path) })
		rep := map[string]string{"nodes": dumpNodesNE(l)}
		if pan != nil || err != nil {
			r.violation(fmt.Sprintf("WriteNodesToFile fails for contacts with a 16-byte form: panic=%v err=%v", pan, err), rep)
			continue
		}
		content, _ := os.ReadFile(path)
		if len(content) != 38*len(l) {
			r.violation("WriteNodesToFile wrote a file whose length is not 38 bytes per node", rep)
		}
		var back []krpc.NodeInfo
		pan = safely(func() { back, err = dht.ReadNodesFromFile(path) })
		if pan != nil || err != nil {
			r.violation(fmt.Sprintf("ReadNodesFromFile fails on a file written by WriteNodesToFile: panic=%v err=%v", pan, err), rep)
			continue
		}
		want := dumpNodesNE(normNodes(krpc.CompactIPv4NodeInfo(l), net.IP.To16))
		if got := dumpNodesNE(back); got != want {
			rep["read"] = got
			r.violation("nodes file round trip differs", rep)
		}
		c.emit("KRPC compact ni6 "+hx(content), dumpNodesNE(back))
		r.count("nodesfile "+want, len(l) > 0)
	}
	// arbitrary file contents: every residue modulo 38
	for n := 0; n <= 3*38+3; n++ {
		b := c.bytesN(n)
		os.WriteFile(path, b, 0o644)
		var back []krpc.NodeInfo
		var err error
		pan := safely(func() { back, err = dht.ReadNodesFromFile(path) })
		rep := map[string]string{"file": hx(b)}
		switch {
		case pan != nil:
			r.violation(fmt.Sprintf("ReadNodesFromFile panics: %v", pan), rep)
		case err == nil && n%38 != 0:
			r.violation("ReadNodesFromFile accepts a file whose length is not a multiple of 38", rep)
		case err != nil && n%38 == 0:
			r.violation("ReadNodesFromFile rejects a file whose length is a multiple of 38: "+err.Error(), rep)
		case err == nil && len(back) != n/38:
			r.violation("ReadNodesFromFile returns the wrong number of nodes", rep)
		}
		r.count("nodesfile-read "+hx(b), true)
	}
	var err error
	if pan := safely(func() { _, err = dht.ReadNodesFromFile(filepath.Join(dir, "does-not-exist")) }); pan != nil || err == nil {
		r.violation("ReadNodesFromFile on a missing file must return an error", nil)
	}
	os.RemoveAll(dir)
}

// ---------------------------------------------------------------------------------------------

func runC15(r *Run) {
	c := &c15{r: r}
	r.Result.Rule = "krpc.Msg values over the full field set (each field independently absent / nil / empty / extreme / random; query, response, error and free-form shapes; IDs zero, all-ones, sparse, ASCII, random; contacts 4-byte, v4-mapped, v6, and for `values`/`ip` nil, empty and odd lengths; interface V of every bencode shape incl. big integers; BEP 33/44/51 fields), the same with one contact outside the list's family (Marshal must panic: outside the quantifier, counted); byte-level mutations (truncate, bit flip, substitution, splice, length-prefix lies, trailing bytes, non-canonical integers, deep nesting) and tree-level mutations (unknown keys, deleted/retyped/resized fields, singleton lists, unsorted and duplicate keys, error shapes) of the encodings; raw byte strings over a bencode-biased alphabet; the untyped parser on random trees and their mutations; every exported Unmarshal*/Marshal* of package krpc at lengths 0..3*size+3 (every residue); nodes file write/read. non-trivial = distinct case that reaches a codec (message encoded, input decoded by some decoder, or non-empty compact input)"
	nMsg := r.n(2500, 60000)
	for i := 0; i < nMsg; i++ {
		bad := i%12 == 11
		m := c.msg(bad)
		c.msgCase(m, bad)
		if i < 3 {
			d, _ := dumpMsg(m)
			r.sample(map[string]string{"kind": "generated message", "msg": d})
		}
	}
	// literal datagrams: the minimal messages and the ones the package's own tests use
	for _, s := range []string{
		"d1:t2:aa1:y1:qe", "d1:ad2:id20:abcdefghij0123456789e1:q4:ping1:t2:aa1:y1:qe",
		"d1:rd2:id20:mnopqrstuvwxyz123456e1:t2:aa1:y1:re", "d1:eli201e23:A Generic Error Ocurrede1:t2:aa1:y1:ee",
		"d1:e5:oops!1:t2:aa1:y1:ee", "de", "d1:t0:1:y0:e", "le", "ld1:t2:aa1:y1:qee", "i5e", "3:abc", "", "e", "d", "d1:t",
		"d1:rd2:id20:mnopqrstuvwxyz1234565:nodes0:e1:t2:aa1:y1:re", "d1:rd2:id20:mnopqrstuvwxyz1234567:samples0:e1:t2:aa1:y1:re",
		"d1:ad2:id20:abcdefghij01234567891:vdee1:t2:aa1:y1:qe", "d1:ad2:id19:abcdefghij012345678e1:t2:aa1:y1:qe",
		"d1:ad2:id21:abcdefghij01234567899e1:t2:aa1:y1:qe", "d2:ip1:x1:t2:aa1:y1:qe", "d2:ip2:xy1:t2:aa1:y1:qe", "d2:roi2e1:t2:aa1:y1:qe",
		"d2:roi99999999999999999999999999e1:t2:aa1:y1:qe", "d1:ad2:id20:abcdefghij01234567894:porti99999999999999999999ee1:t2:aa1:y1:qe",
		"d1:rd2:id20:mnopqrstuvwxyz1234561:vi-0ee1:t2:aa1:y1:re", "d1:rd2:id20:mnopqrstuvwxyz1234561:v4:spame1:t2:aa1:y1:re",
	} {
		b := []byte(s)
		c.emit("KRPC dec "+hx(b), c.judgeDecode(b, "literal"))
		r.count("lit "+s, true)
	}
	// mutations
	nMut := r.n(12000, 250000)
	for i := 0; i < nMut && len(c.pool) > 0; i++ {
		var b []byte
		var what string
		switch {
		case i%3 == 0:
			b, what = c.mutateTree(c.pick())
		case i%3 == 1:
			b, what = c.mutateBytes(c.pick())
		default:
			b, what = c.mutateTree(c.pick())
			if c.rn(3) == 0 {
				var w2 string
				b, w2 = c.mutateBytes(b)
				what += "+" + w2
			}
		}
		ans := c.judgeDecode(b, what)
		c.emitT("KRPC dec "+hx(b), ans, strings.SplitN(what, "+", 2)[0])
		r.hist("mutation/" + strings.SplitN(what, "+", 2)[0])
		r.count("mut "+hx(b), ans != "err")
	}
	nRaw := r.n(4000, 100000)
	for i := 0; i < nRaw; i++ {
		b := c.rawBytes()
		ans := c.judgeDecode(b, "raw")
		c.emitT("KRPC dec "+hx(b), ans, "raw")
		r.count("raw "+hx(b), ans != "err")
	}
	// a few very long length prefixes and deep nests straight at the top level
	for _, s := range []string{"134217727:x", "134217728:x", "d1:t99999999:xe", "d1:q134217727:e", strings.Repeat("l", 3000) + strings.Repeat("e", 3000), strings.Repeat("d1:a", 1500) + "de" + strings.Repeat("e", 1500)} {
		b := []byte(s)
		c.emit("KRPC dec "+hx(b), c.judgeDecode(b, "extreme"))
	}
	// untyped parser
	nB := r.n(4000, 100000)
	for i := 0; i < nB; i++ {
		b := c.bval(4).enc()
		switch c.rn(4) {
		case 0:
			b, _ = c.mutateBytes(b)
		case 1:
			b = append(b, c.bval(1).enc()...)
		case 2:
			if c.rn(4) == 0 {
				b = c.rawBytes()
			}
		}
		c.bdecCase(b)
	}
	for _, s := range []string{"i0e", "i-0e", "i-1e", "i01e", "ie", "i-e", "i1", "0:", "00:", "1:", "01:a", "le", "de", "d1:a1:b1:a1:ce", "d1:b1:x1:a1:ye", "d1:ae", "di1e1:ae", "lle", "e", "", "i9223372036854775808e", "i-9223372036854775809e", "d0:0:e", "i+1e", "i 1e", "1x:a", "-1:a"} {
		c.bdecCase([]byte(s))
	}
	c.codecSweeps()
	c.nodesFile()
	c.flush()
	r.note("lines the model answered `unmodelled` are listed under histogram keys unmodelled/<op>; every one of them was still judged by the direct oracles (no panic, re-encode fixpoint, compact length law)")
}
