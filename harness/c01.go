package main

import (
	"bytes"
	"context"
	"crypto/ed25519"
	"crypto/sha1"
	"fmt"
	"math/rand"
	"net"
	"runtime"
	"strings"
	"sync"
	"sync/atomic"
	"time"

	dht "github.com/anacrolix/dht/v2"
	"github.com/anacrolix/dht/v2/bep44"
	"github.com/anacrolix/dht/v2/exts/getput"
)

func init() { commands["C01"] = runC01 }

func runC01(r *Run) {
	r.Result.Rule = "scenario = one server configuration (peer store, security extension, passive, query hook crossed) receiving (i) structured KRPC with fields missing / extra / oversized / wrongly typed / deeply nested, (ii) byte mutations of valid encodings (truncate, flip, splice, length-prefix lies, trailing bytes), (iii) raw bytes, (iv) hostile replies (every subset of response fields present, absent or malformed, one address listed under many IDs) to its own in-flight ping, bootstrap, announce, BEP 44 get and put traversals; (v) TableMaintainer over a populated table with datagrams arriving at the moments the server consults its blocklist; afterwards a probe ping from a fresh address must be answered and Stats/NumNodes/Nodes must return; non-trivial = distinct datagram that is not plain random bytes"
	n := r.n(60, 600)
	for i := 0; i < n; i++ {
		o := srvOpts{noSecurity: i%3 != 0, passive: i%7 == 6, hook: i%5 == 4, peerStore: i%2 == 0, callback: i%4 == 0}
		if !o.noSecurity {
			o.publicIP = net.IP{203, 0, 113, 7}
		}
		sc := r.newSrvScen(o)
		sc.hostileStream(120)
		if i%2 == 0 && !sc.dead {
			sc.hostileReplies(i)
		}
		sc.ownIDReplies()
		// (a sender that is not read-only, with an ID the security extension does not accept for its address, is
		// still a sender of a well-formed query)
		sc.probeFrom(i%2 == 0)
		r.Result.TracesValidated++
		if i < 3 {
			r.sample(append([]string{}, sc.events[:min(len(sc.events), 6)]...))
		}
		sc.close()
	}
	for i := 0; i < r.n(12, 150); i++ {
		r.c01Maintenance(i)
	}
	// more announces under hostile replies, crossing the announce's own options (variant = 5k+1 selects the announce)
	for k := 0; k < r.n(72, 360) && !r.c14Full(); k++ {
		sc := r.newSrvScen(srvOpts{noSecurity: true, peerStore: k%2 == 0, mute: true})
		sc.hostileReplies(5*k + 1)
		sc.probe()
		r.Result.TracesValidated++
		sc.close()
	}
	// the modelled stream as well (never_crashes / inv_step tie): well-typed traffic replayed on the model
	for i := 0; i < r.n(10, 200); i++ {
		sc := r.newSrvScen(r.optsVariant(i))
		sc.mixedQueries(40)
		sc.emitTable()
		sc.close()
	}
}

// deliver without modelling: only liveness is judged
func (sc *srvScen) fire(src *net.UDPAddr, raw []byte, what string) {
	if sc.dead {
		return
	}
	sc.r.lastInput(fmt.Sprintf("from %s: %s (hex %s)", src, what, hx(trunc(raw, 4096))))
	sc.conn.inject(raw, src)
	if !sc.conn.waitIdle(10 * time.Second) {
		sc.viol("C01", "server stopped reading datagrams after: "+what)
		sc.dead = true
	}
}

func (r *Run) randBval(depth int) *bval {
	switch k := r.rng.Intn(10); {
	case k < 3:
		return bI([]int64{0, 1, -1, 1 << 40, -(1 << 62), int64(r.rng.Intn(70000))}[r.rng.Intn(6)])
	case k < 7 || depth <= 0:
		n := []int{0, 1, 2, 4, 6, 18, 19, 20, 21, 26, 38, 64, 300}[r.rng.Intn(13)]
		b := make([]byte, n)
		r.rng.Read(b)
		return bB(b)
	case k < 9:
		l := bL()
		for i := 0; i < r.rng.Intn(4); i++ {
			l.l = append(l.l, r.randBval(depth-1))
		}
		return l
	default:
		d := bD()
		for i := 0; i < r.rng.Intn(4); i++ {
			d.set([]string{"id", "a", "x", "nodes", "v", ""}[r.rng.Intn(6)], r.randBval(depth-1))
		}
		return d
	}
}

var argKeys = []string{"id", "info_hash", "target", "token", "port", "implied_port", "want", "noseed", "scrape", "v", "seq", "cas", "k", "salt", "sig"}
var retKeys = []string{"id", "nodes", "nodes6", "token", "values", "BFsd", "BFpe", "interval", "num", "samples", "v", "k", "sig", "seq"}
var topKeys = []string{"q", "a", "t", "y", "r", "e", "ip", "ro", "v"}

// Structured message with arbitrary damage.
func (sc *srvScen) damagedMsg() (*bval, string) {
	r := sc.r.rng
	id := sc.r.randID()
	tg := sc.r.structuredID(sc.root)
	method := append(append([]string{}, methods...), "sample_infohashes", "")[r.Intn(len(methods)+2)]
	q := sc.mkQuery(method, id, tg)
	if r.Intn(3) == 0 {
		q.token, q.hasTok = []byte("tok"), true
	}
	m := q.bval()
	desc := "damaged " + method
	a := m.get("a")
	for i := 0; i < 1+r.Intn(3); i++ {
		switch r.Intn(10) {
		case 0: // drop a top-level key
			m.del(topKeys[r.Intn(len(topKeys))])
		case 1: // wrong type at top level
			m.set(topKeys[r.Intn(len(topKeys))], sc.r.randBval(2))
		case 2, 3: // wrong type / odd size for an argument
			if a != nil && a.k == bDict {
				a.set(argKeys[r.Intn(len(argKeys))], sc.r.randBval(2))
			}
		case 4: // drop an argument
			if a != nil && a.k == bDict {
				a.del(argKeys[r.Intn(len(argKeys))])
			}
		case 5: // add response / error parts to a query
			rd := bD()
			for j := 0; j < r.Intn(5); j++ {
				rd.set(retKeys[r.Intn(len(retKeys))], sc.r.randBval(2))
			}
			m.set("r", rd)
		case 6:
			m.set("e", []*bval{bL(), bL(bI(201)), bL(bS("x"), bI(1)), bS("str"), bI(5), bD(), bL(bI(1), bS("m"), bI(3)), bL(bI(201), bI(0)), bL(bI(203), bL()), bL(bI(204), bD()), bL(bI(1<<40), bS("big")), bL(bL(), bS("m"))}[r.Intn(12)])
		case 7: // oversized field
			big := make([]byte, []int{1000, 5000, 30000, 60000}[r.Intn(4)])
			k := argKeys[r.Intn(len(argKeys))]
			if a != nil && a.k == bDict {
				a.set(k, bB(big))
			} else {
				m.set("t", bB(big))
			}
		case 8: // deep nesting
			v := bL()
			cur := v
			for d := 0; d < 150; d++ {
				nx := bL()
				cur.l = append(cur.l, nx)
				cur = nx
			}
			if a != nil && a.k == bDict {
				a.set("v", v)
			} else {
				m.set("a", v)
			}
		default: // y variants
			m.set("y", bS([]string{"q", "r", "e", "", "qq", "Q"}[r.Intn(6)]))
		}
	}
	return m, desc
}

func (sc *srvScen) mutateBytes(b []byte) []byte {
	r := sc.r.rng
	b = append([]byte{}, b...)
	if len(b) == 0 {
		return b
	}
	switch r.Intn(7) {
	case 0:
		return b[:r.Intn(len(b))]
	case 1:
		b[r.Intn(len(b))] ^= 1 << uint(r.Intn(8))
	case 2:
		i, j := r.Intn(len(b)), r.Intn(len(b))
		if i > j {
			i, j = j, i
		}
		return append(b[:i:i], b[j:]...)
	case 3: // length prefix lie: bump a digit
		for k := 0; k < 20; k++ {
			i := r.Intn(len(b))
			if b[i] >= '0' && b[i] <= '8' {
				b[i]++
				break
			}
		}
	case 4:
		extra := make([]byte, 1+r.Intn(8))
		r.Read(extra)
		b = append(b, extra...)
	case 5:
		i := r.Intn(len(b))
		b[i] = []byte{'e', 'd', 'l', 'i', ':', '0', '-'}[r.Intn(7)]
	default:
		i := r.Intn(len(b))
		ins := []byte{'d', 'l', 'i'}[r.Intn(3)]
		b = append(b[:i:i], append([]byte{ins}, b[i:]...)...)
	}
	return b
}

func (sc *srvScen) hostileStream(n int) {
	r := sc.r.rng
	for i := 0; i < n && !sc.dead; i++ {
		src := sc.freshSrc([]int{0, 0, 1, 2}[r.Intn(4)])
		switch k := r.Intn(10); {
		case k < 4:
			m, desc := sc.damagedMsg()
			raw := m.enc()
			if r.Intn(4) == 0 {
				raw = m.encRaw() // unsorted / duplicate keys as built
			}
			sc.fire(src, raw, desc)
			sc.r.count(string(raw), true)
			sc.r.hist("stream/damaged-structured")
		case k < 8:
			m, desc := sc.damagedMsg()
			raw := sc.mutateBytes(m.enc())
			if r.Intn(3) == 0 {
				raw = sc.mutateBytes(raw)
			}
			sc.fire(src, raw, "mutated bytes of "+desc)
			sc.r.count(string(raw), true)
			sc.r.hist("stream/mutated-bytes")
		default:
			raw := make([]byte, r.Intn(200))
			r.Read(raw)
			if len(raw) > 0 && r.Intn(2) == 0 {
				raw[0] = 'd'
			}
			sc.fire(src, raw, "raw bytes")
			sc.r.count(string(raw), false)
			sc.r.hist("stream/raw")
		}
	}
}

// A reply to one of the server's own queries with any subset of fields present, absent or malformed.
func (sc *srvScen) hostileReplyTo(lr *Run, d dgram, key ed25519.PublicKey, salt []byte, priv ed25519.PrivateKey) []byte {
	r := lr.rng
	rid := lr.randID()
	switch r.Intn(8) {
	case 0:
		rid = sc.root // a reply that claims the node's own ID
	case 1:
		rid = [20]byte{}
	}
	rd := bD("id", bB(rid[:]))
	// plausible contents first
	var nodes []byte
	for i := 0; i < r.Intn(4); i++ {
		nodes = append(nodes, compactNode(lr.randID(), lr.randIP(0), 1+r.Intn(65000))...)
	}
	if r.Intn(3) == 0 {
		// one address under several IDs, listed repeatedly, the asked address itself, nodes6 as well
		ip, port := lr.randIP(0), 1+r.Intn(65000)
		for i := 0; i < 2+r.Intn(7); i++ {
			nodes = append(nodes, compactNode(lr.randID(), ip, port)...)
		}
		var n6 []byte
		ip6 := lr.randIP(1)
		for i := 0; i < r.Intn(4); i++ {
			n6 = append(n6, compactNode(lr.randID(), ip6, port)...)
		}
		if len(n6) > 0 {
			rd.set("nodes6", bB(n6))
		}
	}
	if len(nodes) > 0 {
		rd.set("nodes", bB(nodes))
	}
	if r.Intn(2) == 0 {
		rd.set("token", bS("tk"))
	}
	if r.Intn(3) == 0 {
		rd.set("values", bL(bB(compactAddr(lr.randIP(0), 5)), bB(compactAddr(lr.randIP(1), 6))))
	}
	if d.q == "get" {
		v := bS("hello").enc()
		seq := int64(r.Intn(5))
		switch r.Intn(4) {
		case 0: // genuine mutable item
			sig := bep44.Sign(priv, salt, seq, v)
			rd.set("k", bB(key))
			rd.set("sig", bB(sig))
			rd.set("seq", bI(seq))
			rd.set("v", bS("hello"))
		case 1: // key but nothing else
			rd.set("k", bB(key))
		case 2: // key and value, no seq
			rd.set("k", bB(key))
			rd.set("v", bS("hello"))
			rd.set("sig", bB(make([]byte, 64)))
		default: // immutable-looking
			rd.set("v", bS("hello"))
		}
	}
	// damage: drop / retype any subset
	for i := 0; i < r.Intn(4); i++ {
		k := retKeys[r.Intn(len(retKeys))]
		switch r.Intn(3) {
		case 0:
			rd.del(k)
		case 1:
			rd.set(k, lr.randBval(2))
		default:
			b := make([]byte, []int{0, 1, 5, 19, 21, 25, 27, 37, 39, 6, 18, 26, 38, 52, 76}[r.Intn(15)])
			rd.set(k, bB(b))
		}
	}
	m := bD("t", bB(d.t), "y", bS("r"), "r", rd)
	switch r.Intn(12) {
	case 0:
		m.del("r")
	case 1:
		m.set("y", bS("e"))
		m.set("e", bL(bI(203), bS("no")))
	case 2:
		m.set("r", lr.randBval(2))
	case 3:
		m.set("y", bS("e"))
		m.set("e", []*bval{lr.randBval(2), bL(bI(201), bI(0)), bL(bI(203), bL()), bL(bI(204), bD("a", bI(1))), bL(bI(201))}[r.Intn(5)])
	}
	raw := m.enc()
	if r.Intn(8) == 0 {
		raw = (&srvScen{r: lr}).mutateBytes(raw)
	}
	return raw
}

func (sc *srvScen) hostileReplies(variant int) {
	r := sc.r.rng
	pub, priv, _ := ed25519.GenerateKey(rngReader{sc.r})
	salt := []byte("salt")
	if r.Intn(2) == 0 {
		salt = nil
	}
	target := sha1.Sum(append(append([]byte{}, pub...), salt...))
	var budget atomic.Int64
	budget.Store(int64(20 + r.Intn(60)))
	var mu sync.Mutex
	// private PRNG for the callback: it runs on the server's goroutines
	lr := &Run{rng: rand.New(rand.NewSource(r.Int63()))}
	sc.conn.onWrite = func(w written) {
		d := parseDgram(w)
		if !d.ok || d.y != "q" {
			return
		}
		if budget.Add(-1) < 0 {
			return
		}
		mu.Lock()
		raw := sc.hostileReplyTo(lr, d, pub, salt, priv)
		what := fmt.Sprintf("hostile reply to %s query t=%x", d.q, d.t)
		sc.r.lastInput(fmt.Sprintf("from %s: %s (hex %s)", w.Addr, what, hx(raw)))
		mu.Unlock()
		sc.r.count(string(raw), true)
		sc.r.hist("stream/hostile-reply/" + d.q)
		sc.conn.inject(raw, w.Addr)
	}
	defer func() { sc.conn.onWrite = nil }()
	sc.resend.Store(int64(2 * time.Millisecond))
	defer sc.resend.Store(int64(time.Hour))
	// seed the table so traversals have somewhere to start
	for i := 0; i < 3; i++ {
		sc.s.AddNode(nodeInfo(sc.r.randID(), sc.freshSrc(0)))
	}
	// Every query of the operation is either answered (while the reply budget lasts) or times out
	// after a few milliseconds, so each operation must come to its end by itself; the context is only
	// a back-stop, and running into it is reported.
	const backstop = 6 * time.Second
	ctx, cancel := context.WithTimeout(context.Background(), backstop)
	defer cancel()
	done := make(chan struct{})
	var selfEnded atomic.Bool
	go func() {
		defer close(done)
		switch variant % 5 {
		case 0:
			if variant%10 == 0 {
				sc.s.Bootstrap() // no context at all: must return by itself
				selfEnded.Store(true)
			} else {
				_, err := sc.s.BootstrapContext(ctx)
				selfEnded.Store(err == nil || ctx.Err() == nil)
			}
		case 1:
			// option grid of the announce: with / without the announce_peer step, scrape, consumer reading Peers or
			// not, and the application closing it (or stopping the traversal) at a PRNG-chosen moment while the
			// hostile replies are being delivered
			var opts []dht.AnnounceOpt
			g := variant / 5 // independent digits of g select the options
			if g%3 != 0 {
				opts = append(opts, dht.AnnouncePeer(dht.AnnouncePeerOpts{Port: 6881, ImpliedPort: g%2 == 1}))
			}
			if (g/3)%4 == 1 {
				opts = append(opts, dht.Scrape())
			}
			reading := (g/12)%3 != 1 && g%5 != 2
			closeAfter := time.Duration(-1)
			if (g/2)%3 != 0 || !reading {
				closeAfter = time.Duration(sc.r.rng.Intn(3000)) * time.Microsecond
			}
			sc.ev("announce: opts=%d reading=%v closeAfter=%v", len(opts), reading, closeAfter)
			a, err := sc.s.AnnounceTraversal(sc.r.randID(), opts...)
			selfEnded.Store(true)
			if err == nil {
				if reading {
					go func() {
						for range a.Peers {
						}
					}()
				}
				if closeAfter >= 0 {
					time.Sleep(closeAfter)
					if g%4 == 3 {
						a.StopTraversing()
					}
					a.Close()
				}
				select {
				case <-a.Finished():
				case <-ctx.Done():
					selfEnded.Store(false)
					a.Close()
				}
			}
		case 2:
			getput.Get(ctx, target, sc.s, nil, salt)
			selfEnded.Store(ctx.Err() == nil)
		case 3:
			getput.Put(ctx, target, sc.s, salt, func(seq int64) bep44.Put {
				p := bep44.Put{V: "x", Salt: salt, Seq: seq + 1}
				var k [32]byte
				copy(k[:], pub)
				p.K = &k
				p.Sign(priv)
				return p
			})
			selfEnded.Store(ctx.Err() == nil)
		default:
			for i := 0; i < 5; i++ {
				sc.s.Ping(sc.freshSrc(0))
			}
			selfEnded.Store(true)
		}
	}()
	select {
	case <-done:
		if !selfEnded.Load() {
			sc.viol("C01", fmt.Sprintf("operation (variant %d) under hostile replies did not come to its end although every query was answered or timed out (stopped by the %v back-stop)", variant%5, backstop))
		}
	case <-time.After(backstop + 4*time.Second):
		sc.viol("C01", "operation under hostile replies did not return")
	}
	sc.conn.waitIdle(5 * time.Second)
	sc.ev("hostile replies to operation variant %d", variant%5)
}

// Reachable state "table maintenance in progress": TableMaintainer (bootstrap, questionable-node
// pings, refreshBucket traversals that hold the server's read lock while they feed the table's
// contacts through the traversal node filter) runs over a populated table while datagrams arrive
// at exactly the moments the server consults its blocklist. The arrivals are pings and hostile
// replies; afterwards the node must still answer and the API must still return.
func (r *Run) c01Maintenance(i int) {
	bl := &rangeList{}
	sc := r.newSrvScen(srvOpts{noSecurity: true, blocked: bl, mute: true, peerStore: i%2 == 0})
	defer sc.close()
	for k := 0; k < 3+r.rng.Intn(10); k++ {
		sc.s.AddNode(nodeInfo(sc.r.structuredID(sc.root), sc.freshSrc(k%2)))
	}
	sc.conn.waitIdle(time.Second)
	var budget atomic.Int64
	budget.Store(int64(10 + r.rng.Intn(50)))
	var ctr atomic.Int64
	lr := &Run{rng: rand.New(rand.NewSource(r.rng.Int63()))}
	var lmu sync.Mutex
	probe := func(net.IP) {
		// where is the server consulting its blocklist? (evidence: which look-up sites were reached)
		site := "other"
		pcs := make([]uintptr, 24)
		fr := runtime.CallersFrames(pcs[:runtime.Callers(2, pcs)])
		for {
			f, more := fr.Next()
			switch {
			case strings.HasSuffix(f.Function, ".refreshBucket"):
				site = "refreshBucket"
			case strings.HasSuffix(f.Function, ".TraversalNodeFilter") && site == "other":
				site = "TraversalNodeFilter"
			case strings.HasSuffix(f.Function, ".processPacket") && site == "other":
				site = "processPacket"
			case strings.HasSuffix(f.Function, ".writeToNode") && site == "other":
				site = "writeToNode"
			}
			if !more || site == "refreshBucket" {
				break
			}
		}
		lmu.Lock()
		skip := site != "refreshBucket" && lr.rng.Intn(6) != 0
		id := lr.randID()
		lmu.Unlock()
		if skip || budget.Add(-1) < 0 {
			return
		}
		n := ctr.Add(1)
		src := &net.UDPAddr{IP: net.IP{198, 18, byte(n >> 8), byte(n)}, Port: 20000 + int(n)}
		q := &qspec{y: "q", q: "ping", t: []byte{'m', byte(n)}, hasA: true, id: id, ro: n%2 == 0}
		sc.conn.inject(q.bval().enc(), src)
		sc.r.hist("stream/arrival-during-blocklist-lookup/" + site)
		// let the receive loop pick the datagram up while the caller is still where it is
		time.Sleep(300 * time.Microsecond)
	}
	// the contacts answer the maintenance queries (bootstrap find_node, questionable-node pings, bucket
	// refreshes) with hostile replies: every subset of fields present, absent or malformed
	pub, priv, _ := ed25519.GenerateKey(rngReader{sc.r})
	var rbudget atomic.Int64
	rbudget.Store(int64(r.rng.Intn(40)))
	sc.conn.onWrite = func(w written) {
		d := parseDgram(w)
		if !d.ok || d.y != "q" || rbudget.Add(-1) < 0 {
			return
		}
		lmu.Lock()
		raw := sc.hostileReplyTo(lr, d, pub, nil, priv)
		lmu.Unlock()
		sc.r.lastInput(fmt.Sprintf("from %s: hostile reply to the node's own %s query t=%x during table maintenance (hex %s)", w.Addr, d.q, d.t, hx(raw)))
		sc.r.hist("stream/hostile-reply-during-maintenance/" + d.q)
		sc.conn.inject(raw, w.Addr)
	}
	defer func() { sc.conn.onWrite = nil }()
	sc.resend.Store(int64(2 * time.Millisecond))
	bl.probe.Store(&probe)
	go sc.s.TableMaintainer()
	waitFor(func() bool { return budget.Load() <= 0 }, 600*time.Millisecond)
	bl.probe.Store(nil)
	sc.resend.Store(int64(time.Hour))
	sc.ev("table maintenance with %d arrivals at blocklist look-ups", ctr.Load())
	sc.r.count(fmt.Sprintf("maint/%d/%d", i, ctr.Load()), ctr.Load() > 0)
	sc.probe()
	r.Result.TracesValidated++
}

// Afterwards: a well-formed ping from a fresh address is answered and the API returns.
func (sc *srvScen) probe() { sc.probeFrom(true) }

func (sc *srvScen) probeFrom(ro bool) {
	if sc.dead {
		return
	}
	src := sc.freshSrc(0)
	id := sc.r.randID()
	q := &qspec{y: "q", q: "ping", t: []byte("pb"), hasA: true, id: id, ro: ro}
	w0 := sc.conn.numWrites()
	sc.conn.inject(q.bval().enc(), src)
	must := !sc.o.passive
	answered := waitFor(func() bool {
		for _, w := range sc.conn.writes()[w0:] {
			if sameUDP(w.Addr, src) {
				d := parseDgram(w)
				return d.ok && d.y == "r" && bytes.Equal(d.t, []byte("pb"))
			}
		}
		return false
	}, map[bool]time.Duration{true: 5 * time.Second, false: 2 * time.Millisecond}[must])
	if must && !answered {
		sc.viol("C01", "node no longer answers a well-formed ping from a fresh address")
	}
	apiDone := make(chan struct{})
	go func() {
		sc.s.Stats()
		sc.s.NumNodes()
		sc.s.Nodes()
		var sb strings.Builder
		sc.s.WriteStatus(&sb)
		close(apiDone)
	}()
	select {
	case <-apiDone:
	case <-time.After(5 * time.Second):
		sc.viol("C01", "public API does not return (server lock leaked)")
	}
}

type rngReader struct{ r *Run }

func (rr rngReader) Read(p []byte) (int, error) { return rr.r.rng.Read(p) }

// Well-formed replies to the node's own pings that claim the node's own ID, the zero ID, or an ID
// already in the table under another address: through Ping (the caller's goroutine consumes the
// reply) and through AddNode with a zero ID (a library goroutine does).
func (sc *srvScen) ownIDReplies() {
	if sc.dead {
		return
	}
	for i, rid := range [][20]byte{sc.root, {}, sc.r.randID()} {
		addr := sc.freshSrc(0)
		if sc.isBlocked(addr.IP) {
			continue
		}
		w0 := sc.conn.numWrites()
		done := make(chan struct{})
		go func() {
			defer close(done)
			if i%2 == 0 {
				sc.s.Ping(addr)
			} else {
				sc.s.AddNode(nodeInfo([20]byte{}, addr)) // pings in the background
				time.Sleep(2 * time.Millisecond)
			}
		}()
		var d dgram
		if !waitFor(func() bool {
			for _, w := range sc.conn.writes()[w0:] {
				if sameUDP(w.Addr, addr) {
					if x := parseDgram(w); x.ok && x.y == "q" {
						d = x
						return true
					}
				}
			}
			return false
		}, 3*time.Second) {
			continue
		}
		raw := mkReply(string(d.t), bD("id", bB(rid[:]))).enc()
		sc.fire(addr, raw, fmt.Sprintf("ping reply claiming id %x", rid[:4]))
		select {
		case <-done:
		case <-time.After(5 * time.Second):
			sc.viol("C01", "Ping did not return after a reply claiming a special ID")
		}
		time.Sleep(300 * time.Microsecond)
		sc.r.hist("stream/ping-reply-special-id")
	}
}
