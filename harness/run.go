package main

import (
	"bufio"
	"encoding/hex"
	"encoding/json"
	"flag"
	"fmt"
	"math/rand"
	"os"
	"path/filepath"
	"sort"
	"strings"
	"sync"
	"sync/atomic"
)

// One op line for the Lean driver together with what the implementation answered.
type Run struct {
	Prop    string
	Seed    int64
	Tier    string
	OutDir  string
	Replay  string
	rng     *rand.Rand
	mu      sync.Mutex
	ops     *bufio.Writer
	impl    *bufio.Writer
	opsF    *os.File
	implF   *os.File
	nOps    int
	Result  Result
	seen    map[string]struct{}
	recent  []string
	samples int
}

type Violation struct {
	What   string      `json:"what"`
	Replay interface{} `json:"replay"`
}

type Result struct {
	Property           string         `json:"property"`
	Seed               int64          `json:"seed"`
	Tier               string         `json:"tier"`
	Evaluations        int            `json:"evaluations"`
	DistinctNontrivial int            `json:"distinct_nontrivial"`
	Rule               string         `json:"rule"`
	Samples            []interface{}  `json:"samples"`
	Histogram          map[string]int `json:"histogram"`
	Violations         []Violation    `json:"violations"`
	TracesValidated    int            `json:"traces_validated_against_impl"`
	Notes              []string       `json:"notes,omitempty"`
	Ops                int            `json:"ops"`
}

func newRun(prop string, args []string) *Run {
	fs := flag.NewFlagSet(prop, flag.ExitOnError)
	seed := fs.Int64("seed", 1, "PRNG seed")
	tier := fs.String("tier", "quick", "quick|thorough")
	out := fs.String("out", ".", "output directory")
	replay := fs.String("replay", "", "replay file")
	fs.Parse(args)
	r := &Run{Prop: prop, Seed: *seed, Tier: *tier, OutDir: *out, Replay: *replay}
	r.rng = rand.New(rand.NewSource(*seed))
	os.MkdirAll(r.OutDir, 0o755)
	var err error
	r.opsF, err = os.Create(filepath.Join(r.OutDir, "ops.txt"))
	if err != nil {
		panic(err)
	}
	r.implF, err = os.Create(filepath.Join(r.OutDir, "impl.txt"))
	if err != nil {
		panic(err)
	}
	r.ops = bufio.NewWriterSize(r.opsF, 1<<20)
	r.impl = bufio.NewWriterSize(r.implF, 1<<20)
	r.Result = Result{Property: prop, Seed: *seed, Tier: *tier, Histogram: map[string]int{}}
	r.seen = map[string]struct{}{}
	return r
}

func (r *Run) thorough() bool { return r.Tier == "thorough" }

// Scale a quick-tier count for the thorough tier.
func (r *Run) n(quick, thorough int) int {
	if r.thorough() {
		return thorough
	}
	return quick
}

// Emit an op for the model together with the implementation's answer.
func (r *Run) op(op string, impl string) {
	r.mu.Lock()
	defer r.mu.Unlock()
	if strings.ContainsAny(op, "\n\r") || strings.ContainsAny(impl, "\n\r") {
		panic("newline in op: " + op)
	}
	r.ops.WriteString(op)
	r.ops.WriteByte('\n')
	r.impl.WriteString(impl)
	r.impl.WriteByte('\n')
	r.nOps++
	progress.Add(1)
}

// bumped by op / hist / count: the watchdog in main.go reads it
var progress atomic.Int64

func (r *Run) hist(key string) {
	progress.Add(1)
	r.mu.Lock()
	r.Result.Histogram[key]++
	r.mu.Unlock()
}

// Count a generated case; key canonically identifies it, nontrivial says whether it reaches the
// property's mechanism.
func (r *Run) count(key string, nontrivial bool) {
	progress.Add(1)
	r.mu.Lock()
	defer r.mu.Unlock()
	r.Result.Evaluations++
	if !nontrivial {
		return
	}
	if _, ok := r.seen[key]; ok {
		return
	}
	r.seen[key] = struct{}{}
	r.Result.DistinctNontrivial++
}

func (r *Run) sample(v interface{}) {
	r.mu.Lock()
	defer r.mu.Unlock()
	if len(r.Result.Samples) < 5 {
		r.Result.Samples = append(r.Result.Samples, v)
	}
}

func (r *Run) violation(what string, replay interface{}) {
	r.mu.Lock()
	defer r.mu.Unlock()
	if len(r.Result.Violations) < 20 {
		r.Result.Violations = append(r.Result.Violations, Violation{what, replay})
	}
}

func (r *Run) note(s string) {
	r.mu.Lock()
	r.Result.Notes = append(r.Result.Notes, s)
	r.mu.Unlock()
}

func (r *Run) finish() {
	r.ops.Flush()
	r.impl.Flush()
	r.opsF.Close()
	r.implF.Close()
	r.Result.Ops = r.nOps
	if r.Result.Samples == nil {
		r.Result.Samples = []interface{}{}
	}
	if r.Result.Violations == nil {
		r.Result.Violations = []Violation{}
	}
	b, _ := json.MarshalIndent(r.Result, "", " ")
	os.WriteFile(filepath.Join(r.OutDir, "result.json"), b, 0o644)
}

// ---- encoding helpers shared by the sections ----

func hx(b []byte) string {
	if len(b) == 0 {
		return "_"
	}
	return hex.EncodeToString(b)
}

func optHx(b []byte, ok bool) string {
	if !ok {
		return "-"
	}
	return hx(b)
}

func b2s(b bool) string {
	if b {
		return "1"
	}
	return "0"
}

func sortedKeys(m map[string]int) []string {
	var ks []string
	for k := range m {
		ks = append(ks, k)
	}
	sort.Strings(ks)
	return ks
}

func itoa(i int) string { return fmt.Sprint(i) }

// Remember the input about to be delivered, so that a crash of the process can be attributed.
func (r *Run) lastInput(s string) {
	r.mu.Lock()
	r.recent = append(r.recent, s)
	if len(r.recent) > 8 {
		r.recent = r.recent[len(r.recent)-8:]
	}
	out := strings.Join(r.recent, "\n")
	r.mu.Unlock()
	os.WriteFile(filepath.Join(r.OutDir, "last-input.txt"), []byte(out), 0o644)
}
