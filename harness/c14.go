package main

// C14 — every query and traversal ends and cleans up after itself.
//
// Real servers over the in-memory Conn. Three families of scenarios:
//   1. Query fault placement, enumerated systematically (reply / cancel / Close during and after each
//      send, write failure on the i-th send, late and duplicate replies, pre-cancelled context, closed
//      server; NumTries 0..4; zero and non-zero resend delay) plus PRNG-drawn multi-fault schedules.
//      The observed event history of every run goes to the Lean query machine (`QRY run …`), which
//      must accept it; independent direct oracles judge the run itself.
//   2. Traversal owners (Bootstrap, Announce, getput.Get/Put) with failing / empty / silent / answering
//      starting nodes, cancellation, Close, StopTraversing, reading and non-reading consumers.
//   3. Goroutine accounting: every scenario is repeated (20x) and the number of goroutines with frames
//      of the module under test must return to where it was.

import (
	"bytes"
	"context"
	"crypto/sha1"
	"errors"
	"fmt"
	"math/rand"
	"net"
	"runtime"
	"sort"
	"strings"
	"sync"
	"sync/atomic"
	"time"

	dht "github.com/anacrolix/dht/v2"
	"github.com/anacrolix/dht/v2/bep44"
	"github.com/anacrolix/dht/v2/exts/getput"
	"github.com/anacrolix/dht/v2/krpc"
	"github.com/anacrolix/torrent/iplist"
)

func init() { commands["C14"] = runC14 }

const (
	c14Module       = "github.com/anacrolix/dht/v2"
	c14Deadline     = 5 * time.Second // generous bound for any single call to return
	c14Settle       = 3 * time.Second // bound for goroutines / transactions to drain
	msgF8           = "Bootstrap with failing starting nodes leaks a goroutine"
	msgF9           = "getput with failing starting nodes leaves traversal running"
	msgF11          = "Announce.Close with undrained Peers never finishes"
	c14FailWriteMsg = "injected write failure"
)

// ---------------------------------------------------------------------------------------------
// goroutine accounting

// Goroutines that have a frame (or their creator) in the module under test. The server's own read
// loop is excluded while counting scenario leaks; it is checked separately at the end.
func c14Goroutines() (n int, serveLoops int, dump []string) {
	buf := make([]byte, 1<<20)
	for {
		m := runtime.Stack(buf, true)
		if m < len(buf) {
			buf = buf[:m]
			break
		}
		buf = make([]byte, 2*len(buf))
	}
	for _, g := range strings.Split(string(buf), "\n\n") {
		if !strings.Contains(g, c14Module) {
			continue
		}
		if strings.Contains(g, "serveUntilClosed") {
			serveLoops++
			continue
		}
		n++
		dump = append(dump, c14Summarise(g))
	}
	return
}

// First line and the module frames of one goroutine block.
func c14Summarise(g string) string {
	lines := strings.Split(g, "\n")
	var keep []string
	for i, l := range lines {
		if i == 0 {
			// drop the goroutine number and wait time, keep the state
			if a := strings.Index(l, "["); a >= 0 {
				st := strings.TrimSuffix(l[a:], ":")
				if c := strings.Index(st, ","); c >= 0 {
					st = st[:c] + "]"
				}
				keep = append(keep, st)
			}
			continue
		}
		if strings.Contains(l, c14Module) && !strings.HasPrefix(l, "\t") {
			f := l
			if p := strings.LastIndex(f, "("); p > 0 && !strings.HasPrefix(f, "created by") {
				f = f[:p]
			}
			f = strings.Replace(f, c14Module, "dht", 1)
			if sp := strings.Index(f, " in goroutine"); sp > 0 {
				f = f[:sp]
			}
			keep = append(keep, f)
		}
	}
	return strings.Join(keep, " < ")
}

type c14Acct struct {
	floor  int           // module goroutines known to be stranded for good (reported already)
	stable time.Duration // give up early when the count has not moved for this long
	lateMu sync.Mutex
	late   []func() // caller-context cancels that run only after the goroutine accounting
}

// Wait for the module goroutine count to return to the floor; report what is left otherwise. Gives
// up at the deadline, or earlier when the set of goroutines has not changed for `stable` (every
// timer in the scenarios is far shorter than that).
func (a *c14Acct) settle() (extra int, dump []string) {
	deadline := time.Now().Add(c14Settle)
	last, lastChange := -1, time.Now()
	for {
		n, _, d := c14Goroutines()
		if n <= a.floor {
			return 0, nil
		}
		if n != last {
			last, lastChange = n, time.Now()
		}
		if time.Now().After(deadline) || time.Since(lastChange) > a.stable {
			extra = n - a.floor
			a.floor = n
			sort.Strings(d)
			return extra, d
		}
		time.Sleep(time.Millisecond)
	}
}

// ---------------------------------------------------------------------------------------------
// Conn wrapper that records the observable history

type c14Conn struct {
	*fakeConn
	mu       sync.Mutex
	log      []string
	attempts atomic.Int64
	returned func(k int, b []byte, addr net.Addr, err error)
}

func (c *c14Conn) ev(s string) {
	c.mu.Lock()
	c.log = append(c.log, s)
	c.mu.Unlock()
}

func (c *c14Conn) events() []string {
	c.mu.Lock()
	defer c.mu.Unlock()
	return append([]string{}, c.log...)
}

func (c *c14Conn) WriteTo(p []byte, addr net.Addr) (int, error) {
	k := int(c.attempts.Add(1))
	n, err := c.fakeConn.WriteTo(p, addr)
	if err != nil {
		c.ev("sendfail")
	} else {
		c.ev("send")
	}
	if f := c.returned; f != nil {
		f(k, p, addr, err)
	}
	return n, err
}

func c14NewConn(r *Run) *c14Conn {
	return &c14Conn{fakeConn: newFakeConn(&net.UDPAddr{IP: net.IP{203, 0, 113, byte(1 + r.rng.Intn(250))}, Port: 1024 + r.rng.Intn(60000)})}
}

func c14Config(conn *c14Conn, delay time.Duration) *dht.ServerConfig {
	cfg := baseConfig(conn.fakeConn)
	cfg.Conn = conn
	cfg.QueryResendDelay = func() time.Duration { return delay }
	return cfg
}

func c14ReplyFor(dg []byte, id [20]byte, extra ...interface{}) ([]byte, []byte, string, bool) {
	v, n, err := bdecode(dg)
	if err != nil || n != len(dg) || v.k != bDict {
		return nil, nil, "", false
	}
	t, ok := v.get("t").str()
	if !ok {
		return nil, nil, "", false
	}
	q, _ := v.get("q").str()
	rd := bD("id", bB(id[:]))
	for i := 0; i+1 < len(extra); i += 2 {
		rd.set(extra[i].(string), extra[i+1].(*bval))
	}
	return bD("t", bB(t), "y", bS("r"), "r", rd).enc(), t, string(q), true
}

// ---------------------------------------------------------------------------------------------
// Query scenarios

const (
	ptDuring = 0 // inside WriteTo of send k, before the datagram is recorded / the call returns
	ptWrote  = 1 // inside WriteTo of send k, after the datagram is recorded, before the call returns
	ptAfter  = 2 // asynchronously, once WriteTo of send k has returned
)

type qAct struct {
	K    int    // which write attempt (1-based)
	Mode int    // ptDuring | ptWrote | ptAfter
	What string // reply | reply2 | cancel | close | fail
}

type qSpec struct {
	Tries     int
	DelayMs   int
	Acts      []qAct
	PreCancel bool
	PreClose  bool
	LateReply bool
}

func (sp qSpec) String() string {
	s := fmt.Sprintf("tries=%d delay=%dms", sp.Tries, sp.DelayMs)
	if sp.PreCancel {
		s += " precancel"
	}
	if sp.PreClose {
		s += " preclose"
	}
	for _, a := range sp.Acts {
		s += fmt.Sprintf(" %s@%d/%s", a.What, a.K, []string{"during", "wrote", "after"}[a.Mode])
	}
	if sp.LateReply {
		s += " latereply"
	}
	return s
}

func (sp qSpec) has(what string) bool {
	for _, a := range sp.Acts {
		if a.What == what {
			return true
		}
	}
	return false
}

type qResult struct {
	events       []string
	outcome      string
	errText      string
	elapsed      time.Duration
	writesRet    int
	problems     []string
	tids         map[string]int
	afterCloseOK bool
}

func c14Classify(res dht.QueryResult) (string, string) {
	if res.Err == nil {
		if res.Reply.Y == "r" || res.Reply.Y == "e" {
			return "reply", ""
		}
		return "empty", ""
	}
	e := res.Err
	msg := e.Error()
	switch {
	case errors.Is(e, context.Canceled) || errors.Is(e, context.DeadlineExceeded):
		return "ctx", msg
	case errors.Is(e, dht.TransactionTimeout):
		return "timeout", msg
	case strings.Contains(msg, "server is closed"):
		return "closed", msg
	case strings.Contains(msg, "error writing") || strings.Contains(msg, c14FailWriteMsg):
		return "writeerr", msg
	}
	return "other", msg
}

func effTries(n int) int {
	if n == 0 {
		return 1 // checked against the model's regenerated default by `QRY tries 0`
	}
	return n
}

// Run one query under the given fault placement on a fresh server.
func (r *Run) c14Query(sp qSpec) (out qResult) {
	conn := c14NewConn(r)
	delay := time.Duration(sp.DelayMs) * time.Millisecond
	s, err := dht.NewServer(c14Config(conn, delay))
	if err != nil {
		out.problems = append(out.problems, "NewServer: "+err.Error())
		return
	}
	defer s.Close()
	remote := &net.UDPAddr{IP: net.IP{198, 51, 100, byte(1 + r.rng.Intn(250))}, Port: 1024 + r.rng.Intn(60000)}
	var rid [20]byte
	r.rng.Read(rid[:])
	ctx, cancel := context.WithCancel(context.Background())
	defer cancel()
	var wg sync.WaitGroup
	out.tids = map[string]int{}
	var tmu sync.Mutex
	var firstDg []byte
	closeOnce := sync.Once{}
	var closeCalled atomic.Bool
	doClose := func() {
		closeOnce.Do(func() {
			closeCalled.Store(true)
			conn.ev("closecall")
			s.Close()
			conn.ev("closeret")
		})
	}
	act := func(a qAct, dg []byte) error {
		switch a.What {
		case "reply", "reply2":
			rep, _, _, ok := c14ReplyFor(dg, rid)
			if !ok {
				out.problems = append(out.problems, "outbound datagram is not a KRPC dict")
				return nil
			}
			times := 1
			if a.What == "reply2" {
				times = 2
			}
			for i := 0; i < times; i++ {
				conn.ev("reply")
				conn.inject(rep, remote)
			}
			if a.Mode != ptAfter && !closeCalled.Load() && !sp.PreClose {
				// the reply is handled before this send completes
				waitFor(func() bool { return conn.drained() && s.Stats().OutstandingTransactions == 0 }, time.Second)
			}
		case "cancel":
			conn.ev("cancel")
			cancel()
		case "close":
			doClose()
		case "fail":
			return errors.New(c14FailWriteMsg)
		}
		return nil
	}
	var mainDone atomic.Bool
	note := func(b []byte) {
		tmu.Lock()
		defer tmu.Unlock()
		if mainDone.Load() {
			return
		}
		if firstDg == nil {
			firstDg = append([]byte{}, b...)
		} else if !bytes.Equal(firstDg, b) {
			out.problems = append(out.problems, "a resend differs from the first datagram")
		}
		if v, _, err := bdecode(b); err == nil {
			t, _ := v.get("t").str()
			out.tids[string(t)]++
		}
	}
	conn.failWrite = func(n int, b []byte, addr net.Addr) error {
		note(b)
		var ret error
		for _, a := range sp.Acts {
			if a.K == n && a.Mode == ptDuring {
				if e := act(a, b); e != nil {
					ret = e
				}
			}
		}
		return ret
	}
	conn.onWrite = func(w written) {
		for _, a := range sp.Acts {
			if a.K == w.Seq && a.Mode == ptWrote {
				act(a, w.B)
			}
		}
	}
	conn.returned = func(k int, b []byte, addr net.Addr, err error) {
		for _, a := range sp.Acts {
			if a.K == k && a.Mode == ptAfter {
				a, dg := a, append([]byte{}, b...)
				wg.Add(1)
				go func() { defer wg.Done(); act(a, dg) }()
			}
		}
	}
	if sp.PreCancel {
		conn.ev("cancel")
		cancel()
	}
	if sp.PreClose {
		s.Close()
	}
	type ret struct {
		res dht.QueryResult
		pan interface{}
	}
	done := make(chan ret, 1)
	start := time.Now()
	go func() {
		var x ret
		defer func() {
			x.pan = recover()
			done <- x
		}()
		x.res = s.Query(ctx, dht.NewAddr(remote), "ping", dht.QueryInput{NumTries: sp.Tries})
	}()
	var x ret
	select {
	case x = <-done:
	case <-time.After(c14Deadline):
		out.problems = append(out.problems, "Query did not return within "+c14Deadline.String())
		out.events = conn.events()
		out.outcome = "hang"
		return
	}
	out.elapsed = time.Since(start)
	mainDone.Store(true)
	if x.pan != nil {
		out.problems = append(out.problems, fmt.Sprint("Query panicked: ", x.pan))
		out.outcome = "panic"
		out.events = conn.events()
		return
	}
	out.outcome, out.errText = c14Classify(x.res)
	out.writesRet = int(x.res.Writes)
	evAtReturn := conn.events()
	wg.Wait()
	if sp.LateReply && firstDg != nil {
		if rep, _, _, ok := c14ReplyFor(firstDg, rid); ok {
			conn.ev("reply")
			conn.inject(rep, remote)
		}
	}
	// quiescence: everything queued has been read, no transaction is pending
	if !sp.PreClose && !closeCalled.Load() && !waitFor(func() bool { return conn.drained() }, c14Settle) {
		out.problems = append(out.problems, "injected datagrams were not read")
	}
	if !waitFor(func() bool { return s.Stats().OutstandingTransactions == 0 }, c14Settle) {
		out.problems = append(out.problems, fmt.Sprintf("OutstandingTransactions = %d at quiescence", s.Stats().OutstandingTransactions))
	}
	out.events = conn.events()
	// ---- direct oracles on this run ----
	n := effTries(sp.Tries)
	cnt := func(evs []string, what string) (c int) {
		for _, e := range evs {
			if e == what {
				c++
			}
		}
		return
	}
	sends, fails := cnt(out.events, "send"), cnt(out.events, "sendfail")
	if sends+fails > n {
		out.problems = append(out.problems, fmt.Sprintf("%d write attempts with NumTries %d", sends+fails, n))
	}
	if len(out.tids) > 1 {
		out.problems = append(out.problems, "datagrams of one query carry different transaction ids")
	}
	for _, c := range out.tids {
		if c > n {
			out.problems = append(out.problems, fmt.Sprintf("%d datagrams carry this query's t with NumTries %d", c, n))
		}
	}
	if out.writesRet != sends || cnt(evAtReturn, "send") != sends {
		out.problems = append(out.problems, fmt.Sprintf("QueryResult.Writes = %d but %d datagrams were written", out.writesRet, sends))
	}
	switch out.outcome {
	case "reply":
		if cnt(evAtReturn, "reply") == 0 {
			out.problems = append(out.problems, "Query returned a reply that was never sent")
		}
	case "ctx":
		if cnt(evAtReturn, "cancel") == 0 {
			out.problems = append(out.problems, "Query returned a context error but the context was not cancelled")
		}
	case "closed":
		if !sp.PreClose && cnt(evAtReturn, "closecall") == 0 {
			out.problems = append(out.problems, "Query reports a closed server but Close was not called")
		}
	case "writeerr":
		if cnt(evAtReturn, "sendfail") == 0 {
			out.problems = append(out.problems, "Query reports a write error but no write failed")
		}
	case "timeout":
		if cnt(evAtReturn, "send") != n {
			out.problems = append(out.problems, fmt.Sprintf("time-out after %d of %d sends", cnt(evAtReturn, "send"), n))
		}
		if out.elapsed < time.Duration(n)*delay {
			out.problems = append(out.problems, fmt.Sprintf("time-out before the last resend interval elapsed (%d x %v required)", n, delay))
		}
	default:
		out.problems = append(out.problems, "Query returned neither reply, context error, time-out nor send error: "+out.outcome+" "+out.errText)
	}
	if len(sp.Acts) == 0 && !sp.PreCancel && !sp.PreClose && out.outcome != "timeout" {
		out.problems = append(out.problems, "silent peer, no fault, yet the outcome is "+out.outcome)
	}
	if sp.PreClose {
		if out.outcome != "closed" && out.outcome != "ctx" {
			out.problems = append(out.problems, "query on a closed server returned "+out.outcome)
		}
		if sends+fails != 0 {
			out.problems = append(out.problems, "query on a closed server wrote to the socket")
		}
	}
	// ---- after Close: new queries fail without sending ----
	doCloseQuiet := func() { s.Close() }
	doCloseQuiet()
	before := conn.attempts.Load()
	pd := make(chan dht.QueryResult, 2)
	go func() { pd <- s.Ping(remote) }()
	go func() {
		pd <- s.Query(context.Background(), dht.NewAddr(remote), "find_node", dht.QueryInput{NumTries: 3})
	}()
	for i := 0; i < 2; i++ {
		select {
		case pr := <-pd:
			if pr.Err == nil {
				out.problems = append(out.problems, "query after Close returned no error")
			}
		case <-time.After(c14Deadline):
			out.problems = append(out.problems, "query after Close did not return")
		}
	}
	if conn.attempts.Load() != before {
		out.problems = append(out.problems, "query after Close wrote to the socket")
	}
	if !waitFor(func() bool { return s.Stats().OutstandingTransactions == 0 }, c14Settle) {
		out.problems = append(out.problems, "OutstandingTransactions != 0 after Close")
	}
	return
}

func c14Systematic(maxTries int, delays []int, thorough bool) (specs []qSpec) {
	for _, d := range delays {
		for n := 0; n <= maxTries; n++ {
			base := qSpec{Tries: n, DelayMs: d}
			add := func(mod func(*qSpec)) {
				sp := base
				sp.Acts = nil
				mod(&sp)
				specs = append(specs, sp)
			}
			add(func(sp *qSpec) {})
			add(func(sp *qSpec) { sp.PreCancel = true })
			add(func(sp *qSpec) { sp.PreClose = true })
			add(func(sp *qSpec) { sp.LateReply = true })
			for k := 1; k <= effTries(n); k++ {
				for _, what := range []string{"reply", "cancel", "close"} {
					for _, mode := range []int{ptDuring, ptWrote, ptAfter} {
						if mode == ptWrote && !thorough && what != "reply" {
							continue
						}
						k, what, mode := k, what, mode
						add(func(sp *qSpec) { sp.Acts = []qAct{{k, mode, what}} })
					}
				}
				k := k
				add(func(sp *qSpec) { sp.Acts = []qAct{{k, ptDuring, "fail"}} })
				add(func(sp *qSpec) { sp.Acts = []qAct{{k, ptAfter, "reply2"}} })
				// a reply racing a failed write; cancellation racing a reply; Close racing a reply;
				// cancellation during a failing write
				add(func(sp *qSpec) { sp.Acts = []qAct{{k, ptDuring, "reply"}, {k, ptDuring, "fail"}} })
				add(func(sp *qSpec) { sp.Acts = []qAct{{k, ptAfter, "cancel"}, {k, ptAfter, "reply"}} })
				add(func(sp *qSpec) { sp.Acts = []qAct{{k, ptAfter, "close"}, {k, ptAfter, "reply"}} })
				add(func(sp *qSpec) { sp.Acts = []qAct{{k, ptDuring, "cancel"}, {k, ptDuring, "fail"}} })
				if k < effTries(n) {
					add(func(sp *qSpec) { sp.Acts = []qAct{{k, ptAfter, "reply"}, {k + 1, ptDuring, "fail"}} })
					add(func(sp *qSpec) { sp.Acts = []qAct{{k, ptAfter, "close"}, {k + 1, ptDuring, "cancel"}} })
				}
			}
		}
	}
	return
}

func (r *Run) c14RandomSpec() qSpec {
	sp := qSpec{Tries: r.rng.Intn(5), DelayMs: []int{0, 0, 5, 9, 14}[r.rng.Intn(5)]}
	if r.thorough() && r.rng.Intn(4) == 0 {
		sp.Tries = 5 + r.rng.Intn(4)
	}
	sp.PreCancel = r.rng.Intn(12) == 0
	sp.PreClose = r.rng.Intn(12) == 0
	sp.LateReply = r.rng.Intn(4) == 0
	for i, na := 0, r.rng.Intn(4); i < na; i++ {
		what := []string{"reply", "reply", "reply2", "cancel", "close", "fail"}[r.rng.Intn(6)]
		a := qAct{K: 1 + r.rng.Intn(effTries(sp.Tries)), Mode: r.rng.Intn(3), What: what}
		if what == "fail" {
			a.Mode = ptDuring
		}
		sp.Acts = append(sp.Acts, a)
	}
	return sp
}

func (r *Run) c14QueryScenario(acct *c14Acct, sp qSpec, reps int, seenTrace map[string]bool) {
	if r.c14Full() {
		r.hist("skipped-after-20-violations")
		return
	}
	results := make([]qResult, reps)
	var wg sync.WaitGroup
	for i := 0; i < reps; i++ {
		wg.Add(1)
		i := i
		rr := &Run{rng: newSubRng(r), Tier: r.Tier}
		go func() {
			defer wg.Done()
			results[i] = rr.c14Query(sp)
		}()
	}
	wg.Wait()
	for _, res := range results {
		evs := "-"
		if len(res.events) > 0 {
			evs = strings.Join(res.events, ",")
		}
		key := fmt.Sprintf("%d %s %s %s", sp.Tries, b2s(sp.PreClose), evs, res.outcome)
		r.count(sp.String()+"|"+key, len(res.events) > 0)
		r.hist("query/outcome/" + res.outcome)
		for _, p := range res.problems {
			if !seenTrace["problem|"+sp.String()+"|"+p] {
				seenTrace["problem|"+sp.String()+"|"+p] = true
				r.violation("query: "+p, map[string]interface{}{"scenario": sp.String(), "spec": sp, "events": res.events, "outcome": res.outcome, "err": res.errText, "elapsed": res.elapsed.String()})
			}
		}
		if res.outcome == "hang" || res.outcome == "panic" || res.outcome == "other" || res.outcome == "" {
			continue
		}
		if !seenTrace[key] {
			seenTrace[key] = true
			// the history must be one the Lean machine can produce (pre-cancellation is part of the
			// event list: the context is cancelled before the first step)
			r.op(fmt.Sprintf("QRY run %d %s 0 %s %s", sp.Tries, b2s(sp.PreClose), evs, res.outcome), "accept")
			r.Result.TracesValidated++
			// negative controls, judged by rules that do not depend on the model
			n := effTries(sp.Tries)
			has := func(w string) bool { return strings.Contains(","+evs+",", ","+w+",") }
			if !has("reply") {
				r.op(fmt.Sprintf("QRY run %d %s 0 %s reply", sp.Tries, b2s(sp.PreClose), evs), "reject")
			}
			if !has("sendfail") {
				r.op(fmt.Sprintf("QRY run %d %s 0 %s writeerr", sp.Tries, b2s(sp.PreClose), evs), "reject")
			}
			if !has("cancel") {
				r.op(fmt.Sprintf("QRY run %d %s 0 %s ctx", sp.Tries, b2s(sp.PreClose), evs), "reject")
			}
			if !has("closecall") && !sp.PreClose {
				r.op(fmt.Sprintf("QRY run %d %s 0 %s closed", sp.Tries, b2s(sp.PreClose), evs), "reject")
			}
			r.op(fmt.Sprintf("QRY run %d 0 0 %s timeout", sp.Tries, strings.TrimSuffix(strings.Repeat("send,", n+1), ",")), "reject")
		}
	}
	if extra, dump := acct.settle(); extra > 0 {
		r.violation(fmt.Sprintf("query: %d goroutine(s) of the module left behind after %d runs", extra, reps),
			map[string]interface{}{"scenario": sp.String(), "goroutines": dump})
	}
}

// The violation list is capped; once it is full more scenarios add nothing and a broken
// implementation makes each of them wait for its deadlines.
// A node that has been up for long: between two queries to one address, the older still outstanding, it has
// issued more queries than there are two-byte (and, thorough tier, more than there are few-byte) transaction
// IDs. Every one of them returns in one of the three ways, and the two to the same address are told apart.
func (r *Run) c14LongUptime(acct *c14Acct) {
	if r.c14Full() {
		return
	}
	conn := c14NewConn(r)
	cfg := c14Config(conn, 10*time.Minute)
	s, err := dht.NewServer(cfg)
	if err != nil {
		r.violation("NewServer: "+err.Error(), nil)
		return
	}
	blocked := net.IP{198, 51, 100, 7}
	s.SetIPBlockList(iplist.New([]iplist.Range{{First: blocked, Last: blocked, Description: "c14"}}))
	x := &net.UDPAddr{IP: net.IP{192, 0, 2, 9}, Port: 6881}
	var rid [20]byte
	r.rng.Read(rid[:])
	type ret struct {
		res dht.QueryResult
		pan interface{}
	}
	ask := func(ctx context.Context, a *net.UDPAddr) chan ret {
		ch := make(chan ret, 1)
		go func() {
			var o ret
			defer func() { o.pan = recover(); ch <- o }()
			o.res = s.Query(ctx, dht.NewAddr(a), "ping", dht.QueryInput{NumTries: 1})
		}()
		return ch
	}
	rep := map[string]interface{}{"queries-between": 0}
	ctx1, cancel1 := context.WithCancel(context.Background())
	defer cancel1()
	first := ask(ctx1, x)
	if !waitFor(func() bool { return conn.numWrites() >= 1 }, 5*time.Second) {
		r.violation("query: nothing was sent", rep)
		s.Close()
		return
	}
	between := 65535
	if r.thorough() {
		between = 3*65536 - 1
	}
	rep["queries-between"] = between
	bad := 0
	for i := 0; i < between && bad == 0; i++ {
		var o ret
		func() {
			defer func() { o.pan = recover() }()
			o.res = s.Query(context.Background(), dht.NewAddr(&net.UDPAddr{IP: blocked, Port: 1 + i%60000}), "ping", dht.QueryInput{NumTries: 1})
		}()
		if o.pan != nil || o.res.Err == nil {
			bad++
			r.violation(fmt.Sprintf("query to a blocklisted address did not return an error (panic=%v)", o.pan), rep)
		}
		if i%4096 == 0 {
			progress.Add(1)
		}
	}
	second := ask(context.Background(), x)
	ok := waitFor(func() bool { return conn.numWrites() >= 2 }, 5*time.Second)
	var o2 ret
	select {
	case o2 = <-second:
		r.violation(fmt.Sprintf("second query to an address with an older query outstanding, %d queries later, ended at once: panic=%v err=%v", between, o2.pan, o2.res.Err), rep)
	default:
		if !ok {
			r.violation(fmt.Sprintf("second query to an address with an older query outstanding, %d queries later, was not sent and did not return", between), rep)
		} else {
			// answer the second one only: it completes, the first stays pending until its context ends
			ws := conn.writes()
			if b, _, _, k := c14ReplyFor(ws[len(ws)-1].B, rid); k {
				conn.inject(b, x)
			}
			select {
			case o2 = <-second:
				if o2.pan != nil || o2.res.Err != nil {
					r.violation(fmt.Sprintf("answered query did not return its reply: panic=%v err=%v", o2.pan, o2.res.Err), rep)
				}
			case <-time.After(5 * time.Second):
				r.violation("answered query did not return", rep)
			}
			select {
			case o1 := <-first:
				r.violation(fmt.Sprintf("a reply to a later query ended the older query to the same address: panic=%v err=%v", o1.pan, o1.res.Err), rep)
			default:
			}
		}
	}
	cancel1()
	select {
	case o1 := <-first:
		if o1.pan != nil || !errors.Is(o1.res.Err, context.Canceled) {
			r.violation(fmt.Sprintf("cancelled query did not return its context's error: panic=%v err=%v", o1.pan, o1.res.Err), rep)
		}
	case <-time.After(5 * time.Second):
		r.violation("cancelled query did not return", rep)
	}
	if msg := c14Call("Close", func() { s.Close() }); msg != "" {
		r.violation("long uptime: "+msg, rep)
	}
	if extra, dump := acct.settle(); extra > 0 {
		r.violation(fmt.Sprintf("long uptime: %d goroutine(s) of the module left behind", extra), map[string]interface{}{"goroutines": c14Dedup(dump)})
	}
	r.hist("query/long-uptime")
	r.count(fmt.Sprintf("long-uptime %d", between), true)
}

func (r *Run) c14Full() bool {
	r.mu.Lock()
	defer r.mu.Unlock()
	return len(r.Result.Violations) >= 20
}

func newSubRng(r *Run) *rand.Rand { return rand.New(rand.NewSource(r.rng.Int63())) }

// Goroutines that are inside (*Announce).getPeers but no longer inside the query: blocked delivering
// a response to Peers.
func c14BlockedDelivering() (n int) {
	buf := make([]byte, 1<<20)
	for {
		m := runtime.Stack(buf, true)
		if m < len(buf) {
			buf = buf[:m]
			break
		}
		buf = make([]byte, 2*len(buf))
	}
	for _, g := range strings.Split(string(buf), "\n\n") {
		if strings.Contains(g, "(*Announce).getPeers(") && !strings.Contains(g, "(*Server).Query(") {
			n++
		}
	}
	return
}

// ---------------------------------------------------------------------------------------------
// Simulated network for the traversal scenarios

type c14Node struct {
	addr   *net.UDPAddr
	id     [20]byte
	silent bool
	nodes  []*c14Node // returned in "nodes"
	values bool       // get_peers: return a peer
	item   []byte     // get: bencoded immutable value to return
}

type c14Net struct {
	conn    *c14Conn
	mu      sync.Mutex
	nodes   map[string]*c14Node
	onQuery func(q string, n int) // called for every outbound query (q, running count)
	onReply func(q string)        // called after a response has been queued
	count   int
	queries map[string]int
}

func c14Compact(nodes []*c14Node) []byte {
	var b []byte
	for _, n := range nodes {
		b = append(b, n.id[:]...)
		b = append(b, n.addr.IP.To4()...)
		b = append(b, byte(n.addr.Port>>8), byte(n.addr.Port))
	}
	return b
}

func (nw *c14Net) install() {
	nw.queries = map[string]int{}
	nw.conn.onWrite = func(w written) {
		v, _, err := bdecode(w.B)
		if err != nil {
			return
		}
		qb, _ := v.get("q").str()
		q := string(qb)
		nw.mu.Lock()
		nw.count++
		nw.queries[q]++
		cnt := nw.count
		node := nw.nodes[w.Addr.String()]
		nw.mu.Unlock()
		if f := nw.onQuery; f != nil {
			f(q, cnt)
		}
		if node == nil || node.silent {
			return
		}
		var extra []interface{}
		switch q {
		case "find_node":
			extra = append(extra, "nodes", bB(c14Compact(node.nodes)))
		case "get_peers":
			extra = append(extra, "nodes", bB(c14Compact(node.nodes)), "token", bS("tok-"+node.addr.String()))
			if node.values {
				extra = append(extra, "values", bL(bB([]byte{192, 0, 2, 7, 0x1a, 0xe1})))
			}
		case "get":
			extra = append(extra, "nodes", bB(c14Compact(node.nodes)), "token", bS("tok-"+node.addr.String()))
			if node.item != nil {
				iv, _, err := bdecode(node.item)
				if err == nil {
					extra = append(extra, "v", iv)
				}
			}
		}
		rep, _, _, ok := c14ReplyFor(w.B, node.id, extra...)
		if ok {
			nw.conn.inject(rep, node.addr)
			if f := nw.onReply; f != nil {
				f(q)
			}
		}
	}
}

func (r *Run) c14MkNode(silent bool) *c14Node {
	n := &c14Node{addr: &net.UDPAddr{IP: net.IP{198, 51, 100, byte(1 + r.rng.Intn(250))}, Port: 1024 + r.rng.Intn(60000)}, silent: silent}
	r.rng.Read(n.id[:])
	return n
}

// Topologies: "err" starting-node resolver fails, "none" no starting nodes, "silent" one silent node,
// "answer" one answering node that knows another answering node, "mixed" the same plus a silent one.
// The resend delay (= query time-out, NumTries being 1) is short where time-outs are part of the
// scenario and long where every node answers, so that a loaded machine does not turn answers into
// time-outs.
func c14Delay(topo string) time.Duration {
	switch topo {
	case "answer", "holders":
		return 250 * time.Millisecond
	case "mixed":
		return 20 * time.Millisecond
	}
	return 8 * time.Millisecond
}

type c14World struct {
	s    *dht.Server
	conn *c14Conn
	net  *c14Net
}

func (r *Run) c14World(topo string, item []byte) (*c14World, error) {
	delay := c14Delay(topo)
	conn := c14NewConn(r)
	nw := &c14Net{conn: conn, nodes: map[string]*c14Node{}}
	cfg := c14Config(conn, delay)
	var start []dht.Addr
	switch topo {
	case "err":
		cfg.StartingNodes = func() ([]dht.Addr, error) { return nil, errors.New("resolver unavailable") }
	case "none":
	case "silent":
		n := r.c14MkNode(true)
		nw.nodes[n.addr.String()] = n
		start = []dht.Addr{dht.NewAddr(n.addr)}
	case "holders":
		// several starting nodes all hold the item and know each other: their replies are in flight
		// at the same time (Alpha > 1), so more than one value is waiting to be delivered at once
		var hs []*c14Node
		for i := 0; i < 3+r.rng.Intn(4); i++ {
			h := r.c14MkNode(false)
			h.values, h.item = true, item
			hs = append(hs, h)
		}
		for _, h := range hs {
			h.nodes = hs
			nw.nodes[h.addr.String()] = h
			start = append(start, dht.NewAddr(h.addr))
		}
		if r.rng.Intn(2) == 0 {
			alias := &c14Node{addr: hs[0].addr}
			r.rng.Read(alias.id[:])
			for _, h := range hs {
				h.nodes = append(append([]*c14Node{}, hs...), alias)
			}
		}
	case "answer", "mixed":
		a, b, c := r.c14MkNode(false), r.c14MkNode(false), r.c14MkNode(true)
		a.nodes = []*c14Node{b}
		if topo == "mixed" {
			a.nodes = []*c14Node{b, c}
		}
		a.values, b.values = true, true
		a.item, b.item = item, item
		if r.rng.Intn(2) == 0 {
			// the reply lists b's address a second time under another ID (stale entry in the responder's table)
			alias := &c14Node{addr: b.addr}
			r.rng.Read(alias.id[:])
			a.nodes = append(a.nodes, alias)
		}
		for _, n := range []*c14Node{a, b, c} {
			nw.nodes[n.addr.String()] = n
		}
		start = []dht.Addr{dht.NewAddr(a.addr)}
	}
	if topo != "err" {
		cfg.StartingNodes = func() ([]dht.Addr, error) { return start, nil }
	}
	nw.install()
	s, err := dht.NewServer(cfg)
	if err != nil {
		return nil, err
	}
	return &c14World{s, conn, nw}, nil
}

// Run f (one traversal call on its own server) `reps` times concurrently; every call must return.
type tRun func(rr *Run) (problems []string, label string)

func (r *Run) c14Traversal(acct *c14Acct, name string, reps int, leakMsg string, f tRun) {
	if r.c14Full() && leakMsg == "" {
		r.hist("skipped-after-20-violations")
		return
	}
	tStart := time.Now()
	defer func() {
		if d := time.Since(tStart); d > 300*time.Millisecond {
			r.note(fmt.Sprintf("slow scenario %s: %v", name, d.Round(time.Millisecond)))
		}
	}()
	var wg sync.WaitGroup
	probs := make([][]string, reps)
	labels := make([]string, reps)
	for i := 0; i < reps; i++ {
		wg.Add(1)
		i := i
		rr := &Run{rng: newSubRng(r), Tier: r.Tier}
		go func() {
			defer wg.Done()
			defer func() {
				if p := recover(); p != nil {
					probs[i] = append(probs[i], fmt.Sprint("panic: ", p))
				}
			}()
			probs[i], labels[i] = f(rr)
		}()
	}
	wg.Wait()
	distinct := map[string]int{}
	for i := range probs {
		r.count(name+"|"+labels[i], true)
		r.hist("traversal/" + name + "/" + labels[i])
		for _, p := range probs[i] {
			distinct[p]++
		}
	}
	for _, p := range sortedKeys(distinct) {
		r.violation(p, map[string]interface{}{"scenario": name, "repeat": reps, "runs_affected": distinct[p]})
	}
	if extra, dump := acct.settle(); extra > 0 {
		msg := fmt.Sprintf("%s: %d goroutine(s) of the module left behind after %d runs", name, extra, reps)
		if leakMsg != "" {
			msg = fmt.Sprintf("%s (%s: %d goroutines stranded after %d runs)", leakMsg, name, extra, reps)
		}
		r.violation(msg, map[string]interface{}{"scenario": name, "repeat": reps, "goroutines": c14Dedup(dump)})
	}
	acct.runLate()
}

func (a *c14Acct) addLate(f func()) {
	a.lateMu.Lock()
	a.late = append(a.late, f)
	a.lateMu.Unlock()
}

func (a *c14Acct) runLate() {
	a.lateMu.Lock()
	l := a.late
	a.late = nil
	a.lateMu.Unlock()
	for _, f := range l {
		f()
	}
}

func c14Dedup(d []string) []string {
	m := map[string]int{}
	for _, s := range d {
		m[s]++
	}
	var out []string
	for s, c := range m {
		out = append(out, fmt.Sprintf("%dx %s", c, s))
	}
	sort.Strings(out)
	return out
}

// Wait for a call running in its own goroutine.
func c14Call(what string, f func()) (problem string) {
	done := make(chan interface{}, 1)
	go func() {
		defer func() { done <- recover() }()
		f()
	}()
	select {
	case p := <-done:
		if p != nil {
			return fmt.Sprintf("%s panicked: %v", what, p)
		}
		return ""
	case <-time.After(c14Deadline):
		return what + " did not return within " + c14Deadline.String()
	}
}

func c14Quiesce(w *c14World, what string) (problems []string) {
	if !waitFor(func() bool { return w.s.Stats().OutstandingTransactions == 0 }, c14Settle) {
		problems = append(problems, fmt.Sprintf("%s: OutstandingTransactions = %d afterwards", what, w.s.Stats().OutstandingTransactions))
	}
	w.s.Close()
	return
}

func (r *Run) c14Bootstrap(acct *c14Acct, reps int) {
	for _, topo := range []string{"silent", "answer", "mixed"} {
		for _, fault := range []string{"", "cancel", "close"} {
			if topo == "mixed" && fault != "" {
				continue
			}
			topo, fault := topo, fault
			name := "bootstrap/" + topo
			if fault != "" {
				name += "/" + fault
			}
			r.c14Traversal(acct, name, reps, "", func(rr *Run) (problems []string, label string) {
				w, err := rr.c14World(topo, nil)
				if err != nil {
					return []string{"NewServer: " + err.Error()}, "setup"
				}
				ctx, cancel := context.WithCancel(context.Background())
				defer cancel()
				var once sync.Once
				w.net.onQuery = func(q string, n int) {
					if n == 1 {
						once.Do(func() {
							switch fault {
							case "cancel":
								cancel()
							case "close":
								go w.s.Close()
							}
						})
					}
				}
				var berr error
				if p := c14Call("Bootstrap", func() { _, berr = w.s.BootstrapContext(ctx) }); p != "" {
					problems = append(problems, name+": "+p)
				}
				label = "ok"
				if berr != nil {
					label = "err"
					if fault == "" {
						problems = append(problems, name+": Bootstrap failed: "+berr.Error())
					}
				}
				problems = append(problems, c14Quiesce(w, name)...)
				return
			})
		}
	}
}

// Starting nodes cannot be had: the resolver fails ("err") or there are none ("none": the server
// itself reports "no initial nodes"). Bootstrap must fail and leave nothing behind.
func (r *Run) c14BootstrapErr(acct *c14Acct, reps int, topo string) {
	r.c14Traversal(acct, "bootstrap/"+topo, reps, msgF8, func(rr *Run) (problems []string, label string) {
		w, err := rr.c14World(topo, nil)
		if err != nil {
			return []string{"NewServer: " + err.Error()}, "setup"
		}
		var berr error
		if p := c14Call("Bootstrap", func() { _, berr = w.s.Bootstrap() }); p != "" {
			problems = append(problems, "bootstrap/"+topo+": "+p)
		}
		label = "err"
		if berr == nil {
			problems = append(problems, "bootstrap/"+topo+": Bootstrap reported success although there are no starting nodes")
			label = "ok"
		}
		problems = append(problems, c14Quiesce(w, "bootstrap/"+topo)...)
		return
	})
}

// Announce: when = "" (let it run), "close0" / "stop0" (right after the call), "close1" / "stop1"
// (after the first outbound query), "closeR" / "stopR" (after the first response was consumed),
// "srvclose1" (Server.Close after the first outbound query). reader: does the consumer read Peers.
func (r *Run) c14Announce(acct *c14Acct, reps int, topo, when string, reader, announcePeer bool, leakMsg string) {
	name := fmt.Sprintf("announce/%s/%s/reader=%v/port=%v", topo, when, reader, announcePeer)
	if when == "" {
		name = fmt.Sprintf("announce/%s/run/reader=%v/port=%v", topo, reader, announcePeer)
	}
	r.c14Traversal(acct, name, reps, leakMsg, func(rr *Run) (problems []string, label string) {
		w, err := rr.c14World(topo, nil)
		if err != nil {
			return []string{"NewServer: " + err.Error()}, "setup"
		}
		blockedBefore := 0
		if !reader && strings.HasSuffix(when, "R") {
			blockedBefore = c14BlockedDelivering()
		}
		firstQuery := make(chan struct{})
		firstReply := make(chan struct{})
		var qo, ro sync.Once
		w.net.onQuery = func(q string, n int) { qo.Do(func() { close(firstQuery) }) }
		w.net.onReply = func(q string) {
			if q == "get_peers" {
				ro.Do(func() { close(firstReply) })
			}
		}
		var ih [20]byte
		rr.rng.Read(ih[:])
		var a *dht.Announce
		var aerr error
		if p := c14Call("Announce", func() {
			if announcePeer {
				a, aerr = w.s.Announce(ih, 6881, false)
			} else {
				a, aerr = w.s.AnnounceTraversal(ih)
			}
		}); p != "" {
			return []string{name + ": " + p}, "hang"
		}
		if topo == "err" || topo == "none" {
			label = "err"
			if aerr == nil {
				problems = append(problems, name+": Announce reported success although the starting nodes could not be resolved")
				a.Close()
			}
			problems = append(problems, c14Quiesce(w, name)...)
			return
		}
		if aerr != nil {
			return []string{name + ": Announce failed: " + aerr.Error()}, "err"
		}
		got := make(chan int, 1)
		consumed := make(chan struct{})
		if reader {
			go func() {
				n := 0
				var co sync.Once
				for range a.Peers {
					n++
					co.Do(func() { close(consumed) })
				}
				got <- n
			}()
		}
		stop := func() {
			if strings.HasPrefix(when, "close") {
				a.Close()
			} else if strings.HasPrefix(when, "stop") {
				a.StopTraversing()
			} else if strings.HasPrefix(when, "srvclose") {
				w.s.Close()
			}
		}
		await := func(c chan struct{}) bool {
			select {
			case <-c:
				return true
			case <-time.After(c14Deadline):
				return false
			}
		}
		switch {
		case when == "":
		case strings.HasSuffix(when, "0"):
			stop()
		case strings.HasSuffix(when, "1"):
			if await(firstQuery) {
				stop()
			} else {
				problems = append(problems, name+": no query was sent")
			}
		case strings.HasSuffix(when, "R"):
			c := firstReply
			if reader {
				c = consumed
			}
			if await(c) && (reader || waitFor(func() bool { return c14BlockedDelivering() > blockedBefore }, c14Settle)) {
				stop()
			} else {
				// the scenario's precondition was not reached (the answer lost against the query
				// time-out): stop anyway, the termination oracles still apply
				label = "noresponse-"
				stop()
			}
		}
		finDeadline := c14Deadline
		if leakMsg != "" {
			finDeadline = time.Duration(rr.n(1000, 3000)) * time.Millisecond
		}
		select {
		case <-a.Finished():
			label += "finished"
		case <-time.After(finDeadline):
			label += "stuck"
			if leakMsg != "" {
				problems = append(problems, leakMsg+" ("+name+": Finished() has not fired "+finDeadline.String()+" after the stop)")
			} else {
				problems = append(problems, name+": Finished() never fired")
			}
		}
		if strings.HasSuffix(label, "finished") {
			// Peers must be closed once the announce has finished
			if reader {
				select {
				case <-got:
				case <-time.After(c14Deadline):
					problems = append(problems, name+": Peers was not closed after Finished()")
				}
			} else {
				select {
				case _, ok := <-a.Peers:
					if ok {
						problems = append(problems, name+": Peers delivered a value after Finished()")
					}
				case <-time.After(c14Deadline):
					problems = append(problems, name+": Peers was not closed after Finished()")
				}
			}
			problems = append(problems, c14Quiesce(w, name)...)
		} else {
			w.s.Close()
		}
		return
	})
}

func (r *Run) c14Getput(acct *c14Acct, reps int, put bool, topo, fault, leakMsg string) {
	opn := "get"
	if put {
		opn = "put"
	}
	name := "getput/" + opn + "/" + topo
	if fault != "" {
		name += "/" + fault
	}
	item := []byte("5:hello")
	target := sha1.Sum(item)
	r.c14Traversal(acct, name, reps, leakMsg, func(rr *Run) (problems []string, label string) {
		var it []byte
		if rr.rng.Intn(2) == 0 || put {
			it = item
		}
		w, err := rr.c14World(topo, it)
		if err != nil {
			return []string{"NewServer: " + err.Error()}, "setup"
		}
		ctx, cancel := context.WithCancel(context.Background())
		if fault == "" {
			// the caller's context outlives the call (an application-lifetime context): nothing of the
			// traversal may depend on it being cancelled afterwards. Released after the accounting.
			acct.addLate(cancel)
		} else {
			defer cancel()
		}
		var once sync.Once
		w.net.onQuery = func(q string, n int) {
			if n == 1 {
				once.Do(func() {
					switch fault {
					case "cancel":
						cancel()
					case "close":
						go w.s.Close()
					}
				})
			}
		}
		var gerr error
		var res getput.GetResult
		if p := c14Call("getput."+opn, func() {
			if put {
				_, gerr = getput.Put(ctx, krpc.ID(target), w.s, nil, func(seq int64) bep44.Put { return bep44.Put{V: "hello"} })
			} else {
				res, _, gerr = getput.Get(ctx, target, w.s, nil, nil)
			}
		}); p != "" {
			problems = append(problems, name+": "+p)
		}
		label = "ok"
		if gerr != nil {
			label = "err"
		}
		if (topo == "err" || topo == "none") && gerr == nil {
			problems = append(problems, name+": reported success although the starting nodes could not be resolved")
		}
		if !put && gerr == nil && !bytes.Equal(res.V, item) {
			problems = append(problems, name+": Get returned a value that was never served")
		}
		if !put && (topo == "answer" || topo == "holders") && fault == "" && it != nil && gerr != nil {
			problems = append(problems, name+": Get failed although a node served the value: "+gerr.Error())
		}
		if put && topo == "answer" && fault == "" && gerr == nil {
			w.net.mu.Lock()
			np := w.net.queries["put"]
			w.net.mu.Unlock()
			if np == 0 {
				problems = append(problems, name+": Put succeeded without sending a put query")
			}
		}
		problems = append(problems, c14Quiesce(w, name)...)
		return
	})
}

// ---------------------------------------------------------------------------------------------

func runC14(r *Run) {
	r.Result.Rule = "query fault placements enumerated (NumTries 0..4 x resend delay {0, small} x {silent, pre-cancelled, closed server, late reply, and per send k: reply/cancel/Close during, at and after the write, write failure, duplicate reply, reply racing a failed write, cancel racing a reply, Close racing a reply, faults on consecutive sends}) plus PRNG-drawn multi-fault schedules; a long-uptime history (65535 refused queries, thorough 3x65536, between two queries to one address, the older still outstanding); each placement repeated (20x) on fresh servers with goroutine accounting; every distinct observed history validated by the Lean query machine with model-independent negative controls; traversal owners (Bootstrap, Announce, getput.Get/Put) x {resolver error, no nodes, silent node, answering nodes, several simultaneous holders of the item; replies that list one address under two IDs} x {run, ctx cancel, Server.Close, Announce.Close/StopTraversing at three points, Close/StopTraversing during a slow node-filter look-up under the traversal lock} x {consumer reads, does not read}; non-trivial = distinct (scenario, observed history, outcome)"
	t0 := time.Now()
	acct := &c14Acct{stable: time.Duration(r.n(500, 1500)) * time.Millisecond}
	if extra, dump := acct.settle(); extra > 0 {
		r.note(fmt.Sprintf("module goroutines before the first scenario: %v", dump))
	}
	reps := 20
	// `QRY tries n`: a silent peer sees exactly the model's number of sends
	for _, n := range []int{0, 1, 3} {
		res := r.c14Query(qSpec{Tries: n, DelayMs: 0})
		c := 0
		for _, e := range res.events {
			if e == "send" {
				c++
			}
		}
		r.op(fmt.Sprintf("QRY tries %d", n), itoa(c))
	}
	seen := map[string]bool{}
	specs := c14Systematic(r.n(4, 6), map[bool][]int{false: {0, 7}, true: {0, 5, 20}}[r.thorough()], r.thorough())
	for i, sp := range specs {
		r.c14QueryScenario(acct, sp, reps, seen)
		if i < 2 {
			r.sample(map[string]interface{}{"scenario": sp.String()})
		}
	}
	for i := 0; i < r.n(60, 1500); i++ {
		sp := r.c14RandomSpec()
		r.c14QueryScenario(acct, sp, r.n(4, 8), seen)
		if i < 2 {
			r.sample(map[string]interface{}{"scenario": sp.String()})
		}
	}
	r.c14LongUptime(acct)
	tq := time.Since(t0)
	r.note(fmt.Sprintf("query scenarios: %d systematic x %d repeats, distinct histories validated by the model: %d", len(specs), reps, r.Result.TracesValidated))

	// ---- traversals ----
	r.c14Bootstrap(acct, reps)
	for _, put := range []bool{false, true} {
		for _, topo := range []string{"silent", "answer", "mixed", "holders"} {
			for _, fault := range []string{"", "cancel", "close"} {
				if (topo == "mixed" || topo == "holders") && fault != "" {
					continue
				}
				r.c14Getput(acct, reps, put, topo, fault, "")
			}
		}
	}
	for _, ap := range []bool{false, true} {
		r.c14Announce(acct, reps, "err", "", true, ap, "")
		for _, topo := range []string{"none", "silent", "answer"} {
			whens := []string{"", "close0", "stop0", "close1", "stop1", "srvclose1"}
			if topo == "answer" {
				whens = append(whens, "closeR", "stopR")
			}
			for _, when := range whens {
				if topo == "none" && strings.HasSuffix(when, "1") {
					continue
				}
				r.c14Announce(acct, reps, topo, when, true, ap, "")
			}
		}
		// consumer never reads: fine as long as no response needs delivering
		for _, when := range []string{"", "close0", "close1", "stop1"} {
			r.c14Announce(acct, reps, "silent", when, false, ap, "")
		}
		r.c14Announce(acct, reps, "none", "", false, ap, "")
		r.c14Announce(acct, reps, "mixed", "", true, ap, "")
	}
	// Close / StopTraversing issued while the traversal's node filter is inside a slow blocklist look-up under
	// the traversal lock (multi-P and single-P): the stop waiter must still see the last query end
	for i := 0; i < r.n(24, 240); i++ {
		r.c16CloseAtFilter(i)
	}
	if extra, dump := acct.settle(); extra > 0 {
		r.violation(fmt.Sprintf("stop during a slow node-filter look-up: %d goroutine(s) of the module left behind", extra), map[string]interface{}{"goroutines": c14Dedup(dump)})
	}
	// ---- scenarios that strand goroutines on the unchanged tree, last ----
	for _, topo := range []string{"err", "none"} {
		r.c14BootstrapErr(acct, reps, topo)
		r.c14Getput(acct, reps, false, topo, "", msgF9)
		r.c14Getput(acct, reps, true, topo, "", msgF9)
	}
	// F11: a response is waiting to be delivered, the consumer does not read, Close
	// (one at a time: the scenario waits until its own delivery is blocked)
	for i := 0; i < r.n(2, 6); i++ {
		r.c14Announce(acct, 1, "answer", []string{"closeR", "stopR"}[i%2], false, i%2 == 1, msgF11)
		if r.thorough() {
			r.c14Announce(acct, 1, "answer", []string{"stopR", "closeR"}[i%2], false, i%2 == 1, msgF11)
		}
	}
	r.note(fmt.Sprintf("wall: queries %v, traversals %v", tq.Round(time.Millisecond), (time.Since(t0) - tq).Round(time.Millisecond)))
	// every server has been closed: no read loop may be left
	ok := waitFor(func() bool { _, sl, _ := c14Goroutines(); return sl == 0 }, c14Settle)
	if !ok {
		_, sl, _ := c14Goroutines()
		r.violation(fmt.Sprintf("%d server read loops still running after Close", sl), nil)
	}
}
