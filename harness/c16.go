package main

// C16: announce traversals against a simulated network at the Conn boundary.

import (
	"bytes"
	"fmt"
	"math/rand"
	"net"
	"runtime"
	"sort"
	"strings"
	"sync"
	"sync/atomic"
	"time"

	dht "github.com/anacrolix/dht/v2"
)

func init() { commands["C16"] = runC16 }

type simNode struct {
	addr   *net.UDPAddr
	id     [20]byte
	mode   int // 0 token, 1 no token, 2 values+token, 3 error, 4 silent
	token  []byte
	nbrs   []*simNode
	asked  bool
	gotAnn []annObs
}

type annObs struct {
	dst     *net.UDPAddr
	token   []byte
	ih      []byte
	port    int64
	hasPort bool
	implied int64
}

func runC16(r *Run) {
	r.Result.Rule = "scenario = simulated network of 4..30 nodes answering get_peers with distinct tokens / without token / with values / with an error / not at all, replies released in PRNG order, now and then preceded by a response under the same transaction ID from another node's address (forged token and values); options crossed (port / implied port / no announce / scrape), consumer reading Peers or not, Close or StopTraversing at a random point or none; every announce_peer the server emits is decoded and compared with the token that very node issued; + Close/StopTraversing issued during a slow blocklist look-up made by the node filter under the traversal lock (multi-P and single-P); non-trivial = run in which at least one announce_peer is sent"
	n := r.n(100, 2500)
	for i := 0; i < n; i++ {
		r.c16Scenario(i)
	}
	for i := 0; i < r.n(40, 400); i++ {
		r.c16CloseAtFilter(i)
	}
}

// Close (or StopTraversing) issued at the moment the traversal consults the server's blocklist through
// its node filter, i.e. while the traversal holds its own lock and the last query is being merged; the
// look-up is slow (a large or remote list), so the stop waiter queues on the traversal lock. Whatever
// the hand-over order, the announce must finish and Peers must be closed. Half of the rounds run on a
// single P, which makes the lock hand-over deterministic.
func (r *Run) c16CloseAtFilter(i int) {
	rng := r.rng
	if i%2 == 1 {
		defer runtime.GOMAXPROCS(runtime.GOMAXPROCS(1))
	}
	conn := newFakeConn(nil)
	cfg := baseConfig(conn)
	cfg.QueryResendDelay = func() time.Duration { return 150 * time.Millisecond }
	bl := &rangeList{}
	cfg.IPBlocklist = bl
	s, err := dht.NewServer(cfg)
	if err != nil {
		panic(err)
	}
	defer s.Close()
	target := r.randID()
	seed := udp(net.IP{198, 51, 100, byte(1 + rng.Intn(200))}, 4000)
	seedID := r.structuredID(target)
	if seedID == ([20]byte{}) || seedID == s.ID() {
		seedID = r.randID()
	}
	var nbr4, nbr6 []byte
	slow := map[string]bool{}
	for j := 0; j < 1+rng.Intn(3); j++ {
		ip := net.IP{198, 51, 101, byte(1 + j)}
		slow[string(ip.To16())] = true
		nbr4 = append(nbr4, compactNode(r.structuredID(target), ip, 4100+j)...)
	}
	if rng.Intn(2) == 0 {
		ip := r.randIP(1)
		slow[string(net.IP(ip).To16())] = true
		nbr6 = compactNode(r.structuredID(target), ip, 4200)
	}
	conn.onWrite = func(w written) {
		d := parseDgram(w)
		if !d.ok || d.y != "q" || !sameUDP(w.Addr, seed) {
			return
		}
		rd := bD("id", bB(seedID[:]), "token", bS("tok"))
		if d.q == "get_peers" {
			rd.set("nodes", bB(nbr4))
			if nbr6 != nil {
				rd.set("nodes6", bB(nbr6))
			}
		}
		conn.inject(mkReply(string(d.t), rd).enc(), seed)
	}
	defer func() { conn.onWrite = nil }()
	s.AddNode(nodeInfo(seedID, seed))
	var ann atomic.Pointer[dht.Announce]
	var fired atomic.Bool
	useStop := rng.Intn(3) == 0
	dwell := time.Duration(1200+rng.Intn(1500)) * time.Microsecond
	probe := func(ip net.IP) {
		if !slow[string(ip.To16())] {
			return
		}
		if a := ann.Load(); a != nil && !fired.Swap(true) {
			go func() {
				if useStop {
					a.StopTraversing()
				} else {
					a.Close()
				}
			}()
		}
		time.Sleep(dwell) // the slow look-up, under the traversal's lock
	}
	bl.probe.Store(&probe)
	defer bl.probe.Store(nil)
	a, err := s.AnnounceTraversal(target, dht.AnnouncePeer(dht.AnnouncePeerOpts{Port: 6881}))
	if err != nil {
		r.violation("AnnounceTraversal failed with seeds present: "+err.Error(), nil)
		return
	}
	ann.Store(a)
	go func() {
		for range a.Peers {
		}
	}()
	what := map[bool]string{true: "StopTraversing", false: "Close"}[useStop]
	replay := map[string]interface{}{"target": hx(target[:]), "events": []string{
		fmt.Sprintf("seed %s answers get_peers with a token and %d+%d contacts", seed, len(nbr4)/26, len(nbr6)/38),
		fmt.Sprintf("%s() is called when the node filter first looks one of them up in the blocklist; each look-up takes %v", what, dwell),
		fmt.Sprintf("single P: %v", i%2 == 1)}}
	select {
	case <-a.Finished():
	case <-time.After(5 * time.Second):
		r.violation(fmt.Sprintf("announce never finishes (%s during a slow blocklist look-up under the traversal lock; fired=%v)", what, fired.Load()), replay)
		return
	}
	r.hist(fmt.Sprintf("close-at-filter/%s/fired=%v/singleP=%v", what, fired.Load(), i%2 == 1))
	r.count(fmt.Sprintf("caf/%d", i), fired.Load())
	r.Result.TracesValidated++
}

func (r *Run) c16Scenario(i int) {
	rng := r.rng
	conn := newFakeConn(nil)
	cfg := baseConfig(conn)
	// long enough that a reply injected within a millisecond never races the query's time-out, even on a loaded machine
	cfg.QueryResendDelay = func() time.Duration { return 150 * time.Millisecond }
	s, err := dht.NewServer(cfg)
	if err != nil {
		panic(err)
	}
	defer s.Close()
	target := r.randID()
	nn := 4 + rng.Intn(27)
	var nodes []*simNode
	byAddr := map[string]*simNode{}
	for j := 0; j < nn; j++ {
		sn := &simNode{addr: udp(r.randIP([]int{0, 0, 0, 1}[rng.Intn(4)]), 2000+j), id: r.structuredID(target), mode: []int{0, 0, 0, 0, 0, 0, 0, 0, 1, 1, 2, 2, 3, 3, 0, 4}[rng.Intn(16)]}
		if sn.id == ([20]byte{}) || sn.id == s.ID() {
			sn.id = r.randID()
		}
		sn.token = []byte(fmt.Sprintf("tok-%d-%d", i, j))
		if rng.Intn(10) == 0 && j > 0 {
			sn.id = nodes[rng.Intn(j)].id // duplicate ID
		}
		nodes = append(nodes, sn)
		byAddr[sn.addr.String()] = sn
	}
	for _, sn := range nodes {
		for j := 0; j < rng.Intn(6); j++ {
			sn.nbrs = append(sn.nbrs, nodes[rng.Intn(nn)])
		}
	}
	var events []string
	var mu sync.Mutex
	// private PRNG for the callbacks that run on the server's goroutines (they may outlive the
	// scenario; the shared one must only be used by the main goroutine)
	lrng := rand.New(rand.NewSource(rng.Int63()))
	ev := func(f string, a ...interface{}) {
		mu.Lock()
		events = append(events, fmt.Sprintf(f, a...))
		mu.Unlock()
	}
	viol := func(what string) {
		mu.Lock()
		e := append([]string{}, events...)
		mu.Unlock()
		r.violation(what, map[string]interface{}{"target": hx(target[:]), "events": e})
	}
	batch := i%2 == 1
	batchStart := time.Now()
	const batchEvery = 400 * time.Microsecond
	// the order in which the server processed get_peers responses
	var resps []string
	respCount := map[string]int{}
	var anns []annObs
	closedAnnounce := false
	var lateAny atomic.Bool
	conn.onWrite = func(w written) {
		d := parseDgram(w)
		if !d.ok || d.y != "q" {
			return
		}
		sn := byAddr[w.Addr.String()]
		if sn == nil {
			return
		}
		a := d.v.get("a")
		switch d.q {
		case "get_peers":
			mu.Lock()
			sn.asked = true
			mu.Unlock()
			var reply *bval
			switch sn.mode {
			case 4:
				return
			case 3:
				reply = mkError(string(d.t), 201, "no")
			default:
				rd := bD("id", bB(sn.id[:]))
				var n4, n6 []byte
				for _, nb := range sn.nbrs {
					if v4 := nb.addr.IP.To4(); v4 != nil {
						n4 = append(n4, compactNode(nb.id, v4, nb.addr.Port)...)
					} else {
						n6 = append(n6, compactNode(nb.id, nb.addr.IP, nb.addr.Port)...)
					}
				}
				if len(n4) > 0 {
					rd.set("nodes", bB(n4))
				}
				if len(n6) > 0 {
					rd.set("nodes6", bB(n6))
				}
				if sn.mode != 1 {
					rd.set("token", bB(sn.token))
				}
				if sn.mode == 2 {
					rd.set("values", bL(bB(compactAddr(net.IP{9, 9, 9, 9}, 99))))
				}
				reply = mkReply(string(d.t), rd)
			}
			if ih, _ := a.get("info_hash").str(); !bytes.Equal(ih, target[:]) {
				viol("get_peers query carries another info_hash")
			}
			raw := reply.enc()
			mu.Lock()
			delay := time.Duration(lrng.Intn(300)) * time.Microsecond
			if batch {
				// replies are released together, in batches: the responses to all queries in flight are
				// folded into the lookup at the same moment
				delay = time.Until(batchStart.Add((time.Since(batchStart)/batchEvery + 1) * batchEvery))
			}
			mu.Unlock()
			// now and then another node (multi-homed, or guessing its neighbours' sequential transaction IDs) sends a
			// response under this query's transaction ID from its own address, just ahead of the genuine answer
			var forged []byte
			var forger *simNode
			mu.Lock()
			if lrng.Intn(6) == 0 {
				if f := nodes[lrng.Intn(nn)]; f.addr.String() != sn.addr.String() {
					forger = f
					forged = mkReply(string(d.t), bD("id", bB(f.id[:]), "token", bB([]byte("forged-"+string(f.token))),
						"values", bL(bB(compactAddr(net.IP{8, 8, 4, 4}, 53))))).enc()
				}
			}
			mu.Unlock()
			go func() {
				time.Sleep(delay)
				if forged != nil {
					conn.inject(forged, forger.addr)
					conn.waitIdle(2 * time.Second)
				}
				if time.Since(w.At) > 100*time.Millisecond {
					// on a loaded machine the answer reaches the node close to (or after) the query's time-out: whether
					// it still counts is a matter of timing, not of the property
					lateAny.Store(true)
				}
				mu.Lock()
				if reply.get("r") != nil {
					tk := "-"
					if sn.mode != 1 {
						tk = hx(sn.token)
					}
					resps = append(resps, fmt.Sprintf("%s/%d/%s/%s", hx(sn.addr.IP), sn.addr.Port, hx(sn.id[:]), tk))
				}
				mu.Unlock()
				conn.inject(raw, sn.addr)
			}()
		case "announce_peer":
			o := annObs{dst: w.Addr}
			o.token, _ = a.get("token").str()
			o.ih, _ = a.get("info_hash").str()
			o.port, o.hasPort = a.get("port").int()
			o.implied, _ = a.get("implied_port").int()
			mu.Lock()
			anns = append(anns, o)
			mu.Unlock()
			conn.inject(mkReply(string(d.t), bD("id", bB(sn.id[:]))).enc(), sn.addr)
		}
	}
	// seeds
	for j := 0; j < 1+rng.Intn(4); j++ {
		sn := nodes[rng.Intn(nn)]
		s.AddNode(nodeInfo(sn.id, sn.addr))
	}
	port := 1 + rng.Intn(65535)
	implied := rng.Intn(3) == 0
	if implied && rng.Intn(3) == 0 {
		port = 0 // boundary of the option: no port configured, implied_port only (port 0 without implied_port means "do not announce")
	}
	doAnnounce := rng.Intn(5) != 0
	var opts []dht.AnnounceOpt
	if doAnnounce {
		opts = append(opts, dht.AnnouncePeer(dht.AnnouncePeerOpts{Port: port, ImpliedPort: implied}))
	}
	if rng.Intn(4) == 0 {
		opts = append(opts, dht.Scrape())
	}
	reading := rng.Intn(5) != 0
	closeMode := rng.Intn(4) // 0,1: let it finish; 2: Close; 3: StopTraversing
	closeDelay := time.Duration(rng.Intn(3000)) * time.Microsecond
	a, err := s.AnnounceTraversal(target, opts...)
	if err != nil {
		viol("AnnounceTraversal failed with seeds present: " + err.Error())
		return
	}
	delivered := map[string]int{}
	peersClosed := make(chan struct{})
	if reading {
		go func() {
			for pv := range a.Peers {
				mu.Lock()
				delivered[pv.NodeInfo.Addr.UDP().String()+"|"+hx(pv.NodeInfo.ID[:])]++
				mu.Unlock()
			}
			close(peersClosed)
		}()
	}
	if !reading && closeMode < 2 {
		closeMode = 2 // nobody reads: the announce must be closed by the consumer
	}
	if closeMode >= 2 {
		time.Sleep(closeDelay)
		if closeMode == 2 {
			a.Close()
			closedAnnounce = true
			ev("Close()")
		} else {
			a.StopTraversing()
			ev("StopTraversing()")
		}
	}
	select {
	case <-a.Finished():
	case <-time.After(8 * time.Second):
		viol(fmt.Sprintf("announce never finishes (reading=%v, closeMode=%d)", reading, closeMode))
		return
	}
	if reading {
		select {
		case <-peersClosed:
		case <-time.After(3 * time.Second):
			viol("Peers channel not closed after the announce finished")
		}
	} else {
		select {
		case _, ok := <-a.Peers:
			if ok {
				viol("value delivered on Peers after the announce finished")
			}
		case <-time.After(3 * time.Second):
			viol("Peers channel not closed after the announce finished")
		}
	}
	conn.waitIdle(3 * time.Second)
	time.Sleep(300 * time.Microsecond)
	// the oracles below run single-threaded and call viol (which takes mu): work on copies
	mu.Lock()
	anns = append([]annObs{}, anns...)
	resps = append([]string{}, resps...)
	deliveredCopy := map[string]int{}
	for k, v := range delivered {
		deliveredCopy[k] = v
	}
	delivered = deliveredCopy
	askedCopy := map[*simNode]bool{}
	for _, sn := range nodes {
		askedCopy[sn] = sn.asked
	}
	conn.onWrite = nil
	mu.Unlock()
	_ = respCount
	_ = askedCopy
	// ---- oracles on announce_peer ----
	type elig struct {
		sn *simNode
	}
	var eligible []*simNode
	for _, sn := range nodes {
		if sn.asked && (sn.mode == 0 || sn.mode == 2) {
			eligible = append(eligible, sn)
		}
	}
	seenDst := map[string]bool{}
	var outs []string
	for _, o := range anns {
		sn := byAddr[o.dst.String()]
		if sn == nil || !sn.asked {
			viol("announce_peer sent to a node that was never asked get_peers: " + o.dst.String())
			continue
		}
		if sn.mode != 0 && sn.mode != 2 {
			viol("announce_peer sent to a node that did not supply a token: " + o.dst.String())
			continue
		}
		if !bytes.Equal(o.token, sn.token) {
			viol(fmt.Sprintf("announce_peer to %s carries token %q, that node issued %q", o.dst, o.token, sn.token))
		}
		if !bytes.Equal(o.ih, target[:]) {
			viol("announce_peer carries another info_hash")
		}
		if implied {
			if o.implied != 1 {
				viol("announce_peer lacks implied_port although configured")
			}
			if !o.hasPort || int(o.port) != port {
				viol(fmt.Sprintf("announce_peer with implied_port does not carry the configured port argument (BEP 5 requires `port` in every announce_peer): hasPort=%v port=%d configured=%d", o.hasPort, o.port, port))
			}
		} else if !o.hasPort || int(o.port) != port || o.implied != 0 {
			viol(fmt.Sprintf("announce_peer port/implied_port differ from the configured ones: port=%d implied=%d want port=%d", o.port, o.implied, port))
		}
		if seenDst[o.dst.String()] {
			viol("two announce_peer queries to one node")
		}
		seenDst[o.dst.String()] = true
		outs = append(outs, fmt.Sprintf("%s/%d/%s", hx(o.dst.IP), o.dst.Port, hx(o.token)))
	}
	if !doAnnounce && len(anns) > 0 {
		viol("announce_peer sent although announcing was not requested")
	}
	if lateAny.Load() {
		r.hist("ambiguous-timing/answer-later-than-100ms")
	}
	if doAnnounce && closeMode < 2 && !lateAny.Load() {
		// ran to completion: exactly the K nearest token-bearing responders
		want := len(eligible)
		if want > 8 {
			want = 8
		}
		if len(anns) != want {
			viol(fmt.Sprintf("%d announce_peer queries, %d responders supplied a token (K=8)", len(anns), len(eligible)))
		}
		var far []byte
		for _, o := range anns {
			if sn := byAddr[o.dst.String()]; sn != nil {
				d := i160(sn.id).Distance(i160(target))
				if far == nil || bytes.Compare(d.Bytes(), far) > 0 {
					far = append([]byte{}, d.Bytes()...)
				}
			}
		}
		for _, sn := range eligible {
			d := i160(sn.id).Distance(i160(target))
			if !seenDst[sn.addr.String()] && far != nil && bytes.Compare(d.Bytes(), far) < 0 {
				viol("a token-bearing responder strictly closer than an announced node was not announced to")
			}
		}
		sort.Strings(outs)
		ra, oa := strings.Join(resps, ","), strings.Join(outs, ",")
		if ra == "" {
			ra = "-"
		}
		if oa == "" {
			oa = "-"
		}
		r.op(fmt.Sprintf("ANN check %s 8 %s %s", hx(target[:]), ra, oa), "ok")
	}
	_ = closedAnnounce
	// ---- delivery on Peers ----
	if reading {
		for k, c := range delivered {
			if c != 1 {
				viol(fmt.Sprintf("get_peers response from %s delivered %d times", k, c))
			}
		}
		if closeMode < 2 && !lateAny.Load() {
			for _, sn := range nodes {
				if sn.asked && sn.mode <= 2 {
					if delivered[sn.addr.String()+"|"+hx(sn.id[:])] != 1 {
						viol("get_peers response not delivered on Peers although the consumer kept reading: " + sn.addr.String())
					}
				}
			}
		}
	}
	r.hist(fmt.Sprintf("announces=%d", len(anns)))
	r.hist(fmt.Sprintf("mode/reading=%v,close=%d,announce=%v", reading, closeMode, doAnnounce))
	r.count(fmt.Sprintf("%x|%d|%d|%v|%v", target, nn, closeMode, reading, doAnnounce), len(anns) > 0)
	r.Result.TracesValidated++
	if i < 2 {
		r.sample(map[string]interface{}{"target": hx(target[:]), "nodes": nn, "responses": resps, "announces": outs})
	}
}
