package main

// C13 — BEP 44 versions only move forward: seq, CAS and expiry.
//
//  (1) sequential histories of puts / gets / expiry against the real bep44.Wrapper over
//      bep44.NewMemory() and against a real dht.Server at the Conn boundary (inbound `put`/`get`,
//      Server.Put), replayed op by op on the Lean model (B44 put / get / wget / advance);
//  (2) concurrent Wrapper.Put / Wrapper.Get (and Server.Put racing an inbound `put`) over a
//      bep44.Store that parks every call until a PRNG-driven scheduler releases it; the schedule
//      actually taken is validated by the Lean micro-step model (B44 sched).
// Direct oracles (independent of the model) are evaluated on what the implementation did.

import (
	"bytes"
	"crypto/sha1"
	"fmt"
	"math"
	"strconv"
	"strings"
	"sync"
	"time"

	"github.com/anacrolix/dht/v2/bep44"
	"github.com/anacrolix/torrent/bencode"
)

func init() { commands["C13"] = runC13 }

func bencodeMarshal(v interface{}) ([]byte, error) { return bencode.Marshal(v) }

const f6 = "CAS compared with stored cas instead of stored seq"
const f7put = "concurrent puts: lower seq overwrote higher seq"
const f7del = "concurrent get and put: expiring get deleted a fresh item"

// The property's rule for a put that meets a stored item, written from the property text.
// Returns the set of acceptable answers.
func c13Allowed(storedSeq int64, storedBv []byte, inSeq, inCas int64, inBv []byte) (allowed []string, class string) {
	same := bytes.Equal(storedBv, inBv)
	casBad := inCas != 0 && inCas != storedSeq
	switch {
	case inSeq == storedSeq && same:
		// refresh of the same version: nothing moves; with a wrong CAS either answer is tolerated
		if casBad {
			return []string{"ok", "err:301"}, "refresh+cas-mismatch"
		}
		return []string{"ok"}, "refresh"
	case inSeq < storedSeq || inSeq == storedSeq:
		if casBad {
			return []string{"err:301", "err:302"}, "lower+cas-mismatch"
		}
		if inSeq == storedSeq {
			return []string{"err:302"}, "equal-seq-different-value"
		}
		return []string{"err:302"}, "lower-seq"
	case casBad:
		return []string{"err:301"}, "higher+cas-mismatch"
	case inCas != 0:
		return []string{"ok"}, "higher+cas-match"
	default:
		return []string{"ok"}, "higher"
	}
}

func hashKey(s string) string {
	h := sha1.Sum([]byte(s))
	return hx(h[:])
}

func contains(xs []string, x string) bool {
	for _, y := range xs {
		if x == y {
			return true
		}
	}
	return false
}

// Judge one answer; returns a violation message or "".
func c13Judge(storedSeq, storedCas int64, storedBv []byte, inSeq, inCas int64, inBv []byte, got string) string {
	allowed, class := c13Allowed(storedSeq, storedBv, inSeq, inCas, inBv)
	if contains(allowed, got) {
		return ""
	}
	detail := fmt.Sprintf("stored seq %d cas %d, put seq %d cas %d (%s): answered %s, property requires %s",
		storedSeq, storedCas, inSeq, inCas, class, got, strings.Join(allowed, " or "))
	switch {
	case class == "higher+cas-mismatch" && got == "ok",
		(class == "higher+cas-match" || class == "higher") && got == "err:301":
		return f6 + ": " + detail
	}
	return "put answered against the seq/CAS rule: " + detail
}

var c13Extremes = []int64{math.MinInt64, math.MinInt64 + 1, -2, -1, 0, 1, 2, math.MaxInt64 - 1, math.MaxInt64}

func (r *Run) c13Seq(cur int64, have bool) int64 {
	if have {
		switch r.rng.Intn(10) {
		case 0, 1:
			return cur - 1
		case 2, 3:
			return cur
		case 4, 5, 6:
			return cur + 1
		case 7:
			return cur + 2
		}
	}
	if r.rng.Intn(4) == 0 {
		return c13Extremes[r.rng.Intn(len(c13Extremes))]
	}
	return int64(r.rng.Intn(7))
}

func (r *Run) c13Cas(curSeq, curCas int64, have bool) int64 {
	switch r.rng.Intn(10) {
	case 0, 1, 2:
		return 0
	case 3, 4:
		if have {
			return curSeq
		}
	case 5:
		if have {
			return curCas
		}
	case 6:
		if have {
			return curSeq + int64(r.rng.Intn(3)) - 1
		}
	case 7:
		return c13Extremes[r.rng.Intn(len(c13Extremes))]
	}
	return int64(r.rng.Intn(7))
}

// ---------------------------------------------------------------- CheckIncoming probe

func c13Probe(r *Run) {
	vals := [][]byte{[]byte("1:A"), []byte("i7e"), []byte("l1:xi1ee")}
	gv := []interface{}{"A", int64(7), []interface{}{"x", int64(1)}}
	n := r.n(4000, 60000)
	emit := func(sSeq, sCas int64, sv int, iSeq, iCas int64, iv int) {
		st := &bep44.Item{V: gv[sv], Seq: sSeq, Cas: sCas}
		in := &bep44.Item{V: gv[iv], Seq: iSeq, Cas: iCas}
		got := guard(func() string { return errCode(bep44.CheckIncoming(st, in)) })
		r.op(fmt.Sprintf("B44 ci %d %d %s %d %d %s", sSeq, sCas, hx(vals[sv]), iSeq, iCas, hx(vals[iv])), got)
		rep := map[string]interface{}{"call": "bep44.CheckIncoming", "stored": map[string]interface{}{"seq": sSeq, "cas": sCas, "v": string(vals[sv])},
			"incoming": map[string]interface{}{"seq": iSeq, "cas": iCas, "v": string(vals[iv])}, "answer": got}
		if strings.HasPrefix(got, "panic") {
			r.b44Violation("CheckIncoming panicked: "+got, rep)
		} else if v := c13Judge(sSeq, sCas, vals[sv], iSeq, iCas, vals[iv], got); v != "" {
			r.b44Violation(v, rep)
		}
		_, class := c13Allowed(sSeq, vals[sv], iSeq, iCas, vals[iv])
		r.hist("checkincoming/" + class + "/" + got)
		r.count(fmt.Sprintf("ci %d %d %d %d %d %d", sSeq, sCas, sv, iSeq, iCas, iv), true)
	}
	// the two confirmed witnesses first
	emit(5, 0, 0, 6, 3, 1)
	emit(5, 4, 0, 6, 5, 1)
	for i := 0; i < n; i++ {
		sSeq := r.c13Seq(0, false)
		sCas := r.c13Cas(0, 0, false)
		emit(sSeq, sCas, r.rng.Intn(3), r.c13Seq(sSeq, true), r.c13Cas(sSeq, sCas, true), r.rng.Intn(3))
	}
}

// ---------------------------------------------------------------- sequential histories

type c13Slot struct {
	salt      []byte
	present   bool // an item is in the store (by the implementation's own answers)
	cur       *b44Item
	putBefore time.Time
	putAfter  time.Time
	maxSeen   int64 // highest seq ever observed stored since the last time the slot was empty
	slept     bool  // a planned sleep past the expiry (= a model clock advance) happened since the last accepted put
}

type c13Hist struct {
	r     *Run
	kind  string // "wrapper" | "server"
	exp   time.Duration
	w     *bep44.Wrapper
	node  *b44Node
	log   []string
	slots []*c13Slot
	dead  bool
}

func (h *c13Hist) emit(op, impl string) {
	h.r.op(op, impl)
	h.log = append(h.log, op+" => "+impl)
}

func (h *c13Hist) violation(what string) {
	h.r.b44Violation(what, map[string]interface{}{"kind": h.kind, "exp_ns": h.exp.Nanoseconds(), "history": append([]string{}, h.log...)})
}

func c13Values() []*bval { return []*bval{bS("A"), bI(7), bL(bS("x"), bI(1))} }

func (h *c13Hist) put(sl *c13Slot, priv []byte, pub *[32]byte, it *b44Item) {
	r := h.r
	var path, got string
	before := time.Now()
	switch {
	case h.kind == "wrapper":
		path = "api"
		item := it.toItem()
		got = guard(func() string { return errCode(h.w.Put(item)) })
	case r.rng.Intn(3) == 0:
		path = "srv"
		got = guard(func() string { return h.node.apiPut(it) })
	default:
		path = "wire"
		got = h.node.put(it)
	}
	after := time.Now()
	h.emit(it.putOp(path), got)
	r.hist("seq-put/" + path + "/" + got)
	if got == "noreply" || got == "notoken" || strings.HasPrefix(got, "panic") || strings.HasPrefix(got, "goerr") {
		h.violation("put over " + path + " got no proper answer: " + got)
		h.dead = true
		return
	}
	if sl.present {
		if v := c13Judge(sl.cur.seq, sl.cur.cas, sl.cur.bv(), it.seq, it.cas, it.bv(), got); v != "" {
			h.violation(v)
		}
		_, class := c13Allowed(sl.cur.seq, sl.cur.bv(), it.seq, it.cas, it.bv())
		r.hist("seq-class/" + class)
	} else {
		r.hist("seq-class/first")
		if got != "ok" {
			h.violation("valid put to an empty slot was rejected: " + got)
		}
	}
	if got == "ok" {
		if sl.present && it.seq < sl.maxSeen {
			h.violation(fmt.Sprintf("stored sequence number decreased: %d after %d", it.seq, sl.maxSeen))
		}
		if !sl.present || it.seq > sl.maxSeen {
			sl.maxSeen = it.seq
		}
		sl.present, sl.cur, sl.putBefore, sl.putAfter = true, it, before, after
		sl.slept = false
	}
}

// fresh / expired / ambiguous by real time
func (h *c13Hist) age(sl *c13Slot, before, after time.Time) string {
	if after.Sub(sl.putBefore) < h.exp {
		return "fresh"
	}
	if before.Sub(sl.putAfter) >= h.exp {
		return "expired"
	}
	return "ambiguous"
}

func (h *c13Hist) get(sl *c13Slot, pub *[32]byte) {
	r := h.r
	t := specTarget(pub, sl.salt, nil)
	var got, op string
	var wg *wireGot
	var ask *int64
	before := time.Now()
	if h.kind == "wrapper" {
		op = "B44 wget " + hx(t[:])
		got = guard(func() string {
			i, err := h.w.Get(t)
			if err == bep44.ErrItemNotFound {
				return "notfound"
			}
			if err != nil {
				return errCode(err)
			}
			return itemDump(i, safeBv(i))
		})
	} else {
		if sl.present && r.rng.Intn(2) == 0 {
			a := sl.cur.seq + int64(r.rng.Intn(3)) - 1
			ask = &a
		} else if r.rng.Intn(4) == 0 {
			a := c13Extremes[r.rng.Intn(len(c13Extremes))]
			ask = &a
		}
		s := "-"
		if ask != nil {
			s = strconv.FormatInt(*ask, 10)
		}
		op = "B44 get " + hx(t[:]) + " " + s
		got, wg = h.node.get(t, ask)
	}
	after := time.Now()
	if sl.present {
		switch h.age(sl, before, after) {
		case "ambiguous":
			// the model clock cannot be chosen to agree for sure: abandon this history
			h.dead = true
			r.hist("unmodelled/ambiguous-timing")
			return
		case "expired":
			if !sl.slept {
				// expired by real time although the history never slept: the machine is slow, the model's
				// clock (advanced only by planned sleeps) still has the item. Not a judgement on the code.
				h.dead = true
				r.hist("unmodelled/ambiguous-timing")
				return
			}
			h.emit(op, got)
			r.hist("seq-get/expired/" + strings.Fields(got)[0])
			if got != "notfound" {
				h.violation("item older than the configured expiry was served: " + got)
			}
			sl.present = false
			return
		}
	}
	h.emit(op, got)
	r.hist("seq-get/" + strings.Fields(got)[0])
	if !sl.present {
		if got != "notfound" {
			h.violation("get returned an item that no accepted put stored: " + got)
		}
		return
	}
	c := sl.cur
	if h.kind == "wrapper" {
		want := "item " + optKeyHx(c.k) + " " + hx(c.salt) + " " + strconv.FormatInt(c.seq, 10) + " " + strconv.FormatInt(c.cas, 10) + " " + hx(c.bv()) + " " + hx(c.sig[:])
		if got != want {
			h.violation("get does not return the last accepted put: got " + got + " want " + want)
		}
		return
	}
	if wg == nil || !wg.found {
		h.violation("fresh accepted item is not served: " + got)
		return
	}
	if !wg.hasSeq || wg.seq != c.seq {
		h.violation(fmt.Sprintf("get reports seq %v, last accepted put has %d", wg.seq, c.seq))
	}
	wantV := ask == nil || c.seq > *ask
	if wantV {
		r.hist("seq-get/value-sent")
		if !wg.hasV || !bytes.Equal(wg.v, c.bv()) || wg.k == nil || *wg.k != *c.k || wg.sig != c.sig {
			h.violation("get does not return the last accepted put (v, k, sig): " + got)
		}
	} else {
		r.hist("seq-get/value-withheld")
		if wg.hasV {
			h.violation(fmt.Sprintf("get naming seq %d was sent the value although the stored seq %d is not newer", *ask, c.seq))
		}
	}
}

func c13History(r *Run, kind string, expiry bool) {
	h := &c13Hist{r: r, kind: kind, exp: time.Hour}
	if expiry {
		h.exp = 60 * time.Millisecond
	}
	if kind == "wrapper" {
		h.w = bep44.NewWrapper(bep44.NewMemory(), h.exp)
	} else {
		n, err := r.newB44Node(bep44.NewMemory(), h.exp)
		if err != nil {
			r.b44Violation("NewServer failed: "+err.Error(), nil)
			return
		}
		h.node = n
		defer n.close()
	}
	h.emit(fmt.Sprintf("B44 reset %d", h.exp.Nanoseconds()), "ok")
	priv, pub := r.b44Key()
	nSlots := 1 + r.rng.Intn(2)
	for i := 0; i < nSlots; i++ {
		sl := &c13Slot{}
		if i > 0 || r.rng.Intn(3) == 0 {
			sl.salt = make([]byte, 1+r.rng.Intn(8))
			r.rng.Read(sl.salt)
		}
		h.slots = append(h.slots, sl)
	}
	if nSlots == 2 && bytes.Equal(h.slots[0].salt, h.slots[1].salt) {
		h.slots = h.slots[:1]
	}
	vals := c13Values()
	nOps := 6 + r.rng.Intn(25)
	puts, sleeps := 0, 0
	for i := 0; i < nOps && !h.dead; i++ {
		sl := h.slots[r.rng.Intn(len(h.slots))]
		switch x := r.rng.Intn(10); {
		case x < 6:
			it := &b44Item{k: pub, salt: sl.salt, v: vals[r.rng.Intn(len(vals))]}
			var cs, cc int64
			if sl.present {
				cs, cc = sl.cur.seq, sl.cur.cas
			}
			it.seq = r.c13Seq(cs, sl.present)
			it.cas = r.c13Cas(cs, cc, sl.present)
			if sl.present && r.rng.Intn(5) == 0 {
				it.v = sl.cur.v // same value: refresh or equal value with other seq
			}
			it.sign(priv, it.salt, it.seq, it.bv())
			h.put(sl, priv, pub, it)
			puts++
		case x < 9 || !expiry:
			h.get(sl, pub)
		default:
			if sleeps < 2 {
				time.Sleep(h.exp + 5*time.Millisecond)
				h.emit(fmt.Sprintf("B44 advance %d", h.exp.Nanoseconds()), "ok")
				for _, sl := range h.slots {
					sl.slept = true
				}
				sleeps++
				r.hist("seq-sleep-past-expiry")
			}
		}
	}
	if !h.dead {
		for _, sl := range h.slots {
			h.get(sl, pub)
		}
	}
	r.count(kind+hashKey(strings.Join(h.log, ";")), puts >= 2)
	r.sample(map[string]interface{}{"kind": kind, "history": h.log})
}

// ---------------------------------------------------------------- concurrency

type c13Thread struct {
	put    *b44Item // nil: a Get
	api    bool     // server scenario: true = Server.Put, false = inbound put
	result string
}

type schedOutcome struct {
	steps       []storeCall
	interleaved bool
	graceHits   int
}

// Drive nThreads goroutines through the parking store. start(i) must launch thread i and call
// finished(i) when its operation has returned.
func c13Schedule(r *Run, ps *parkStore, nThreads int, start func(i int, reg func(), finished func())) (out schedOutcome, ok bool) {
	const (
		running = iota
		blocked // presumed waiting for a mutex: no event within the grace period
		parkedS
		finishedS
	)
	state := make([]int, nThreads)
	waiting := map[int]*parkReq{}
	fin := make(chan int, nThreads)
	ps.mu.Lock()
	ps.parking = true
	ps.tids = map[int64]int{}
	ps.mu.Unlock()
	defer func() {
		ps.mu.Lock()
		ps.parking = false
		ps.mu.Unlock()
	}()
	for i := 0; i < nThreads; i++ {
		i := i
		start(i, func() {
			ps.mu.Lock()
			ps.tids[goid()] = i
			ps.mu.Unlock()
		}, func() { fin <- i })
	}
	handle := func(req *parkReq) {
		waiting[req.tid] = req
		state[req.tid] = parkedS
	}
	firstCall := map[int]int{}
	lastCall := map[int]int{}
	deadline := time.Now().Add(10 * time.Second)
	for {
		// gather events until nobody is (known to be) on the move
		for {
			moving := false
			for _, s := range state {
				if s == running {
					moving = true
				}
			}
			if !moving {
				// drain without blocking
				drained := false
				for !drained {
					select {
					case req := <-ps.parked:
						handle(req)
					case i := <-fin:
						state[i] = finishedS
					default:
						drained = true
					}
				}
				break
			}
			select {
			case req := <-ps.parked:
				handle(req)
			case i := <-fin:
				state[i] = finishedS
			case <-time.After(2 * time.Millisecond):
				out.graceHits++
				for i, s := range state {
					if s == running {
						state[i] = blocked
					}
				}
			}
		}
		var cand []int
		all := true
		for i, s := range state {
			if s == parkedS {
				cand = append(cand, i)
			}
			if s != finishedS {
				all = false
			}
		}
		if all {
			return out, true
		}
		if len(cand) == 0 {
			// only blocked threads left: wait for one of them to move
			if time.Now().After(deadline) {
				return out, false
			}
			select {
			case req := <-ps.parked:
				handle(req)
			case i := <-fin:
				state[i] = finishedS
			case <-time.After(20 * time.Millisecond):
			}
			continue
		}
		pick := cand[r.rng.Intn(len(cand))]
		req := waiting[pick]
		delete(waiting, pick)
		state[pick] = running
		close(req.release)
		c := <-req.done
		idx := len(out.steps)
		out.steps = append(out.steps, c)
		if _, seen := firstCall[pick]; !seen {
			firstCall[pick] = idx
		}
		lastCall[pick] = idx
	}
}

func stepsInterleaved(steps []storeCall) bool {
	first, last := map[int]int{}, map[int]int{}
	for i, s := range steps {
		if _, ok := first[s.Tid]; !ok {
			first[s.Tid] = i
		}
		last[s.Tid] = i
	}
	for i, s := range steps {
		for t, f := range first {
			if t != s.Tid && f < i && i < last[t] {
				return true
			}
		}
	}
	return false
}

func stepTokens(steps []storeCall) string {
	var toks []string
	for _, s := range steps {
		switch s.Kind {
		case "g":
			if s.found {
				toks = append(toks, fmt.Sprintf("%d/g/%d/%s", s.Tid, s.seq, hx(s.bv)))
			} else {
				toks = append(toks, fmt.Sprintf("%d/g/n", s.Tid))
			}
		default:
			toks = append(toks, fmt.Sprintf("%d/%s", s.Tid, s.Kind))
		}
	}
	if len(toks) == 0 {
		return "-"
	}
	return strings.Join(toks, ",")
}

type c13ConcStats struct {
	interleavedSeen bool
	schedules       int
}

// One concurrent scenario. server=false: n Wrapper.Put/Get on one bep44.Wrapper. server=true:
// Server.Put calls racing one inbound `put`. expiring=true: the stored item is older than the
// expiry when the threads start, one thread is a Get.
func c13Concurrent(r *Run, server, expiring bool, stats *c13ConcStats) {
	exp := time.Hour
	if expiring {
		exp = 60 * time.Millisecond
	}
	ps := newParkStore()
	var w *bep44.Wrapper
	var node *b44Node
	if server {
		n, err := r.newB44Node(ps, exp)
		if err != nil {
			r.b44Violation("NewServer failed: "+err.Error(), nil)
			return
		}
		node = n
		defer n.close()
		if !n.ensureToken() {
			r.b44Violation("get for a token got no reply", nil)
			return
		}
	} else {
		w = bep44.NewWrapper(ps, exp)
	}
	var log []string
	emit := func(op, impl string) { r.op(op, impl); log = append(log, op+" => "+impl) }
	emit(fmt.Sprintf("B44 reset %d", exp.Nanoseconds()), "ok")
	priv, pub := r.b44Key()
	var salt []byte
	if r.rng.Intn(2) == 0 {
		salt = []byte{byte(r.rng.Intn(256))}
	}
	target := specTarget(pub, salt, nil)
	vals := c13Values()
	mk := func(seq, cas int64, v *bval) *b44Item {
		it := &b44Item{k: pub, salt: salt, v: v, seq: seq, cas: cas}
		it.sign(priv, salt, seq, it.bv())
		return it
	}
	// initial content
	base := int64(r.rng.Intn(5))
	if r.rng.Intn(6) == 0 {
		base = c13Extremes[r.rng.Intn(len(c13Extremes))]
	}
	var init *b44Item
	if expiring || r.rng.Intn(3) != 0 {
		init = mk(base, 0, vals[0])
		var got string
		if server {
			got = node.put(init)
			emit(init.putOp("wire"), got)
		} else {
			got = errCode(w.Put(init.toItem()))
			emit(init.putOp("api"), got)
		}
		if got != "ok" {
			r.b44Violation("initial put rejected: "+got, map[string]interface{}{"history": log})
			return
		}
	}
	if expiring {
		time.Sleep(exp + 5*time.Millisecond)
		emit(fmt.Sprintf("B44 advance %d", exp.Nanoseconds()), "ok")
	}
	phaseStart := time.Now()
	// threads
	nThreads := 2 + r.rng.Intn(2)
	threads := make([]*c13Thread, nThreads)
	for i := range threads {
		th := &c13Thread{}
		if (expiring && i == 0) || (!server && !expiring && r.rng.Intn(6) == 0) {
			// a Get
		} else {
			seq := base + int64(r.rng.Intn(4)) // base .. base+3 (wraps at the extremes, which is fine)
			var cas int64
			if r.rng.Intn(4) == 0 {
				cas = base
			}
			th.put = mk(seq, cas, vals[r.rng.Intn(len(vals))])
		}
		th.api = server && i > 0
		threads[i] = th
	}
	if server {
		// exactly one inbound put (thread 0): the server serialises inbound packets itself
		if threads[0].put == nil {
			threads[0].put = mk(base+1, 0, vals[1])
		}
		for _, th := range threads[1:] {
			if th.put == nil {
				th.put = mk(base+2, 0, vals[2])
			}
		}
		ps.wireTid = 0
	}
	for _, th := range threads {
		if th.put != nil {
			emit("B44 sig "+hx(th.put.sig[:])+" "+th.put.sigFor(), "ok")
		}
	}
	var wgrp sync.WaitGroup
	out, ok := c13Schedule(r, ps, nThreads, func(i int, reg func(), finished func()) {
		th := threads[i]
		wgrp.Add(1)
		go func() {
			defer wgrp.Done()
			defer finished()
			th.result = guard(func() string {
				switch {
				case th.put == nil:
					reg()
					it, err := w.Get(target)
					if err == bep44.ErrItemNotFound {
						return "notfound"
					}
					if err != nil {
						return errCode(err)
					}
					return fmt.Sprintf("item:%d/%s", it.Seq, hx(safeBv(it)))
				case !server:
					reg()
					return errCode(w.Put(th.put.toItem()))
				case th.api:
					reg()
					return node.apiPut(th.put)
				default:
					// inbound: the store calls happen on the server's own goroutine (thread 0)
					return node.put(th.put)
				}
			})
		}()
	})
	wgrp.Wait()
	phaseEnd := time.Now()
	stats.schedules++
	sched := map[string]interface{}{"server": server, "exp_ns": exp.Nanoseconds(), "history_before": log, "steps": out.steps}
	var tdesc []string
	var results []string
	for i, th := range threads {
		if th.put != nil {
			tdesc = append(tdesc, "put/"+th.put.slashed())
			sched[fmt.Sprintf("thread%d", i)] = map[string]interface{}{"op": "put", "api": th.api, "item": th.put.describe(), "result": th.result}
		} else {
			tdesc = append(tdesc, "get/"+hx(target[:]))
			sched[fmt.Sprintf("thread%d", i)] = map[string]interface{}{"op": "get", "result": th.result}
		}
		results = append(results, th.result)
	}
	if !ok {
		r.b44Violation("concurrent operations did not finish (deadlock under the parking store)", sched)
		return
	}
	for _, res := range results {
		if strings.HasPrefix(res, "panic") || res == "noreply" || strings.HasPrefix(res, "goerr") {
			r.b44Violation("concurrent operation failed: "+res, sched)
			return
		}
	}
	_ = phaseEnd
	inter := stepsInterleaved(out.steps)
	if inter {
		stats.interleavedSeen = true
		r.hist("sched/interleaved")
	} else {
		r.hist("sched/serial")
	}
	r.hist(fmt.Sprintf("sched/threads=%d/steps=%d", nThreads, len(out.steps)))
	// --- direct oracle on the store calls actually made ---
	where := " (Wrapper.Put x Wrapper.Put)"
	if server {
		where = " (Server.Put racing an inbound put)"
	}
	have := init != nil
	var curSeq int64
	var curFresh bool // the stored entry was written during this phase (so it is younger than exp)
	if have {
		curSeq = init.seq
		curFresh = !expiring
	}
	for _, s := range out.steps {
		switch s.Kind {
		case "p":
			if have && s.seq < curSeq {
				r.b44Violation(fmt.Sprintf("%s: store held seq %d, a concurrent Put then wrote seq %d%s", f7put, curSeq, s.seq, where), sched)
				r.hist("lost-update" + where)
			}
			have, curSeq, curFresh = true, s.seq, true
		case "d":
			if have && curFresh {
				r.b44Violation(fmt.Sprintf("%s: the item with seq %d had just been stored", f7del, curSeq), sched)
			}
			have = false
		}
	}
	// final state, read sequentially (parking is off again)
	var final, finalOp string
	if server {
		final, _ = node.get(target, nil)
		finalOp = "B44 get " + hx(target[:]) + " -"
	} else {
		final = guard(func() string {
			i, err := w.Get(target)
			if err == bep44.ErrItemNotFound {
				return "notfound"
			}
			if err != nil {
				return errCode(err)
			}
			return itemDump(i, safeBv(i))
		})
		finalOp = "B44 wget " + hx(target[:])
	}
	if time.Since(phaseStart) >= exp {
		// the model clock (one instant for the whole phase) cannot be trusted to agree: do not compare
		r.hist("unmodelled/ambiguous-timing")
		return
	}
	// --- the model validates the schedule and computes the final store ---
	emit("B44 sched "+strings.Join(tdesc, ",")+" "+stepTokens(out.steps)+" "+strings.Join(results, ","), "accept")
	r.Result.TracesValidated++
	emit(finalOp, final)
	// an accepted put with the highest seq must be what the final get returns
	var best *b44Item
	for i, th := range threads {
		if th.put != nil && results[i] == "ok" && (best == nil || th.put.seq > best.seq) {
			best = th.put
		}
	}
	if best != nil {
		if !strings.Contains(final, " "+strconv.FormatInt(best.seq, 10)+" ") {
			// already reported above through the store-call oracle when caused by a lost update; keep the
			// message family identical so that one finding has one name
			msg := f7put
			if final == "notfound" {
				msg = f7del
			}
			r.b44Violation(fmt.Sprintf("%s: put with seq %d was answered ok but the store finally holds: %s", msg, best.seq, final), sched)
		}
	}
	key := fmt.Sprintf("%v|%s|%s|%s", server, strings.Join(tdesc, ","), stepTokens(out.steps), strings.Join(results, ","))
	r.count(hashKey(key), len(out.steps) >= 3)
	if inter {
		r.sample(map[string]interface{}{"schedule": sched})
	}
}

func runC13(r *Run) {
	r.Result.Rule = "sequential: histories of 6-30 puts/gets (+ sleeps past a 60 ms expiry) on 1-2 salts of one key, seq and cas drawn relative to the stored item (-1, =, +1, +2), from 0..6 and from int64 extremes, equal and different values, through bep44.Wrapper and through a dht.Server (inbound put/get, Server.Put); " +
		"CheckIncoming probed directly on a grid; put histories through a dht.Server whose store's Get/Put fails with an ordinary Go error at PRNG-chosen calls (stored item must never move backwards); concurrency: 2-3 Wrapper.Put/Get (and Server.Put racing an inbound put) on one target over a store that parks every call, PRNG-chosen schedules, each validated by the Lean micro-step model; non-trivial = distinct history with >= 2 puts / distinct schedule with >= 3 store calls"
	c13Probe(r)
	for i := 0; i < r.n(300, 4000); i++ {
		c13History(r, "wrapper", false)
	}
	for i := 0; i < r.n(150, 2000); i++ {
		c13History(r, "server", false)
	}
	for i := 0; i < r.n(12, 120); i++ {
		c13History(r, "wrapper", true)
		c13History(r, "server", true)
	}
	stats := &c13ConcStats{}
	for i := 0; i < r.n(400, 6000); i++ {
		c13Concurrent(r, false, false, stats)
	}
	for i := 0; i < r.n(150, 2000); i++ {
		c13Concurrent(r, true, false, stats)
	}
	for i := 0; i < r.n(15, 150); i++ {
		c13Concurrent(r, false, true, stats)
	}
	r.faultyStoreStream("C13", r.n(60, 800))
	// T1 tie: does the source fact "Put/Get hold the wrapper mutex" agree with what could be observed?
	r.op("B44 lockfact", b2s(!stats.interleavedSeen))
	r.note(fmt.Sprintf("concurrent schedules run: %d; interleaving of two operations' store calls observed: %v", stats.schedules, stats.interleavedSeen))
}
