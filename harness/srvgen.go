package main

import (
	"context"
	"fmt"
	"net"
	"time"

	dht "github.com/anacrolix/dht/v2"
	"github.com/anacrolix/dht/v2/krpc"
)

// Generators and per-property profiles for the server-boundary engine.

func (sc *srvScen) tokIdx(at int64) int64 { return at / (300 * 1e9) }

func ip16hex(ip net.IP) string { return hx(ip.To16()) }

// Is tok currently valid for ip by the harness's own bookkeeping of what the server issued?
func (sc *srvScen) tokenValid(ip net.IP, tok []byte) bool {
	for _, t := range sc.tokens[ip16hex(ip)] {
		if string(t.tok) == string(tok) && sc.tokIdx(t.at) >= sc.tokIdx(sc.now)-2 && sc.tokIdx(t.at) <= sc.tokIdx(sc.now) {
			return true
		}
	}
	return false
}

func (sc *srvScen) gated(src *net.UDPAddr, size int) bool {
	return size >= 65536 || src.Port == 0 || sc.isBlocked(src.IP)
}

// The harness's own reading of C08/C10/C19: must this query be answered?
func (sc *srvScen) mustAnswer(src *net.UDPAddr, q *qspec, size int) bool {
	if sc.gated(src, size) || sc.o.passive || (sc.o.hook && sc.veto) || q.y != "q" {
		return false
	}
	if (q.q == "announce_peer" || q.q == "put") && q.hasA {
		return sc.tokenValid(src.IP, q.token)
	}
	return true
}

// Send q, record any token the reply hands out, keep the announce bookkeeping.
func (sc *srvScen) send(src *net.UDPAddr, q *qspec) inResult {
	raw := q.bval().enc()
	must := sc.mustAnswer(src, q, len(raw))
	putErr, getSpec := "ok", "nf"
	res := sc.inject(src, raw, "m", q, must, "ok", "nf")
	_ = putErr
	_ = getSpec
	if res.obs.hasTok {
		sc.tokens[ip16hex(src.IP)] = append(sc.tokens[ip16hex(src.IP)], tokIssue{res.obs.token, sc.now})
	}
	return res
}

var methods = []string{"ping", "find_node", "get_peers", "announce_peer", "get", "put"}

func (sc *srvScen) randT() []byte {
	r := sc.r.rng
	n := []int{0, 1, 2, 2, 2, 4, 8, 20, 40}[r.Intn(9)]
	if r.Intn(40) == 0 {
		n = []int{1400, 2047, 2048, 2500, 9000, 30000}[r.Intn(6)] // "any length": also longer than a typical MTU
	}
	t := make([]byte, n)
	r.Read(t)
	if n > 0 && r.Intn(4) == 0 {
		t[0] = []byte{0, 'e', ':', 'd', 0xff, '1'}[r.Intn(6)]
	}
	return t
}

func (sc *srvScen) randWant() []string {
	switch sc.r.rng.Intn(7) {
	case 0:
		return []string{"n4"}
	case 1:
		return []string{"n6"}
	case 2:
		return []string{"n4", "n6"}
	case 3:
		return []string{"n6", "n4", "x"}
	case 4:
		return []string{"zz"}
	default:
		return nil
	}
}

// A query of the given method with plausible arguments.
func (sc *srvScen) mkQuery(method string, id [20]byte, target [20]byte) *qspec {
	r := sc.r.rng
	q := &qspec{y: "q", q: method, t: sc.randT(), hasA: true, id: id, explicitZero: r.Intn(4) == 0}
	switch method {
	case "find_node":
		q.target = &target
		if r.Intn(3) == 0 {
			x := sc.r.randID()
			q.ih = &x // decoy: must be ignored
		}
		q.want = sc.randWant()
	case "get_peers":
		q.ih = &target
		if r.Intn(3) == 0 {
			x := sc.r.randID()
			q.target = &x
		}
		q.want = sc.randWant()
	case "get":
		q.target = &target
		q.want = sc.randWant()
		if r.Intn(3) == 0 {
			s := int64(r.Intn(5))
			q.seq = &s
		}
	case "announce_peer":
		q.ih = &target
		p := int64(1 + r.Intn(65535))
		if r.Intn(5) != 0 {
			q.port = &p
		}
		q.implied = r.Intn(3) == 0
	case "put":
		q.hasV = true
		q.v = []byte(fmt.Sprintf("value-%d", r.Intn(1000)))
		s := int64(r.Intn(5))
		if r.Intn(6) != 0 {
			q.seq = &s
		}
	}
	return q
}

// Obtain a token for src through a real get_peers (needs a peer store) or get reply.
func (sc *srvScen) fetchToken(src *net.UDPAddr, id [20]byte) []byte {
	method := "get"
	if sc.o.peerStore && sc.r.rng.Intn(2) == 0 {
		method = "get_peers"
	}
	res := sc.send(src, sc.mkQuery(method, id, sc.r.randID()))
	if res.obs.hasTok {
		return res.obs.token
	}
	return nil
}

func mutateToken(r *Run, tok []byte) []byte {
	t := append([]byte{}, tok...)
	switch r.rng.Intn(5) {
	case 0:
		if len(t) > 0 {
			t[r.rng.Intn(len(t))] ^= 1 << uint(r.rng.Intn(8))
		}
	case 1:
		if len(t) > 0 {
			t = t[:len(t)-1]
		}
	case 2:
		t = append(t, byte(r.rng.Intn(256)))
	case 3:
		t = nil
	default:
		r.rng.Read(t)
	}
	return t
}

// ---- profile: mixed queries (C08, C19 base) ----

func (sc *srvScen) mixedQueries(n int) {
	r := sc.r.rng
	ids := [][20]byte{sc.r.randID(), sc.r.randID(), sc.root, {}}
	for i := 0; i < n && !sc.dead; i++ {
		kind := []int{0, 0, 0, 1, 2}[r.Intn(5)]
		src := sc.freshSrc(kind)
		if r.Intn(40) == 0 {
			src.Port = 0
		}
		id := ids[r.Intn(len(ids))]
		if r.Intn(3) == 0 {
			id = sc.r.randID()
		}
		sc.veto = sc.o.hook && r.Intn(3) == 0
		var q *qspec
		switch k := r.Intn(20); {
		case k < 12:
			q = sc.mkQuery(methods[r.Intn(len(methods))], id, sc.r.structuredID(sc.root))
			if q.q == "announce_peer" || q.q == "put" {
				// mostly with a genuine token so the handler body runs
				if r.Intn(4) != 0 {
					if tok := sc.fetchToken(src, id); tok != nil {
						q.token, q.hasTok = tok, true
						if r.Intn(5) == 0 {
							q.token = mutateToken(sc.r, tok)
						}
					}
				} else if r.Intn(2) == 0 {
					q.token, q.hasTok = []byte("bogus"), true
				}
			}
		case k < 14: // unknown method
			q = sc.mkQuery([]string{"sample_infohashes", "vote", "", "PING", "ping\x00"}[r.Intn(5)], id, sc.r.randID())
			q.hasA = r.Intn(3) != 0
		case k < 17: // no args dict
			q = &qspec{y: "q", q: methods[r.Intn(len(methods))], t: sc.randT()}
		case k < 18: // read-only sender
			q = sc.mkQuery(methods[r.Intn(3)], id, sc.r.randID())
			q.ro = true
		default: // not a query at all
			x := sc.r.randID()
			q = &qspec{y: []string{"r", "e", "x", ""}[r.Intn(4)], t: sc.randT(), rid: &x}
			if r.Intn(2) == 0 {
				q.q = "ping"
			}
		}
		if q.y == "q" && r.Intn(12) == 0 && src.Port != 0 && !sc.isBlocked(src.IP) {
			sc.crossingQuery(src, q)
		} else {
			sc.send(src, q)
		}
		sc.r.hist("query/" + q.y + "/" + q.q)
		sc.r.count(fmt.Sprintf("%s|%s|%x|%v|%v|%d", q.y, q.q, q.t, q.hasA, q.ro, len(src.IP)), true)
	}
	sc.veto = false
}

// The node has a query of its own outstanding to src when src's query arrives, and src happens to use
// the very transaction ID the node used (IDs are small counters on both sides): it is still a query
// and must be answered like any other; it is not the response the node is waiting for.
func (sc *srvScen) crossingQuery(src *net.UDPAddr, q *qspec) {
	w0 := sc.conn.numWrites()
	done := make(chan dht.QueryResult, 1)
	ctx, cancel := context.WithCancel(context.Background())
	go func() { done <- sc.s.Query(ctx, dht.NewAddr(src), "ping", dht.QueryInput{NumTries: 1}) }()
	var d dgram
	if !waitFor(func() bool {
		for _, w := range sc.conn.writes()[w0:] {
			if sameUDP(w.Addr, src) {
				if x := parseDgram(w); x.ok && x.y == "q" {
					d = x
					return true
				}
			}
		}
		return false
	}, 5*time.Second) {
		cancel()
		<-done
		return
	}
	sc.op(fmt.Sprintf("SRV reg %s %s", addrOp(src), hx(d.t)), "ok")
	sc.ev("the node has a ping outstanding to %s with t=%x; a query with the same t arrives from there", src, d.t)
	q.t = append([]byte{}, d.t...)
	sc.send(src, q)
	select {
	case res := <-done:
		if res.Err == nil {
			sc.viol("C07", "query completed by a datagram that is not a response")
		}
	case <-time.After(300 * time.Microsecond):
	}
	cancel()
	select {
	case <-done:
	case <-time.After(5 * time.Second):
		sc.viol("C14", "cancelled query did not return")
	}
	sc.op(fmt.Sprintf("SRV done %s %s", addrOp(src), hx(d.t)), "ok")
	sc.r.hist("query/crossing-same-tid")
}

// ---- profile: table histories (C05, C06) ----

// IDs that land in bucket b of this server.
func (sc *srvScen) idInBucket(b int) [20]byte { return sc.r.idWithPrefix(sc.root, b) }

func (sc *srvScen) tableHistory(n int) {
	r := sc.r.rng
	type known struct {
		id   [20]byte
		addr *net.UDPAddr
	}
	var pool []known
	buckets := []int{0, 0, 0, 1, 1, 2, 3, 5, 8, 159}
	for i := 0; i < n && !sc.dead; i++ {
		b := buckets[r.Intn(len(buckets))]
		id := sc.idInBucket(b)
		switch r.Intn(12) {
		case 0:
			id = sc.root
		case 1:
			id = [20]byte{}
		}
		addr := sc.freshSrc([]int{0, 0, 1, 2}[r.Intn(4)])
		if !sc.o.noSecurity && r.Intn(2) == 0 {
			// enforcement on: addresses from the exempt ranges and from ranges that merely look private (IPv6
			// unique-local, CGNAT, ...), IDs valid for the address half of the time
			addr = udp(sc.r.c17IP(), addr.Port)
			if r.Intn(2) == 0 {
				kid := krpc.ID(id)
				dht.SecureNodeId(&kid, addr.IP)
				id = kid
			}
			sc.r.hist("table-event/enforced/special-range-or-secured-id")
		}
		if len(pool) > 0 && r.Intn(4) == 0 {
			k := pool[r.Intn(len(pool))]
			switch r.Intn(4) {
			case 3:
				// same contact, other representation of its IPv4 address (4-byte vs 16-byte mapped)
				id, addr = k.id, k.addr
				if v4 := k.addr.IP.To4(); v4 != nil {
					if len(k.addr.IP) == 4 {
						addr = udp(v4.To16(), k.addr.Port)
					} else {
						addr = udp(v4, k.addr.Port)
					}
				}
			case 0:
				id, addr = k.id, k.addr // same contact again
			case 1:
				addr = k.addr // same address, other ID
			default:
				id = k.id // same ID, other address
			}
		}
		switch k := r.Intn(20); {
		case k < 8: // inbound query
			q := sc.mkQuery([]string{"ping", "find_node"}[r.Intn(2)], id, sc.r.randID())
			q.ro = r.Intn(8) == 0
			sc.send(addr, q)
			sc.r.hist("table-event/query")
		case k < 14: // answer to our own query
			sc.respondingNode(addr, id, r.Intn(10) == 0)
			sc.r.hist("table-event/response")
		case k < 15: // unsolicited / mismatched response
			if r.Intn(3) == 0 && id != sc.root && id != ([20]byte{}) {
				sc.failedWriteThenReply(addr, id)
			} else {
				q := &qspec{y: "r", t: sc.randT(), rid: &id}
				sc.send(addr, q)
				sc.r.hist("table-event/unsolicited-response")
			}
		case k < 17:
			if r.Intn(6) == 0 && id != sc.root && id != ([20]byte{}) {
				sc.blockedMidQuery(addr, id)
				sc.r.hist("table-event/blocked-mid-query")
			} else {
				sc.addNode(addr, id)
				sc.r.hist("table-event/AddNode")
			}
		case k < 18:
			if len(pool) > 0 {
				kk := pool[r.Intn(len(pool))]
				if r.Intn(2) == 0 {
					sc.failPing(kk.addr, kk.id)
					sc.r.hist("table-event/ping-timeout")
					if r.Intn(2) == 0 {
						// ... and later the same contact answers another query of ours: it is alive again
						sc.respondingNode(kk.addr, kk.id, false)
						sc.r.hist("table-event/response-after-ping-timeout")
					}
				} else {
					// the questionable-node ping is answered: under the pinged ID, another ID, the node's own or the zero ID
					rid := kk.id
					switch r.Intn(6) {
					case 0, 1:
						rid = sc.idInBucket(buckets[r.Intn(len(buckets))])
					case 2:
						rid = sc.root
					case 3:
						rid = [20]byte{}
					}
					sc.respondingNodeVia(kk.addr, rid, false, &kk.id)
					sc.checkTable(sc.s.VerifTableSnapshot())
					sc.r.hist(fmt.Sprintf("table-event/ping-answered/same-id=%v", rid == kk.id))
				}
			}
		default:
			sc.advance([]time.Duration{time.Minute, 5 * time.Minute, 10 * time.Minute, 14 * time.Minute, 16 * time.Minute, 20 * time.Minute}[r.Intn(6)])
			sc.r.hist("table-event/advance")
		}
		pool = append(pool, known{id, addr})
		if i%10 == 9 {
			sc.emitTable()
		}
	}
	sc.emitTable()
	t := sc.s.VerifTableSnapshot()
	per := map[int]int{}
	full := 0
	for _, nd := range t.Nodes {
		per[nd.Bucket]++
		if per[nd.Bucket] == t.K {
			full++
		}
	}
	sc.r.hist(fmt.Sprintf("final-table/full-buckets=%d", full))
	sc.r.count(fmt.Sprint(sc.events), full > 0)
}

// ---- profile: node lists in replies (C09) ----

func (sc *srvScen) nodeListQueries(n int) {
	r := sc.r.rng
	// populate: good (answered), questionable (aged), never-responded, bad
	buckets := []int{0, 0, 0, 0, 1, 1, 1, 2, 2, 3, 4, 6, 10}
	var ids [][20]byte
	type knownC struct {
		id   [20]byte
		addr *net.UDPAddr
	}
	var answeredOnce []knownC
	for i := 0; i < 30+r.Intn(30) && !sc.dead; i++ {
		id := sc.idInBucket(buckets[r.Intn(len(buckets))])
		addr := sc.freshSrc([]int{0, 0, 1, 2}[r.Intn(4)])
		ids = append(ids, id)
		switch r.Intn(6) {
		case 0:
			sc.send(addr, sc.mkQuery("ping", id, id)) // never responded
			if r.Intn(2) == 0 {
				// ... and it sends a response nobody asked for (any transaction ID): still has not answered a query of ours
				sc.send(addr, &qspec{y: "r", t: sc.randT(), rid: &id})
				sc.r.hist("populate/unsolicited-response-from-known-contact")
			}
		default:
			sc.respondingNode(addr, id, false)
			answeredOnce = append(answeredOnce, knownC{id, addr})
			if r.Intn(6) == 0 {
				sc.failPing(addr, id) // bad
				sc.failedSince[hx(id[:])+"@"+dht.NewAddr(addr).String()] = true
				if r.Intn(2) == 0 {
					// a bad contact sends us a query: it can send, which says nothing about it being reachable
					sc.send(addr, sc.mkQuery([]string{"ping", "find_node"}[r.Intn(2)], id, sc.r.randID()))
					sc.r.hist("populate/query-from-contact-that-failed-its-ping")
				}
			}
		}
		if r.Intn(8) == 0 && len(answeredOnce) > 0 {
			// a known contact comes back from the same address under another ID (it restarted), and answers us
			k := answeredOnce[r.Intn(len(answeredOnce))]
			nid := sc.idInBucket(buckets[r.Intn(len(buckets))])
			sc.send(k.addr, sc.mkQuery("ping", nid, nid))
			sc.respondingNode(k.addr, nid, false)
			ids = append(ids, nid)
			sc.r.hist("populate/known-address-returns-under-another-id")
		}
		if r.Intn(15) == 0 {
			sc.advance([]time.Duration{10 * time.Minute, 16 * time.Minute}[r.Intn(2)])
			// after the pause some old contacts answer again (they are good again; their buckets did not change)
			for j := 0; j < 3 && len(answeredOnce) > 0; j++ {
				k := answeredOnce[r.Intn(len(answeredOnce))]
				sc.respondingNode(k.addr, k.id, false)
				delete(sc.failedSince, hx(k.id[:])+"@"+dht.NewAddr(k.addr).String())
				sc.r.hist("populate/old-contact-answers-again-after-a-pause")
			}
		}
	}
	sc.emitTable()
	// infohashes for which peers of one address family only are stored: a requester that cannot use them
	// still gets the closest contacts
	var oneFamily [][20]byte
	if sc.ps != nil {
		for f := 0; f < 2 && !sc.dead; f++ {
			ih := sc.idInBucket(buckets[r.Intn(len(buckets))])
			for j := 0; j < 1+r.Intn(3); j++ {
				src, id := sc.freshSrc([]int{0, 1}[f]), sc.r.randID()
				q := sc.mkQuery("announce_peer", id, ih)
				q.ro = true
				tok := sc.fetchToken(src, id)
				q.token, q.hasTok = tok, tok != nil
				p := int64(6881)
				q.port, q.implied = &p, false
				sc.send(src, q)
			}
			oneFamily = append(oneFamily, ih)
		}
	}
	for i := 0; i < n && !sc.dead; i++ {
		var target [20]byte
		switch r.Intn(6) {
		case 0:
			target = sc.root
			if len(oneFamily) > 0 {
				target = oneFamily[r.Intn(len(oneFamily))]
			}
		case 1:
			target = ids[r.Intn(len(ids))]
		default:
			target = sc.idInBucket(buckets[r.Intn(len(buckets))])
		}
		src := sc.freshSrc([]int{0, 1, 2}[r.Intn(3)])
		q := sc.mkQuery([]string{"find_node", "get_peers", "get"}[r.Intn(3)], sc.r.randID(), target)
		q.ro = true // keep the table fixed while sampling replies
		res := sc.send(src, q)
		if len(res.obs.values) == 0 {
			sc.oracleNodeLists(src, q, target, res.obs)
		} else {
			sc.r.hist("nodes-reply/with-values")
		}
		sc.r.hist(fmt.Sprintf("nodes-reply/n4=%d,n6=%d", len(res.obs.nodes), len(res.obs.nodes6)))
		sc.r.count(fmt.Sprintf("%s|%x|%v|%d", q.q, target, q.want, len(src.IP)), len(res.obs.nodes)+len(res.obs.nodes6) > 0)
	}
}

// C09 stated directly on the snapshot.
func (sc *srvScen) oracleNodeLists(src *net.UDPAddr, q *qspec, target [20]byte, o obsOut) {
	if o.kind != "rep" {
		return
	}
	t := sc.s.VerifTableSnapshot()
	want4, want6 := src.IP.To4() != nil, src.IP.To4() == nil
	if len(q.want) > 0 {
		want4, want6 = false, false
		for _, w := range q.want {
			if w == "n4" {
				want4 = true
			}
			if w == "n6" {
				want6 = true
			}
		}
	}
	start := 159
	if target != t.Root {
		start = commonPrefixLen(t.Root, target)
	}
	check := func(es [][]byte, iplen int, want bool, v4 bool, name string) {
		if len(es) > 0 && !want {
			sc.viol("C09", name+" sent to a requester that does not want that family")
		}
		if len(es) > 8 {
			sc.viol("C09", name+" lists more than K=8 contacts")
		}
		seen := map[string]bool{}
		minBucket := 1000
		chosen := map[string]bool{}
		for _, e := range es {
			ref := nodeRef(e, iplen)
			if seen[ref] {
				sc.viol("C09", name+" lists a contact twice")
			}
			seen[ref] = true
			var id [20]byte
			copy(id[:], e[:20])
			ip := net.IP(e[20 : 20+iplen])
			if (ip.To4() != nil) != v4 {
				sc.viol("C09", name+" holds a contact of the other address family")
			}
			if id == t.Root {
				sc.viol("C09", "reply lists the responder itself")
			}
			var found *int
			for i, n := range t.Nodes {
				ua, _ := net.ResolveUDPAddr("udp", n.Addr)
				if n.Id == id && ua.IP.Equal(ip) && ua.Port == int(uint16(e[20+iplen])<<8|uint16(e[21+iplen])) {
					found = &i
				}
			}
			if found == nil {
				sc.viol("C09", "reply lists a contact that is not in the routing table")
				continue
			}
			n := t.Nodes[*found]
			n.Bucket = commonPrefixLen(t.Root, n.Id) // where its ID puts it, whatever the table believes
			chosen[hx(n.Id[:])+"@"+n.Addr] = true
			if !n.Good {
				sc.viol("C09", "reply lists a contact that is not currently good")
			}
			if !n.HasResponse {
				sc.viol("C09", "reply lists a contact that never answered a query")
			}
			if sc.failedSince[hx(n.Id[:])+"@"+n.Addr] {
				sc.viol("C09", "reply lists a contact that failed its last ping and has not answered any query since: "+hx(n.Id[:4])+"@"+n.Addr)
			}
			if !sc.answered[hx(n.Id[:])+"@"+n.Addr] {
				// judged from what the harness really did, not from the table's own flag
				sc.viol("C09", "reply lists a contact that has not answered any of the node's own queries: "+hx(n.Id[:4])+"@"+n.Addr)
			}
			if n.Bucket > start {
				sc.viol("C09", "reply lists a contact from a bucket nearer than the target's (target field ignored?)")
			}
			if n.Bucket < minBucket {
				minBucket = n.Bucket
			}
		}
		if !want {
			return
		}
		// bucket priority and exhaustion
		elig := 0
		for _, n := range t.Nodes {
			ua, _ := net.ResolveUDPAddr("udp", n.Addr)
			n.Bucket = commonPrefixLen(t.Root, n.Id)
			if !n.Good || n.Bucket > start || (ua.IP.To4() != nil) != v4 {
				continue
			}
			elig++
			if !chosen[hx(n.Id[:])+"@"+n.Addr] && n.Bucket > minBucket && len(es) > 0 {
				sc.viol("C09", name+" includes a contact from a farther bucket while omitting a good one from a nearer bucket")
			}
		}
		wantN := elig
		if wantN > 8 {
			wantN = 8
		}
		if len(es) != wantN {
			sc.viol("C09", fmt.Sprintf("%s holds %d contacts, %d eligible at or beyond the target's bucket", name, len(es), elig))
		}
	}
	check(o.nodes, 4, want4, true, "nodes")
	check(o.nodes6, 16, want6, false, "nodes6")
}
