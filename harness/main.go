// Harness: runs the real anacrolix/dht code in-process on generated inputs and writes, per
// property, the op stream for the Lean driver (ops.txt), the implementation's answers
// (impl.txt) and the direct property oracle's findings (result.json).
package main

import (
	"bytes"
	"encoding/json"
	"fmt"
	"os"
	"os/exec"
	"path/filepath"
	"runtime/pprof"
	"strings"
	"time"
)

var commands = map[string]func(*Run){}

// Properties whose inputs can take the whole process down (a panic in a server goroutine cannot
// be recovered): the work runs in a child process; if it dies, the parent reports the crash with
// the last datagram delivered as the replay.
// Every property's stream runs in a child process: a panic or a runtime-detected deadlock in the code under test is
// then reported as a violation (with the inputs recorded last and the trace) instead of killing the harness.
var isolated = map[string]bool{"C01": true, "C02": true, "C03": true, "C04": true, "C05": true, "C06": true, "C07": true, "C08": true, "C09": true, "C10": true,
	"C11": true, "C12": true, "C13": true, "C14": true, "C15": true, "C16": true, "C17": true, "C18": true, "C19": true, "C20": true}

func main() {
	if len(os.Args) < 2 {
		fmt.Fprintln(os.Stderr, "usage: harness <property> [-seed N] [-tier quick|thorough] [-out DIR]")
		os.Exit(2)
	}
	cmd, ok := commands[os.Args[1]]
	if !ok {
		fmt.Fprintf(os.Stderr, "unknown property %q\n", os.Args[1])
		os.Exit(2)
	}
	if isolated[os.Args[1]] && os.Getenv("VERIF_CHILD") == "" {
		runIsolated()
		return
	}
	r := newRun(os.Args[1], os.Args[2:])
	go watchdog(r)
	cmd(r)
	r.finish()
}

// The code under test can spin or block for ever inside a call the harness makes directly (a container operation, a
// codec call, an API call): when the stream makes no progress at all for a long time the child reports where every
// goroutine is and exits, which the parent turns into a violation with the inputs recorded last.
func watchdog(r *Run) {
	limit := 240 * time.Second
	if r.thorough() {
		limit = 900 * time.Second
	}
	last, since := progress.Load(), time.Now()
	for {
		time.Sleep(5 * time.Second)
		if p := progress.Load(); p != last {
			last, since = p, time.Now()
			continue
		}
		if time.Since(since) > limit {
			fmt.Fprintf(os.Stderr, "no progress for %v: the code under test does not return (spinning or blocked)\n\n", limit)
			pprof.Lookup("goroutine").WriteTo(os.Stderr, 1)
			os.Exit(3)
		}
	}
}

func runIsolated() {
	r := newRun(os.Args[1], os.Args[2:])
	r.opsF.Close()
	r.implF.Close()
	c := exec.Command(os.Args[0], os.Args[1:]...)
	c.Env = append(os.Environ(), "VERIF_CHILD=1")
	var stderr bytes.Buffer
	c.Stderr = &stderr
	c.Stdout = os.Stdout
	err := c.Run()
	if err == nil {
		return
	}
	// the child died: synthesize the result
	last, _ := os.ReadFile(filepath.Join(r.OutDir, "last-input.txt"))
	msg := stderr.String()
	head := msg
	if i := strings.Index(msg, "\n\n"); i > 0 {
		head = msg[:i]
	}
	if len(head) > 600 {
		head = head[:600]
	}
	what := "process crashed: " + strings.TrimSpace(head)
	res := Result{Property: r.Prop, Seed: r.Seed, Tier: r.Tier, Evaluations: 1, DistinctNontrivial: 1,
		Rule: "child process died", Samples: []interface{}{string(last)}, Histogram: map[string]int{},
		Violations: []Violation{{What: what, Replay: map[string]string{"last_datagram": string(last), "stderr_tail": tail(msg, 3000)}}}}
	b, _ := json.MarshalIndent(res, "", " ")
	os.WriteFile(filepath.Join(r.OutDir, "result.json"), b, 0o644)
	// truncated op streams are useless for the diff
	os.WriteFile(filepath.Join(r.OutDir, "ops.txt"), nil, 0o644)
	os.WriteFile(filepath.Join(r.OutDir, "impl.txt"), nil, 0o644)
}

func tail(s string, n int) string {
	if len(s) > n {
		return s[len(s)-n:]
	}
	return s
}
