// Harness: runs the real anacrolix/dht code in-process on generated inputs and writes, per
// property, the op stream for the Lean driver (ops.txt), the implementation's answers
// (impl.txt) and the direct property oracle's findings (result.json).
package main

import (
	"fmt"
	"os"
)

var commands = map[string]func(*Run){}

func main() {
	if len(os.Args) < 2 {
		fmt.Fprintln(os.Stderr, "usage: harness <property> [-seed N] [-tier quick|thorough] [-out DIR]")
		os.Exit(2)
	}
	cmd, ok := commands[os.Args[1]]
	if !ok {
		fmt.Fprintf(os.Stderr, "unknown property %q\n", os.Args[1])
		os.Exit(2)
	}
	r := newRun(os.Args[1], os.Args[2:])
	cmd(r)
	r.finish()
}
