package main

import (
	"fmt"
	"hash/crc32"
	"net"

	dht "github.com/anacrolix/dht/v2"
	"github.com/anacrolix/dht/v2/krpc"
)

func init() { commands["C17"] = runC17 }

// Independent statement of the BEP 42 rule, written from the BEP text.
func bep42Expected(ip net.IP, r byte) (p [3]byte) {
	v4mask := []byte{0x03, 0x0f, 0x3f, 0xff}
	v6mask := []byte{0x01, 0x03, 0x07, 0x0f, 0x1f, 0x3f, 0x7f, 0xff}
	var buf []byte
	if ip4 := ip.To4(); ip4 != nil {
		buf = make([]byte, 4)
		for i := range buf {
			buf[i] = ip4[i] & v4mask[i]
		}
	} else {
		buf = make([]byte, 8)
		for i := range buf {
			buf[i] = ip[i] & v6mask[i]
		}
	}
	buf[0] |= (r & 7) << 5
	c := crc32.Checksum(buf, crc32.MakeTable(crc32.Castagnoli))
	return [3]byte{byte(c >> 24), byte(c >> 16), byte(c>>8) & 0xf8}
}

func localExpected(ip net.IP) bool {
	if ip4 := ip.To4(); ip4 != nil {
		return ip4[0] == 10 || (ip4[0] == 172 && ip4[1]&0xf0 == 16) || (ip4[0] == 192 && ip4[1] == 168) ||
			(ip4[0] == 169 && ip4[1] == 254) || ip4[0] == 127
	}
	return (ip[0] == 0xfe && ip[1]&0xc0 == 0x80) || ip.Equal(net.IPv6loopback)
}

func (r *Run) c17IP() net.IP {
	switch r.rng.Intn(16) {
	case 15:
		// the all-zero address in its three encodings: an ordinary, non-exempt address for the rule
		return []net.IP{{0, 0, 0, 0}, net.IP{0, 0, 0, 0}.To16(), make(net.IP, 16)}[r.rng.Intn(3)]
	case 12:
		// IPv6 unique-local (fc00::/7): private in the eyes of net.IP.IsPrivate, NOT exempt under BEP 42
		ip := r.randIP(1)
		ip[0] = byte(0xfc + r.rng.Intn(2))
		return ip
	case 13:
		// other special-purpose ranges that BEP 42 does not exempt: CGNAT 100.64/10, benchmarking 198.18/15,
		// documentation 2001:db8::/32, site-local fec0::/10, multicast
		switch r.rng.Intn(5) {
		case 0:
			return net.IP{100, byte(64 + r.rng.Intn(64)), 3, 4}
		case 1:
			return net.IP{198, byte(18 + r.rng.Intn(2)), 3, 4}
		case 2:
			ip := r.randIP(1)
			ip[0], ip[1], ip[2], ip[3] = 0x20, 0x01, 0x0d, 0xb8
			return ip
		case 3:
			ip := r.randIP(1)
			ip[0], ip[1] = 0xfe, byte(0xc0+r.rng.Intn(0x40))
			return ip
		default:
			return net.IP{224, 0, 0, byte(r.rng.Intn(256))}
		}
	case 14:
		// boundaries of the exempt IPv4 ranges
		return []net.IP{{9, 255, 255, 255}, {11, 0, 0, 0}, {172, 15, 255, 255}, {172, 32, 0, 0}, {192, 167, 255, 255}, {192, 169, 0, 0},
			{169, 253, 255, 255}, {169, 255, 0, 0}, {126, 255, 255, 255}, {128, 0, 0, 0}}[r.rng.Intn(10)]
	case 0:
		return net.IP{10, byte(r.rng.Intn(256)), 1, 2}
	case 1:
		return net.IP{172, byte(16 + r.rng.Intn(20)), 1, 2}
	case 2:
		return net.IP{192, 168, byte(r.rng.Intn(256)), 2}
	case 3:
		return net.IP{169, 254, 3, 4}
	case 4:
		return net.IP{127, 0, 0, byte(r.rng.Intn(256))}
	case 5:
		return net.IPv6loopback
	case 6:
		ip := r.randIP(1)
		ip[0], ip[1] = 0xfe, byte(0x80+r.rng.Intn(0x40))
		return ip
	case 7:
		return net.IP{10, 1, 2, 3}.To16()
	case 8, 9:
		return r.randIP(1)
	case 10:
		return r.randIP(2)
	default:
		return r.randIP(0)
	}
}

func (r *Run) c17Case(ip net.IP, id krpc.ID) {
	orig := id
	ipCopy := append(net.IP{}, ip...)
	sec := id
	dht.SecureNodeId(&sec, ip)
	r.op("SEC secure "+hx(orig[:])+" "+hx(ip), hx(sec[:]))
	valid := dht.NodeIdSecure(sec, ip)
	r.op("SEC valid "+hx(sec[:])+" "+hx(ip), b2s(valid))
	r.op("SEC valid "+hx(orig[:])+" "+hx(ip), b2s(dht.NodeIdSecure(orig, ip)))
	rep := map[string]string{"ip": hx(ip), "id": hx(orig[:])}
	// oracles
	if !ipCopy.Equal(ip) || len(ipCopy) != len(ip) {
		r.violation("SecureNodeId modified the caller's IP", rep)
	}
	for i := 3; i < 20; i++ {
		if sec[i] != orig[i] {
			r.violation("securing changed a byte outside the first 21 bits", rep)
		}
	}
	if sec[2]&7 != orig[2]&7 {
		r.violation("securing changed the low 3 bits of byte 2", rep)
	}
	again := sec
	dht.SecureNodeId(&again, ip)
	if again != sec {
		r.violation("securing is not idempotent", rep)
	}
	if !valid {
		r.violation("secured ID does not verify for its address", rep)
	}
	want := bep42Expected(ip, orig[19])
	if [3]byte{sec[0], sec[1], sec[2] & 0xf8} != want {
		r.violation("secured prefix differs from the BEP 42 rule", rep)
	}
	// verification agrees with the rule on arbitrary IDs
	probe := orig
	switch r.rng.Intn(3) {
	case 0:
		probe[0], probe[1], probe[2] = want[0], want[1], want[2]|probe[2]&7
	case 1:
		probe = sec
		probe[r.rng.Intn(3)] ^= 1 << uint(3+r.rng.Intn(5))
	}
	wp := bep42Expected(ip, probe[19])
	expect := localExpected(ip) || [3]byte{probe[0], probe[1], probe[2] & 0xf8} == wp
	got := dht.NodeIdSecure(probe, ip)
	r.op("SEC valid "+hx(probe[:])+" "+hx(ip), b2s(got))
	if got != expect {
		r.violation("verification disagrees with the BEP 42 rule", map[string]string{"ip": hx(ip), "id": hx(probe[:])})
	}
	r.hist(fmt.Sprintf("ip/len%d/local=%v", len(ip), localExpected(ip)))
	r.count(hx(ip)+hx(orig[:]), true)
}

func runC17(r *Run) {
	r.Result.Rule = "addresses: private/loopback/link-local ranges, v4, v6, v4-mapped, random; IDs random; every case checks secure/verify against the Lean model and an independent BEP 42 statement; thorough adds the exhaustive 2^20 significant masked IPv4 values x 8 seeds; non-trivial = distinct (ip, id)"
	n := r.n(30000, 300000)
	for i := 0; i < n; i++ {
		ip := r.c17IP()
		id := krpc.ID(r.randID())
		r.c17Case(ip, id)
		if i < 3 {
			r.sample(map[string]string{"ip": hx(ip), "id": hx(id[:])})
		}
	}
	// the functions are pure: a result never depends on which addresses were handled before. Pairs whose masked
	// prefixes coincide byte for byte across the two families (an IPv4 address and the IPv6 address that starts with the
	// same four bytes followed by zeros), same seed, one directly after the other, in both orders.
	for i := 0; i < r.n(300, 5000); i++ {
		v4 := r.randIP(0)
		v6 := make(net.IP, 16)
		copy(v6, v4)
		r.rng.Read(v6[8:])
		id := krpc.ID(r.randID())
		if i%2 == 0 {
			r.c17Case(v4, id)
			r.c17Case(v6, id)
		} else {
			r.c17Case(v6, id)
			r.c17Case(v4, id)
		}
	}
	// BEP 42 test vectors (tests, not theorems)
	vectors := []struct {
		ip   string
		rand byte
		pre  [3]byte
	}{
		{"124.31.75.21", 1, [3]byte{0x5f, 0xbf, 0xb8}},
		{"21.75.31.124", 86, [3]byte{0x5a, 0x3c, 0xe8}},
		{"65.23.51.170", 22, [3]byte{0xa5, 0xd4, 0x30}},
		{"84.124.73.14", 65, [3]byte{0x1b, 0x03, 0x20}},
		{"43.213.53.83", 90, [3]byte{0xe5, 0x6f, 0x68}},
	}
	for _, v := range vectors {
		var id krpc.ID
		id[19] = v.rand
		dht.SecureNodeId(&id, net.ParseIP(v.ip))
		if [3]byte{id[0], id[1], id[2] & 0xf8} != v.pre {
			r.violation("BEP 42 test vector fails", map[string]string{"ip": v.ip})
		}
		var z krpc.ID
		z[19] = v.rand
		r.op("SEC secure "+hx(z[:])+" "+hx(net.ParseIP(v.ip).To4()), hx(id[:]))
	}
	// CRC against hash/crc32 on random strings
	for i := 0; i < r.n(2000, 50000); i++ {
		b := make([]byte, r.rng.Intn(40))
		r.rng.Read(b)
		r.op("SEC crc "+hx(b), fmt.Sprint(crc32.Checksum(b, crc32.MakeTable(crc32.Castagnoli))))
	}
	for _, ip := range []net.IP{{10, 0, 0, 1}, {11, 0, 0, 1}, {172, 15, 0, 1}, {172, 32, 0, 1}, {172, 31, 255, 255}, net.IPv6loopback, net.ParseIP("fe80::1"), net.ParseIP("fec0::1"), net.ParseIP("::ffff:192.168.1.1")} {
		r.op("SEC local "+hx(ip), b2s(dht.NodeIdSecure(krpc.ID{}, ip) && localExpected(ip)))
	}
	if r.thorough() {
		// all 2^20 significant masked IPv4 bit patterns x 8 seeds
		cnt := 0
		for a := 0; a < 4; a++ {
			for b := 0; b < 16; b++ {
				for c := 0; c < 64; c++ {
					for d := 0; d < 256; d++ {
						ip := net.IP{byte(a) | 0x40, byte(b) | 0x30, byte(c) | 0x40, byte(d)}
						for s := 0; s < 8; s++ {
							var id krpc.ID
							id[19] = byte(s)
							dht.SecureNodeId(&id, ip)
							r.op("SEC secure "+hx(make([]byte, 19))+fmt.Sprintf("%02x", s)+" "+hx(ip), hx(id[:]))
							if [3]byte{id[0], id[1], id[2] & 0xf8} != bep42Expected(ip, byte(s)) || !dht.NodeIdSecure(id, ip) {
								r.violation("exhaustive IPv4 sweep: secured prefix wrong or does not verify", map[string]string{"ip": hx(ip), "seed": itoa(s)})
							}
							cnt++
						}
					}
				}
			}
		}
		r.note(fmt.Sprintf("exhaustive masked-IPv4 sweep: %d (ip, seed) pairs", cnt))
		r.Result.Evaluations += cnt
		r.Result.DistinctNontrivial += cnt
	}
	// Server-generated IDs for configurations with a public IP
	c17Server(r)
}

// An ID the node generates for itself when configured with a public IP verifies for that IP.
func c17Server(r *Run) {
	n := r.n(200, 3000)
	for i := 0; i < n; i++ {
		ip := r.c17IP()
		conn := newFakeConn(&net.UDPAddr{IP: net.IP{203, 0, 113, byte(1 + r.rng.Intn(250))}, Port: 1024 + r.rng.Intn(60000)})
		cfg := baseConfig(conn)
		cfg.PublicIP = ip
		cfg.NoSecurity = r.rng.Intn(2) == 0
		ownSocket := i%12 == 5
		if ownSocket {
			cfg.Conn = nil // the server opens its own UDP socket (":0"); the ID rule must not depend on who opened it
		}
		r.hist(fmt.Sprintf("server-id/own-socket=%v/no-security=%v", ownSocket, cfg.NoSecurity))
		s, err := dht.NewServer(cfg)
		if err != nil {
			r.violation("NewServer failed: "+err.Error(), nil)
			continue
		}
		id := s.ID()
		ok := dht.NodeIdSecure(id, ip)
		r.op("SEC valid "+hx(id[:])+" "+hx(ip), b2s(ok))
		if !ok {
			r.violation("server-generated ID does not verify for the configured public IP", map[string]interface{}{"public_ip": hx(ip), "id": hx(id[:]), "no_security": cfg.NoSecurity, "server_opened_its_own_socket": ownSocket})
		}
		s.Close()
		r.count("srv"+hx(ip)+hx(id[:]), true)
		d := dht.MakeDeterministicNodeID(&net.UDPAddr{IP: ip, Port: 1 + r.rng.Intn(65535)})
		if !dht.NodeIdSecure(d, ip) {
			r.violation("MakeDeterministicNodeID result does not verify", map[string]string{"ip": hx(ip)})
		}
	}
}
