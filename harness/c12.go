package main

// C12 (store side) — the BEP 44 store never accepts or serves a forged or oversized item.
//
// Real ed25519 keys; puts through bep44.Wrapper.Put, through an inbound KRPC `put` at the Conn
// boundary and through Server.Put, all on one recording bep44.Store; signatures valid / valid for
// another salt, seq, value or key / bit-flipped / zero / random; salts of 0..70 bytes; values of
// every bencode shape, small and around the 1000-byte limit. Every put and get is replayed on the
// Lean model (B44 put / get / wget); each put line carries the (key, message) the signature was
// really made for. Direct oracles: nothing invalid is ever handed to the underlying store or
// served, error codes 205/206/207, a rejected put makes no store mutation, mutable items are
// served only under SHA1(k||salt) and immutable ones only under SHA1(bencode(v)).

import (
	"bytes"
	"crypto/ed25519"
	"crypto/sha1"
	"fmt"
	"strings"
	"time"

	"github.com/anacrolix/dht/v2/bep44"
)

func init() { commands["C12"] = runC12 }

type c12Key struct {
	priv ed25519.PrivateKey
	pub  *[32]byte
}

type c12Slot struct {
	key  int // index into keys; -1 = immutable
	salt []byte
	next int64
}

type c12Reg struct {
	k    [32]byte
	salt []byte
}

type c12Scn struct {
	r    *Run
	ps   *parkStore
	w    *bep44.Wrapper
	node *b44Node
	keys []c12Key
	log  []string
	reg  map[[20]byte]c12Reg
	last map[[20]byte]*b44Item // last accepted put per target
	// every mutable item ever sent, by (k, salt, seq, bv, sig) -> independently judged valid?
}

func (s *c12Scn) emit(op, impl string) {
	s.r.op(op, impl)
	s.log = append(s.log, op+" => "+impl)
	if len(s.log) > 12 {
		s.log = s.log[len(s.log)-12:]
	}
}

func (s *c12Scn) violation(what string, extra map[string]interface{}) {
	rep := map[string]interface{}{"last_ops": append([]string{}, s.log...)}
	for k, v := range extra {
		rep[k] = v
	}
	s.r.b44Violation(what, rep)
}

// A value of the given bencode shape whose encoding is as close to `size` bytes as the shape allows
// (size < 0: small).
func (r *Run) c12Value(shape, size int) *bval {
	pad := func(n int) *bval {
		b := make([]byte, n)
		r.rng.Read(b)
		return bB(b)
	}
	build := func(n int) *bval {
		switch shape {
		case 0:
			return pad(n)
		case 1:
			return bL(bS("a"), bI(int64(r.rng.Intn(1000))-500), pad(n))
		case 2:
			return bD("a", bI(1), "z", pad(n))
		case 3:
			return bL(bL(bL(pad(n)), bD()), bL())
		case 4:
			return bD("d", bD("e", bL(pad(n), bI(-1))), "", bS(""))
		default:
			var l []*bval
			for i := 0; i < n/4; i++ {
				l = append(l, bI(int64(i%10)))
			}
			return bL(l...)
		}
	}
	if size < 0 {
		switch r.rng.Intn(8) {
		case 0:
			return nil // no value at all
		case 1:
			return bI([]int64{0, -1, 1, 1 << 62, -(1 << 62), 42}[r.rng.Intn(6)])
		case 2:
			return bS("")
		case 3:
			return bL()
		case 4:
			return bD()
		}
		return build(r.rng.Intn(20))
	}
	// grow the pad until the encoding reaches the wanted size
	lo := 0
	v := build(lo)
	for len(v.enc()) < size && lo < 1200 {
		step := size - len(v.enc())
		if shape > 4 {
			step *= 2
		}
		if step < 1 {
			step = 1
		}
		lo += step
		nv := build(lo)
		if len(nv.enc()) > size {
			// digit-count jump: take whichever side the caller's size class still accepts
			if r.rng.Intn(2) == 0 {
				return nv
			}
			return v
		}
		v = nv
	}
	return v
}

var c12SigKinds = []string{"valid", "valid", "valid", "valid", "valid", "other-salt", "other-seq", "other-value", "other-key", "bit-flipped", "zero", "random"}

func (s *c12Scn) makeItem(sl *c12Slot) (*b44Item, string) {
	r := s.r
	it := &b44Item{salt: sl.salt}
	if len(sl.salt) == 0 && r.rng.Intn(2) == 0 {
		it.emptySaltKey = true // an empty salt that is spelled out: the same item as one without salt
		r.hist("item/empty-salt-spelled-out")
	}
	// value
	shape := r.rng.Intn(6)
	switch r.rng.Intn(10) {
	case 0, 1, 2:
		it.v = r.c12Value(shape, 985+r.rng.Intn(30))
	case 3:
		it.v = r.c12Value(shape, []int{999, 1000, 1001}[r.rng.Intn(3)])
	default:
		it.v = r.c12Value(shape, -1)
	}
	bv := it.bv()
	// seq: mostly moving forward so that valid puts are accepted (the seq rules are C13's)
	switch r.rng.Intn(8) {
	case 0:
		it.seq = sl.next - 1
	case 1:
		it.seq = int64(r.rng.Intn(5))
	default:
		sl.next++
		it.seq = sl.next
	}
	if sl.key < 0 {
		// immutable; sometimes with a stray signature field, which must be ignored
		if r.rng.Intn(6) == 0 {
			r.rng.Read(it.sig[:])
		}
		if r.rng.Intn(4) != 0 {
			it.seq = 0
		}
		return it, "immutable"
	}
	key := s.keys[sl.key]
	it.k = key.pub
	kind := c12SigKinds[r.rng.Intn(len(c12SigKinds))]
	switch kind {
	case "valid":
		it.sign(key.priv, it.salt, it.seq, bv)
	case "other-salt":
		other := append([]byte{}, it.salt...)
		switch {
		case len(other) == 0 && r.rng.Intn(2) == 0:
			// signed over a buffer that spells the empty salt out (`4:salt0:3:seq...`): not a BEP 44 signature
			msg := append([]byte("4:salt0:"), specSignBuf(nil, it.seq, bv)...)
			copy(it.sig[:], ed25519.Sign(key.priv, msg))
			it.sigKey = append([]byte{}, key.priv.Public().(ed25519.PublicKey)...)
			it.sigMsg = msg
			return it, kind
		case len(other) == 0:
			other = []byte{byte(r.rng.Intn(256))}
		case r.rng.Intn(3) == 0:
			other = other[:len(other)-1]
		default:
			other[r.rng.Intn(len(other))] ^= 1 << uint(r.rng.Intn(8))
		}
		it.sign(key.priv, other, it.seq, bv)
	case "other-seq":
		it.sign(key.priv, it.salt, it.seq+int64(1+r.rng.Intn(3))*[]int64{1, -1}[r.rng.Intn(2)], bv)
	case "other-value":
		ov := r.c12Value(r.rng.Intn(6), -1)
		var obv []byte
		if ov != nil {
			obv = ov.enc()
		}
		if bytes.Equal(obv, bv) {
			obv = append(obv, '0', ':')
		}
		it.sign(key.priv, it.salt, it.seq, obv)
	case "other-key":
		o := s.keys[(sl.key+1+r.rng.Intn(len(s.keys)-1))%len(s.keys)]
		it.sign(o.priv, it.salt, it.seq, bv)
	case "bit-flipped":
		it.sign(key.priv, it.salt, it.seq, bv)
		it.sig[r.rng.Intn(64)] ^= 1 << uint(r.rng.Intn(8))
		it.sigKey, it.sigMsg = nil, nil
	case "zero":
	case "random":
		r.rng.Read(it.sig[:])
	}
	return it, kind
}

// Validate what a `get` served under `target`.
func (s *c12Scn) checkServed(target [20]byte, g *wireGot, dump string) {
	if g == nil || !g.found || !g.hasV {
		return
	}
	x := map[string]interface{}{"get_target": hx(target[:]), "reply": dump}
	if len(g.v) > 1000 {
		s.violation("served a value larger than 1000 bytes", x)
	}
	if g.k == nil {
		if sha1.Sum(g.v) != target {
			s.violation("immutable item served under a target that is not SHA1(bencode(v))", x)
		}
		return
	}
	reg, ok := s.reg[target]
	if !ok || reg.k != *g.k {
		s.violation("mutable item served under a target that is not SHA1(k||salt)", x)
		return
	}
	if len(reg.salt) > 64 {
		s.violation("served an item whose salt exceeds 64 bytes", x)
	}
	if !g.hasSeq || !ed25519.Verify(ed25519.PublicKey(g.k[:]), specSignBuf(reg.salt, g.seq, g.v), g.sig[:]) {
		s.violation("served a mutable item whose signature does not verify for its (salt, seq, v)", x)
	}
}

func (s *c12Scn) get(target [20]byte, expectFound string) (string, *wireGot) {
	got, g := s.node.get(target, nil)
	s.emit("B44 get "+hx(target[:])+" -", got)
	if got == "noreply" || strings.HasPrefix(got, "err") {
		s.violation("get got no proper answer: "+got, nil)
		return got, nil
	}
	s.checkServed(target, g, got)
	s.r.hist("get/" + expectFound + "/" + strings.Fields(got)[0])
	return got, g
}

func (s *c12Scn) step(sl *c12Slot) {
	r := s.r
	it, kind := s.makeItem(sl)
	if it.goMutable() {
		s.reg[specTarget(it.k, it.salt, nil)] = c12Reg{*it.k, it.salt}
	}
	target := it.goTarget()
	valid, _ := it.specValid()
	bv := it.bv()
	faults := map[string]bool{}
	if len(bv) > 1000 {
		faults["err:205"] = true
	}
	if it.goMutable() {
		if len(it.salt) > 64 {
			faults["err:207"] = true
		}
		if !ed25519.Verify(ed25519.PublicKey(it.k[:]), specSignBuf(it.salt, it.seq, bv), it.sig[:]) {
			faults["err:206"] = true
		}
	}
	// what is under the target before
	beforePtr, _ := s.ps.inner.Get(target)
	mutsBefore := s.ps.mutations()
	putsBefore := len(s.ps.puts)
	path := []string{"api", "wire", "srv"}[r.rng.Intn(3)]
	if path == "wire" && r.rng.Intn(40) == 0 {
		it.noSeq = true
	}
	var got string
	switch path {
	case "api":
		item := it.toItem()
		got = guard(func() string { return errCode(s.w.Put(item)) })
	case "wire":
		got = s.node.put(it)
	default:
		got = guard(func() string { return s.node.apiPut(it) })
	}
	s.emit(it.putOp(path), got)
	x := map[string]interface{}{"path": path, "item": it.describe(), "signature_kind": kind, "answer": got}
	sizeClass := "small"
	if len(bv) > 1000 {
		sizeClass = "over"
	} else if len(bv) >= 985 {
		sizeClass = "near"
	}
	saltClass := "salt<=64"
	if len(it.salt) > 64 {
		saltClass = "salt>64"
	}
	r.hist("put/" + path + "/" + kind + "/" + got)
	r.hist("shape/" + sizeClass + "/" + saltClass)
	if got == "noreply" || got == "notoken" || strings.HasPrefix(got, "panic") || strings.HasPrefix(got, "goerr") {
		s.violation("put over "+path+" got no proper answer: "+got, x)
		return
	}
	afterPtr, _ := s.ps.inner.Get(target)
	newPuts := s.ps.puts[putsBefore:]
	switch {
	case it.noSeq:
		if got != "err:203" || s.ps.mutations() != mutsBefore {
			s.violation("inbound put without seq: expected 203 and no store access, got "+got, x)
		}
	case !valid:
		if !faults[got] {
			var want []string
			for f := range faults {
				want = append(want, f)
			}
			s.violation(fmt.Sprintf("invalid put (%s) answered %s, expected one of %v", kind, got, want), x)
		}
		if s.ps.mutations() != mutsBefore || afterPtr != beforePtr {
			s.violation("a rejected put changed the store", x)
		}
		if got == "ok" || len(newPuts) > 0 {
			s.violation("forged or oversized item was stored", x)
		}
	default:
		if got != "ok" && got != "err:301" && got != "err:302" {
			s.violation("valid put rejected with "+got, x)
		}
		if got != "ok" && (s.ps.mutations() != mutsBefore || afterPtr != beforePtr) {
			s.violation("a rejected put changed the store", x)
		}
		if got == "ok" {
			s.last[target] = it
			if len(newPuts) != 1 {
				s.violation(fmt.Sprintf("accepted put made %d store.Put calls", len(newPuts)), x)
			}
		}
	}
	// whatever reached the underlying store must be exactly the valid item that was sent, filed under its target
	for _, p := range newPuts {
		pb := safeBv(p)
		if !valid || p.K != it.toItem().K || !bytes.Equal(p.Salt, it.salt) || p.Seq != it.seq || p.Sig != it.sig || !bytes.Equal(pb, bv) {
			s.violation("the item handed to the underlying store is not a valid item as sent", x)
		}
		if q, _ := s.ps.inner.Get(target); q != p {
			s.violation("stored item is not filed under its BEP 44 target", x)
		}
	}
	// gets: own target, and the places a confused implementation might also serve it from
	expect := "absent"
	if afterPtr != nil {
		expect = "present"
	}
	gotGet, g := s.get(target, expect)
	if afterPtr != nil && (g == nil || !g.found) {
		s.violation("stored item is not served under its target: "+gotGet, x)
	}
	if l := s.last[target]; g != nil && g.found && l != nil {
		if !bytes.Equal(g.v, l.bv()) || g.seq != l.seq || g.sig != l.sig {
			s.violation("get serves something else than the last accepted put: "+gotGet, x)
		}
	}
	switch r.rng.Intn(4) {
	case 0:
		if it.goMutable() {
			s.get(sha1.Sum(bv), "other")               // a mutable item must not be reachable by its value hash
			s.get(specTarget(it.k, nil, nil), "other") // nor by the key alone
		}
	case 1:
		var t [20]byte
		r.rng.Read(t[:])
		s.get(t, "random")
	case 2:
		// API-level read
		gotW := guard(func() string {
			i, err := s.w.Get(target)
			if err == bep44.ErrItemNotFound {
				return "notfound"
			}
			if err != nil {
				return errCode(err)
			}
			return itemDump(i, safeBv(i))
		})
		s.emit("B44 wget "+hx(target[:]), gotW)
	}
	plainValid := valid && sizeClass == "small" && len(it.salt) < 60
	r.count(hashKey(it.putOp(path)), !plainValid)
	r.sample(x)
}

func c12Scenario(r *Run) {
	ps := newParkStore()
	node, err := r.newB44Node(ps, time.Hour)
	if err != nil {
		r.b44Violation("NewServer failed: "+err.Error(), nil)
		return
	}
	defer node.close()
	s := &c12Scn{r: r, ps: ps, node: node, w: bep44.NewWrapper(ps, time.Hour), reg: map[[20]byte]c12Reg{}, last: map[[20]byte]*b44Item{}}
	s.emit(fmt.Sprintf("B44 reset %d", time.Hour.Nanoseconds()), "ok")
	for i := 0; i < 3; i++ {
		priv, pub := r.b44Key()
		s.keys = append(s.keys, c12Key{priv, pub})
	}
	// an all-zero "key": the Go code treats it as "immutable"
	s.keys = append(s.keys, c12Key{s.keys[0].priv, &[32]byte{}})
	saltLens := []int{0, 0, 1, 5, 32, 63, 64, 65, 66, 70}
	var slots []*c12Slot
	for i := 0; i < 5; i++ {
		sl := &c12Slot{key: r.rng.Intn(3)}
		n := saltLens[r.rng.Intn(len(saltLens))]
		if r.rng.Intn(4) == 0 {
			n = r.rng.Intn(71)
		}
		sl.salt = make([]byte, n)
		r.rng.Read(sl.salt)
		if n == 0 {
			sl.salt = nil
		}
		sl.next = int64(r.rng.Intn(3))
		r.hist(fmt.Sprintf("saltlen/%02d", n/8*8))
		slots = append(slots, sl)
	}
	slots = append(slots, &c12Slot{key: -1}, &c12Slot{key: 3, salt: []byte("zk")})
	for i := 0; i < 30; i++ {
		s.step(slots[r.rng.Intn(len(slots))])
	}
}

// Independent judgement of an item found in the underlying store, from its own fields.
func c12StoredOK(p *bep44.Item) (bool, [20]byte) {
	bv := safeBv(p)
	if p.K == ([32]byte{}) {
		return len(bv) <= 1000, sha1.Sum(bv)
	}
	t := sha1.Sum(append(append([]byte{}, p.K[:]...), p.Salt...))
	return len(bv) <= 1000 && len(p.Salt) <= 64 &&
		ed25519.Verify(ed25519.PublicKey(p.K[:]), specSignBuf(p.Salt, p.Seq, bv), p.Sig[:]), t
}

// Malformed inbound puts (wrong field lengths and types, bad token, stray keys): not replayed on
// the model (the decoding of ill-typed arguments is the codec's business); the oracle is only that
// whatever reaches the underlying store is a valid item under its target, and that gets keep
// serving valid items. A following ping is the barrier that tells the put has been processed.
func c12Malformed(r *Run) {
	ps := newParkStore()
	node, err := r.newB44Node(ps, time.Hour)
	if err != nil {
		r.b44Violation("NewServer failed: "+err.Error(), nil)
		return
	}
	defer node.close()
	if !node.ensureToken() {
		r.b44Violation("get for a token got no reply", nil)
		return
	}
	priv, pub := r.b44Key()
	kinds := []string{"k-empty", "k-short", "k-long", "sig-short", "sig-long", "salt-int", "seq-string", "cas-string", "bad-token", "no-token", "extra-keys", "v-deep", "k-truncates-to-real"}
	for i := 0; i < 26; i++ {
		kind := kinds[i%len(kinds)]
		it := &b44Item{k: pub, v: r.c12Value(r.rng.Intn(6), -1), seq: int64(i + 1)}
		if r.rng.Intn(2) == 0 {
			it.salt = []byte("s")
		}
		it.sign(priv, it.salt, it.seq, it.bv())
		args := bD("token", bB(node.token), "k", bB(it.k[:]), "sig", bB(it.sig[:]), "seq", bI(it.seq))
		if it.v != nil {
			args.set("v", it.v)
		}
		if len(it.salt) > 0 {
			args.set("salt", bB(it.salt))
		}
		switch kind {
		case "k-empty":
			args.set("k", bS(""))
		case "k-short":
			args.set("k", bB(it.k[:1+r.rng.Intn(31)]))
		case "k-long", "k-truncates-to-real":
			args.set("k", bB(append(append([]byte{}, it.k[:]...), byte(r.rng.Intn(256)))))
		case "sig-short":
			args.set("sig", bB(it.sig[:63]))
		case "sig-long":
			args.set("sig", bB(append(append([]byte{}, it.sig[:]...), 0)))
		case "salt-int":
			args.set("salt", bI(7))
		case "seq-string":
			args.set("seq", bS("1"))
		case "cas-string":
			args.set("cas", bS("x"))
		case "bad-token":
			args.set("token", bS("not-a-token"))
		case "no-token":
			args.del("token")
		case "extra-keys":
			args.set("zzz", bL(bI(1)))
			args.set("aaa", bD())
		case "v-deep":
			v := bL()
			for d := 0; d < 60; d++ {
				v = bL(v)
			}
			args.set("v", v)
		}
		putsBefore := len(ps.puts)
		args.set("id", bS(b44SenderID))
		node.nT++
		t := fmt.Sprintf("m%03x", node.nT)
		node.conn.inject(bD("a", args, "q", bS("put"), "t", bS(t), "y", bS("q")).enc(), node.src)
		if _, ok := node.query("ping", bD()); !ok {
			r.b44Violation("node stopped answering after a malformed put", map[string]interface{}{"kind": kind, "args": args.String()})
			return
		}
		outcome := "nothing-stored"
		for _, p := range ps.puts[putsBefore:] {
			outcome = "stored"
			ok, tgt := c12StoredOK(p)
			q, _ := ps.inner.Get(tgt)
			if !ok || q != p {
				r.b44Violation("malformed put ("+kind+") made the store hold an invalid or misfiled item", map[string]interface{}{"kind": kind, "args": args.String()})
			}
		}
		r.hist("unmodelled/malformed-put/" + kind + "/" + outcome)
		r.count("malformed"+kind+hashKey(args.String()), true)
	}
}

func runC12(r *Run) {
	r.Result.Rule = "scenarios of 30 puts on 7 slots (3 ed25519 keys x salts of 0..70 bytes incl. 63/64/65, one immutable slot, one all-zero key) sharing one recording store, each put through Wrapper.Put, an inbound KRPC put or Server.Put; values of 6 bencode shapes + nil/int/empty forms, small, 985..1014 and exactly 999/1000/1001 encoded bytes; signature valid (5/12) or valid for another salt / seq / value / key, bit-flipped, zero, random; after every put gets on the item's target (and on SHA1(v), SHA1(k), random targets); non-trivial = distinct put that is invalid, near a limit, or carries a salt >= 60 bytes"
	// BEP 44 test vectors (tests, not theorems): target and signing buffer
	r.op("B44 target - _ "+hx([]byte("12:Hello World!")), "e5f96f6f38320f0f33959cb4d3d656452117aadb")
	r.op("B44 buf "+hx([]byte("foobar"))+" 1 "+hx([]byte("12:Hello World!")), hx([]byte("4:salt6:foobar3:seqi1e1:v12:Hello World!")))
	r.op("B44 buf _ 1 "+hx([]byte("12:Hello World!")), hx([]byte("3:seqi1e1:v12:Hello World!")))
	for i := 0; i < r.n(200, 4000); i++ {
		c12Scenario(r)
	}
	for i := 0; i < r.n(20, 300); i++ {
		c12Malformed(r)
	}
	runC12Client(r)
}
