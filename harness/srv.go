package main

// Server-boundary scenario engine shared by C01, C05, C06, C08, C09, C10, C11, C19: drives a real
// dht.Server through a fake PacketConn, records what it writes and how its routing table, peer
// store and BEP 44 store change, emits the history as SRV ops for the Lean model, and evaluates
// the direct property oracles (each tagged with the property it belongs to).

import (
	"bytes"
	"context"
	"encoding/binary"
	"errors"
	"fmt"
	"net"
	"sort"
	"strings"
	"sync"
	"sync/atomic"
	"time"

	dht "github.com/anacrolix/dht/v2"
	"github.com/anacrolix/dht/v2/bep44"
	"github.com/anacrolix/dht/v2/krpc"
	peer_store "github.com/anacrolix/dht/v2/peer-store"
	"github.com/anacrolix/torrent/iplist"
	"github.com/anacrolix/torrent/metainfo"
	"golang.org/x/time/rate"
)

const tokenBaseNs = int64(1_700_000_100) * 1e9 // multiple of the 5 minute interval

type ipRange struct{ lo, hi net.IP } // 16-byte forms

type rangeList struct {
	rs []ipRange
	// probe, when set, is called on every look-up: the blocklist is consulted deep inside the server
	// (receive path, send path, traversal node filter under refreshBucket's read lock), which makes
	// each look-up a scheduling point at which the harness can let a datagram arrive.
	probe atomic.Pointer[func(net.IP)]
}

func (l *rangeList) Lookup(ip net.IP) (r iplist.Range, ok bool) {
	if f := l.probe.Load(); f != nil {
		(*f)(ip)
	}
	v6 := ip.To16()
	if v6 == nil {
		return iplist.Range{Description: "bad IP"}, true
	}
	for _, x := range l.rs {
		if bytes.Compare(x.lo, v6) <= 0 && bytes.Compare(v6, x.hi) <= 0 {
			return iplist.Range{First: x.lo, Last: x.hi}, true
		}
	}
	return
}
func (l *rangeList) NumRanges() int { return len(l.rs) }

func (l *rangeList) has(ip net.IP) bool { _, ok := l.Lookup(ip); return ok }

func (l *rangeList) opArg() string {
	if l == nil || len(l.rs) == 0 {
		return "-"
	}
	var p []string
	for _, x := range l.rs {
		p = append(p, hx(x.lo)+":"+hx(x.hi))
	}
	return strings.Join(p, ",")
}

// recording peer store
type recPS struct {
	inner peer_store.InMemory
	mu    sync.Mutex
	adds  []string // ih/ip/port
}

func (p *recPS) AddPeer(ih peer_store.InfoHash, na krpc.NodeAddr) {
	p.inner.AddPeer(ih, na)
	p.mu.Lock()
	p.adds = append(p.adds, fmt.Sprintf("peer:%s/%s/%d", hx(ih[:]), hx(na.IP), na.Port))
	p.mu.Unlock()
}
func (p *recPS) GetPeers(ih peer_store.InfoHash) []krpc.NodeAddr { return p.inner.GetPeers(ih) }
func (p *recPS) numAdds() int                                    { p.mu.Lock(); defer p.mu.Unlock(); return len(p.adds) }

// recording BEP 44 store
type recStore struct {
	inner *bep44.Memory
	mu    sync.Mutex
	puts  int
	gets  []string
	last  struct {
		getFound bool
		getSeq   int64
	}
}

func (s *recStore) Put(i *bep44.Item) error {
	s.mu.Lock()
	s.puts++
	s.mu.Unlock()
	return s.inner.Put(i)
}
func (s *recStore) Get(t bep44.Target) (*bep44.Item, error) {
	i, err := s.inner.Get(t)
	s.mu.Lock()
	s.last.getFound = err == nil
	if err == nil {
		s.last.getSeq = i.Seq
	}
	s.mu.Unlock()
	return i, err
}
func (s *recStore) Del(t bep44.Target) error { return s.inner.Del(t) }
func (s *recStore) numPuts() int             { s.mu.Lock(); defer s.mu.Unlock(); return s.puts }

type srvOpts struct {
	noSecurity  bool
	passive     bool
	hook        bool
	peerStore   bool
	callback    bool
	blocked     *rangeList
	root        *[20]byte
	publicIP    net.IP
	mute        bool
	waitToReply bool
	limiter     *rate.Limiter
	defaultWant bool // ServerConfig.DefaultWant = [n4 n6] (what the node asks for in ITS OWN queries; what NewDefaultServerConfig sets)
}

type srvScen struct {
	swarm  int // C11: number of distinct announcers of one infohash (0: a handful)
	r      *Run
	o      srvOpts
	conn   *fakeConn
	s      *dht.Server
	root   [20]byte
	ps     *recPS
	st     *recStore
	bl     *rangeList
	cbMu   sync.Mutex
	cbs    []string
	veto   bool  // next hook call vetoes
	now    int64 // model clock, ns
	nextPt int
	events []string
	// harness-side truth for oracles
	tokens      map[string][]tokIssue     // ip16 hex -> tokens issued
	announced   map[string]map[string]int // ih hex -> raw ip hex -> port
	intro       map[string]bool           // id/addrkey introduced by a direct event
	failedSince map[string]bool           // id@addr whose last questionable-node ping failed and which has not answered since (harness truth)
	pendingPing map[string]bool           // addresses the node may be pinging because the harness called AddNode with a zero ID there
	pendingTx   map[string]bool           // addr|t of the server's own queries that are really outstanding (harness truth)
	answered    map[string]bool           // id@addr that really answered one of the server's own queries (harness truth)
	expectW     int                       // datagrams expected so far
	seenW       int                       // writes already attributed
	dead        bool
	resend      atomic.Int64
	mute        bool // a helper server whose history is not replayed on the model
}

func (sc *srvScen) op(op, impl string) {
	if !sc.mute {
		sc.r.op(op, impl)
	}
}

type tokIssue struct {
	tok []byte
	at  int64
}

func (r *Run) newSrvScen(o srvOpts) *srvScen {
	sc := &srvScen{r: r, o: o, mute: o.mute, tokens: map[string][]tokIssue{}, announced: map[string]map[string]int{}, intro: map[string]bool{}, answered: map[string]bool{}, pendingTx: map[string]bool{}, pendingPing: map[string]bool{}, failedSince: map[string]bool{}, nextPt: 10000}
	sc.dead = r.c14Full()
	sc.conn = newFakeConn(nil)
	cfg := baseConfig(sc.conn)
	cfg.NoSecurity = o.noSecurity
	cfg.Passive = o.passive
	if o.defaultWant {
		cfg.DefaultWant = []krpc.Want{krpc.WantNodes, krpc.WantNodes6}
	}
	if o.root != nil {
		cfg.NodeId = *o.root
	} else {
		cfg.NodeId = r.randID()
	}
	if o.publicIP != nil {
		cfg.PublicIP = o.publicIP
	}
	cfg.WaitToReply = o.waitToReply
	if o.limiter != nil {
		cfg.SendLimiter = o.limiter
	}
	if o.hook {
		cfg.OnQuery = func(q *krpc.Msg, src net.Addr) bool {
			return !sc.veto
		}
	}
	if o.peerStore {
		sc.ps = &recPS{}
		cfg.PeerStore = sc.ps
	}
	if o.callback {
		cfg.OnAnnouncePeer = func(ih metainfo.Hash, ip net.IP, port int, portOk bool) {
			sc.cbMu.Lock()
			sc.cbs = append(sc.cbs, fmt.Sprintf("cb:%s/%s/%d/%s", hx(ih[:]), hx(ip), port, b2s(portOk)))
			sc.cbMu.Unlock()
		}
	}
	sc.st = &recStore{inner: bep44.NewMemory()}
	cfg.Store = sc.st
	cfg.Exp = time.Hour
	sc.bl = o.blocked
	if sc.bl != nil {
		cfg.IPBlocklist = sc.bl
	}
	// Long by default, so that a pending query never times out under the harness's feet; shortened
	// only while a questionable-node ping is meant to time out.
	sc.resend.Store(int64(time.Hour))
	cfg.QueryResendDelay = func() time.Duration { return time.Duration(sc.resend.Load()) }
	s, err := dht.NewServer(cfg)
	if err != nil {
		panic(err)
	}
	sc.s = s
	sc.root = s.ID()
	s.VerifSetTokenClock(func() time.Time { return time.Unix(0, tokenBaseNs+sc.now) })
	sc.op(fmt.Sprintf("SRV new %s %s %s %s %s %s", hx(sc.root[:]), b2s(o.noSecurity), b2s(o.passive), b2s(o.hook), b2s(o.peerStore), b2s(o.callback)), "ok")
	if sc.bl != nil {
		sc.op("SRV blk "+sc.bl.opArg(), "ok")
	}
	return sc
}

// Close must not hang the harness when the server's lock has been lost by the code under test.
func (sc *srvScen) close() {
	done := make(chan struct{})
	go func() { sc.s.Close(); close(done) }()
	select {
	case <-done:
	case <-time.After(2 * time.Second):
	}
	sc.conn.Close()
}

func (sc *srvScen) numCbs() int { sc.cbMu.Lock(); defer sc.cbMu.Unlock(); return len(sc.cbs) }

func (sc *srvScen) ev(format string, a ...interface{}) {
	sc.events = append(sc.events, fmt.Sprintf(format, a...))
	if len(sc.events) > 60 {
		sc.events = sc.events[len(sc.events)-60:]
	}
}

func (sc *srvScen) viol(prop, what string) {
	if prop == sc.r.Prop || sc.r.Prop == "SRVALL" {
		sc.r.violation(what, append([]string{}, sc.events...))
		if sc.r.c14Full() {
			// the report is full: more scenarios add nothing, and a broken implementation makes each of them
			// wait for its deadlines
			sc.dead = true
		}
	}
}

func (sc *srvScen) advance(d time.Duration) {
	sc.s.VerifAgeNodes(d)
	sc.now += int64(d)
	sc.op(fmt.Sprintf("SRV adv %d", int64(d)), "ok")
	sc.ev("advance %v", d)
}

func (sc *srvScen) setBlocklist(l *rangeList) {
	sc.bl = l
	if l == nil {
		sc.s.SetIPBlockList(nil)
		sc.op("SRV blk -", "ok")
	} else {
		sc.s.SetIPBlockList(l)
		sc.op("SRV blk "+l.opArg(), "ok")
	}
	sc.ev("blocklist %s", l.opArg())
}

func (sc *srvScen) isBlocked(ip net.IP) bool { return sc.bl != nil && sc.bl.has(ip) }

// ---- query specification ----

type qspec struct {
	y       string
	q       string
	t       []byte
	hasA    bool
	id      [20]byte
	ih      *[20]byte
	target  *[20]byte
	token   []byte
	hasTok  bool
	port    *int64
	implied bool
	want    []string
	seq     *int64
	ro      bool
	rid     *[20]byte
	// put payload (immutable)
	v    []byte
	hasV bool
	// include zero-valued optional keys explicitly
	explicitZero bool
}

func (q *qspec) bval() *bval {
	m := bD("t", bB(q.t))
	if q.y != "" {
		m.set("y", bS(q.y))
	}
	if q.q != "" {
		m.set("q", bS(q.q))
	}
	if q.ro {
		m.set("ro", bI(1))
	}
	if q.hasA {
		a := bD("id", bB(q.id[:]))
		if q.ih != nil {
			a.set("info_hash", bB(q.ih[:]))
		}
		if q.target != nil {
			a.set("target", bB(q.target[:]))
		}
		if q.hasTok {
			a.set("token", bB(q.token))
		}
		if q.port != nil {
			a.set("port", bI(*q.port))
		}
		if q.implied {
			a.set("implied_port", bI(1))
		} else if q.explicitZero {
			a.set("implied_port", bI(0))
		}
		if q.want != nil {
			var l []*bval
			for _, w := range q.want {
				l = append(l, bS(w))
			}
			a.set("want", bL(l...))
		}
		if q.seq != nil {
			a.set("seq", bI(*q.seq))
		}
		if q.hasV {
			a.set("v", bB(q.v))
		}
		m.set("a", a)
	}
	if q.rid != nil {
		m.set("r", bD("id", bB(q.rid[:])))
	}
	return m
}

func zero20() *[20]byte { return &[20]byte{} }

func (q *qspec) fields() string {
	ih, tg := zero20(), zero20()
	if q.ih != nil {
		ih = q.ih
	}
	if q.target != nil {
		tg = q.target
	}
	port, seq, rid := "-", "-", "-"
	if q.port != nil {
		port = fmt.Sprint(*q.port)
	}
	if q.seq != nil {
		seq = fmt.Sprint(*q.seq)
	}
	if q.rid != nil {
		rid = hx(q.rid[:])
	}
	want := "-"
	if len(q.want) > 0 {
		var w []string
		for _, x := range q.want {
			w = append(w, hx([]byte(x)))
		}
		want = strings.Join(w, ",")
	}
	id := q.id
	return strings.Join([]string{hx([]byte(q.y)), hx([]byte(q.q)), hx(q.t), b2s(q.hasA), hx(id[:]), hx(ih[:]), hx(tg[:]),
		hx(q.token), port, b2s(q.implied), want, seq, b2s(q.ro), rid}, " ")
}

// ---- observation of what the server wrote ----

type obsOut struct {
	kind     string // none, rep, err, bad
	dst      *net.UDPAddr
	t        []byte
	code     int64
	id       []byte
	ip       []byte
	token    []byte
	hasTok   bool
	values   [][]byte
	nodes    [][]byte // 26-byte entries
	nodes6   [][]byte // 38-byte entries
	seq      *int64
	hasV     bool
	raw      []byte
	n        int // number of datagrams
	badWidth bool
}

func splitN(b []byte, n int) ([][]byte, bool) {
	if len(b)%n != 0 {
		return nil, false
	}
	var out [][]byte
	for i := 0; i < len(b); i += n {
		out = append(out, b[i:i+n])
	}
	return out, true
}

func observe(ws []written) obsOut {
	o := obsOut{kind: "none", n: len(ws)}
	if len(ws) == 0 {
		return o
	}
	w := ws[0]
	o.dst, o.raw = w.Addr, w.B
	d := parseDgram(w)
	if !d.ok {
		o.kind = "bad"
		return o
	}
	o.t = d.t
	switch d.y {
	case "r":
		o.kind = "rep"
		r := d.v.get("r")
		o.id, _ = r.get("id").str()
		o.ip, _ = d.v.get("ip").str()
		if tk, ok := r.get("token").str(); ok {
			o.token, o.hasTok = tk, true
		}
		if vs := r.get("values"); vs != nil && vs.k == bList {
			for _, e := range vs.l {
				if s, ok := e.str(); ok {
					o.values = append(o.values, s)
				}
			}
		}
		if n, ok := r.get("nodes").str(); ok {
			var okw bool
			o.nodes, okw = splitN(n, 26)
			o.badWidth = o.badWidth || !okw
		}
		if n, ok := r.get("nodes6").str(); ok {
			var okw bool
			o.nodes6, okw = splitN(n, 38)
			o.badWidth = o.badWidth || !okw
		}
		if q, ok := r.get("seq").int(); ok {
			o.seq = &q
		}
		o.hasV = r.get("v") != nil
	case "e":
		o.kind = "err"
		if e := d.v.get("e"); e != nil && e.k == bList && len(e.l) >= 1 {
			o.code, _ = e.l[0].int()
		}
	default:
		o.kind = "bad"
	}
	return o
}

func nodeRef(e []byte, iplen int) string {
	port := binary.BigEndian.Uint16(e[20+iplen:])
	return hx(e[:20]) + "/" + hx(e[20:20+iplen]) + "/" + itoa(int(port))
}

func addrOp(a *net.UDPAddr) string { return hx(a.IP) + "/" + itoa(a.Port) }

// canonical key of an address as Addr.String() distinguishes it
func addrKey(a *net.UDPAddr) string {
	ip := a.IP
	if v4 := ip.To4(); v4 != nil {
		ip = v4
	}
	return hx(ip) + "/" + itoa(a.Port)
}

func snapKeys(t dht.VerifTable) map[string]dht.VerifNode {
	m := map[string]dht.VerifNode{}
	for _, n := range t.Nodes {
		m[hx(n.Id[:])+"@"+n.Addr] = n
	}
	return m
}

func (sc *srvScen) freshSrc(kind int) *net.UDPAddr {
	sc.nextPt++
	if sc.nextPt > 60000 {
		sc.nextPt = 10000
	}
	return udp(sc.r.randIP(kind), sc.nextPt)
}

// Table dump in the driver's format from a snapshot.
func tableDump(t dht.VerifTable) string {
	var l []string
	for _, n := range t.Nodes {
		ua, _ := net.ResolveUDPAddr("udp", n.Addr)
		l = append(l, fmt.Sprintf("%03d:%s:%s:q%s:r%s:f%s:g%s:b%s", n.Bucket, hx(n.Id[:]), addrKey(ua),
			b2s(n.HasQuery), b2s(n.HasResponse), b2s(n.FailedPing), b2s(n.Good), b2s(n.Bad)))
	}
	sort.Strings(l)
	return fmt.Sprintf("%d %s", len(l), strings.Join(l, ","))
}

// Structural invariants of the table snapshot (C05), and agreement of the API counts.
func (sc *srvScen) checkTable(t dht.VerifTable) {
	if !sc.o.noSecurity {
		// C06 under enforcement, from an independent statement of BEP 42 (c17.go): every entry's ID is valid for its IP
		for _, n := range t.Nodes {
			ua, err := net.ResolveUDPAddr("udp", n.Addr)
			if err != nil {
				continue
			}
			ip := ua.IP
			if v4 := ip.To4(); v4 != nil {
				ip = v4
			}
			want := bep42Expected(ip, n.Id[19])
			if !localExpected(ip) && [3]byte{n.Id[0], n.Id[1], n.Id[2] & 0xf8} != want {
				sc.viol("C06", "security extension enforced, yet the table holds an entry whose ID is not valid for its IP: "+hx(n.Id[:])+"@"+n.Addr)
			}
		}
	}
	perBucket := map[int]int{}
	seen := map[string]bool{}
	good, notBad := 0, 0
	for _, n := range t.Nodes {
		perBucket[n.Bucket]++
		if n.Id == t.Root {
			sc.viol("C05", "own ID in routing table")
			continue
		}
		if n.Id == ([20]byte{}) {
			sc.viol("C05", "zero ID in routing table")
		}
		if n.Bucket != commonPrefixLen(t.Root, n.Id) {
			sc.viol("C05", fmt.Sprintf("entry sits in bucket %d, shared prefix is %d", n.Bucket, commonPrefixLen(t.Root, n.Id)))
		} else if own := sc.s.ID(); n.Id != own && n.Bucket != commonPrefixLen(own, n.Id) {
			// (the ID the node presents in its messages, not the table's private idea of it)
			sc.viol("C05", fmt.Sprintf("entry sits in bucket %d, but shares a %d-bit prefix with the node's own ID %x", n.Bucket, commonPrefixLen(own, n.Id), own[:6]))
		}
		k := hx(n.Id[:]) + "@" + n.Addr
		if seen[k] {
			sc.viol("C05", "two entries share ID and address")
		}
		seen[k] = true
		if !n.InAddrIndex {
			sc.viol("C05", "entry missing from the per-address index")
		}
		if n.Good {
			good++
		}
		if !n.Bad {
			notBad++
		}
		if n.Good && n.Bad {
			sc.viol("C05", "entry classified both good and bad")
		}
		if !sc.o.noSecurity && !n.Secure {
			sc.viol("C06", "entry with an ID not valid for its IP although security is enforced")
		}
		if !sc.intro[hx(n.Id[:])+"@"+n.Addr] {
			sc.viol("C06", "routing-table entry that no direct event introduced: "+k)
		}
		ua, _ := net.ResolveUDPAddr("udp", n.Addr)
		if ua != nil && sc.isBlocked(ua.IP) && false {
			// entries that entered before a later blocklist was installed may remain
		}
	}
	for b, c := range perBucket {
		if c > t.K {
			sc.viol("C05", fmt.Sprintf("bucket %d holds %d > K entries", b, c))
		}
	}
	idx := 0
	for a, ids := range t.AddrIndex {
		idx += len(ids)
		for _, id := range ids {
			if !seen[hx(id[:])+"@"+a] {
				sc.viol("C05", "per-address index lists an entry that is in no bucket")
			}
		}
	}
	if idx != len(t.Nodes) {
		sc.viol("C05", "per-address index and buckets differ in size")
	}
	if n := sc.s.NumNodes(); n != len(t.Nodes) {
		sc.viol("C05", fmt.Sprintf("NumNodes()=%d, table has %d", n, len(t.Nodes)))
	}
	st := sc.s.Stats()
	if st.Nodes != len(t.Nodes) || st.GoodNodes != good {
		sc.viol("C05", fmt.Sprintf("Stats() reports %d nodes / %d good, table has %d / %d", st.Nodes, st.GoodNodes, len(t.Nodes), good))
	}
	if nl := sc.s.Nodes(); len(nl) != notBad {
		sc.viol("C05", fmt.Sprintf("Nodes() lists %d, table has %d non-bad", len(nl), notBad))
	}
}

func (sc *srvScen) emitTable() {
	t := sc.s.VerifTableSnapshot()
	sc.checkTable(t)
	sc.op("SRV table", sc.mask("table", tableDump(t)))
	good, notBad := 0, 0
	for _, n := range t.Nodes {
		if n.Good {
			good++
		}
		if !n.Bad {
			notBad++
		}
	}
	sc.op("SRV counts", sc.mask("table", fmt.Sprintf("%d %d %d", len(t.Nodes), good, notBad)))
}

// Which parts of the answer a property compares. The driver prints full answers; the harness
// masks on both sides in bin/check? No: masking is done here by emitting, for properties that do
// not own a field, the op under a prefix the driver also masks. Simpler: every property compares
// everything; a mismatch is attributed in the replay. (mask is the identity.)
func (sc *srvScen) mask(field, s string) string { return s }

// diff two snapshots: outcome code and the evicted entry (if any)
func tableDelta(before, after dht.VerifTable, senderKey string) (outcome, drop string, removed []dht.VerifNode) {
	a, b := snapKeys(before), snapKeys(after)
	for k, n := range a {
		if _, ok := b[k]; !ok {
			removed = append(removed, n)
		}
	}
	_, was := a[senderKey]
	_, is := b[senderKey]
	drop = "-"
	switch {
	case was:
		outcome = "u" // in-place updates show in the table dumps, not here
	case is && len(removed) > 0:
		outcome = "r"
		ua, _ := net.ResolveUDPAddr("udp", removed[0].Addr)
		drop = hx(removed[0].Id[:]) + "/" + hx(ua.IP) + "/" + itoa(ua.Port)
	case is:
		outcome = "a"
	default:
		outcome = "u"
	}
	return
}

// The heart: deliver one datagram and account for everything it causes.
type inResult struct {
	obs     obsOut
	outcome string
}

func (sc *srvScen) inject(src *net.UDPAddr, raw []byte, kind string, q *qspec, expectOut bool, putErr, getSpec string) inResult {
	if sc.dead {
		return inResult{}
	}
	before := sc.s.VerifTableSnapshot()
	adds0, cbs0, puts0 := 0, sc.numCbs(), sc.st.numPuts()
	if sc.ps != nil {
		adds0 = sc.ps.numAdds()
	}
	w0 := sc.conn.numWrites()
	sc.st.mu.Lock()
	sc.st.last.getFound, sc.st.last.getSeq = false, 0
	sc.st.mu.Unlock()
	sc.r.lastInput(fmt.Sprintf("from %s: %s (hex %s)", src, describe(kind, q, raw), hx(raw)))
	sc.conn.inject(raw, src)
	if !sc.conn.waitIdle(10 * time.Second) {
		sc.viol("C01", "server stopped reading datagrams (wedged)")
		sc.dead = true
		return inResult{}
	}
	if expectOut {
		waitFor(func() bool {
			for _, w := range sc.conn.writes()[w0:] {
				if sameUDP(w.Addr, src) {
					if d := parseDgram(w); !(d.ok && d.y == "q") {
						return true
					}
				}
			}
			return false
		}, 3*time.Second)
	}
	// effects expected by the harness's own reading of the property
	wantPeer, wantCb := false, false
	if q != nil && q.y == "q" && q.q == "announce_peer" && q.hasA && expectOut {
		wantPeer, wantCb = sc.o.peerStore, sc.o.callback
	}
	if wantPeer {
		waitFor(func() bool { return sc.ps.numAdds() > adds0 }, 3*time.Second)
	}
	if wantCb {
		waitFor(func() bool { return sc.numCbs() > cbs0 }, 3*time.Second)
	}
	if !expectOut {
		// give a wrongly sent datagram or effect a moment to show up
		time.Sleep(150 * time.Microsecond)
	}
	after := sc.s.VerifTableSnapshot()
	all := sc.conn.writes()
	// datagrams written since: the server's own queries (pings started by AddNode, table
	// maintenance) are not reactions to the inbound datagram and are accounted for elsewhere
	var mine []written
	for _, w := range all[w0:] {
		if d := parseDgram(w); d.ok && d.y == "q" {
			if sc.isBlocked(w.Addr.IP) {
				sc.viol("C19", "query datagram written to a blocklisted address")
			}
			if sameUDP(w.Addr, src) && !sc.pendingPing[dht.NewAddr(src).String()] {
				// nothing the harness started is talking to this address: the node opened a query of its own
				// towards the sender because of the datagram it has just received
				sc.viol("C08", fmt.Sprintf("besides its answer the node sent a %s query of its own to the sender in reaction to the inbound datagram", d.q))
			}
			continue
		}
		mine = append(mine, w)
	}
	obs := observe(mine)
	senderKey := ""
	if q != nil {
		var sid *[20]byte
		if q.y == "q" && q.hasA {
			sid = &q.id
		} else if q.y == "r" && q.rid != nil {
			sid = q.rid
		}
		if sid != nil {
			senderKey = hx(sid[:]) + "@" + dht.NewAddr(src).String()
		}
	}
	outcome, drop, removed := tableDelta(before, after, senderKey)
	// effects
	var effs []string
	if sc.ps != nil {
		sc.ps.mu.Lock()
		effs = append(effs, sc.ps.adds[adds0:]...)
		sc.ps.mu.Unlock()
	}
	sc.cbMu.Lock()
	effs = append(effs, sc.cbs[cbs0:]...)
	sc.cbMu.Unlock()
	if sc.st.numPuts() > puts0 {
		effs = append(effs, "put")
	}
	sort.Strings(effs)
	effS := strings.Join(effs, ",")
	if effS == "" {
		effS = "-"
	}
	// op line
	msgF := ""
	if kind == "m" {
		msgF = " " + q.fields()
	}
	hookProp := "1"
	if sc.veto {
		hookProp = "0"
	}
	otok := "-"
	if obs.hasTok {
		otok = hx(obs.token)
	}
	refs := func(es [][]byte, iplen int) string {
		if len(es) == 0 {
			return "-"
		}
		var l []string
		for _, e := range es {
			l = append(l, nodeRef(e, iplen))
		}
		return strings.Join(l, ",")
	}
	// what the BEP 44 store answered during this step (environment input of the model)
	putErr, getSpec = "ok", "nf"
	if q != nil && q.q == "put" && obs.kind == "err" && obs.code != 203 {
		putErr = fmt.Sprintf("e%d", obs.code)
	}
	sc.st.mu.Lock()
	if sc.st.last.getFound {
		getSpec = fmt.Sprintf("i%d", sc.st.last.getSeq)
	}
	sc.st.mu.Unlock()
	op := fmt.Sprintf("SRV in %s %d %s%s %s %s %s %s %s %s %s", addrOp(src), len(raw), kind, msgF, hookProp, putErr, getSpec, drop,
		otok, refs(obs.nodes, 4), refs(obs.nodes6, 16))
	// implementation's answer in the driver's format
	var wS string
	switch {
	case obs.n == 0:
		wS = "none"
	case obs.n > 1:
		wS = "multiple"
	case obs.kind == "err":
		wS = fmt.Sprintf("err %d %s %s", obs.code, addrOp(obs.dst), hx(obs.t))
	case obs.kind == "rep":
		var vals []string
		for _, v := range obs.values {
			if len(v) >= 2 {
				vals = append(vals, hx(v[:len(v)-2])+"/"+itoa(int(binary.BigEndian.Uint16(v[len(v)-2:]))))
			} else {
				vals = append(vals, "short")
			}
		}
		sort.Strings(vals)
		vs := strings.Join(vals, ",")
		if vs == "" {
			vs = "-"
		}
		ipS := "-"
		if len(obs.ip) >= 2 {
			ipS = hx(obs.ip[:len(obs.ip)-2]) + "/" + itoa(int(binary.BigEndian.Uint16(obs.ip[len(obs.ip)-2:])))
		}
		seqS := "-"
		if obs.seq != nil {
			seqS = fmt.Sprint(*obs.seq)
		}
		idS := "-"
		if obs.id != nil {
			idS = hx(obs.id)
		}
		wS = fmt.Sprintf("rep %s %s id=%s ip=%s tok=%s vals=%s n4=ok n6=ok seq=%s v=%s", addrOp(obs.dst), hx(obs.t), idS, ipS,
			b2s(obs.hasTok), vs, seqS, b2s(obs.hasV))
	default:
		wS = "undecodable-output"
	}
	sc.op(op, outcome+" "+wS+" eff="+effS)
	sc.ev("in from %s: %s -> table %s, wrote %s, effects %s", src, describe(kind, q, raw), outcome, wS, effS)
	// ---- direct oracles ----
	sc.oracleOut(src, q, kind, obs, mine, expectOut)
	sc.oracleTable(before, after, removed, q, src, outcome)
	return inResult{obs, outcome}
}

func describe(kind string, q *qspec, raw []byte) string {
	if kind != "m" || q == nil {
		return fmt.Sprintf("%s %q", kind, trunc(raw, 48))
	}
	return fmt.Sprintf("y=%s q=%s t=%x args=%v ro=%v", q.y, q.q, q.t, q.hasA, q.ro)
}

func trunc(b []byte, n int) []byte {
	if len(b) > n {
		return b[:n]
	}
	return b
}

// C08 / C19 / C10: what was written in reaction to one inbound datagram.
func (sc *srvScen) oracleOut(src *net.UDPAddr, q *qspec, kind string, obs obsOut, mine []written, expectOut bool) {
	for _, w := range mine {
		if sc.isBlocked(w.Addr.IP) {
			sc.viol("C19", "datagram written to a blocklisted address")
		}
		if !sameUDP(w.Addr, src) {
			sc.viol("C08", "reply sent to an address other than the query's source")
		}
	}
	if len(mine) > 1 {
		sc.viol("C08", "more than one datagram sent for one inbound datagram")
	}
	isQuery := kind == "m" && q != nil && q.y == "q"
	if !isQuery && kind != "ud" && len(mine) > 0 {
		sc.viol("C08", "datagram sent in reaction to a non-query message")
	}
	if sc.isBlocked(src.IP) && len(mine) > 0 {
		sc.viol("C19", "reply sent to a datagram from a blocklisted source")
	}
	if sc.o.passive && len(mine) > 0 {
		sc.viol("C19", "passive node answered a query")
	}
	if !isQuery || len(mine) == 0 {
		if isQuery && expectOut {
			sc.viol("C08", "query that must be answered got no datagram")
		}
		return
	}
	if !bytes.Equal(obs.t, q.t) {
		sc.viol("C08", "reply does not echo the transaction ID byte for byte")
	}
	if obs.kind == "bad" {
		sc.viol("C08", "reaction to a query is neither a response nor an error")
	}
	if obs.kind == "rep" {
		if !bytes.Equal(obs.id, sc.root[:]) {
			sc.viol("C08", "response does not carry the node's own ID")
		}
		okIP := len(obs.ip) >= 6 && net.IP(obs.ip[:len(obs.ip)-2]).Equal(src.IP) && int(binary.BigEndian.Uint16(obs.ip[len(obs.ip)-2:])) == src.Port
		if !okIP {
			sc.viol("C08", "response `ip` is not the requester's compact address")
		}
		if obs.badWidth {
			sc.viol("C09", "nodes/nodes6 length is not a multiple of the entry width")
		}
	}
	known := map[string]bool{"ping": true, "find_node": true, "get_peers": true, "announce_peer": true, "put": true, "get": true}
	if !known[q.q] && !(obs.kind == "err" && obs.code == 204) {
		sc.viol("C08", "unknown method not answered with error 204")
	}
	if known[q.q] && q.q != "ping" && !q.hasA && !(obs.kind == "err" && obs.code == 203) {
		sc.viol("C08", "method that needs arguments but has none not answered with error 203")
	}
}

// C05 / C06: how the routing table changed.
func (sc *srvScen) oracleTable(before, after dht.VerifTable, removed []dht.VerifNode, q *qspec, src *net.UDPAddr, outcome string) {
	a := snapKeys(before)
	isResp := q != nil && q.y == "r"
	for _, n := range removed {
		if n.Good {
			sc.viol("C06", "a currently good contact was removed from the routing table")
		} else if !(n.Bad || (!n.HasResponse && isResp)) {
			sc.viol("C06", "entry displaced although it is not bad and the newcomer did not just answer")
		}
	}
	if len(removed) > 1 {
		sc.viol("C06", "more than one entry left the table in one event")
	}
	for k := range snapKeys(after) {
		if _, ok := a[k]; ok {
			continue
		}
		// a new entry: must be the direct sender of this event
		ok := false
		if q != nil {
			var sid *[20]byte
			if q.y == "q" && q.hasA {
				sid = &q.id
			} else if q.y == "r" && q.rid != nil {
				sid = q.rid
			}
			if sid != nil && k == hx(sid[:])+"@"+dht.NewAddr(src).String() && !q.ro {
				ok = true
			}
		}
		if ok && q.y == "r" && !sc.pendingTx[dht.NewAddr(src).String()+"|"+string(q.t)] {
			sc.viol("C06", "contact entered the routing table through a response that matches no outstanding query of the node (unsolicited or mismatched): "+k)
		}
		if ok {
			sc.intro[k] = true
		} else {
			sc.viol("C06", "contact entered the routing table without being the direct, non-read-only sender: "+k)
		}
		if sc.isBlocked(src.IP) {
			sc.viol("C19", "datagram from a blocklisted source added a routing-table entry")
		}
	}
	sc.checkTable(after)
}

// ---- higher-level helpers ----

// Send a query built from q from src; expectOut is the harness's own expectation.
func (sc *srvScen) query(src *net.UDPAddr, q *qspec, expectOut bool, putErr, getSpec string) inResult {
	return sc.inject(src, q.bval().enc(), "m", q, expectOut, putErr, getSpec)
}

// Make (id, addr) a routing-table entry that has answered us: the server pings addr, we answer.
func (sc *srvScen) respondingNode(addr *net.UDPAddr, id [20]byte, ro bool) {
	sc.respondingNodeVia(addr, id, ro, nil)
}

// The same, but when pinged is set the query is the table maintainer's questionable-node ping to the
// entry (addr, *pinged); the reply may carry another ID than the one pinged.
func (sc *srvScen) respondingNodeVia(addr *net.UDPAddr, id [20]byte, ro bool, pinged *[20]byte) {
	if sc.dead {
		return
	}
	if pinged != nil && sc.isBlocked(addr.IP) {
		// the questionable-node ping cannot be written to a blocklisted address: it fails at once, which marks
		// the entry exactly as a ping that timed out does
		sc.failPing(addr, *pinged)
		return
	}
	w0 := sc.conn.numWrites()
	done := make(chan dht.QueryResult, 1)
	// the node's own query is not always a ping: any answered query shows the contact is alive
	method := []string{"ping", "ping", "find_node", "get_peers", "get"}[sc.r.rng.Intn(5)]
	go func() {
		if pinged != nil {
			done <- sc.s.VerifQuestionableNodePing(context.Background(), dht.NewAddr(addr), *pinged)
			return
		}
		tgt := sc.root
		done <- sc.s.Query(context.Background(), dht.NewAddr(addr), method, dht.QueryInput{NumTries: 1, MsgArgs: krpc.MsgArgs{Target: tgt, InfoHash: tgt}})
	}()
	if sc.isBlocked(addr.IP) {
		// the write is refused: the query fails without a datagram
		select {
		case <-done:
		case <-time.After(5 * time.Second):
			sc.viol("C14", "query to a blocked address did not return")
		}
		if sc.conn.numWrites() != w0 {
			sc.viol("C19", "query datagram written to a blocklisted address")
		}
		return
	}
	var d dgram
	if !waitFor(func() bool {
		for _, w := range sc.conn.writes()[w0:] {
			if sameUDP(w.Addr, addr) {
				if x := parseDgram(w); x.ok && x.y == "q" {
					d = x
					return true
				}
			}
		}
		return false
	}, 5*time.Second) {
		sc.viol("C14", "ping sent no datagram")
		return
	}
	sc.op(fmt.Sprintf("SRV reg %s %s", addrOp(addr), hx(d.t)), "ok")
	sc.pendingTx[dht.NewAddr(addr).String()+"|"+string(d.t)] = true
	defer delete(sc.pendingTx, dht.NewAddr(addr).String()+"|"+string(d.t))
	if ro, _ := d.v.get("ro").int(); sc.o.passive && ro != 1 {
		sc.viol("C19", "query sent by a passive node is not marked read-only")
	}
	if sc.r.rng.Intn(5) == 0 && addr.Port < 65000 {
		// first a response with the right transaction ID from the same host but ANOTHER port (a neighbour behind
		// the same NAT guessing the small sequential IDs): it answers nothing
		other := sc.r.randID()
		src2 := udp(addr.IP, addr.Port+1)
		dq := &qspec{y: "r", t: d.t, rid: &other}
		sc.ev("response with the outstanding transaction ID from %s (the query went to %s)", src2, addr)
		sc.inject(src2, dq.bval().enc(), "m", dq, false, "ok", "nf")
		select {
		case res := <-done:
			done <- res
			sc.viol("C06", "a response from another port of the queried host completed the query (mismatched response)")
			sc.viol("C07", "query completed by a reply from another address or with another transaction ID")
		case <-time.After(200 * time.Microsecond):
		}
		sc.r.hist("table-event/response-from-other-port")
	}
	q := &qspec{y: "r", t: d.t, rid: &id, ro: ro}
	sc.inject(addr, q.bval().enc(), "m", q, false, "ok", "nf")
	select {
	case <-done:
		sc.answered[hx(id[:])+"@"+dht.NewAddr(addr).String()] = true
		delete(sc.failedSince, hx(id[:])+"@"+dht.NewAddr(addr).String())
		// a contact that has just answered is not bad (unless its ID is the node's own, zero or, under
		// enforcement, invalid for its IP): it must not be left marked as failing its last ping
		key := hx(id[:]) + "@" + dht.NewAddr(addr).String()
		for _, n := range sc.s.VerifTableSnapshot().Nodes {
			if hx(n.Id[:])+"@"+n.Addr == key && n.FailedPing {
				sc.viol("C06", "a contact that has just answered one of the node's queries is still marked as failing its last ping (it stays bad and will be displaced): "+key)
			}
		}
	case <-time.After(5 * time.Second):
		sc.viol("C07", "matching reply did not complete the ping")
	}
	sc.op(fmt.Sprintf("SRV done %s %s", addrOp(addr), hx(d.t)), "ok")
}

// The node queries addr but the socket write fails, so nothing is on the wire and the query fails; a
// datagram then arrives from addr that "answers" exactly that transaction ID. It answers nothing: no
// query is outstanding, the sender must not be admitted.
func (sc *srvScen) failedWriteThenReply(addr *net.UDPAddr, id [20]byte) {
	if sc.dead || sc.isBlocked(addr.IP) {
		return
	}
	var tid atomic.Pointer[[]byte]
	prev := sc.conn.failWrite
	sc.conn.failWrite = func(n int, p []byte, a net.Addr) error {
		if ua, _ := a.(*net.UDPAddr); ua != nil && sameUDP(ua, addr) && tid.Load() == nil {
			if v, _, err := bdecode(p); err == nil {
				if t, ok := v.get("t").str(); ok {
					tt := append([]byte{}, t...)
					tid.Store(&tt)
				}
			}
			return errors.New("sendto: network is unreachable")
		}
		return nil
	}
	res := sc.s.Query(context.Background(), dht.NewAddr(addr), "ping", dht.QueryInput{NumTries: 1})
	sc.conn.failWrite = prev
	if res.Err == nil {
		sc.viol("C14", "query whose only write failed reports success")
	}
	t := tid.Load()
	if t == nil {
		return
	}
	sc.ev("query to %s: socket write fails (t=%x); then a response with that t arrives from there", addr, *t)
	q := &qspec{y: "r", t: *t, rid: &id}
	sc.inject(addr, q.bval().enc(), "m", q, false, "ok", "nf")
	sc.r.hist("table-event/reply-after-failed-write")
}

func (sc *srvScen) addNode(addr *net.UDPAddr, id [20]byte) {
	if id == ([20]byte{}) {
		sc.pendingPing[dht.NewAddr(addr).String()] = true // AddNode with a zero ID pings the address in the background
	}
	before := sc.s.VerifTableSnapshot()
	err := sc.s.AddNode(krpc.NodeInfo{ID: id, Addr: krpc.NodeAddr{IP: addr.IP, Port: addr.Port}})
	_ = err
	after := sc.s.VerifTableSnapshot()
	key := hx(id[:]) + "@" + dht.NewAddr(addr).String()
	outcome, drop, removed := tableDelta(before, after, key)
	sc.intro[key] = true
	sc.op(fmt.Sprintf("SRV add %s %s %s", hx(id[:]), addrOp(addr), drop), outcome)
	sc.ev("AddNode %x at %s -> %s", id[:4], addr, outcome)
	for _, n := range removed {
		if n.Good {
			sc.viol("C06", "a currently good contact was removed from the routing table")
		} else if !n.Bad {
			sc.viol("C06", "entry displaced although it is not bad and the newcomer did not just answer")
		}
	}
	sc.checkTable(after)
}

// Run the questionable-node ping against an address that stays silent: marks the entry bad.
func (sc *srvScen) failPing(addr *net.UDPAddr, id [20]byte) {
	before := sc.s.VerifTableSnapshot()
	sc.resend.Store(int64(time.Millisecond))
	sc.s.VerifQuestionableNodePing(context.Background(), dht.NewAddr(addr), id)
	sc.resend.Store(int64(time.Hour))
	after := sc.s.VerifTableSnapshot()
	key := hx(id[:]) + "@" + dht.NewAddr(addr).String()
	outcome, _, removed := tableDelta(before, after, key)
	sc.op(fmt.Sprintf("SRV pingfail %s %s", hx(id[:]), addrOp(addr)), outcome)
	sc.ev("questionable ping to %s timed out -> %s", addr, outcome)
	if len(removed) > 0 {
		sc.viol("C06", "a failed ping removed an entry")
	}
	sc.checkTable(after)
}
