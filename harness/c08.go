package main

func init() {
	commands["C08"] = runC08
	commands["C05"] = runC05
	commands["C06"] = runC05
	commands["C09"] = runC09
}

func (r *Run) optsVariant(i int) srvOpts {
	return srvOpts{
		noSecurity: true,
		passive:    i%11 == 10,
		hook:       i%4 == 3,
		peerStore:  i%2 == 0,
		callback:   i%3 == 0,
	}
}

func runC08(r *Run) {
	r.Result.Rule = "scenario = one server configuration (peer store / hook / callback / passive crossed) + a sequence of inbound datagrams: every method incl. unknown, t of length 0..40 with arbitrary bytes, args present/absent, genuine/mutated/bogus tokens, read-only senders, non-query messages, IPv4/IPv6/v4-mapped sources, port 0; every datagram written is attributed to the query that caused it; non-trivial = distinct (y, q, t, args?, ro, family)"
	n := r.n(60, 1500)
	for i := 0; i < n; i++ {
		sc := r.newSrvScen(r.optsVariant(i))
		sc.mixedQueries(40)
		sc.emitTable()
		r.Result.TracesValidated++
		if i < 2 {
			r.sample(append([]string{}, sc.events[:min(len(sc.events), 8)]...))
		}
		sc.close()
	}
}

func runC05(r *Run) {
	r.Result.Rule = "scenario = history of table events through a real server: inbound queries and matched responses from (address, ID) pairs with IDs aimed at buckets 0..8 and 159 (so buckets fill and evictions happen), own ID, zero ID, same ID at many addresses, same address under many IDs, read-only senders, unsolicited responses, AddNode, questionable-ping time-outs, simulated elapsed time; table snapshot checked after every event; non-trivial = history that fills at least one bucket"
	n := r.n(40, 1000)
	for i := 0; i < n; i++ {
		o := srvOpts{noSecurity: i%5 != 4}
		sc := r.newSrvScen(o)
		sc.tableHistory(120)
		r.Result.TracesValidated++
		if i < 2 {
			r.sample(append([]string{}, sc.events[:min(len(sc.events), 8)]...))
		}
		sc.close()
	}
}

func runC09(r *Run) {
	r.Result.Rule = "scenario = routing table built through traffic (good, questionable (aged), never-responded, bad (failed ping) entries, IPv4/IPv6/v4-mapped, across buckets) then find_node/get_peers/get queries with every want combination from both families and targets in every populated bucket incl. the own ID; the decoded nodes/nodes6 are checked against the table snapshot; non-trivial = reply that lists at least one node"
	n := r.n(25, 600)
	for i := 0; i < n; i++ {
		sc := r.newSrvScen(srvOpts{noSecurity: true, peerStore: i%3 == 0})
		sc.nodeListQueries(60)
		r.Result.TracesValidated++
		if i < 2 {
			r.sample(append([]string{}, sc.events[len(sc.events)-min(len(sc.events), 6):]...))
		}
		sc.close()
	}
}
