package main

import (
	"bytes"
	"encoding/binary"
	"fmt"
	"net"
	"strings"
	"time"

	"golang.org/x/time/rate"
)

func init() {
	commands["C08"] = runC08
	commands["C05"] = runC05
	commands["C06"] = runC05
	commands["C09"] = runC09
}

func (r *Run) optsVariant(i int) srvOpts {
	return srvOpts{
		noSecurity: true,
		passive:    i%11 == 10,
		hook:       i%4 == 3,
		peerStore:  i%2 == 0,
		callback:   i%3 == 0,
	}
}

func runC08(r *Run) {
	r.Result.Rule = "scenario = one server configuration (peer store / hook / callback / passive crossed) + a sequence of inbound datagrams: every method incl. unknown, t of length 0..40 with arbitrary bytes, args present/absent, genuine/mutated/bogus tokens, read-only senders, non-query messages, IPv4/IPv6/v4-mapped/scoped link-local (zoned) sources, port 0; every datagram written is attributed to the query that caused it; + tokened puts against a bep44.Store whose Get/Put fails with an ordinary Go error at a PRNG-chosen call; non-trivial = distinct (y, q, t, args?, ro, family)"
	n := r.n(60, 1500)
	for i := 0; i < n; i++ {
		sc := r.newSrvScen(r.optsVariant(i))
		sc.mixedQueries(40)
		sc.emitTable()
		r.Result.TracesValidated++
		if i < 2 {
			r.sample(append([]string{}, sc.events[:min(len(sc.events), 8)]...))
		}
		sc.close()
	}
	for i := 0; i < r.n(20, 400); i++ {
		r.c08Burst(i)
	}
	// an unlimited budget spelled rate.NewLimiter(rate.Inf, 0) (burst is irrelevant at an infinite rate), replies waiting for budget
	for i := 0; i < r.n(6, 60); i++ {
		sc := r.newSrvScen(srvOpts{noSecurity: true, peerStore: i%2 == 0, mute: true, waitToReply: i%3 != 2, limiter: rate.NewLimiter(rate.Inf, i%2)})
		sc.mixedQueries(12)
		r.hist("config/infinite-rate-limiter")
		sc.close()
	}
	r.faultyStoreStream("C08", r.n(40, 600))
	r.c08Zoned(r.n(6, 60))
}

// Scoped IPv6 sources (link-local addresses carry a zone, e.g. fe80::1%eth0): the answer goes to that very
// address, zone included - without it the datagram would leave through another interface or not at all.
func (r *Run) c08Zoned(n int) {
	for i := 0; i < n; i++ {
		sc := r.newSrvScen(srvOpts{noSecurity: true, peerStore: i%2 == 0, mute: true})
		for j := 0; j < 6 && !sc.dead; j++ {
			ip := net.IP{0xfe, 0x80, 0, 0, 0, 0, 0, 0, 0, 0, 0, 0, 0, 0, byte(i + 1), byte(j + 1)}
			src := &net.UDPAddr{IP: ip, Port: 6000 + j, Zone: []string{"eth0", "wlan1", "7"}[r.rng.Intn(3)]}
			q := sc.mkQuery([]string{"ping", "find_node", "get_peers", "get"}[r.rng.Intn(4)], r.randID(), r.randID())
			q.t = []byte(fmt.Sprintf("z%d", j))
			q.ro = true
			sc.conn.waitIdle(time.Second)
			w0 := sc.conn.numWrites()
			sc.conn.inject(q.bval().enc(), src)
			sc.events = []string{fmt.Sprintf("%s query from the scoped address %s", q.q, src)}
			if !sc.conn.waitWrites(w0+1, 5*time.Second) {
				sc.viol("C08", "query that must be answered got no datagram")
				continue
			}
			sc.conn.waitIdle(time.Second)
			ws := sc.conn.writes()[w0:]
			if len(ws) != 1 {
				sc.viol("C08", fmt.Sprintf("%d datagrams sent in reaction to one query", len(ws)))
			}
			w := ws[0]
			if !sameUDP(w.Addr, src) {
				sc.viol("C08", fmt.Sprintf("query came from %s, the answer was sent to %s", src, w.Addr))
			}
			if d := parseDgram(w); !d.ok || !bytes.Equal(d.t, q.t) {
				sc.viol("C08", "reply does not echo the transaction ID byte for byte")
			}
			r.hist("zoned-source/" + q.q)
			r.count(fmt.Sprintf("zoned/%d/%d", i, j), true)
		}
		sc.close()
	}
}

// Concurrent queries: replies are produced by goroutines that may overlap; every requester must
// still get exactly one datagram carrying its own transaction ID and its own address.
func (r *Run) c08Burst(i int) {
	sc := r.newSrvScen(srvOpts{noSecurity: true, peerStore: i%2 == 0, mute: true, waitToReply: true, limiter: rate.NewLimiter(3000, 1)})
	defer sc.close()
	type sent struct {
		src *net.UDPAddr
		t   []byte
	}
	var qs []sent
	n := 30 + r.rng.Intn(30)
	for j := 0; j < n; j++ {
		src := sc.freshSrc([]int{0, 0, 1, 2}[r.rng.Intn(4)])
		q := sc.mkQuery([]string{"ping", "find_node", "get_peers", "get"}[r.rng.Intn(4)], r.randID(), r.randID())
		q.t = []byte(fmt.Sprintf("%c%02d%s", 'A'+j%26, j, strings.Repeat("x", r.rng.Intn(4))))
		q.ro = true
		qs = append(qs, sent{src, q.t})
		sc.conn.inject(q.bval().enc(), src)
	}
	if !sc.conn.waitWrites(n, 10*time.Second) {
		sc.viol("C08", fmt.Sprintf("burst of %d concurrent queries got only %d datagrams", n, sc.conn.numWrites()))
	}
	time.Sleep(2 * time.Millisecond)
	per := map[string][]dgram{}
	for _, w := range sc.conn.writes() {
		per[w.Addr.String()] = append(per[w.Addr.String()], parseDgram(w))
	}
	for _, q := range qs {
		ds := per[q.src.String()]
		sc.events = []string{fmt.Sprintf("burst of %d concurrent queries; requester %s sent t=%q", n, q.src, q.t)}
		if len(ds) != 1 {
			sc.viol("C08", fmt.Sprintf("requester in a concurrent burst got %d datagrams", len(ds)))
			continue
		}
		d := ds[0]
		if !d.ok {
			sc.viol("C08", "reply in a concurrent burst is not well-formed bencode")
			continue
		}
		if !bytes.Equal(d.t, q.t) {
			sc.viol("C08", fmt.Sprintf("reply does not echo the transaction ID byte for byte (concurrent burst): got %q", d.t))
		}
		ip, _ := d.v.get("ip").str()
		if d.y == "r" && !(len(ip) >= 6 && net.IP(ip[:len(ip)-2]).Equal(q.src.IP) && int(binary.BigEndian.Uint16(ip[len(ip)-2:])) == q.src.Port) {
			sc.viol("C08", "response `ip` is not the requester's compact address (concurrent burst)")
		}
	}
	r.hist("burst/concurrent-queries")
	r.count(fmt.Sprintf("burst%d/%d", i, n), true)
}

func runC05(r *Run) {
	r.Result.Rule = "scenario = history of table events through a real server: inbound queries and matched responses from (address, ID) pairs with IDs aimed at buckets 0..8 and 159 (so buckets fill and evictions happen), own ID, zero ID, same ID at many addresses, same address under many IDs, read-only senders, unsolicited responses, AddNode, questionable-ping time-outs, simulated elapsed time; with and without the security extension, with a public address and a configured ID; table snapshot checked after every event; non-trivial = history that fills at least one bucket"
	n := r.n(40, 1000)
	for i := 0; i < n; i++ {
		o := srvOpts{noSecurity: i%5 != 4}
		if i%10 == 9 {
			// the node knows its public address; the ID it was configured with is whatever the caller chose
			o.publicIP = []net.IP{{203, 0, 113, byte(1 + r.rng.Intn(250))}, {84, 12, byte(r.rng.Intn(256)), 9}, net.ParseIP("2a01:4f8::1:5")}[r.rng.Intn(3)]
		}
		sc := r.newSrvScen(o)
		sc.tableHistory(120)
		r.Result.TracesValidated++
		if i < 2 {
			r.sample(append([]string{}, sc.events[:min(len(sc.events), 8)]...))
		}
		sc.close()
	}
}

func runC09(r *Run) {
	r.Result.Rule = "scenario = routing table built through traffic (good, questionable (aged), never-responded, bad (failed ping) entries, IPv4/IPv6/v4-mapped, across buckets; known addresses returning under another ID; infohashes with stored peers of one family only) then find_node/get_peers/get queries with every want combination from both families and targets in every populated bucket incl. the own ID; the decoded nodes/nodes6 are checked against the table snapshot; non-trivial = reply that lists at least one node"
	n := r.n(25, 600)
	for i := 0; i < n; i++ {
		sc := r.newSrvScen(srvOpts{noSecurity: true, peerStore: i%3 == 0, defaultWant: i%2 == 1})
		sc.nodeListQueries(60)
		r.Result.TracesValidated++
		if i < 2 {
			r.sample(append([]string{}, sc.events[len(sc.events)-min(len(sc.events), 6):]...))
		}
		sc.close()
	}
}
